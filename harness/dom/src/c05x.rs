//! `h_dom c05`, case shapes 4 (hydrate-reactive) and 5 (hydrate-leptos): views with DYNAMIC parts —
//! closures / shared functions / signals as children and as attribute values, `Suspend`s that are still
//! pending on the client — are rendered by the server code, parsed, hydrated under a running executor
//! and then driven through a history of signal writes and future completions next to a client-built
//! twin that shares the signals. At every executor-idle point the two trees must be equal (marker
//! comments aside); after both states were dropped nothing may touch the DOM any more.
//!
//! view op `(27 kind repr sig alts)`:
//!   kind 0 text of signal `sig`; 1 `move || alts[s mod n]` (views of different types); 2 `move || Either`;
//!   3 `move || Option`; 4 `move || Vec` of `s mod 4` items; 5 `move || keyed(..)` over a key table
//!   repr 0 `FnMut` closure, 1 `Arc<dyn Fn + Send + Sync>`, 2 `Arc<Mutex<dyn FnMut + Send>>`
//!   (SharedReactiveFunction); kind 0 also 3 RwSignal, 4 ReadSignal, 5 Memo, 6 Signal, 7 MaybeSignal,
//!   8 ArcRwSignal, 9 ArcReadSignal, 10 ArcMemo, 11 ArcSignal (the signal itself is the child)
//! attribute kinds of op 26: 10 `dir=`, 11 `class=`, 12 `class:on=`, 13 `style:width=`, 14 `style=` with the
//!   same representations, value = the index of the signal.
//! case `(4 form view sigs steps early)`: form 0 `to_html`, 1 in-order stream, 2 out-of-order stream;
//!   step `(writes picks completions)`, a completion is the id of a local `Suspend` (op 14 mode 2).
//! observation `(html (1 nops)|(0) same (eq ..) post_mutations dom_errors)`.
use super::*;
#[allow(deprecated)]
use reactive_graph::wrappers::read::MaybeSignal;
use reactive_graph::{
    computed::{ArcMemo, Memo},
    owner::Owner,
    signal::{ArcRwSignal, ReadSignal, RwSignal},
    traits::{Get, GetUntracked, Set},
    wrappers::read::{ArcSignal, Signal},
};
use std::{
    cell::RefCell,
    sync::{Arc, Mutex},
};

#[derive(Clone, Debug)]
pub struct DynSpec {
    pub kind: i64,
    pub repr: i64,
    pub sig: usize,
    pub alts: Vec<V>,
}

pub fn dec_dyn(s: &Sexp) -> DynSpec {
    DynSpec {
        kind: s.at(1).num(),
        repr: s.at(2).num(),
        sig: s.at(3).num() as usize,
        alts: s.at(4).list().iter().map(dec_view).collect(),
    }
}

/// one logical signal: the number, and the same information as a string / a flag for the attribute kinds
/// whose signal representations need a `String` / `bool` signal
#[derive(Clone)]
struct Sig {
    n: ArcRwSignal<i64>,
    t: ArcRwSignal<String>,
    b: ArcRwSignal<bool>,
}
thread_local! {
    static SIGS: RefCell<Vec<Sig>> = const { RefCell::new(Vec::new()) };
}
fn sig(i: usize) -> Sig {
    SIGS.with(|s| {
        let s = s.borrow();
        s[i % s.len().max(1)].clone()
    })
}
fn write_sig(i: usize, v: i64) {
    let s = sig(i);
    s.n.set(v);
    s.t.set(format!("c{v}"));
    s.b.set(v % 2 == 1);
}
fn init_sigs(vals: &[i64]) {
    let l = vals
        .iter()
        .map(|v| Sig { n: ArcRwSignal::new(*v), t: ArcRwSignal::new(format!("c{v}")), b: ArcRwSignal::new(v % 2 == 1) })
        .collect();
    SIGS.with(|s| *s.borrow_mut() = l);
}

/// texts a dynamic text closure cycles through: empty, needing escapes, adjacent-text material
fn text_of(v: i64) -> String {
    ["", "a", "b<", "7", "&amp;", " c ", "<!>", "x\"y"][v.rem_euclid(8) as usize].to_string()
}

/// `$body` with `$x` bound to the chosen representation of "function of the signal `$arc`": the closure
/// kinds map the value through `$map` (output `$o`), the signal kinds are the signal itself
macro_rules! reprs {
    ($repr:expr, $arc:expr, $t:ty, $o:ty, $map:expr, $x:ident => $body:expr) => {{
        let arc: ArcRwSignal<$t> = $arc;
        #[allow(deprecated)]
        match $repr {
            0 => {
                let a = arc.clone();
                let $x = move || -> $o { ($map)(a.get()) };
                $body
            }
            1 => {
                let a = arc.clone();
                let $x: Arc<dyn Fn() -> $o + Send + Sync> = Arc::new(move || ($map)(a.get()));
                $body
            }
            2 => {
                let a = arc.clone();
                let $x: Arc<Mutex<dyn FnMut() -> $o + Send>> = Arc::new(Mutex::new(move || ($map)(a.get())));
                $body
            }
            3 => {
                let $x: RwSignal<$t> = RwSignal::from(arc);
                $body
            }
            4 => {
                let $x: ReadSignal<$t> = ReadSignal::from(arc.read_only());
                $body
            }
            5 => {
                let a = arc.clone();
                let $x = Memo::new(move |_| a.get());
                $body
            }
            6 => {
                let $x: Signal<$t> = Signal::from(arc);
                $body
            }
            7 => {
                let $x: MaybeSignal<$t> = MaybeSignal::from(arc);
                $body
            }
            8 => {
                let $x = arc;
                $body
            }
            9 => {
                let $x = arc.read_only();
                $body
            }
            10 => {
                let a = arc.clone();
                let $x = ArcMemo::new(move |_| a.get());
                $body
            }
            _ => {
                let $x: ArcSignal<$t> = ArcSignal::from(arc);
                $body
            }
        }
    }};
}

const KEY_TABLE: &[&[i64]] = &[&[1, 2, 3], &[3, 1], &[], &[4, 2, 1, 5], &[5, 4]];

/// the view-returning closures (kinds 1-5) as `FnMut` (repr 0) or as a SharedReactiveFunction (repr 2)
macro_rules! view_closure {
    ($spec:expr, $f:ident => $body:expr) => {{
        let s = sig($spec.sig).n;
        let alts = $spec.alts.clone();
        let pick = |alts: &Vec<V>, i: i64| -> AnyView {
            if alts.is_empty() {
                ().into_any()
            } else {
                mk(&alts[i.rem_euclid(alts.len() as i64) as usize])
            }
        };
        match $spec.kind {
            1 => {
                let $f = move || pick(&alts, s.get());
                $body
            }
            2 => {
                let $f = move || {
                    let n = s.get();
                    if n % 2 == 0 {
                        Either::<AnyView, AnyView>::Left(pick(&alts, 0))
                    } else {
                        Either::Right(pick(&alts, 1))
                    }
                };
                $body
            }
            3 => {
                let $f = move || (s.get() % 2 == 1).then(|| pick(&alts, 0));
                $body
            }
            4 => {
                let $f = move || (0..s.get().rem_euclid(4)).map(|i| pick(&alts, i)).collect::<Vec<AnyView>>();
                $body
            }
            _ => {
                let $f = move || {
                    let keys: Vec<i64> = KEY_TABLE[s.get().rem_euclid(KEY_TABLE.len() as i64) as usize].to_vec();
                    keyed(keys, |k: &i64| *k, |_i, k: i64| (|_: usize| {}, k.to_string()))
                };
                $body
            }
        }
    }};
}

pub fn mk_dyn(spec: &DynSpec) -> AnyView {
    if spec.kind == 0 {
        let s = sig(spec.sig);
        return reprs!(spec.repr, s.n, i64, String, text_of, x => x.into_any());
    }
    if spec.repr == 2 {
        view_closure!(spec, f => {
            let shared: Arc<Mutex<dyn FnMut() -> _ + Send>> = Arc::new(Mutex::new(f));
            shared.into_any()
        })
    } else {
        view_closure!(spec, f => f.into_any())
    }
}

/// `closure.add_any_attr(..)`: `AddAnyAttr for F: ReactiveFunction` boxes a new closure
pub fn mk_dyn_spread(spec: &DynSpec, extra: Vec<AnyAttribute>) -> AnyView {
    view_closure!(spec, f => f.add_any_attr(extra).into_any())
}

pub fn dyn_attr(kind: i64, repr: i64, i: usize) -> AnyAttribute {
    use tachys::html::{attribute::dir, class::class, style::style};
    let s = sig(i);
    match kind {
        10 => reprs!(repr, s.n, i64, String, text_of, x => dir(x).into_any_attr()),
        11 => reprs!(repr, s.t, String, String, |v: String| v, x => class(x).into_any_attr()),
        12 => reprs!(repr, s.b, bool, bool, |v: bool| v, x => class(("on", x)).into_any_attr()),
        13 => reprs!(repr, s.t, String, String, |v: String| format!("{}px", &v[1..]), x => style(("width", x)).into_any_attr()),
        _ => reprs!(repr, s.t, String, String, |v: String| format!("width:{}px", &v[1..]), x => style(x).into_any_attr()),
    }
}

/// all chunks of the chosen server form; the futures of Suspends pending on the server complete (oldest
/// first) whenever the stream stalls; local ones never do
fn server_html<T: RenderHtml>(make: &dyn Fn() -> T, form: i64) -> String {
    use futures::Stream;
    if form == 0 {
        return make().to_html();
    }
    SENDERS.with(|s| s.borrow_mut().clear());
    STREAMING.with(|s| s.set(true));
    let view = make();
    let stream = if form == 1 { view.to_html_stream_in_order() } else { view.to_html_stream_out_of_order() };
    let mut stream = Box::pin(stream);
    let waker = futures::task::noop_waker();
    let mut cx = std::task::Context::from_waker(&waker);
    let mut html = String::new();
    let mut stalls = 0;
    loop {
        match stream.as_mut().poll_next(&mut cx) {
            std::task::Poll::Ready(Some(chunk)) => html.push_str(&chunk),
            std::task::Poll::Ready(None) => break,
            std::task::Poll::Pending => {
                stalls += 1;
                assert!(stalls < 200, "stream does not finish");
                // tasks of the server side (the isomorphic effect of a <Suspense>, resources)
                exec::run_all(&[]);
                let tx = SENDERS.with(|s| {
                    let mut s = s.borrow_mut();
                    if s.is_empty() {
                        None
                    } else {
                        Some(s.remove(0).1)
                    }
                });
                if let Some(tx) = tx {
                    let _ = tx.send(());
                }
            }
        }
    }
    STREAMING.with(|s| s.set(false));
    SENDERS.with(|s| s.borrow_mut().clear());
    html
}

fn complete_id(id: Option<i64>) -> bool {
    let txs: Vec<_> = SENDERS.with(|s| {
        let mut s = s.borrow_mut();
        let mut out = vec![];
        let mut i = 0;
        while i < s.len() {
            if id.map(|id| s[i].0 == id).unwrap_or(true) {
                out.push(s.remove(i).1);
            } else {
                i += 1;
            }
        }
        out
    });
    let any = !txs.is_empty();
    for tx in txs {
        let _ = tx.send(());
    }
    any
}

pub fn run_reactive(c: &Sexp) -> Sexp {
    use tachys::html::{attribute::dir, class::class, style::style};
    init_sigs(&c.at(3).nums());
    FLAT.with(|f| f.set(true));
    let vs = c.at(2);
    if vs.at(0).num() != 31 {
        let v = dec_view(vs);
        return reactive_flow(&|| mk(&v), c);
    }
    // `(31 (kind repr sig) rest)`: a TYPED root `<div ATTR>{rest}</div>` whose attribute is a closure (`FnMut`,
    // repr 0) or an `Arc<dyn Fn>` (repr 1): erased, both would be stored as a SharedReactiveFunction
    let (kind, repr, i) = (vs.at(1).at(0).num(), vs.at(1).at(1).num(), vs.at(1).at(2).num() as usize);
    let rest = dec_view(vs.at(2));
    macro_rules! two {
        ($field:ident, $t:ty, $o:ty, $map:expr, $x:ident => $attr:expr) => {{
            if repr == 0 {
                reactive_flow(
                    &|| {
                        let a: ArcRwSignal<$t> = sig(i).$field;
                        let $x = move || -> $o { ($map)(a.get()) };
                        div().add_any_attr($attr).child(mk(&rest))
                    },
                    c,
                )
            } else {
                reactive_flow(
                    &|| {
                        let a: ArcRwSignal<$t> = sig(i).$field;
                        let $x: Arc<dyn Fn() -> $o + Send + Sync> = Arc::new(move || ($map)(a.get()));
                        div().add_any_attr($attr).child(mk(&rest))
                    },
                    c,
                )
            }
        }};
    }
    match kind {
        10 => two!(n, i64, String, text_of, x => dir(x)),
        11 => two!(t, String, String, |v: String| v, x => class(x)),
        12 => two!(b, bool, bool, |v: bool| v, x => class(("on", x))),
        13 => two!(t, String, String, |v: String| format!("{}px", &v[1..]), x => style(("width", x))),
        _ => two!(t, String, String, |v: String| format!("width:{}px", &v[1..]), x => style(x)),
    }
}

fn reactive_flow<T: RenderHtml>(make: &dyn Fn() -> T, c: &Sexp) -> Sexp {
    let form = c.at(1).num();

    let server_owner = Owner::new();
    let html = {
        // the server renders without an observer: no "untracked read" diagnostics on stderr (the driver
        // reads stderr and stdout as one stream)
        let _zone = reactive_graph::diagnostics::SpecialNonReactiveZone::enter();
        server_owner.with(|| server_html(make, form))
    };
    server_owner.cleanup();
    drop(server_owner);
    exec::reset();

    let root = parse_server_markup(&html);
    let before = shape(&root);
    CLIENT_PENDING.with(|s| s.set(true));
    SENDERS.with(|s| s.borrow_mut().clear());
    let m0 = ndom::mutations();
    let hyd_owner = Owner::new();
    let hyd = hyd_owner.with(|| catch_unwind(AssertUnwindSafe(|| make().hydrate_from::<true>(&root))));
    let nops = ndom::mutations() - m0;
    let st = match hyd {
        Ok(st) => st,
        Err(_) => {
            CLIENT_PENDING.with(|s| s.set(false));
            return Lst(vec![Sexp::from_str(&html), Lst(vec![Num(0)])]);
        }
    };
    let same = shape(&root) == before;

    let root2 = Dom::create_element("div", None);
    let twin_owner = Owner::new();
    let mut st2 = twin_owner.with(|| make().build());
    st2.mount(&root2, None);
    CLIENT_PENDING.with(|s| s.set(false));

    let mut eqs = vec![];
    // `early`: the first step's writes come before any task of the view was polled
    if c.at(5).num() == 0 {
        exec::run_all(&[]);
    }
    eqs.push(Sexp::bool(visible(&root) == visible(&root2)));
    for step in c.at(4).list() {
        for w in step.at(0).list() {
            write_sig(w.at(0).num() as usize, w.at(1).num());
        }
        exec::run_all(&step.at(1).nums());
        for id in step.at(2).nums() {
            if complete_id(Some(id)) {
                exec::run_all(&[]);
            }
        }
        eqs.push(Sexp::bool(visible(&root) == visible(&root2)));
        if std::env::var("C05_DEBUG").is_ok() {
            eprintln!("step\nhydrated: {}\nbuilt:    {}", root.serialize(), root2.serialize());
        }
    }
    // everything still outstanding completes
    exec::run_all(&[]);
    while complete_id(None) {
        exec::run_all(&[]);
    }
    eqs.push(Sexp::bool(visible(&root) == visible(&root2)));

    // both states are dropped: no effect of the view may run or touch the DOM afterwards
    drop(st);
    drop(st2);
    hyd_owner.cleanup();
    twin_owner.cleanup();
    drop(hyd_owner);
    drop(twin_owner);
    exec::run_all(&[]);
    let m1 = ndom::mutations();
    let n = SIGS.with(|s| s.borrow().len());
    for i in 0..n {
        let cur = sig(i).n.get_untracked();
        write_sig(i, cur + 1);
    }
    exec::run_all(&[]);
    let post = ndom::mutations() - m1;
    SIGS.with(|s| s.borrow_mut().clear());
    Lst(vec![
        Sexp::from_str(&html),
        Lst(vec![Num(1), Num(nops as i64)]),
        Sexp::bool(same),
        Lst(eqs),
        Num(post as i64),
        Num(ndom::errors().len() as i64),
    ])
}


// ------------------------------------------------------------------ shape 5: leptos components through hydration
/// case `(5 form tree sources sigs steps)`: a component tree of c04l.rs (`<Show>`, `<For>` / `<ForEnumerate>`,
/// `<Suspense>` / `<Transition>` over `leptos_server::Resource`s read through `Suspend(res.await)` and `.get()`,
/// `<ErrorBoundary>`) is rendered by the server code as an in-order (form 1) or out-of-order (2) stream with
/// every resource resolving at once, parsed, and hydrated — the client has the data, too — next to a
/// client-built twin (own resources, same signals). Steps `(writes picks completions)` as in c04l.rs: a
/// completion `r` resolves every outstanding fetch of resource `r` (of both trees). The two trees must
/// be equal at every executor-idle point.
/// observation as for shape 4.
pub fn run_leptos(c: &Sexp) -> Sexp {
    use crate::c04::{complete, dec_expr, Sigs, FRESH, FUTURES};
    use crate::c04l::{dec, make_resources, mk as lmk, Ctx, RES};
    let form = c.at(1).num();
    let tree = dec(c.at(2));
    let sources: Vec<crate::c04::E> = c.at(3).list().iter().map(dec_expr).collect();
    FUTURES.lock().unwrap().clear();
    crate::c04::EXT.with(|e| e.set(true));
    let sigs: Sigs = Arc::new(c.at(4).list().iter().map(|x| RwSignal::new(x.num())).collect());
    let make = || {
        let res = make_resources(&sources, &sigs, 1);
        lmk(&tree, &Ctx { sigs: sigs.clone(), res })
    };

    FRESH.with(|r| r.set(true));
    let server_owner = Owner::new();
    let html = {
        let _zone = reactive_graph::diagnostics::SpecialNonReactiveZone::enter();
        server_owner.with(|| server_html(&make, form))
    };
    server_owner.cleanup();
    drop(server_owner);
    exec::reset();

    let root = parse_server_markup(&html);
    let before = shape(&root);
    let m0 = ndom::mutations();
    let hyd_owner = Owner::new();
    let hyd = hyd_owner.with(|| catch_unwind(AssertUnwindSafe(|| make().hydrate_from::<true>(&root))));
    let nops = ndom::mutations() - m0;
    let st = match hyd {
        Ok(st) => st,
        Err(_) => {
            FRESH.with(|r| r.set(false));
            crate::c04::EXT.with(|e| e.set(false));
            return Lst(vec![Sexp::from_str(&html), Lst(vec![Num(0)])]);
        }
    };
    let same = shape(&root) == before;
    let root2 = Dom::create_element("div", None);
    let twin_owner = Owner::new();
    let mut st2 = twin_owner.with(|| make().build());
    st2.mount(&root2, None);
    exec::run_all(&[]);
    FRESH.with(|r| r.set(false));

    let dbg = |tag: &str| {
        if std::env::var("C05_DEBUG").is_ok() {
            eprintln!("{tag}\nhydrated: {}\nbuilt:    {}", root.serialize(), root2.serialize());
        }
    };
    let mut eqs = vec![Sexp::bool(visible(&root) == visible(&root2))];
    dbg("after hydration");
    for step in c.at(5).list() {
        for w in step.at(0).list() {
            if let Some(sig) = sigs.get(w.at(0).num() as usize) {
                sig.set(w.at(1).num());
            }
        }
        exec::run_all(&step.at(1).nums());
        for r in step.at(2).nums() {
            let mut any = false;
            while complete(Some(RES + r), 0) {
                any = true;
            }
            if any {
                exec::run_all(&[]);
            }
        }
        eqs.push(Sexp::bool(visible(&root) == visible(&root2)));
        dbg("step");
    }
    let mut guard = 0;
    loop {
        let mut any = false;
        while complete(None, 0) {
            any = true;
        }
        exec::run_all(&[]);
        guard += 1;
        if !any || guard > 100 {
            break;
        }
    }
    eqs.push(Sexp::bool(visible(&root) == visible(&root2)));
    dbg("all complete");

    drop(st);
    drop(st2);
    hyd_owner.cleanup();
    twin_owner.cleanup();
    drop(hyd_owner);
    drop(twin_owner);
    exec::run_all(&[]);
    let m1 = ndom::mutations();
    for sig in sigs.iter() {
        sig.set(sig.get_untracked() + 1);
    }
    exec::run_all(&[]);
    while complete(None, 0) {}
    exec::run_all(&[]);
    let post = ndom::mutations() - m1;
    FUTURES.lock().unwrap().clear();
    crate::c04::LOG.lock().unwrap().clear();
    crate::c04::EXT.with(|e| e.set(false));
    Lst(vec![
        Sexp::from_str(&html),
        Lst(vec![Num(1), Num(nops as i64)]),
        Sexp::bool(same),
        Lst(eqs),
        Num(post as i64),
        Num(ndom::errors().len() as i64),
    ])
}
