//! `h_dom c05` — hydration adopts server-rendered HTML without mismatch (property C05).
//!
//! case `(0 view view2)` (grammar in coq/theories/Dom/HydrateRun.v). The harness builds the real
//! tachys view for `view` (enum-driven: `String`, `()`, `HtmlElement`s with children, tuples,
//! `Option`, `Either`, `Vec`, `AnyView`, keyed list, `InertElement`, `u32`), renders it with the
//! real `to_html()`, parses the string into the native DOM with the parser below (written for this
//! harness, independent of the Coq one), runs the real `hydrate::<true>` under `catch_unwind`,
//! and then compares the hydrated tree with a client-built twin before and after rebuilds.
//!
//! observation `(html tree (1 nops) same touched csr_eq [perturbed_ok rebuild_ok])` (the last two only when
//! `csr_eq` = 1) or
//! `(html tree (0))` when hydration panics:
//!  * `tree`: what the parser built, `(0 bytes)` text / `(1)` comment / `(2 name attrs kids)`
//!  * `nops`: DOM mutations performed by `hydrate`; `same`: node ids/kinds/shape unchanged by it
//!  * `touched`: ids (relative to the root, = pre-order index) of the nodes written by a rebuild
//!    with every text / attribute value changed — the nodes the hydrated state is bound to
//!  * `csr_eq`: hydrated DOM == client-built DOM, marker comments aside
//!  * `perturbed_ok`, `rebuild_ok`: after rebuilding both with the perturbed view / with `view2`
//!    they are still equal (and the hydrated side created nodes only if the twin did)
use either_of::Either;
use std::panic::{catch_unwind, AssertUnwindSafe};
use tachys::{
    html::{
        attribute::global::GlobalAttributes,
        attribute::{
            any_attribute::{AnyAttribute, IntoAnyAttribute},
            custom::custom_attribute,
        },
        element::{
            a, br, button, custom, div, em, h1, hr, img, input, label, li, main, noscript, ol, p, script, section, span, style,
            textarea, ul, ElementChild,
        },
        InertElement,
    },
    hydration::Cursor,
    renderer::dom::{self as ndom, Dom, Element, Kind, Node},
    view::{
        add_attr::AddAnyAttr,
        any_view::{AnyView, IntoAny},
        keyed::keyed,
        Mountable, Position, PositionState, Render, RenderHtml,
    },
    reactive_graph::Suspend,
};
use vsexp::{Lst, Num, Sexp};

// ------------------------------------------------------------------ case decoding
#[derive(Clone, Debug)]
pub enum D {
    Text(String),
    Comment,
    Elem(String, Vec<(String, String)>, Vec<D>),
}

#[derive(Clone, Debug)]
pub enum V {
    Text(String),
    Unit,
    Elem(usize, Vec<(usize, String)>, Vec<V>),
    Void(usize, Vec<(usize, String)>),
    Tuple(Vec<V>),
    Some(Box<V>),
    None,
    Left(Box<V>),
    Right(Box<V>),
    Vec(Vec<V>),
    Any(Box<V>),
    Keyed(Vec<V>),
    Inert(D),
    Num(u32),
    /// `Suspend` over a future; mode 1: not yet resolved when the server renders (streamed forms), ready on
    /// the client; mode 2 ("local"): on the server the future notifies the `LocalResourceNotifier` and
    /// never completes (the markup carries the marker of `None`), on the client it is pending at
    /// hydration time and completed later (case shape 4)
    Suspend(i64, i64, Box<V>),
    /// textarea / style / script with string children (`Some`) and children that render to nothing
    /// (`None(k)`: `()`, `Option::None`, empty `Vec`)
    Raw(usize, Vec<(usize, String)>, Vec<Result<String, i64>>),
    /// further combinators (oracle-only coverage)
    Eka(Option<(Box<V>, Box<V>)>, bool), // EitherKeepAlive { a, b, show_b }; None = { a: None, b: None }
    Of3(i64, Box<V>),                    // EitherOf3::A / B / C
    Res(Option<Box<V>>),                 // Result<_, E>: Ok(v) / Err
    StaticVec(Vec<V>),
    Arr2(Box<V>, Box<V>),                // [T; 2]
    Str(i64, String),                    // Arc<str> / Cow<'static, str>
    Owned(Box<V>),                       // OwnedView
    /// audit extensions (oracle-only): a primitive of another type given by its source text
    Prim(i64, String),
    /// `[T; N]` with N = 0, 1, 3
    ArrN(Vec<V>),
    /// `EitherOf4` / `EitherOf8` / `EitherOf16`: (n, index, view)
    OfN(i64, i64, Box<V>),
    /// `view.add_any_attr(..)` on the TYPED view: (kind, value) with kind 0 `data-sp=`, 1 `class:sp`,
    /// 2 `style:height=`, 3 `accesskey=`
    Spread(Vec<(i64, String)>, Box<V>),
    /// an element (div / span / p) with attributes of every representation: (kind, repr, value)
    Rich(usize, Vec<(i64, i64, Option<String>)>, Vec<V>),
    /// dynamic parts (case shape 4): see c05x.rs
    Dyn(crate::c05::x::DynSpec),
}

#[derive(Debug, Clone)]
struct Boom;
impl std::fmt::Display for Boom {
    fn fmt(&self, f: &mut std::fmt::Formatter<'_>) -> std::fmt::Result {
        f.write_str("boom")
    }
}
impl std::error::Error for Boom {}

fn text(s: &Sexp) -> String {
    s.string().expect("case strings are valid UTF-8 by construction")
}

fn dec_attrs(s: &Sexp) -> Vec<(usize, String)> {
    s.list().iter().map(|a| (a.at(0).num() as usize, text(a.at(1)))).collect()
}

fn dec_dom(s: &Sexp) -> D {
    match s.at(0).num() {
        0 => D::Text(text(s.at(1))),
        2 => D::Elem(
            text(s.at(1)),
            s.at(2).list().iter().map(|a| (text(a.at(0)), text(a.at(1)))).collect(),
            s.at(3).list().iter().map(dec_dom).collect(),
        ),
        _ => D::Comment,
    }
}

pub fn dec_view(s: &Sexp) -> V {
    let many = |x: &Sexp| x.list().iter().map(dec_view).collect::<Vec<_>>();
    match s.at(0).num() {
        0 => V::Text(text(s.at(1))),
        2 => V::Elem(s.at(1).num() as usize, dec_attrs(s.at(2)), many(s.at(3))),
        3 => V::Void(s.at(1).num() as usize, dec_attrs(s.at(2))),
        4 => V::Tuple(many(s.at(1))),
        5 => V::Some(Box::new(dec_view(s.at(1)))),
        6 => V::None,
        7 => V::Left(Box::new(dec_view(s.at(1)))),
        8 => V::Right(Box::new(dec_view(s.at(1)))),
        9 => V::Vec(many(s.at(1))),
        10 => V::Any(Box::new(dec_view(s.at(1)))),
        11 => V::Keyed(many(s.at(1))),
        12 => V::Inert(dec_dom(s.at(1))),
        13 => V::Num(s.at(1).num() as u32),
        14 => V::Suspend(s.at(1).num(), s.at(2).num(), Box::new(dec_view(s.at(3)))),
        15 => V::Raw(
            s.at(1).num() as usize,
            dec_attrs(s.at(2)),
            s.at(3).list().iter().map(|p| if p.at(0).num() == 1 { Ok(text(p.at(1))) } else { Err(p.at(1).num()) }).collect(),
        ),
        16 => V::Eka(Some((Box::new(dec_view(s.at(1))), Box::new(dec_view(s.at(2))))), s.at(3).num() != 0),
        17 => V::Eka(None, s.at(1).num() != 0),
        18 => V::Of3(s.at(1).num(), Box::new(dec_view(s.at(2)))),
        19 => V::Res(if s.at(1).num() != 0 { Some(Box::new(dec_view(s.at(2)))) } else { None }),
        20 => V::StaticVec(many(s.at(1))),
        21 => V::Arr2(Box::new(dec_view(s.at(1))), Box::new(dec_view(s.at(2)))),
        22 => V::Str(s.at(1).num(), text(s.at(2))),
        23 => V::Owned(Box::new(dec_view(s.at(1)))),
        24 => V::Prim(s.at(1).num(), text(s.at(2))),
        25 => V::Spread(s.at(1).list().iter().map(|a| (a.at(0).num(), text(a.at(1)))).collect(), Box::new(dec_view(s.at(2)))),
        26 => V::Rich(
            s.at(1).num() as usize,
            s.at(2)
                .list()
                .iter()
                .map(|a| (a.at(0).num(), a.at(1).num(), if a.at(2).at(0).num() != 0 { Some(text(a.at(2).at(1))) } else { None }))
                .collect(),
            many(s.at(3)),
        ),
        27 => V::Dyn(x::dec_dyn(s)),
        28 => V::ArrN(many(s.at(1))),
        29 => V::OfN(s.at(1).num(), s.at(2).num(), Box::new(dec_view(s.at(3)))),
        _ => V::Unit,
    }
}

// ------------------------------------------------------------------ real views
fn attr3(a: &[(usize, String)]) -> (Option<String>, Option<String>, Option<String>) {
    let get = |k: usize| a.iter().find(|x| x.0 == k).map(|x| x.1.clone());
    (get(0), get(1), get(2))
}

/// a tuple of any arity out of type-erased parts (tuples are transparent for rendering)
/// a FLAT tuple of 5, 6, 8 or 12 parts (other instantiations of `impl_view_for_tuples!`)
macro_rules! flat_tuple {
    ($vs:expr, $($n:ident),*) => {{
        let mut it = $vs.into_iter();
        $(let $n = it.next().unwrap();)*
        ($($n,)*).into_any()
    }};
}

fn tuple_any(mut vs: Vec<AnyView>) -> AnyView {
    if FLAT.with(|f| f.get()) {
        match vs.len() {
            5 => return flat_tuple!(vs, a, b, c, d, e),
            6 => return flat_tuple!(vs, a, b, c, d, e, f),
            8 => return flat_tuple!(vs, a, b, c, d, e, f, g, h),
            12 => return flat_tuple!(vs, a, b, c, d, e, f, g, h, i, j, k, l),
            _ => {}
        }
    }
    match vs.len() {
        0 => ().into_any(),
        1 => (vs.remove(0),).into_any(),
        2 => {
            let b = vs.remove(1);
            (vs.remove(0), b).into_any()
        }
        3 => {
            let c = vs.remove(2);
            let b = vs.remove(1);
            (vs.remove(0), b, c).into_any()
        }
        _ => {
            let rest = vs.split_off(3);
            let c = vs.remove(2);
            let b = vs.remove(1);
            (vs.remove(0), b, c, tuple_any(rest)).into_any()
        }
    }
}

macro_rules! element {
    ($ctor:ident, $attrs:expr, $kids:expr) => {
        element!(@e $ctor(), $attrs, $kids)
    };
    (@e $e:expr, $attrs:expr, $kids:expr) => {{
        let (id, title, dx) = attr3($attrs);
        let e = $e.id(id).title(title).lang(dx);
        let mut kids: Vec<AnyView> = $kids;
        if FLAT.with(|f| f.get()) && (kids.len() == 5 || kids.len() == 6) {
            // five / six direct `.child()` calls: the children tuple grows through `NextTuple`
            let six = if kids.len() == 6 { kids.pop() } else { None };
            let mut it = kids.into_iter();
            let e = e
                .child(it.next().unwrap())
                .child(it.next().unwrap())
                .child(it.next().unwrap())
                .child(it.next().unwrap())
                .child(it.next().unwrap());
            match six {
                Some(k) => e.child(k).into_any(),
                None => e.into_any(),
            }
        } else {
        match kids.len() {
            0 => e.into_any(),
            1 => e.child(kids.remove(0)).into_any(),
            2 => {
                let b = kids.remove(1);
                e.child(kids.remove(0)).child(b).into_any()
            }
            3 => {
                let c = kids.remove(2);
                let b = kids.remove(1);
                e.child(kids.remove(0)).child(b).child(c).into_any()
            }
            _ => {
                let rest = kids.split_off(3);
                let c = kids.remove(2);
                let b = kids.remove(1);
                e.child(kids.remove(0)).child(b).child(c).child(tuple_any(rest)).into_any()
            }
        }
        }
    }};
}
/// the same element with `add_any_attr(extra)` on the typed `HtmlElement` (attribute spreading)
macro_rules! element_spread {
    ($e:expr, $attrs:expr, $kids:expr, $extra:expr) => {{
        let (id, title, dx) = attr3($attrs);
        let e = $e.id(id).title(title).lang(dx);
        let mut kids: Vec<AnyView> = $kids;
        match kids.len() {
            0 => e.add_any_attr($extra).into_any(),
            1 => e.child(kids.remove(0)).add_any_attr($extra).into_any(),
            _ => {
                let rest = kids.split_off(1);
                e.child(kids.remove(0)).child(tuple_any(rest)).add_any_attr($extra).into_any()
            }
        }
    }};
}
macro_rules! void_element {
    ($ctor:ident, $attrs:expr) => {{
        let (id, title, dx) = attr3($attrs);
        $ctor().id(id).title(title).lang(dx).into_any()
    }};
}

fn esc_text(s: &str) -> String {
    s.replace('&', "&amp;").replace('<', "&lt;").replace('>', "&gt;")
}
fn inert_html(d: &D, out: &mut String) {
    match d {
        D::Text(s) => out.push_str(&esc_text(s)),
        D::Comment => out.push_str("<!>"),
        D::Elem(n, a, ks) => {
            out.push('<');
            out.push_str(n);
            for (k, v) in a {
                out.push_str(&format!(" {k}=\"{}\"", esc_text(v).replace('"', "&quot;")));
            }
            out.push('>');
            if !VOID.contains(&n.as_str()) {
                for k in ks {
                    inert_html(k, out);
                }
                out.push_str(&format!("</{n}>"));
            }
        }
    }
}

pub fn mk(v: &V) -> AnyView {
    match v {
        V::Text(s) => s.clone().into_any(),
        V::Unit => ().into_any(),
        V::Elem(t, a, ks) => match t {
            0 => element!(div, a, ks.iter().map(mk).collect()),
            1 => element!(span, a, ks.iter().map(mk).collect()),
            2 => element!(p, a, ks.iter().map(mk).collect()),
            3 => element!(section, a, ks.iter().map(mk).collect()),
            4 => element!(ul, a, ks.iter().map(mk).collect()),
            5 => element!(main, a, ks.iter().map(mk).collect()),
            // audit extensions: a custom element (dynamic tag, `TAG = ""`), SVG elements (namespace),
            // further HTML elements whose tree construction is the generic rule
            6 => element!(@e custom("x-y"), a, ks.iter().map(mk).collect()),
            7 => element!(@e tachys::svg::svg(), a, ks.iter().map(mk).collect()),
            8 => element!(@e tachys::svg::g(), a, ks.iter().map(mk).collect()),
            9 => element!(li, a, ks.iter().map(mk).collect()),
            10 => element!(ol, a, ks.iter().map(mk).collect()),
            11 => element!(@e self::a(), a, ks.iter().map(mk).collect()),
            12 => element!(em, a, ks.iter().map(mk).collect()),
            13 => element!(h1, a, ks.iter().map(mk).collect()),
            14 => element!(button, a, ks.iter().map(mk).collect()),
            _ => element!(label, a, ks.iter().map(mk).collect()),
        },
        V::Void(t, a) => match t {
            0 => void_element!(br, a),
            1 => void_element!(hr, a),
            2 => void_element!(img, a),
            _ => void_element!(input, a),
        },
        V::Tuple(vs) => tuple_any(vs.iter().map(mk).collect()),
        V::Some(x) => Some(mk(x)).into_any(),
        V::None => None::<AnyView>.into_any(),
        V::Left(x) => Either::<AnyView, AnyView>::Left(mk(x)).into_any(),
        V::Right(x) => Either::<AnyView, AnyView>::Right(mk(x)).into_any(),
        V::Vec(vs) => vs.iter().map(mk).collect::<Vec<AnyView>>().into_any(),
        V::Any(x) => mk(x).into_any(),
        V::Keyed(vs) => {
            let items: Vec<(usize, V)> = vs.iter().cloned().enumerate().collect();
            keyed(items, |it: &(usize, V)| it.0, |_i, it: (usize, V)| (|_: usize| {}, mk(&it.1))).into_any()
        }
        V::Inert(d) => {
            let mut html = String::new();
            inert_html(d, &mut html);
            InertElement::new(html).into_any()
        }
        V::Num(n) => (*n).into_any(),
        V::Suspend(id, mode, inner) => {
            let inner = (**inner).clone();
            let streaming = STREAMING.with(|s| s.get());
            if *mode == 2 && streaming {
                // the server side of a local resource: tell the boundary and never complete
                return Suspend::new(async move {
                    futures::future::poll_fn(|_cx| {
                        if let Some(mut n) =
                            reactive_graph::owner::use_context::<reactive_graph::computed::suspense::LocalResourceNotifier>()
                        {
                            n.notify();
                        }
                        std::task::Poll::<()>::Pending
                    })
                    .await;
                    mk(&inner)
                })
                .into_any();
            }
            let rx = if (*mode == 1 && streaming) || (*mode == 2 && CLIENT_PENDING.with(|s| s.get())) {
                let (tx, rx) = futures::channel::oneshot::channel::<()>();
                SENDERS.with(|s| s.borrow_mut().push((*id, tx)));
                Some(rx)
            } else {
                None
            };
            Suspend::new(async move {
                if let Some(rx) = rx {
                    let _ = rx.await;
                }
                mk(&inner)
            })
            .into_any()
        }
        V::Eka(sides, show_b) => {
            use tachys::view::either::EitherKeepAlive;
            let (a, b) = match sides {
                Some((a, b)) => (Some(mk(a)), Some(mk(b))),
                None => (None, None),
            };
            EitherKeepAlive::<AnyView, AnyView> { a, b, show_b: *show_b }.into_any()
        }
        V::Of3(i, x) => {
            use either_of::EitherOf3;
            match i {
                0 => EitherOf3::<AnyView, AnyView, AnyView>::A(mk(x)),
                1 => EitherOf3::B(mk(x)),
                _ => EitherOf3::C(mk(x)),
            }
            .into_any()
        }
        V::Res(x) => match x {
            Some(x) => Ok::<AnyView, Boom>(mk(x)),
            None => Err(Boom),
        }
        .into_any(),
        V::StaticVec(vs) => tachys::view::iterators::StaticVec::from(vs.iter().map(mk).collect::<Vec<AnyView>>()).into_any(),
        V::Arr2(a, b) => [mk(a), mk(b)].into_any(),
        V::Str(k, t) => match k {
            0 => std::sync::Arc::<str>::from(t.as_str()).into_any(),
            1 => std::borrow::Cow::<'static, str>::Owned(t.clone()).into_any(),
            2 => leak(t).into_any(),
            _ => std::borrow::Cow::<'static, str>::Borrowed(leak(t)).into_any(),
        },
        V::Prim(k, t) => mk_prim(*k, t),
        V::ArrN(vs) => {
            let mut it = vs.iter().map(mk);
            match vs.len() {
                0 => {
                    let a: [AnyView; 0] = [];
                    a.into_any()
                }
                1 => [it.next().unwrap()].into_any(),
                _ => [it.next().unwrap(), it.next().unwrap(), it.next().unwrap()].into_any(),
            }
        }
        V::OfN(n, i, x) => mk_of_n(*n, *i, mk(x)),
        V::Spread(attrs, x) => spread(x, attrs),
        V::Rich(t, attrs, ks) => {
            let kids: Vec<AnyView> = ks.iter().map(mk).collect();
            let extra: Vec<AnyAttribute> = attrs.iter().map(|(k, r, v)| rich_attr(*k, *r, v)).collect();
            match t {
                0 => element_spread!(div(), &[], kids, extra),
                1 => element_spread!(span(), &[], kids, extra),
                _ => element_spread!(p(), &[], kids, extra),
            }
        }
        V::Dyn(spec) => x::mk_dyn(spec),
        V::Owned(x) => tachys::reactive_graph::OwnedView::new(mk(x)).into_any(),
        V::Raw(t, a, parts) => {
            let kids: Vec<AnyView> = parts
                .iter()
                .map(|p| match p {
                    Ok(s) => s.clone().into_any(),
                    Err(0) => ().into_any(),
                    Err(1) => None::<String>.into_any(),
                    Err(_) => Vec::<String>::new().into_any(),
                })
                .collect();
            match t {
                0 => element!(textarea, a, kids),
                1 => element!(style, a, kids),
                2 => element!(script, a, kids),
                _ => element!(noscript, a, kids),
            }
        }
    }
}

pub(crate) fn leak(s: &str) -> &'static str {
    Box::leak(s.to_string().into_boxed_str())
}

/// a primitive of type `kind` parsed from its source text (the generator only emits valid texts)
fn mk_prim(kind: i64, t: &str) -> AnyView {
    use std::net::{IpAddr, Ipv4Addr, Ipv6Addr, SocketAddr};
    use std::num::{NonZeroI64, NonZeroU8};
    macro_rules! p {
        ($t:ty) => {
            t.parse::<$t>().unwrap_or_else(|_| panic!("harness: bad primitive {t:?}")).into_any()
        };
    }
    match kind {
        0 => p!(i64),
        1 => p!(u8),
        2 => p!(usize),
        3 => p!(u128),
        4 => p!(i128),
        5 => p!(f64),
        6 => p!(f32),
        7 => p!(bool),
        8 => t.chars().next().expect("harness: empty char").into_any(),
        9 => p!(Ipv4Addr),
        10 => p!(Ipv6Addr),
        11 => p!(SocketAddr),
        12 => p!(NonZeroU8),
        13 => p!(NonZeroI64),
        14 => p!(i8),
        _ => p!(IpAddr),
    }
}
fn perturb_prim(kind: i64, t: &str) -> String {
    let (a, b) = match kind {
        0 => ("-7", "12"),
        1 => ("0", "255"),
        2 => ("3", "4"),
        3 => ("340282366920938463463374607431768211455", "1"),
        4 => ("-1", "2"),
        5 => ("1.5", "-0"),
        6 => ("2.5", "inf"),
        7 => ("true", "false"),
        8 => ("x", "<"),
        9 => ("127.0.0.1", "10.0.0.2"),
        10 => ("::1", "fe80::1"),
        11 => ("127.0.0.1:80", "[::1]:8080"),
        12 => ("1", "255"),
        13 => ("-5", "9"),
        14 => ("-128", "127"),
        _ => ("::1", "1.2.3.4"),
    };
    if t == a { b.to_string() } else { a.to_string() }
}

fn mk_of_n(n: i64, i: i64, x: AnyView) -> AnyView {
    use either_of::{EitherOf16, EitherOf4, EitherOf8};
    type A = AnyView;
    match n {
        4 => match i {
            0 => EitherOf4::<A, A, A, A>::A(x),
            1 => EitherOf4::B(x),
            2 => EitherOf4::C(x),
            _ => EitherOf4::D(x),
        }
        .into_any(),
        8 => match i {
            0 => EitherOf8::<A, A, A, A, A, A, A, A>::A(x),
            1 => EitherOf8::B(x),
            2 => EitherOf8::C(x),
            3 => EitherOf8::D(x),
            4 => EitherOf8::E(x),
            5 => EitherOf8::F(x),
            6 => EitherOf8::G(x),
            _ => EitherOf8::H(x),
        }
        .into_any(),
        _ => match i {
            0 => EitherOf16::<A, A, A, A, A, A, A, A, A, A, A, A, A, A, A, A>::A(x),
            1 => EitherOf16::B(x),
            2 => EitherOf16::C(x),
            3 => EitherOf16::D(x),
            4 => EitherOf16::E(x),
            5 => EitherOf16::F(x),
            6 => EitherOf16::G(x),
            7 => EitherOf16::H(x),
            8 => EitherOf16::I(x),
            9 => EitherOf16::J(x),
            10 => EitherOf16::K(x),
            11 => EitherOf16::L(x),
            12 => EitherOf16::M(x),
            13 => EitherOf16::N(x),
            14 => EitherOf16::O(x),
            _ => EitherOf16::P(x),
        }
        .into_any(),
    }
}

/// the attributes a `Spread` adds: names that no generated element carries itself
fn spread_attrs(attrs: &[(i64, String)]) -> Vec<AnyAttribute> {
    use tachys::html::{attribute::accesskey, class::class, style::style};
    attrs
        .iter()
        .map(|(k, v)| match k {
            0 => custom_attribute("data-sp", v.clone()).into_any_attr(),
            1 => class(("sp", !v.is_empty())).into_any_attr(),
            2 => style(("height", v.clone())).into_any_attr(),
            _ => accesskey(v.clone()).into_any_attr(),
        })
        .collect()
}

/// `add_any_attr` on the TYPED view (each view type has its own `AddAnyAttr`); everything else through
/// `AnyView::add_any_attr` (`AnyViewWithAttrs`)
fn spread(v: &V, attrs: &[(i64, String)]) -> AnyView {
    let extra = spread_attrs(attrs);
    match v {
        V::Elem(t, a, ks) => {
            let kids: Vec<AnyView> = ks.iter().map(mk).collect();
            match t {
                0 => element_spread!(div(), a, kids, extra),
                1 => element_spread!(span(), a, kids, extra),
                2 => element_spread!(p(), a, kids, extra),
                3 => element_spread!(section(), a, kids, extra),
                4 => element_spread!(ul(), a, kids, extra),
                _ => mk(v).add_any_attr(extra).into_any(),
            }
        }
        V::Tuple(vs) if vs.len() == 2 => (mk(&vs[0]), mk(&vs[1])).add_any_attr(extra).into_any(),
        V::Tuple(vs) if vs.len() == 1 => (mk(&vs[0]),).add_any_attr(extra).into_any(),
        V::Tuple(vs) if vs.len() == 3 => (mk(&vs[0]), mk(&vs[1]), mk(&vs[2])).add_any_attr(extra).into_any(),
        V::Some(x) => Some(mk(x)).add_any_attr(extra).into_any(),
        V::None => None::<AnyView>.add_any_attr(extra).into_any(),
        V::Left(x) => Either::<AnyView, AnyView>::Left(mk(x)).add_any_attr(extra).into_any(),
        V::Right(x) => Either::<AnyView, AnyView>::Right(mk(x)).add_any_attr(extra).into_any(),
        V::Vec(vs) => vs.iter().map(mk).collect::<Vec<AnyView>>().add_any_attr(extra).into_any(),
        V::StaticVec(vs) => tachys::view::iterators::StaticVec::from(vs.iter().map(mk).collect::<Vec<AnyView>>())
            .add_any_attr(extra)
            .into_any(),
        V::Arr2(a, b) => [mk(a), mk(b)].add_any_attr(extra).into_any(),
        V::Keyed(vs) => {
            let items: Vec<(usize, V)> = vs.iter().cloned().enumerate().collect();
            keyed(items, |it: &(usize, V)| it.0, |_i, it: (usize, V)| (|_: usize| {}, mk(&it.1)))
                .add_any_attr(extra)
                .into_any()
        }
        V::Eka(Some((a, b)), show_b) => tachys::view::either::EitherKeepAlive::<AnyView, AnyView> {
            a: Some(mk(a)),
            b: Some(mk(b)),
            show_b: *show_b,
        }
        .add_any_attr(extra)
        .into_any(),
        V::Of3(i, x) => {
            use either_of::EitherOf3;
            match i {
                0 => EitherOf3::<AnyView, AnyView, AnyView>::A(mk(x)),
                1 => EitherOf3::B(mk(x)),
                _ => EitherOf3::C(mk(x)),
            }
            .add_any_attr(extra)
            .into_any()
        }
        V::Res(x) => match x {
            Some(x) => Ok::<AnyView, Boom>(mk(x)),
            None => Err(Boom),
        }
        .add_any_attr(extra)
        .into_any(),
        V::Owned(x) => tachys::reactive_graph::OwnedView::new(mk(x)).add_any_attr(extra).into_any(),
        V::Suspend(_, 0, inner) => {
            let inner = (**inner).clone();
            Suspend::new(async move { mk(&inner) }).add_any_attr(extra).into_any()
        }
        V::Dyn(spec) if spec.kind != 0 => x::mk_dyn_spread(spec, extra),
        V::Unit => ().add_any_attr(extra).into_any(),
        _ => mk(v).add_any_attr(extra).into_any(),
    }
}

/// one attribute of a `Rich` element: `(kind, repr, value)`, every representation the attribute
/// kind has; kinds >= 10 are dynamic (closure / signal valued, case shape 4)
fn rich_attr(kind: i64, repr: i64, val: &Option<String>) -> AnyAttribute {
    use std::{borrow::Cow, sync::Arc};
    use tachys::html::{
        attribute::{dir, hidden},
        class::class,
        element::inner_html,
        style::style,
    };
    let s = || val.clone().unwrap_or_default();
    match kind {
        0 => match repr {
            0 => dir(leak(&s())).into_any_attr(),
            1 => dir(s()).into_any_attr(),
            2 => dir(Arc::<str>::from(s().as_str())).into_any_attr(),
            _ => dir(val.clone()).into_any_attr(),
        },
        1 => match repr {
            0 => class(leak(&s())).into_any_attr(),
            1 => class(s()).into_any_attr(),
            2 => class(Arc::<str>::from(s().as_str())).into_any_attr(),
            3 => class(Cow::<'static, str>::Owned(s())).into_any_attr(),
            _ => class(val.clone()).into_any_attr(),
        },
        2 => class((["on", "k2"][(repr % 2) as usize], val.is_some())).into_any_attr(),
        3 => {
            let name = ["width", "color"][(repr % 2) as usize];
            match repr / 2 {
                0 => style((name, leak(&s()))).into_any_attr(),
                1 => style((name, s())).into_any_attr(),
                _ => style((name, Arc::<str>::from(s().as_str()))).into_any_attr(),
            }
        }
        4 => hidden(val.is_some()).into_any_attr(),
        5 => match repr {
            0 => style(leak(&s())).into_any_attr(),
            1 => style(s()).into_any_attr(),
            2 => style(Arc::<str>::from(s().as_str())).into_any_attr(),
            _ => style(val.clone()).into_any_attr(),
        },
        6 => match repr {
            0 => custom_attribute("data-k", s()).into_any_attr(),
            1 => custom_attribute(String::from("data-k"), s()).into_any_attr(),
            2 => custom_attribute(Cow::<'static, str>::Borrowed("data-k"), s()).into_any_attr(),
            _ => custom_attribute(Arc::<str>::from("data-k"), s()).into_any_attr(),
        },
        7 => match repr {
            0 => inner_html(s()).into_any_attr(),
            1 => inner_html(leak(&s())).into_any_attr(),
            2 => inner_html(Arc::<str>::from(s().as_str())).into_any_attr(),
            _ => inner_html(val.clone()).into_any_attr(),
        },
        8 => match repr {
            0 => Either::<_, tachys::html::attribute::custom::CustomAttr<&'static str, String>>::Left(dir(s())).into_any_attr(),
            _ => Either::<tachys::html::attribute::Attr<tachys::html::attribute::Dir, String>, _>::Right(custom_attribute(
                "data-e",
                s(),
            ))
            .into_any_attr(),
        },
        _ => x::dyn_attr(kind, repr, s().parse::<usize>().unwrap_or(0)),
    }
}

thread_local! {
    /// build tuples of 5 / 6 / 8 / 12 parts and up to six `.child()` calls FLAT (kinds of the audit; the
    /// model-compared kinds keep the nested form their observation was recorded with)
    pub(crate) static FLAT: std::cell::Cell<bool> = const { std::cell::Cell::new(false) };
    /// whether `mk` leaves the futures of pending `Suspend`s unresolved (server side of a streamed case)
    static STREAMING: std::cell::Cell<bool> = const { std::cell::Cell::new(false) };
    pub(crate) static SENDERS: std::cell::RefCell<Vec<(i64, futures::channel::oneshot::Sender<()>)>> = const { std::cell::RefCell::new(Vec::new()) };
    /// client side of case shape 4: the futures of local `Suspend`s are pending until a step completes them
    pub(crate) static CLIENT_PENDING: std::cell::Cell<bool> = const { std::cell::Cell::new(false) };
}

/// same shape, every text and attribute value different
fn perturb(v: &V) -> V {
    let pa = |a: &Vec<(usize, String)>| a.iter().map(|(k, s)| (*k, format!("{s}~"))).collect::<Vec<_>>();
    let many = |l: &Vec<V>| l.iter().map(perturb).collect::<Vec<_>>();
    match v {
        V::Text(s) => V::Text(format!("{s}~")),
        V::Unit => V::Unit,
        V::Elem(t, a, ks) => V::Elem(*t, pa(a), many(ks)),
        V::Void(t, a) => V::Void(*t, pa(a)),
        V::Tuple(l) => V::Tuple(many(l)),
        V::Some(x) => V::Some(Box::new(perturb(x))),
        V::None => V::None,
        V::Left(x) => V::Left(Box::new(perturb(x))),
        V::Right(x) => V::Right(Box::new(perturb(x))),
        V::Vec(l) => V::Vec(many(l)),
        V::Any(x) => V::Any(Box::new(perturb(x))),
        V::Keyed(l) => V::Keyed(many(l)),
        V::Inert(d) => V::Inert(d.clone()),
        V::Num(n) => V::Num(n.wrapping_add(1)),
        V::Suspend(id, pend, x) => V::Suspend(*id, *pend, Box::new(perturb(x))),
        V::Raw(t, a, parts) => V::Raw(*t, pa(a), parts.iter().map(|p| p.clone().map(|s| format!("{s}~"))).collect()),
        V::Eka(sides, sb) => V::Eka(sides.as_ref().map(|(a, b)| (Box::new(perturb(a)), Box::new(perturb(b)))), *sb),
        V::Of3(i, x) => V::Of3(*i, Box::new(perturb(x))),
        V::Res(x) => V::Res(x.as_ref().map(|x| Box::new(perturb(x)))),
        V::StaticVec(l) => V::StaticVec(many(l)),
        V::Arr2(a, b) => V::Arr2(Box::new(perturb(a)), Box::new(perturb(b))),
        V::Str(k, t) => V::Str(*k, format!("{t}~")),
        V::Owned(x) => V::Owned(Box::new(perturb(x))),
        V::Prim(k, t) => V::Prim(*k, perturb_prim(*k, t)),
        V::ArrN(l) => V::ArrN(many(l)),
        V::OfN(n, i, x) => V::OfN(*n, *i, Box::new(perturb(x))),
        V::Spread(a, x) => V::Spread(
            a.iter().map(|(k, s)| (*k, if *k == 1 { if s.is_empty() { "1".to_string() } else { String::new() } } else { format!("{s}~") })).collect(),
            Box::new(perturb(x)),
        ),
        V::Rich(t, a, ks) => V::Rich(
            *t,
            a.iter()
                .map(|(k, r, v)| match k {
                    // toggles flip; optional values keep being present / absent; everything else changes
                    2 | 4 => (*k, *r, if v.is_some() { None } else { Some("1".to_string()) }),
                    k if *k >= 10 => (*k, *r, v.clone()),
                    _ => (*k, *r, v.as_ref().map(|s| format!("{s}~"))),
                })
                .collect(),
            many(ks),
        ),
        V::Dyn(spec) => V::Dyn(spec.clone()),
    }
}

// ------------------------------------------------------------------ HTML parser of the harness
const VOID: &[&str] = &["br", "hr", "img", "input"];
const BLOCK: &[&str] = &["div", "section", "ul", "main", "ol", "h1", "li", "button"];
/// of these, the ones whose start tag closes an open `<p>` (`<button>` does not)
const P_CLOSERS: &[&str] = &["div", "section", "ul", "main", "ol", "h1", "li"];
/// ordinary (not "special") elements: their end tag walks up the stack past other ordinary elements
const ORDINARY: &[&str] = &["span", "a", "em", "label", "x-y", "svg", "g"];
const RAWTEXT: &[&str] = &["textarea", "style", "script", "noscript"];

fn decode_refs(s: &str) -> String {
    let mut out = String::new();
    let mut rest = s;
    while let Some(i) = rest.find('&') {
        out.push_str(&rest[..i]);
        rest = &rest[i..];
        let mut hit = false;
        for (name, ch) in [("&amp;", '&'), ("&lt;", '<'), ("&gt;", '>'), ("&quot;", '"')] {
            if rest.starts_with(name) {
                out.push(ch);
                rest = &rest[name.len()..];
                hit = true;
                break;
            }
        }
        if !hit {
            panic!("parser: unsupported character reference near {:?}", &rest[..rest.len().min(8)]);
        }
    }
    out.push_str(rest);
    out
}

/// Parses `html` as the children of `root` (fragment case, "in body" rules of the subset:
/// text runs, `<!>` comments, start tags with double-quoted attributes, void elements, end tags,
/// an open `<p>` is closed by a block-level start tag, `</p>` without an open `<p>` makes an
/// empty one). Nodes are created in document order.
pub fn parse_into(root: &Element, html: &str) {
    let html = html.replace("\r\n", "\n").replace('\r', "\n");
    let mut stack: Vec<(String, Element)> = vec![(String::new(), root.clone())];
    let mut pos = 0usize;
    let bytes = html.as_bytes();
    fn close_through(stack: &mut Vec<(String, Element)>, name: &str) {
        if let Some(i) = stack.iter().rposition(|e| e.0 == name) {
            if i > 0 {
                stack.truncate(i);
            }
        }
    }
    while pos < bytes.len() {
        let top = stack.last().unwrap().1.clone();
        if bytes[pos] != b'<' {
            let end = html[pos..].find('<').map(|e| pos + e).unwrap_or(html.len());
            let txt: String = decode_refs(&html[pos..end]).chars().filter(|c| *c != '\0').collect();
            if !txt.is_empty() {
                // a text run directly after another text node joins it
                match top.children().last() {
                    Some(last) if last.kind() == Kind::Text => {
                        let joined = format!("{}{}", last.data(), txt);
                        last.0.borrow_mut().text = joined;
                    }
                    _ => {
                        let t = Dom::create_text_node(&txt);
                        Dom::insert_node(&top, &t, None);
                    }
                }
            }
            pos = end;
            continue;
        }
        if html[pos..].starts_with("<!--") {
            let end = html[pos + 4..].find("-->").map(|e| pos + 4 + e).expect("parser: unterminated comment");
            let c = Dom::create_comment(&html[pos + 4..end]);
            Dom::insert_node(&top, &c, None);
            pos = end + 3;
            continue;
        }
        let close = html[pos..].find('>').map(|e| pos + e).expect("parser: unterminated tag");
        let inside = &html[pos + 1..close];
        if inside == "!" {
            let c = Dom::create_comment("");
            Dom::insert_node(&top, &c, None);
            pos = close + 1;
            continue;
        }
        if let Some(name) = inside.strip_prefix('/') {
            let name = name.to_ascii_lowercase();
            if name == "template" {
                close_through(&mut stack, "template");
            } else if name == "p" {
                if stack.iter().any(|e| e.0 == "p") {
                    close_through(&mut stack, "p");
                } else {
                    let e = Dom::create_element("p", None);
                    Dom::insert_node(&top, &e, None);
                }
            } else if BLOCK.contains(&name.as_str()) {
                close_through(&mut stack, &name);
            } else if ORDINARY.contains(&name.as_str()) {
                // "any other end tag": walk up; a "special" element (blocks, p, template) stops the search
                let mut i = stack.len();
                while i > 1 {
                    i -= 1;
                    if stack[i].0 == name {
                        stack.truncate(i);
                        break;
                    }
                    if !ORDINARY.contains(&stack[i].0.as_str()) {
                        break;
                    }
                }
            } else if name == "br" {
                let e = Dom::create_element("br", None);
                Dom::insert_node(&top, &e, None);
            } else if !VOID.contains(&name.as_str()) {
                panic!("parser: unsupported end tag {name:?}");
            }
            pos = close + 1;
            continue;
        }
        // start tag: the value of an attribute may contain '>' only escaped, so `close` is the end
        let (name, mut rest) = match inside.find(|c: char| c == ' ' || c == '\t' || c == '\n' || c == '\x0c') {
            Some(i) => (&inside[..i], &inside[i..]),
            None => (inside, ""),
        };
        let name = name.to_ascii_lowercase();
        if !(VOID.contains(&name.as_str()) || BLOCK.contains(&name.as_str()) || name == "p" || ORDINARY.contains(&name.as_str())
            || name == "template" || RAWTEXT.contains(&name.as_str()))
        {
            panic!("parser: unsupported tag {name:?}");
        }
        let mut attrs: Vec<(String, String)> = vec![];
        loop {
            rest = rest.trim_start_matches(|c: char| c == ' ' || c == '\t' || c == '\n' || c == '\x0c');
            if rest.is_empty() {
                break;
            }
            // attribute name: up to whitespace, `=` or the end; without `=` the value is empty
            let nend = rest.find(|c: char| c == '=' || c == ' ' || c == '\t' || c == '\n' || c == '\x0c').unwrap_or(rest.len());
            let key = rest[..nend].to_ascii_lowercase();
            if !rest[nend..].starts_with('=') {
                if !attrs.iter().any(|a| a.0 == key) {
                    attrs.push((key, String::new()));
                }
                rest = &rest[nend..];
                continue;
            }
            let eq = nend;
            assert!(rest[eq + 1..].starts_with('"'), "parser: unquoted attribute value");
            let vend = rest[eq + 2..].find('"').expect("parser: unterminated attribute value") + eq + 2;
            let val = decode_refs(&rest[eq + 2..vend]);
            if !attrs.iter().any(|a| a.0 == key) {
                attrs.push((key, val));
            }
            rest = &rest[vend + 1..];
        }
        if (P_CLOSERS.contains(&name.as_str()) || name == "p" || name == "hr") && stack.iter().any(|e| e.0 == "p") {
            close_through(&mut stack, "p");
        }
        let top = stack.last().unwrap().1.clone();
        let el = Dom::create_element(&name, None);
        for (k, v) in &attrs {
            el.0 .0.borrow_mut().attrs.push((k.clone(), v.clone()));
        }
        Dom::insert_node(&top, &el, None);
        if RAWTEXT.contains(&name.as_str()) {
            // the content up to the matching end tag is text (character references only in textarea)
            let lower = html[close + 1..].to_ascii_lowercase();
            let end = lower.find(&format!("</{name}>")).map(|e| close + 1 + e).expect("parser: unterminated raw text element");
            let mut content = html[close + 1..end].to_string();
            if name == "textarea" {
                content = decode_refs(&content);
                if content.starts_with('\n') {
                    content.remove(0);
                }
            }
            let content: String = content.chars().filter(|c| *c != '\0').collect();
            if !content.is_empty() {
                let t = Dom::create_text_node(&content);
                Dom::insert_node(&el, &t, None);
            }
            pos = end + name.len() + 3;
            continue;
        }
        if !VOID.contains(&name.as_str()) {
            stack.push((name, el));
        }
        pos = close + 1;
    }
}

fn parse_nodes(html: &str) -> Vec<Node> {
    let frag = Dom::create_fragment();
    parse_into(&frag, html);
    frag.children()
}

// ------------------------------------------------------------------ observation helpers
fn tree(n: &Node) -> Sexp {
    match n.kind() {
        Kind::Text => Lst(vec![Num(0), Sexp::from_str(&n.data())]),
        Kind::Comment => Lst(vec![Num(1)]),
        _ => Lst(vec![
            Num(2),
            Sexp::from_str(&n.tag().unwrap_or_default()),
            Lst(n.attributes().iter().map(|(k, v)| Lst(vec![Sexp::from_str(k), Sexp::from_str(v)])).collect()),
            Lst(n.children().iter().map(tree).collect()),
        ]),
    }
}

/// the tree without comments, attributes sorted by name
fn visible(n: &Node) -> Option<Sexp> {
    match n.kind() {
        Kind::Text => Some(Lst(vec![Num(0), Sexp::from_str(&n.data())])),
        Kind::Comment => None,
        _ => {
            let a = canon_attrs(n);
            Some(Lst(vec![
                Num(2),
                Sexp::from_str(&n.tag().unwrap_or_default()),
                Lst(a.iter().map(|(k, v)| Lst(vec![Sexp::from_str(k), Sexp::from_str(v)])).collect()),
                Lst(n.children().iter().filter_map(visible).collect()),
            ]))
        }
    }
}

/// attributes sorted by name; `class` as its token list (dropped when empty); the `style` attribute and
/// the properties set through the CSSOM (which the native DOM keeps apart) as ONE sorted declaration list
fn canon_attrs(n: &Node) -> Vec<(String, String)> {
    fn put(l: &mut Vec<(String, String)>, k: String, v: String) {
        match l.iter_mut().find(|e| e.0 == k) {
            Some(e) => e.1 = v,
            None => l.push((k, v)),
        }
    }
    let mut out = vec![];
    let mut decls: Vec<(String, String)> = vec![];
    for (k, v) in n.attributes() {
        if k == "class" {
            let toks = v.split_ascii_whitespace().collect::<Vec<_>>().join(" ");
            if !toks.is_empty() {
                out.push((k, toks));
            }
        } else if k == "style" {
            for d in v.split(';') {
                let d = d.trim();
                if d.is_empty() {
                    continue;
                }
                match d.split_once(':') {
                    Some((a, b)) => put(&mut decls, a.trim().to_string(), b.trim().to_string()),
                    None => put(&mut decls, d.to_string(), String::new()),
                }
            }
        } else {
            out.push((k, v));
        }
    }
    for (k, v) in n.styles() {
        put(&mut decls, k, v.trim().to_string());
    }
    decls.sort();
    if !decls.is_empty() {
        out.push((":style".to_string(), decls.iter().map(|(k, v)| format!("{k}:{v};")).collect()));
    }
    out.sort();
    out
}

fn preorder(n: &Node, out: &mut Vec<Node>) {
    out.push(n.clone());
    for c in n.children() {
        preorder(&c, out);
    }
}
fn shape(root: &Node) -> Vec<(u64, u16, usize)> {
    let mut l = vec![];
    preorder(root, &mut l);
    l.iter().map(|n| (n.id(), n.node_type(), n.children().len())).collect()
}

/// all chunks of a stream of a view without asynchronous parts, concatenated (`None` if a chunk is
/// not synchronously available)
fn collect_sync(mut b: tachys::ssr::StreamBuilder) -> Option<String> {
    let mut out = String::new();
    for chunk in b.take_chunks() {
        match chunk {
            tachys::ssr::StreamChunk::Sync(s) => out.push_str(&s),
            _ => return None,
        }
    }
    Some(out)
}

/// `Suspend::rebuild`, a pending `Suspend::build` and every `RenderEffect` spawn a task. A process has ONE
/// executor: the harness-owned one of c04.rs with its exposed run queue. Case shapes 0-3 never poll it (the
/// tasks stay parked and are dropped with the case), shapes 4 and 5 run it until idle.
use crate::c04::exec;

#[path = "c05x.rs"]
pub mod x;

/// stderr of `h_dom c05` goes to /dev/null (unless C05_DEBUG is set): the driver merges it into stdout
fn silence_stderr() {
    use std::sync::Once;
    static ONCE: Once = Once::new();
    ONCE.call_once(|| {
        if std::env::var("C05_DEBUG").is_err() {
            unsafe {
                let fd = libc::open(b"/dev/null\0".as_ptr() as *const libc::c_char, libc::O_WRONLY);
                if fd >= 0 {
                    libc::dup2(fd, 2);
                    libc::close(fd);
                }
            }
        }
    });
}

pub fn run(c: &Sexp) -> Sexp {
    silence_stderr();
    exec::init();
    exec::reset();
    FLAT.with(|f| f.set(false));
    SENDERS.with(|s| s.borrow_mut().clear());
    STREAMING.with(|s| s.set(false));
    CLIENT_PENDING.with(|s| s.set(false));
    let owner = reactive_graph::owner::Owner::new();
    owner.set();
    let out = run_case(c);
    owner.cleanup();
    drop(owner);
    exec::reset();
    SENDERS.with(|s| s.borrow_mut().clear());
    out
}

fn run_case(c: &Sexp) -> Sexp {
    ndom::set_html_parser(parse_nodes);
    ndom::clear_errors();
    if c.at(0).num() == 1 {
        // case (1 view): the in-order and out-of-order streamed forms of a view without
        // asynchronous parts are the synchronous string
        let v = dec_view(c.at(1));
        let html = mk(&v).to_html();
        let ino = collect_sync(mk(&v).to_html_stream_in_order());
        let ooo = collect_sync(mk(&v).to_html_stream_out_of_order());
        return Lst(vec![
            Sexp::from_str(&html),
            Sexp::bool(ino.as_deref() == Some(html.as_str())),
            Sexp::bool(ooo.as_deref() == Some(html.as_str())),
        ]);
    }
    if c.at(0).num() == 2 {
        return run_streamed(c);
    }
    if c.at(0).num() == 3 {
        return run_resolved(c);
    }
    if c.at(0).num() == 4 {
        return x::run_reactive(c);
    }
    if c.at(0).num() == 5 {
        return x::run_leptos(c);
    }
    // shape 7 `(7 typed typed2 skip entry)`: a TYPED root (see `typed_flow`)
    if c.at(0).num() == 7 {
        FLAT.with(|f| f.set(true));
        return typed_flow(c);
    }
    // shape 6 `(6 v v2 skip entry)`: the wide grammar of the audit (flat tuples), hydrated through the public
    // entry points: entry 0 `hydrate_from(root)`, 1 `hydrate_from_position(el, Position::Current)` on the
    // element the (element-rooted) view was rendered to
    let wide = c.at(0).num() == 6;
    FLAT.with(|f| f.set(wide));
    let entry = if wide { c.at(4).num() } else { 0 };
    let v1 = dec_view(c.at(1));
    let v2 = dec_view(c.at(2));
    let vp = perturb(&v1);
    // `(0 v1 v2 1)`: no rebuild with the perturbed view before the rebuild with v2
    let skip = c.at(3).num() != 0;
    flow(|i| mk([&v1, &vp, &v2][i]), wide, entry, skip)
}

/// The hydration flow for a view type `T` (`make(0)` the view, `make(1)` the same shape with every text /
/// attribute value changed, `make(2)` the second view): server rendering, parse, hydrate, compare with
/// the client-built twin, rebuild both twice. `T = AnyView` for the generated grammars; a concrete type
/// for the typed roots (`into_any` stores `T::Owned` with the attributes' `CloneableOwned` forms: `&str` /
/// `Cow` children become `String`, `String` / `&str` attribute values `Arc<str>`, closures shared functions).
fn flow<T, F>(make: F, wide: bool, entry: i64, skip: bool) -> Sexp
where
    T: RenderHtml,
    F: Fn(usize) -> T,
{
    let html = make(0).to_html();
    let root = Dom::create_element("div", None);
    let r0 = root.id();
    parse_into(&root, &html);
    let tree_s = Lst(root.children().iter().map(tree).collect());
    let before = shape(&root);
    let m0 = ndom::mutations();
    let hyd = catch_unwind(AssertUnwindSafe(|| {
        if !wide {
            make(0).hydrate::<true>(&Cursor::new(root.clone()), &PositionState::default())
        } else if entry == 1 {
            let el = root.children().into_iter().find(|k| k.is_element()).expect("harness: entry 1 needs an element-rooted view");
            // an element follows the one to hydrate: `Position::Current` must not look at it
            let sib = Dom::create_element("span", None);
            Dom::insert_node(&root, &sib, None);
            let st = make(0).hydrate_from_position::<true>(&Element(el), Position::Current);
            Dom::remove(&sib);
            st
        } else {
            make(0).hydrate_from::<true>(&root)
        }
    }));
    let nops = ndom::mutations() - m0;
    let mut st = match hyd {
        Ok(st) => st,
        Err(_) => return Lst(vec![Sexp::from_str(&html), tree_s, Lst(vec![Num(0)])]),
    };
    let same = shape(&root) == before;

    // the client-built twin
    let root2 = Dom::create_element("div", None);
    let mut st2 = make(0).build();
    st2.mount(&root2, None);
    let csr_eq = visible(&root) == visible(&root2);
    if std::env::var("C05_DEBUG").is_ok() {
        eprintln!("hydrated: {}\nbuilt:    {}", root.serialize(), root2.serialize());
    }

    // rebuild with every text / attribute value changed
    let mut nodes = vec![];
    preorder(&root, &mut nodes);
    let counts: Vec<(u64, u64)> = nodes.iter().map(|n| (n.id(), n.mutations())).collect();
    let twin_before = shape(&root2);
    let twin_ok = skip || catch_unwind(AssertUnwindSafe(|| make(1).rebuild(&mut st2))).is_ok();
    let hyd_ok = skip || catch_unwind(AssertUnwindSafe(|| make(1).rebuild(&mut st))).is_ok();
    if std::env::var("C05_DEBUG").is_ok() {
        eprintln!("after the same-shape rebuild\nhydrated: {}\nbuilt:    {}", root.serialize(), root2.serialize());
    }
    let mut touched: Vec<i64> = nodes
        .iter()
        .zip(counts.iter())
        .filter(|(n, c)| n.mutations() != c.1)
        .map(|(n, _)| (n.id() - r0) as i64)
        .collect();
    touched.sort();
    if !twin_ok {
        // the client-side rebuild itself fails: not a hydration matter, nothing left to compare
        let mut out = vec![Sexp::from_str(&html), tree_s, Lst(vec![Num(1), Num(nops as i64)]), Sexp::bool(same),
                           Sexp::from_nums(touched), Sexp::bool(csr_eq)];
        if csr_eq {
            out.push(Num(1));
            out.push(Num(1));
        }
        return Lst(out);
    }
    let created_h = shape(&root).iter().map(|x| x.0).collect::<Vec<_>>() != before.iter().map(|x| x.0).collect::<Vec<_>>();
    let created_t = shape(&root2).iter().map(|x| x.0).collect::<Vec<_>>() != twin_before.iter().map(|x| x.0).collect::<Vec<_>>();
    let perturbed_ok = hyd_ok && visible(&root) == visible(&root2) && created_h == created_t;

    // rebuild with the second view
    let twin_ok = catch_unwind(AssertUnwindSafe(|| make(2).rebuild(&mut st2))).is_ok();
    let rebuild_ok = if !twin_ok || !hyd_ok {
        true
    } else {
        let ok = catch_unwind(AssertUnwindSafe(|| make(2).rebuild(&mut st))).is_ok();
        if std::env::var("C05_DEBUG").is_ok() {
            eprintln!("after rebuild(v2)\nhydrated: {}\nbuilt:    {}", root.serialize(), root2.serialize());
        }
        ok && visible(&root) == visible(&root2)
    };
    let mut out = vec![
        Sexp::from_str(&html),
        tree_s,
        Lst(vec![Num(1), Num(nops as i64)]),
        Sexp::bool(same),
        Sexp::from_nums(touched),
        Sexp::bool(csr_eq),
    ];
    // the two trees already differ (only possible for mis-nested markup): nothing further to compare
    if csr_eq {
        out.push(Sexp::bool(perturbed_ok));
        out.push(Sexp::bool(rebuild_ok));
    }
    Lst(out)
}

/// One typed root `(attr texts rest)`: `<div ATTR>{&'static str}{Cow::Borrowed}{Cow::Owned}{rest}</div>` as its
/// CONCRETE type: `attr = (kind repr value)` as for op 26 (the representations that `into_any` would convert),
/// `texts` three strings, `rest` any view (erased).
struct TypedRoot {
    attr: (i64, i64, Option<String>),
    texts: [String; 3],
    rest: V,
}
fn dec_typed(s: &Sexp) -> TypedRoot {
    let a = s.at(0);
    TypedRoot {
        attr: (a.at(0).num(), a.at(1).num(), if a.at(2).at(0).num() != 0 { Some(text(a.at(2).at(1))) } else { None }),
        texts: [text(s.at(1).at(0)), text(s.at(1).at(1)), text(s.at(1).at(2))],
        rest: dec_view(s.at(2)),
    }
}
fn perturb_typed(t: &TypedRoot) -> TypedRoot {
    TypedRoot {
        attr: (t.attr.0, t.attr.1, t.attr.2.as_ref().map(|s| format!("{s}~"))),
        texts: [format!("{}~", t.texts[0]), format!("{}~", t.texts[1]), format!("{}~", t.texts[2])],
        rest: perturb(&t.rest),
    }
}

/// case `(7 typed typed2 skip entry)`: both roots have the same attribute kind / representation
fn typed_flow(c: &Sexp) -> Sexp {
    use std::borrow::Cow;
    use tachys::html::{attribute::dir, class::class, element::inner_html, style::style};
    let t1 = dec_typed(c.at(1));
    let t2 = dec_typed(c.at(2));
    let tp = perturb_typed(&t1);
    let skip = c.at(3).num() != 0;
    let entry = c.at(4).num();
    let ts = [&t1, &tp, &t2];
    let (kind, repr) = (t1.attr.0, t1.attr.1);
    macro_rules! go {
        (|$val:ident| $attr:expr) => {
            flow(
                |i| {
                    let t: &TypedRoot = ts[i];
                    let $val: &Option<String> = &t.attr.2;
                    div().add_any_attr($attr).child((
                        leak(&t.texts[0]),
                        Cow::<'static, str>::Borrowed(leak(&t.texts[1])),
                        Cow::<'static, str>::Owned(t.texts[2].clone()),
                        mk(&t.rest),
                    ))
                },
                true,
                entry,
                skip,
            )
        };
    }
    // `inner_html` takes the place of the children: the element has none
    macro_rules! go0 {
        (|$val:ident| $attr:expr) => {
            flow(
                |i| {
                    let t: &TypedRoot = ts[i];
                    let $val: &Option<String> = &t.attr.2;
                    div().add_any_attr($attr)
                },
                true,
                entry,
                skip,
            )
        };
    }
    let s = |v: &Option<String>| v.clone().unwrap_or_default();
    match (kind, repr) {
        (7, 0) => go0!(|v| inner_html(s(v))),
        (7, 1) => go0!(|v| inner_html(leak(&s(v)))),
        (7, 2) => go0!(|v| inner_html(std::sync::Arc::<str>::from(s(v).as_str()))),
        (7, _) => go0!(|v| inner_html(v.clone())),
        (0, 0) => go!(|v| dir(leak(&s(v)))),
        (0, 1) => go!(|v| dir(s(v))),
        (0, 2) => go!(|v| dir(std::sync::Arc::<str>::from(s(v).as_str()))),
        (0, 3) => go!(|v| dir(v.clone())),
        (1, 0) => go!(|v| class(leak(&s(v)))),
        (1, 1) => go!(|v| class(s(v))),
        (1, 3) => go!(|v| class(Cow::<'static, str>::Owned(s(v)))),
        (1, 4) => go!(|v| class(v.clone())),
        (3, 0) => go!(|v| style(("width", leak(&s(v))))),
        (3, 2) => go!(|v| style(("width", s(v)))),
        (5, 0) => go!(|v| style(leak(&s(v)))),
        (5, 1) => go!(|v| style(s(v))),
        (5, 3) => go!(|v| style(v.clone())),
        (6, 0) => go!(|v| custom_attribute("data-k", s(v))),
        (6, 1) => go!(|v| custom_attribute(String::from("data-k"), s(v))),
        (6, 2) => go!(|v| custom_attribute(Cow::<'static, str>::Borrowed("data-k"), s(v))),
        (8, 0) => go!(|v| Either::<_, tachys::html::attribute::custom::CustomAttr<&'static str, String>>::Left(dir(s(v)))),
        (8, 1) => go!(|v| Either::<tachys::html::attribute::Attr<tachys::html::attribute::Dir, String>, _>::Right(custom_attribute(
            "data-e",
            s(v)
        ))),
        _ => go!(|v| tachys::html::attribute::title(s(v))),
    }
}


// ------------------------------------------------------------------ streamed forms with pending Suspends
fn comments(n: &Node, out: &mut Vec<Node>) {
    for c in n.children() {
        if c.kind() == Kind::Comment {
            out.push(c.clone());
        }
        comments(&c, out);
    }
}
fn elements_named(n: &Node, name: &str, out: &mut Vec<Node>) {
    for c in n.children() {
        if c.tag().as_deref() == Some(name) {
            out.push(c.clone());
        }
        elements_named(&c, name, out);
    }
}

/// What the inline script of an out-of-order chunk does (tachys/src/ssr/mod.rs, OooChunk::push_end):
/// find the comments `s-<id>o` / `s-<id>c`, delete from the first up to (excluding) the second, put
/// the content of `<template id="<id>f">` before the second and remove it.
fn apply_ooo_script(root: &Element, script_text: &str) {
    let Some(start) = script_text.find("let id = \"") else { return };
    let rest = &script_text[start + 10..];
    let id = &rest[..rest.find('"').expect("script: id")];
    let replace = script_text.contains("range.deleteContents()");
    let mut cs = vec![];
    comments(root, &mut cs);
    let open = cs.iter().filter(|c| c.data() == format!("s-{id}o")).last().cloned().expect("script: no opening marker");
    let close = cs.iter().filter(|c| c.data() == format!("s-{id}c")).last().cloned().expect("script: no closing marker");
    let parent = Element::cast_from_node(close.parent_node().expect("marker without parent"));
    if replace {
        assert!(open.parent_node().map(|p| p.id()) == Some(parent.id()), "script: markers in different parents");
        let kids = parent.children();
        let i = kids.iter().position(|k| k.id() == open.id()).unwrap();
        let j = kids.iter().position(|k| k.id() == close.id()).unwrap();
        for k in &kids[i..j] {
            Dom::remove(k);
        }
        let mut tpls = vec![];
        elements_named(root, "template", &mut tpls);
        let tpl = tpls
            .iter()
            .find(|t| t.get_attribute("id").as_deref() == Some(&format!("{id}f")))
            .cloned()
            .expect("script: no template");
        for k in tpl.children() {
            Dom::insert_node(&parent, &k, Some(&close));
        }
        Dom::remove(&close);
    } else {
        Dom::remove(&close);
        Dom::remove(&open);
    }
}

trait CastNode {
    fn cast_from_node(n: Node) -> Element;
}
impl CastNode for Element {
    fn cast_from_node(n: Node) -> Element {
        Element(n)
    }
}

/// case `(2 mode view early order)`: mode 1 = in-order, 2 = out-of-order stream; the futures of the
/// `Suspend`s marked pending are unresolved when the stream is created; those listed in `early`
/// complete before the stream is first polled, the others when the stream stalls, in `order`.
/// The chunks are concatenated and parsed, the out-of-order scripts applied, and the same view
/// (futures resolved, as on a client that received the data) is hydrated against the result.
/// observation `(html tree (1 nops)|(0) same csr_eq)`
fn run_streamed(c: &Sexp) -> Sexp {
    use futures::Stream;
    let mode = c.at(1).num();
    let v = dec_view(c.at(2));
    SENDERS.with(|s| s.borrow_mut().clear());
    STREAMING.with(|s| s.set(true));
    let view = mk(&v);
    let stream = if mode == 1 { view.to_html_stream_in_order() } else { view.to_html_stream_out_of_order() };
    let mut stream = Box::pin(stream);
    let complete = |id: Option<i64>| -> bool {
        let tx = SENDERS.with(|s| {
            let mut s = s.borrow_mut();
            let i = id.and_then(|id| s.iter().position(|e| e.0 == id)).or(if s.is_empty() { None } else { Some(0) });
            i.map(|i| s.remove(i).1)
        });
        match tx {
            Some(tx) => {
                let _ = tx.send(());
                true
            }
            None => false,
        }
    };
    for id in c.at(3).nums() {
        let has = SENDERS.with(|s| s.borrow().iter().any(|e| e.0 == id));
        if has {
            complete(Some(id));
        }
    }
    let waker = futures::task::noop_waker();
    let mut cx = std::task::Context::from_waker(&waker);
    let mut order = c.at(4).nums().into_iter();
    let mut html = String::new();
    let mut stalls = 0;
    loop {
        match stream.as_mut().poll_next(&mut cx) {
            std::task::Poll::Ready(Some(chunk)) => html.push_str(&chunk),
            std::task::Poll::Ready(None) => break,
            std::task::Poll::Pending => {
                stalls += 1;
                assert!(stalls < 1000, "stream does not finish");
                if !complete(order.next()) {
                    // nothing left to complete: poll once more, then give up
                    assert!(stalls < 50, "stream pending with no unresolved future");
                }
            }
        }
    }
    STREAMING.with(|s| s.set(false));
    SENDERS.with(|s| s.borrow_mut().clear());
    hydrate_markup(&html, &v)
}

/// case `(3 view early order)`: the third server form, `view.resolve().await.to_html()`; the futures of
/// the pending `Suspend`s complete before the first poll (`early`) or whenever the resolution stalls,
/// in `order`. Then as for the streamed forms.
fn run_resolved(c: &Sexp) -> Sexp {
    use std::future::Future;
    let v = dec_view(c.at(1));
    SENDERS.with(|s| s.borrow_mut().clear());
    STREAMING.with(|s| s.set(true));
    let mut fut = Box::pin(mk(&v).resolve());
    let complete = |id: Option<i64>| -> bool {
        let tx = SENDERS.with(|s| {
            let mut s = s.borrow_mut();
            let i = id.and_then(|id| s.iter().position(|e| e.0 == id)).or(if s.is_empty() { None } else { Some(0) });
            i.map(|i| s.remove(i).1)
        });
        tx.map(|tx| tx.send(()).is_ok() || true).unwrap_or(false)
    };
    for id in c.at(2).nums() {
        if SENDERS.with(|s| s.borrow().iter().any(|e| e.0 == id)) {
            complete(Some(id));
        }
    }
    let waker = futures::task::noop_waker();
    let mut cx = std::task::Context::from_waker(&waker);
    let mut order = c.at(3).nums().into_iter();
    let mut stalls = 0;
    let resolved = loop {
        match fut.as_mut().poll(&mut cx) {
            std::task::Poll::Ready(out) => break out,
            std::task::Poll::Pending => {
                stalls += 1;
                assert!(stalls < 200, "resolve() does not finish");
                complete(order.next());
            }
        }
    };
    STREAMING.with(|s| s.set(false));
    SENDERS.with(|s| s.borrow_mut().clear());
    let html = resolved.to_html();
    hydrate_markup(&html, &v)
}

/// what the browser has built when the whole response has arrived: the markup parsed, the inline scripts
/// of the out-of-order chunks run in document order, the trailing templates / scripts dropped
pub(crate) fn parse_server_markup(html: &str) -> Element {
    let root = Dom::create_element("div", None);
    parse_into(&root, html);
    let mut scripts = vec![];
    elements_named(&root, "script", &mut scripts);
    for sc in scripts {
        let text = sc.children().first().map(|t| t.data()).unwrap_or_default();
        if text.starts_with("(function() { let id = \"") {
            apply_ooo_script(&root, &text);
        }
    }
    let kids = root.children();
    if let Some(i) = kids.iter().position(|k| k.tag().as_deref() == Some("template")) {
        for k in &kids[i..] {
            Dom::remove(k);
        }
    }
    root
}

/// parse the markup a server form produced (running the out-of-order scripts), hydrate the view with
/// its futures resolved against it and compare with the client-built twin
fn hydrate_markup(html: &str, v: &V) -> Sexp {
    let html = html.to_string();
    let v = v.clone();
    let root = parse_server_markup(&html);
    let tree_s = Lst(root.children().iter().map(tree).collect());
    let before = shape(&root);
    let m0 = ndom::mutations();
    let hyd = catch_unwind(AssertUnwindSafe(|| {
        mk(&v).hydrate::<true>(&Cursor::new(root.clone()), &PositionState::default())
    }));
    let nops = ndom::mutations() - m0;
    let out = match hyd {
        Err(_) => Lst(vec![Sexp::from_str(&html), tree_s, Lst(vec![Num(0)])]),
        Ok(st) => {
            let same = shape(&root) == before;
            let root2 = Dom::create_element("div", None);
            let mut st2 = mk(&v).build();
            st2.mount(&root2, None);
            let csr_eq = visible(&root) == visible(&root2);
            drop(st);
            drop(st2);
            Lst(vec![
                Sexp::from_str(&html),
                tree_s,
                Lst(vec![Num(1), Num(nops as i64)]),
                Sexp::bool(same),
                Sexp::bool(csr_eq),
            ])
        }
    };
    out
}
