//! `h_dom c11`: real `tachys::view::keyed::keyed` lists on the native DOM.
//!
//! case `(m npre npost (l0 l1 … ln))` — items of `m` ∈ {1,2,3} DOM nodes per key, `npre`
//! text siblings before and `npost` after the list (mounted before the first `post`
//! sibling, or appended when there is none); `l0` is built and mounted, every further
//! list is a `rebuild`.
//!
//! case `(20 npre npost (l0 … ln) (shape_0 … shape_{p-1}))` — "shaped rows": the row of key `k` is the
//! view described by `shape_{k mod p}`, every child position type-erased with `into_any()`:
//!   s ::= (0 [kind]) text: kind 0 String, 1 &'static str, 2 Arc<str>, 3 Cow<'static, str>, 4 i64 (the
//!         number key·10^6 + gen·10^3 + j) | (1) `()` | (2) `<span>` | (3 s s [s]) tuple
//!       | (4 s…) keyed list (keys 0.., one item per s) | (5 s…) Vec | (6) None | (6 s) Some | (7 side s) Either
//!       | (8 branch s) EitherOf3 | (9 s [s [s]]) array | (10 s…) StaticVec (non-empty)
//!       | (11) Err / (11 s) Ok of a `Result` | (12 show_b s s) EitherKeepAlive { a: Some, b: Some, show_b }
//! so that a row can BE a keyed list (nested lists) or start with a list / Option / Either / … whose
//! `Mountable::insert_before_this` the outer `apply_diff` calls when it moves or adds a row in front
//! of it.  A text / span node of the row is labelled `key.gen.j`, `j` = its index among ALL the
//! top-level nodes the row owns in mount order (the markers of inner lists and the placeholders of
//! `()` / `None` count, and are reported as comments).
//!
//! In every mode above a step `(-1)` instead of a key list = `state.unmount(); state.mount(&parent, marker)` (the
//! list is hidden and shown again), and after the last step the list is unmounted: the observation has one
//! more entry than the case has steps.
//!
//! modes 4 / 5 (`(4|5 npre npost (l0 … ln))`, npre, npost <= 1 in mode 5) — rows are plain `<span>` / `<li>`
//! elements (no wrapper: the log has only the `view_fn` and `set_index` calls):
//! * 4: `keyed(items, |k| format!("k{k}"), view_fn).add_any_attr(class("row"))` — String keys, and the
//!   `AddAnyAttr for Keyed` path (boxed view_fn; a row without the class is reported with `j + 100`);
//! * 5: the list (between `<b>PRE0</b>` / `<b>POST0</b>` element siblings) is rendered to HTML, parsed into the
//!   parent, HYDRATED (`RenderHtml::hydrate::<true>`: `KeyedState` made by hydration, marker found by the
//!   cursor) and then rebuilt.
//!
//! observation: one entry per step `(children log)`:
//! * children of the parent, each `(key gen j prev)`: `key` ≥ 0 list item (`gen` = number
//!   of the `view_fn` call that built it, `j` = node index within the item), −1/−2 =
//!   pre/post sibling (`j` = its number), −3 = comment (the list's marker); `prev` = index
//!   of this very node (by hook node id) among the children before the step, −1 = new.
//! * log, in call order: `(0 key gen idx)` set_index, `(1 key gen)` item mounted,
//!   `(2 key gen)` item unmounted, `(3 key gen idx)` `view_fn(idx, key)` called.
use crate::util::parent_with_siblings;
use std::{cell::RefCell, rc::Rc};
use either_of::{Either, EitherOf3};
use tachys::{
    html::element::{span, ElementChild},
    renderer::dom::{Element, Kind, Node},
    view::{
        any_view::{AnyView, IntoAny},
        iterators::StaticVec,
        keyed::keyed,
        Mountable, Render,
    },
};
use vsexp::{Lst, Num, Sexp};

type Log = Rc<RefCell<Vec<Sexp>>>;

/// A view that logs when its state is mounted / unmounted and otherwise is `V`.
struct Logged<V> {
    view: V,
    key: i64,
    gen: i64,
    log: Log,
}
struct LoggedState<S> {
    state: S,
    key: i64,
    gen: i64,
    log: Log,
}
impl<V: Render> Render for Logged<V> {
    type State = LoggedState<V::State>;
    fn build(self) -> Self::State {
        LoggedState { state: self.view.build(), key: self.key, gen: self.gen, log: self.log }
    }
    fn rebuild(self, state: &mut Self::State) {
        self.view.rebuild(&mut state.state)
    }
}
impl<S: Mountable> Mountable for LoggedState<S> {
    fn unmount(&mut self) {
        self.log.borrow_mut().push(Sexp::from_nums([2, self.key, self.gen]));
        self.state.unmount()
    }
    fn mount(&mut self, parent: &Element, marker: Option<&Node>) {
        self.log.borrow_mut().push(Sexp::from_nums([1, self.key, self.gen]));
        self.state.mount(parent, marker)
    }
    fn insert_before_this(&self, child: &mut dyn Mountable) -> bool {
        self.state.insert_before_this(child)
    }
    fn elements(&self) -> Vec<Element> {
        self.state.elements()
    }
}

fn label(n: &Node) -> (i64, i64, i64) {
    if n.kind() == Kind::Comment {
        return (-3, 0, 0);
    }
    let t = n.text_content().unwrap_or_default();
    if let Some(r) = t.strip_prefix("PRE") {
        return (-1, 0, r.parse().unwrap());
    }
    if let Some(r) = t.strip_prefix("POST") {
        return (-2, 0, r.parse().unwrap());
    }
    if !t.contains('.') {
        // an i64 row: key·10^6 + gen·10^3 + j
        let n: i64 = t.parse().unwrap();
        return (n / 1_000_000, (n / 1000) % 1000, n % 1000);
    }
    let p: Vec<i64> = t.split('.').map(|x| x.parse().unwrap()).collect();
    (p[0], p[1], p[2])
}

fn children(parent: &Element, before: &[u64]) -> Sexp {
    Lst(parent
        .children()
        .iter()
        .map(|n| {
            let (k, g, j) = label(n);
            let prev = before.iter().position(|b| *b == n.id()).map(|p| p as i64).unwrap_or(-1);
            Sexp::from_nums([k, g, j, prev])
        })
        .collect())
}

thread_local! {
    static PLOG: RefCell<Vec<Sexp>> = RefCell::new(vec![]);
    static PGEN: RefCell<i64> = RefCell::new(0);
}

/// view_fn of the plain modes: logs to the thread-local log (the closure must be `Send`)
fn plain_row<E>(el: fn() -> tachys::html::element::HtmlElement<E, (), ()>)
    -> impl Fn(usize, i64) -> (Box<dyn Fn(usize)>, tachys::html::element::HtmlElement<E, (), (String,)>) + Send + Clone + 'static
where
    E: tachys::html::element::ElementType + 'static,
    tachys::html::element::HtmlElement<E, (), ()>: ElementChild<String, Output = tachys::html::element::HtmlElement<E, (), (String,)>>,
{
    move |idx: usize, k: i64| {
        let g = PGEN.with(|g| {
            let v = *g.borrow();
            *g.borrow_mut() += 1;
            v
        });
        PLOG.with(|l| l.borrow_mut().push(Sexp::from_nums([3, k, g, idx as i64])));
        let set_index: Box<dyn Fn(usize)> =
            Box::new(move |i: usize| PLOG.with(|l| l.borrow_mut().push(Sexp::from_nums([0, k, g, i as i64]))));
        (set_index, el().child(format!("{k}.{g}.0")))
    }
}

fn take_plog() -> Sexp {
    Lst(PLOG.with(|l| std::mem::take(&mut *l.borrow_mut())))
}

/// children of the parent; in the plain modes a row element without the class added by `add_any_attr`
/// is reported with `j + 100`
fn children_plain(parent: &Element, before: &[u64], want_class: bool) -> Sexp {
    Lst(parent
        .children()
        .iter()
        .map(|n| {
            let (k, g, mut j) = label(n);
            if want_class && k >= 0 && !n.classes().iter().any(|c| c == "row") {
                j += 100;
            }
            let prev = before.iter().position(|b| *b == n.id()).map(|p| p as i64).unwrap_or(-1);
            Sexp::from_nums([k, g, j, prev])
        })
        .collect())
}

fn steps_of(c: &Sexp) -> Vec<Vec<i64>> {
    c.at(3).list().iter().map(|l| l.nums()).collect()
}

/// mode 4: String keys and `add_any_attr`
fn go_add_attr(c: &Sexp) -> Sexp {
    use tachys::view::add_attr::AddAnyAttr;
    let (npre, npost) = (c.at(1).num() as usize, c.at(2).num() as usize);
    let lists = steps_of(c);
    PLOG.with(|l| l.borrow_mut().clear());
    PGEN.with(|g| *g.borrow_mut() = 0);
    let view = |items: Vec<i64>| {
        keyed(items, |k: &i64| format!("k{k}"), plain_row(span)).add_any_attr(tachys::html::class::class("row"))
    };
    let (parent, marker) = parent_with_siblings(npre, npost);
    let mut out = vec![];
    let mut before = parent.child_ids();
    let mut state = view(lists[0].clone()).build();
    state.mount(&parent, marker.as_ref());
    out.push(Lst(vec![children_plain(&parent, &before, true), take_plog()]));
    for l in &lists[1..] {
        before = parent.child_ids();
        if l == &[-1] {
            state.unmount();
            state.mount(&parent, marker.as_ref());
        } else {
            view(l.clone()).rebuild(&mut state);
        }
        out.push(Lst(vec![children_plain(&parent, &before, true), take_plog()]));
    }
    before = parent.child_ids();
    state.unmount();
    out.push(Lst(vec![children_plain(&parent, &before, true), take_plog()]));
    Lst(out)
}

/// mode 5: render to HTML, hydrate, then rebuild
fn go_hydrate(c: &Sexp) -> Sexp {
    use tachys::{
        html::element::{b, li},
        hydration::Cursor,
        renderer::dom::Dom,
        view::{PositionState, RenderHtml},
    };
    crate::util::install_parser();
    let (npre, npost) = (c.at(1).num().min(1) as usize, c.at(2).num().min(1) as usize);
    let lists = steps_of(c);
    let list_view = |items: Vec<i64>| keyed(items, |k: &i64| *k, plain_row(li));
    let parent = Dom::create_element("div", None);
    let mut out = vec![];
    macro_rules! run {
        ($view:expr, $s:ident => $k:expr) => {{
            let view = $view;
            PGEN.with(|g| *g.borrow_mut() = 0);
            let html = view(lists[0].clone()).to_html();
            Dom::set_inner_html(&parent, &html);
            PLOG.with(|l| l.borrow_mut().clear());
            PGEN.with(|g| *g.borrow_mut() = 0);
            // the siblings existed "before"; the rows are what the (server-rendered) list added
            let sibs: Vec<u64> = parent.children().iter().filter(|n| label(n).0 < 0 && n.kind() != Kind::Comment).map(|n| n.id()).collect();
            let marker: Option<Node> = parent.children().into_iter().find(|n| label(n).0 == -2);
            let mut state = view(lists[0].clone()).hydrate::<true>(&Cursor::new(parent.clone()), &PositionState::default());
            out.push(Lst(vec![children_plain(&parent, &sibs, false), take_plog()]));
            for l in &lists[1..] {
                let before = parent.child_ids();
                if l == &[-1] {
                    let $s = &mut state;
                    let k = $k;
                    k.unmount();
                    k.mount(&parent, marker.as_ref());
                } else {
                    view(l.clone()).rebuild(&mut state);
                }
                out.push(Lst(vec![children_plain(&parent, &before, false), take_plog()]));
            }
            let before = parent.child_ids();
            {
                let $s = &mut state;
                let k = $k;
                k.unmount();
            }
            out.push(Lst(vec![children_plain(&parent, &before, false), take_plog()]));
        }};
    }
    let pre = || b().child("PRE0");
    let post = || b().child("POST0");
    match (npre, npost) {
        (0, 0) => run!(|l: Vec<i64>| (list_view(l),), s => s),
        (1, 0) => run!(|l: Vec<i64>| (pre(), list_view(l)), s => &mut s.1),
        (0, 1) => run!(|l: Vec<i64>| (list_view(l), post()), s => &mut s.0),
        _ => run!(|l: Vec<i64>| (pre(), list_view(l), post()), s => &mut s.1),
    }
    Lst(out)
}

fn go<V: Render>(c: &Sexp, mk: impl Fn(i64, i64) -> V + Copy) -> Sexp {
    let (npre, npost) = (c.at(1).num() as usize, c.at(2).num() as usize);
    let lists: Vec<Vec<i64>> = c.at(3).list().iter().map(|l| l.nums()).collect();
    let log: Log = Default::default();
    let gen = Rc::new(RefCell::new(0i64));
    let view = |items: Vec<i64>| {
        let (log, gen) = (log.clone(), gen.clone());
        keyed(
            items,
            |k: &i64| *k,
            move |idx: usize, k: i64| {
                let g = *gen.borrow();
                *gen.borrow_mut() += 1;
                log.borrow_mut().push(Sexp::from_nums([3, k, g, idx as i64]));
                let l2 = log.clone();
                (
                    move |i: usize| l2.borrow_mut().push(Sexp::from_nums([0, k, g, i as i64])),
                    Logged { view: mk(k, g), key: k, gen: g, log: log.clone() },
                )
            },
        )
    };
    let (parent, marker) = parent_with_siblings(npre, npost);
    let mut out = vec![];
    let mut before = parent.child_ids();
    let mut state = view(lists[0].clone()).build();
    // steps (-2) / (-3): the list is unmounted (a parent hides it and keeps the state) / mounted again; a step
    // (-4) right after the first list: the list is NOT mounted after build (updates before the first mount).
    // While the list is hidden the `mount` calls of its rows (which cannot reach the DOM) are not logged.
    let mut hidden = lists.get(1).map(|l| l == &[-4]).unwrap_or(false);
    if !hidden {
        state.mount(&parent, marker.as_ref());
    }
    let take_log = |hidden: bool| {
        let l = std::mem::take(&mut *log.borrow_mut());
        Lst(if hidden { l.into_iter().filter(|e| e.at(0).num() != 1).collect() } else { l })
    };
    out.push(Lst(vec![children(&parent, &before), take_log(hidden)]));
    for l in &lists[1..] {
        before = parent.child_ids();
        let mut drop_mounts = hidden;
        if l == &[-1] {
            // hidden and shown again
            state.unmount();
            state.mount(&parent, marker.as_ref());
        } else if l == &[-2] {
            state.unmount();
            hidden = true;
            drop_mounts = false;
        } else if l == &[-3] {
            state.mount(&parent, marker.as_ref());
            hidden = false;
            drop_mounts = false;
        } else if l == &[-4] {
        } else {
            view(l.clone()).rebuild(&mut state);
        }
        out.push(Lst(vec![children(&parent, &before), take_log(drop_mounts)]));
    }
    before = parent.child_ids();
    state.unmount();
    out.push(Lst(vec![children(&parent, &before), take_log(false)]));
    Lst(out)
}

#[derive(Debug, Clone)]
struct Boom;
impl std::fmt::Display for Boom {
    fn fmt(&self, f: &mut std::fmt::Formatter<'_>) -> std::fmt::Result {
        f.write_str("boom")
    }
}
impl std::error::Error for Boom {}

/// the view of one shaped row; `j` counts the top-level nodes the row owns, in mount order
fn shaped(s: &Sexp, k: i64, g: i64, j: &mut i64) -> AnyView {
    let mut label = |j: &mut i64| {
        let t = format!("{k}.{g}.{}", *j);
        *j += 1;
        t
    };
    let args = &s.list()[1..];
    match s.at(0).num() {
        0 => match args.first().map(|a| a.num()).unwrap_or(0) {
            0 => label(j).into_any(),
            1 => {
                let t: &'static str = Box::leak(label(j).into_boxed_str());
                t.into_any()
            }
            2 => std::sync::Arc::<str>::from(label(j).as_str()).into_any(),
            3 => std::borrow::Cow::<'static, str>::Owned(label(j)).into_any(),
            _ => {
                let n = k * 1_000_000 + g * 1000 + *j;
                *j += 1;
                n.into_any()
            }
        },
        11 => match args.first() {
            Some(x) => Ok::<AnyView, Boom>(shaped(x, k, g, j)).into_any(),
            None => {
                *j += 1;
                Err::<AnyView, Boom>(Boom).into_any()
            }
        },
        12 => {
            // both sides are built, only the shown one is mounted
            let show_b = s.at(1).num() != 0;
            let mut hidden = 0;
            let a = shaped(s.at(2), k, g, if show_b { &mut hidden } else { &mut *j });
            let b = shaped(s.at(3), k, g, if show_b { &mut *j } else { &mut hidden });
            tachys::view::either::EitherKeepAlive::<AnyView, AnyView> { a: Some(a), b: Some(b), show_b }.into_any()
        }
        1 => {
            *j += 1;
            ().into_any()
        }
        2 => span().child(label(j)).into_any(),
        3 => {
            let mut kids: Vec<AnyView> = args.iter().map(|x| shaped(x, k, g, j)).collect();
            if kids.len() == 2 {
                let b = kids.pop().unwrap();
                let a = kids.pop().unwrap();
                (a, b).into_any()
            } else {
                let c = kids.pop().unwrap();
                let b = kids.pop().unwrap();
                let a = kids.pop().unwrap();
                (a, b, c).into_any()
            }
        }
        4 => {
            // rows first, then the list's own marker
            let items: Vec<(usize, AnyView)> = args.iter().map(|x| shaped(x, k, g, j)).enumerate().collect();
            *j += 1;
            keyed(items, |kv: &(usize, AnyView)| kv.0, |_i: usize, kv: (usize, AnyView)| (|_: usize| {}, kv.1)).into_any()
        }
        5 => {
            let kids: Vec<AnyView> = args.iter().map(|x| shaped(x, k, g, j)).collect();
            *j += 1;
            kids.into_any()
        }
        6 => match args.first() {
            Some(x) => Some(shaped(x, k, g, j)).into_any(),
            None => {
                *j += 1;
                None::<AnyView>.into_any()
            }
        },
        7 => {
            let child = shaped(s.at(2), k, g, j);
            if s.at(1).num() == 0 {
                Either::<AnyView, AnyView>::Left(child).into_any()
            } else {
                Either::<AnyView, AnyView>::Right(child).into_any()
            }
        }
        8 => {
            let child = shaped(s.at(2), k, g, j);
            match s.at(1).num() {
                0 => EitherOf3::<AnyView, AnyView, AnyView>::A(child).into_any(),
                1 => EitherOf3::<AnyView, AnyView, AnyView>::B(child).into_any(),
                _ => EitherOf3::<AnyView, AnyView, AnyView>::C(child).into_any(),
            }
        }
        9 => {
            let mut kids: Vec<AnyView> = args.iter().map(|x| shaped(x, k, g, j)).collect();
            match kids.len() {
                1 => [kids.pop().unwrap()].into_any(),
                2 => {
                    let b = kids.pop().unwrap();
                    let a = kids.pop().unwrap();
                    [a, b].into_any()
                }
                _ => {
                    let c = kids.pop().unwrap();
                    let b = kids.pop().unwrap();
                    let a = kids.pop().unwrap();
                    [a, b, c].into_any()
                }
            }
        }
        _ => StaticVec::from(args.iter().map(|x| shaped(x, k, g, j)).collect::<Vec<AnyView>>()).into_any(),
    }
}

pub fn run(c: &Sexp) -> Sexp {
    let t = |k: i64, g: i64, j: i64| format!("{k}.{g}.{j}");
    match c.at(0).num() {
        11 | 12 | 13 => crate::c11for::run(c),
        14 => crate::c11store::run(c),
        4 => go_add_attr(c),
        5 => go_hydrate(c),
        20 => {
            let shapes = c.at(4).list();
            go(c, |k, g| shaped(&shapes[k as usize % shapes.len()], k, g, &mut 0))
        }
        1 => go(c, |k, g| t(k, g, 0)),
        2 => go(c, |k, g| (t(k, g, 0), t(k, g, 1))),
        3 => go(c, |k, g| (t(k, g, 0), span().child(t(k, g, 1)), t(k, g, 2))),
        m => Lst(vec![Num(-1), Num(m)]),
    }
}
