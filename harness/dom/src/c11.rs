//! `h_dom c11`: real `tachys::view::keyed::keyed` lists on the native DOM.
//!
//! case `(m npre npost (l0 l1 … ln))` — items of `m` ∈ {1,2,3} DOM nodes per key, `npre`
//! text siblings before and `npost` after the list (mounted before the first `post`
//! sibling, or appended when there is none); `l0` is built and mounted, every further
//! list is a `rebuild`.
//!
//! observation: one entry per step `(children log)`:
//! * children of the parent, each `(key gen j prev)`: `key` ≥ 0 list item (`gen` = number
//!   of the `view_fn` call that built it, `j` = node index within the item), −1/−2 =
//!   pre/post sibling (`j` = its number), −3 = comment (the list's marker); `prev` = index
//!   of this very node (by hook node id) among the children before the step, −1 = new.
//! * log, in call order: `(0 key gen idx)` set_index, `(1 key gen)` item mounted,
//!   `(2 key gen)` item unmounted, `(3 key gen idx)` `view_fn(idx, key)` called.
use crate::util::parent_with_siblings;
use std::{cell::RefCell, rc::Rc};
use tachys::{
    html::element::{span, ElementChild},
    renderer::dom::{Element, Kind, Node},
    view::{keyed::keyed, Mountable, Render},
};
use vsexp::{Lst, Num, Sexp};

type Log = Rc<RefCell<Vec<Sexp>>>;

/// A view that logs when its state is mounted / unmounted and otherwise is `V`.
struct Logged<V> {
    view: V,
    key: i64,
    gen: i64,
    log: Log,
}
struct LoggedState<S> {
    state: S,
    key: i64,
    gen: i64,
    log: Log,
}
impl<V: Render> Render for Logged<V> {
    type State = LoggedState<V::State>;
    fn build(self) -> Self::State {
        LoggedState { state: self.view.build(), key: self.key, gen: self.gen, log: self.log }
    }
    fn rebuild(self, state: &mut Self::State) {
        self.view.rebuild(&mut state.state)
    }
}
impl<S: Mountable> Mountable for LoggedState<S> {
    fn unmount(&mut self) {
        self.log.borrow_mut().push(Sexp::from_nums([2, self.key, self.gen]));
        self.state.unmount()
    }
    fn mount(&mut self, parent: &Element, marker: Option<&Node>) {
        self.log.borrow_mut().push(Sexp::from_nums([1, self.key, self.gen]));
        self.state.mount(parent, marker)
    }
    fn insert_before_this(&self, child: &mut dyn Mountable) -> bool {
        self.state.insert_before_this(child)
    }
    fn elements(&self) -> Vec<Element> {
        self.state.elements()
    }
}

fn label(n: &Node) -> (i64, i64, i64) {
    if n.kind() == Kind::Comment {
        return (-3, 0, 0);
    }
    let t = n.text_content().unwrap_or_default();
    if let Some(r) = t.strip_prefix("PRE") {
        return (-1, 0, r.parse().unwrap());
    }
    if let Some(r) = t.strip_prefix("POST") {
        return (-2, 0, r.parse().unwrap());
    }
    let p: Vec<i64> = t.split('.').map(|x| x.parse().unwrap()).collect();
    (p[0], p[1], p[2])
}

fn children(parent: &Element, before: &[u64]) -> Sexp {
    Lst(parent
        .children()
        .iter()
        .map(|n| {
            let (k, g, j) = label(n);
            let prev = before.iter().position(|b| *b == n.id()).map(|p| p as i64).unwrap_or(-1);
            Sexp::from_nums([k, g, j, prev])
        })
        .collect())
}

fn go<V: Render>(c: &Sexp, mk: impl Fn(i64, i64) -> V + Copy) -> Sexp {
    let (npre, npost) = (c.at(1).num() as usize, c.at(2).num() as usize);
    let lists: Vec<Vec<i64>> = c.at(3).list().iter().map(|l| l.nums()).collect();
    let log: Log = Default::default();
    let gen = Rc::new(RefCell::new(0i64));
    let view = |items: Vec<i64>| {
        let (log, gen) = (log.clone(), gen.clone());
        keyed(
            items,
            |k: &i64| *k,
            move |idx: usize, k: i64| {
                let g = *gen.borrow();
                *gen.borrow_mut() += 1;
                log.borrow_mut().push(Sexp::from_nums([3, k, g, idx as i64]));
                let l2 = log.clone();
                (
                    move |i: usize| l2.borrow_mut().push(Sexp::from_nums([0, k, g, i as i64])),
                    Logged { view: mk(k, g), key: k, gen: g, log: log.clone() },
                )
            },
        )
    };
    let (parent, marker) = parent_with_siblings(npre, npost);
    let mut out = vec![];
    let mut before = parent.child_ids();
    let mut state = view(lists[0].clone()).build();
    state.mount(&parent, marker.as_ref());
    out.push(Lst(vec![children(&parent, &before), Lst(std::mem::take(&mut *log.borrow_mut()))]));
    for l in &lists[1..] {
        before = parent.child_ids();
        view(l.clone()).rebuild(&mut state);
        out.push(Lst(vec![children(&parent, &before), Lst(std::mem::take(&mut *log.borrow_mut()))]));
    }
    Lst(out)
}

pub fn run(c: &Sexp) -> Sexp {
    let t = |k: i64, g: i64, j: i64| format!("{k}.{g}.{j}");
    match c.at(0).num() {
        11 | 12 => crate::c11for::run(c),
        1 => go(c, |k, g| t(k, g, 0)),
        2 => go(c, |k, g| (t(k, g, 0), t(k, g, 1))),
        3 => go(c, |k, g| (t(k, g, 0), span().child(t(k, g, 1)), t(k, g, 2))),
        m => Lst(vec![Num(-1), Num(m)]),
    }
}
