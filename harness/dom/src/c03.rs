//! `h_dom c03`: updating a view in place vs rendering it fresh, on real tachys views.
//!
//! case `(npre npost v0 (v1 … vn))`: `v0` is built and mounted between `npre` / `npost`
//! text siblings of a `<div>`, then rebuilt with `v1 … vn`, then unmounted.
//! view  v ::= (0 bytes) text | (1) unit | (2 tag (id? hidden class on color) v) element, tag = 0 p,
//!             1 span, 2 div, and the raw-text elements (`ElementType::ESCAPE_CHILDREN == false`)
//!             3 textarea, 4 style, 5 script, 6 noscript
//!           | (3 (v v) | (v v v)) tuple | (4 side v) Either | (5 () | (v)) Option
//!           | (6 (v…)) Vec | (7 (v…)) StaticVec | (8 ((key v)…)) keyed list
//!           | (9 d) the i32 d (0..9) | (10 bytes) &'static str | (11 branch v) EitherOf3
//!           | (12 (v…)) array [AnyView; N], N <= 3
//!           | (13 kind bytes) text as 0 Arc<str>, 1 Cow::Borrowed, 2 Cow::Owned (erased: Cow -> String)
//!           | (14 kind d) the digit d as a primitive of type `kind` (see `prim`), e.g. u8, i128, f64, char, bool, Ipv4Addr
//!           | (15 v) the 1-tuple (v,) | tuples (3 (v…)) have 2..=8 members
//!           | (16 n branch v) EitherOfN, n in 4 | 5 | 8 | 16 | (17 () | (v)) Result Err / Ok(v)
//!           | (18 show_b (a?) (b?) (fa?) (fb?)) EitherKeepAlive { a, b, show_b }: `None` = "no change"; fa / fb = the
//!             value each side holds after this step (what the from-scratch render of this step uses)
//!           | (19 i) InertElement with the i-th of a few HTML strings
//!           (7 with an odd number of members goes through `Fragment::new(..)` and `AnyView::from`)
//! Every child position is an `AnyView` (`into_any()`), so a change of shape at any position
//! is a change of the underlying type; equal shapes go through the typed `rebuild`.
//!
//! observation: `(s0 (s1 f1) … (sn fn) u)`: children of the parent after mount, after each
//! rebuild (with the children of a fresh parent in which `vi` was built and mounted from
//! scratch), and after unmount.  A node is `(0 bytes old)` text, `(1 old)` comment,
//! `(2 tag (id? hidden class? color?) (children…) old)`; `old` = 1 if this very node (hook
//! node id) was already in the parent's subtree before the step.
use crate::util::parent_with_siblings;
use either_of::{Either, EitherOf16, EitherOf3, EitherOf4, EitherOf5, EitherOf8};
use std::collections::HashSet;
use tachys::{
    html::{
        attribute::global::{ClassAttribute, GlobalAttributes, StyleAttribute},
        element::{div, noscript, p, script, span, style, textarea, ElementChild},
    },
    renderer::dom::{Kind, Node},
    view::{
        any_view::{AnyView, IntoAny},
        either::EitherKeepAlive,
        fragment::Fragment,
        iterators::StaticVec,
        keyed::keyed,
        Mountable, Render,
    },
};

#[derive(Debug, Clone)]
pub struct Boom;
impl std::fmt::Display for Boom {
    fn fmt(&self, f: &mut std::fmt::Formatter<'_>) -> std::fmt::Result {
        f.write_str("boom")
    }
}
impl std::error::Error for Boom {}

pub const INERT: [&str; 4] = [
    "<p>inert</p>",
    "<div class=\"a b\"><span>x</span>y</div>",
    "<span id=\"i\"></span>",
    "<p>other</p>",
];

/// the digit `d` (0..=9) as a primitive of the given kind; what it displays is in gen/c03.py `prim_text`
pub fn prim(kind: i64, d: i64) -> AnyView {
    use std::net::{IpAddr, Ipv4Addr, Ipv6Addr, SocketAddr, SocketAddrV4, SocketAddrV6};
    use std::num::*;
    let v4 = Ipv4Addr::new(127, 0, 0, d as u8);
    let v6 = Ipv6Addr::new(0, 0, 0, 0, 0, 0, 0, d as u16 + 1);
    match kind {
        0 => (d as u8).into_any(),
        1 => (d as u16).into_any(),
        2 => (d as u32).into_any(),
        3 => (d as u64).into_any(),
        4 => (d as u128).into_any(),
        5 => (d as usize).into_any(),
        6 => (-(d as i8)).into_any(),
        7 => (-(d as i16)).into_any(),
        8 => (-d).into_any(),
        9 => (-(d as i128)).into_any(),
        10 => (-(d as isize)).into_any(),
        11 => (d as f32 + 0.5).into_any(),
        12 => (d as f64 + 0.25).into_any(),
        13 => char::from(b'a' + d as u8).into_any(),
        14 => (d % 2 == 1).into_any(),
        15 => v4.into_any(),
        16 => v6.into_any(),
        17 => IpAddr::V4(v4).into_any(),
        18 => SocketAddrV4::new(v4, 80).into_any(),
        19 => SocketAddrV6::new(v6, 80, 0, 0).into_any(),
        20 => SocketAddr::V4(SocketAddrV4::new(v4, 81)).into_any(),
        21 => NonZeroU8::new(d as u8 + 1).unwrap().into_any(),
        22 => NonZeroI8::new(-(d as i8) - 1).unwrap().into_any(),
        23 => NonZeroU16::new(d as u16 + 1).unwrap().into_any(),
        24 => NonZeroI16::new(d as i16 + 1).unwrap().into_any(),
        25 => NonZeroU32::new(d as u32 + 1).unwrap().into_any(),
        26 => NonZeroI32::new(d as i32 + 1).unwrap().into_any(),
        27 => NonZeroU64::new(d as u64 + 1).unwrap().into_any(),
        28 => NonZeroI64::new(d + 1).unwrap().into_any(),
        29 => NonZeroU128::new(d as u128 + 1).unwrap().into_any(),
        30 => NonZeroI128::new(d as i128 + 1).unwrap().into_any(),
        31 => NonZeroUsize::new(d as usize + 1).unwrap().into_any(),
        _ => NonZeroIsize::new(d as isize + 1).unwrap().into_any(),
    }
}
use vsexp::{Lst, Num, Sexp};

fn opt_str(s: &Sexp) -> Option<String> {
    s.list().first().map(|b| b.string().unwrap())
}

macro_rules! element {
    ($ctor:ident, $a:expr, $child:expr) => {{
        let a = $a;
        $ctor()
            .id(opt_str(a.at(0)))
            .hidden(a.at(1).num() != 0)
            .class(a.at(2).string().unwrap())
            .class(("on", a.at(3).num() != 0))
            .style(("color", a.at(4).string().unwrap()))
            .child($child)
            .into_any()
    }};
}

pub fn to_view(v: &Sexp) -> AnyView {
    to_view_opt(v, false)
}

/// `fresh`: the value as rendered from scratch (an EitherKeepAlive with the values its sides hold)
pub fn to_view_opt(v: &Sexp, fresh: bool) -> AnyView {
    let to_view = |v: &Sexp| to_view_opt(v, fresh);
    let kids = |s: &Sexp| s.list().iter().map(to_view).collect::<Vec<_>>();
    match v.at(0).num() {
        0 => v.at(1).string().unwrap().into_any(),
        1 => ().into_any(),
        2 => {
            let child = to_view(v.at(3));
            match v.at(1).num() {
                0 => element!(p, v.at(2), child),
                1 => element!(span, v.at(2), child),
                2 => element!(div, v.at(2), child),
                3 => element!(textarea, v.at(2), child),
                4 => element!(style, v.at(2), child),
                5 => element!(script, v.at(2), child),
                _ => element!(noscript, v.at(2), child),
            }
        }
        3 => {
            let mut k = kids(v.at(1)).into_iter();
            let mut n = || k.next().unwrap();
            match v.at(1).list().len() {
                2 => (n(), n()).into_any(),
                3 => (n(), n(), n()).into_any(),
                4 => (n(), n(), n(), n()).into_any(),
                5 => (n(), n(), n(), n(), n()).into_any(),
                6 => (n(), n(), n(), n(), n(), n()).into_any(),
                7 => (n(), n(), n(), n(), n(), n(), n()).into_any(),
                _ => (n(), n(), n(), n(), n(), n(), n(), n()).into_any(),
            }
        }
        13 => {
            let t = v.at(2).string().unwrap();
            match v.at(1).num() {
                0 => std::sync::Arc::<str>::from(t.as_str()).into_any(),
                1 => {
                    let t: &'static str = Box::leak(t.into_boxed_str());
                    std::borrow::Cow::Borrowed(t).into_any()
                }
                _ => std::borrow::Cow::<'static, str>::Owned(t).into_any(),
            }
        }
        14 => prim(v.at(1).num(), v.at(2).num()),
        15 => (to_view(v.at(1)),).into_any(),
        16 => {
            let child = to_view(v.at(3));
            let b = v.at(2).num();
            type A = AnyView;
            match v.at(1).num() {
                4 => match b {
                    0 => EitherOf4::<A, A, A, A>::A(child).into_any(),
                    1 => EitherOf4::<A, A, A, A>::B(child).into_any(),
                    2 => EitherOf4::<A, A, A, A>::C(child).into_any(),
                    _ => EitherOf4::<A, A, A, A>::D(child).into_any(),
                },
                5 => match b {
                    0 => EitherOf5::<A, A, A, A, A>::A(child).into_any(),
                    1 => EitherOf5::<A, A, A, A, A>::B(child).into_any(),
                    2 => EitherOf5::<A, A, A, A, A>::C(child).into_any(),
                    3 => EitherOf5::<A, A, A, A, A>::D(child).into_any(),
                    _ => EitherOf5::<A, A, A, A, A>::E(child).into_any(),
                },
                8 => match b {
                    0 => EitherOf8::<A, A, A, A, A, A, A, A>::A(child).into_any(),
                    1 => EitherOf8::<A, A, A, A, A, A, A, A>::D(child).into_any(),
                    2 => EitherOf8::<A, A, A, A, A, A, A, A>::G(child).into_any(),
                    _ => EitherOf8::<A, A, A, A, A, A, A, A>::H(child).into_any(),
                },
                _ => match b {
                    0 => EitherOf16::<A, A, A, A, A, A, A, A, A, A, A, A, A, A, A, A>::A(child).into_any(),
                    1 => EitherOf16::<A, A, A, A, A, A, A, A, A, A, A, A, A, A, A, A>::I(child).into_any(),
                    2 => EitherOf16::<A, A, A, A, A, A, A, A, A, A, A, A, A, A, A, A>::O(child).into_any(),
                    _ => EitherOf16::<A, A, A, A, A, A, A, A, A, A, A, A, A, A, A, A>::P(child).into_any(),
                },
            }
        }
        17 => match v.at(1).list().first() {
            Some(x) => Ok::<AnyView, Boom>(to_view(x)).into_any(),
            None => Err::<AnyView, Boom>(Boom).into_any(),
        },
        18 => EitherKeepAlive::<AnyView, AnyView> {
            a: v.at(if fresh { 4 } else { 2 }).list().first().map(to_view),
            b: v.at(if fresh { 5 } else { 3 }).list().first().map(to_view),
            show_b: v.at(1).num() != 0,
        }
        .into_any(),
        19 => tachys::html::InertElement::new(INERT[v.at(1).num() as usize % INERT.len()]).into_any(),
        4 => {
            let child = to_view(v.at(2));
            if v.at(1).num() == 0 {
                Either::<AnyView, AnyView>::Left(child).into_any()
            } else {
                Either::<AnyView, AnyView>::Right(child).into_any()
            }
        }
        5 => v.at(1).list().first().map(to_view).into_any(),
        6 => kids(v.at(1)).into_any(),
        7 => {
            let k = kids(v.at(1));
            if k.len() % 2 == 1 {
                AnyView::from(Fragment::new(k))
            } else {
                StaticVec::from(k).into_any()
            }
        }
        9 => (v.at(1).num() as i32).into_any(),
        10 => {
            let t: &'static str = Box::leak(v.at(1).string().unwrap().into_boxed_str());
            t.into_any()
        }
        11 => {
            let child = to_view(v.at(2));
            match v.at(1).num() {
                0 => EitherOf3::<AnyView, AnyView, AnyView>::A(child).into_any(),
                1 => EitherOf3::<AnyView, AnyView, AnyView>::B(child).into_any(),
                _ => EitherOf3::<AnyView, AnyView, AnyView>::C(child).into_any(),
            }
        }
        12 => {
            let mut k = kids(v.at(1));
            match k.len() {
                0 => { let a: [AnyView; 0] = []; a.into_any() }
                1 => { let a: [AnyView; 1] = [k.pop().unwrap()]; a.into_any() }
                2 => { let b = k.pop().unwrap(); let a = k.pop().unwrap(); [a, b].into_any() }
                _ => { let c = k.pop().unwrap(); let b = k.pop().unwrap(); let a = k.pop().unwrap(); [a, b, c].into_any() }
            }
        }
        _ => {
            let items: Vec<(i64, Sexp)> = v.at(1).list().iter().map(|kv| (kv.at(0).num(), kv.at(1).clone())).collect();
            keyed(items, |kv: &(i64, Sexp)| kv.0, move |_i: usize, kv: (i64, Sexp)| (|_: usize| {}, to_view_opt(&kv.1, fresh))).into_any()
        }
    }
}

fn collect_ids(n: &Node, out: &mut HashSet<u64>) {
    out.insert(n.id());
    for c in n.children() {
        collect_ids(&c, out);
    }
}

fn ser(n: &Node, old: &HashSet<u64>) -> Sexp {
    let o = Num(old.contains(&n.id()) as i64);
    match n.kind() {
        Kind::Text => Lst(vec![Num(0), Sexp::from_str(&n.data()), o]),
        Kind::Comment => Lst(vec![Num(1), o]),
        Kind::Fragment => Lst(vec![Num(9), o]),
        Kind::Element { tag, .. } => {
            let t = match tag.as_str() {
                "p" => 0,
                "span" => 1,
                "div" => 2,
                "textarea" => 3,
                "style" => 4,
                "script" => 5,
                "noscript" => 6,
                _ => 7,
            };
            let opt = |name: &str| match n.get_attribute(name) {
                Some(v) => Lst(vec![Sexp::from_str(&v)]),
                None => Lst(vec![]),
            };
            let color = match n.styles().iter().find(|s| s.0 == "color") {
                Some(s) => Lst(vec![Sexp::from_str(&s.1)]),
                None => Lst(vec![]),
            };
            let attrs = Lst(vec![opt("id"), Num(n.get_attribute("hidden").is_some() as i64), opt("class"), color]);
            Lst(vec![Num(2), Num(t), attrs, Lst(n.children().iter().map(|c| ser(c, old)).collect()), o])
        }
    }
}

fn children(parent: &Node, old: &HashSet<u64>) -> Sexp {
    Lst(parent.children().iter().map(|c| ser(c, old)).collect())
}

/// a panic inside tachys (a rebuild of a view that lost its parent) is reported as `(-9)`,
/// which is also what the model answers when it predicts the panic
pub fn run(c: &Sexp) -> Sexp {
    match std::panic::catch_unwind(std::panic::AssertUnwindSafe(|| run_case(c))) {
        Ok(v) => v,
        Err(e) => {
            if std::env::var_os("H_DOM_PANIC_MSG").is_some() {
                let msg = e.downcast_ref::<String>().cloned().or_else(|| e.downcast_ref::<&str>().map(|s| s.to_string()));
                eprintln!("panic: {msg:?}");
            }
            Lst(vec![Num(-9)])
        }
    }
}

fn run_case(c: &Sexp) -> Sexp {
    if c.at(2).at(0).num() == 30 {
        return crate::c03t::run_case(c); // statically typed templates
    }
    crate::util::install_parser(); // InertElement
    let (npre, npost) = (c.at(0).num() as usize, c.at(1).num() as usize);
    let (parent, marker) = parent_with_siblings(npre, npost);
    let mut old = HashSet::new();
    collect_ids(&parent, &mut old);
    let mut out = vec![];
    let mut state = to_view(c.at(2)).build();
    state.mount(&parent, marker.as_ref());
    out.push(children(&parent, &old));
    for v in c.at(3).list() {
        old.clear();
        collect_ids(&parent, &mut old);
        to_view(v).rebuild(&mut state);
        let after = children(&parent, &old);
        // the same value rendered from scratch between the same siblings
        let (fresh_parent, fresh_marker) = parent_with_siblings(npre, npost);
        let mut fresh_old = HashSet::new();
        collect_ids(&fresh_parent, &mut fresh_old);
        let mut fresh = to_view_opt(v, true).build();
        fresh.mount(&fresh_parent, fresh_marker.as_ref());
        out.push(Lst(vec![after, children(&fresh_parent, &fresh_old)]));
    }
    old.clear();
    collect_ids(&parent, &mut old);
    state.unmount();
    out.push(children(&parent, &old));
    Lst(out)
}
