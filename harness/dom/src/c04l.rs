//! `h_dom c04`, leptos-level mode: generated component trees over the REAL `<Show>`, `<For>` /
//! `<ForEnumerate>`, `<Suspense>` / `<Transition>` with `LocalResource`s (oneshot-controlled fetchers,
//! read through `Suspend` and through `.get()`), `<ErrorBoundary>`, nested, with dynamic text and
//! dynamic-property leaves, mounted with `leptos::mount::mount_to_renderer` on the native DOM under
//! the harness-owned executor of `c04.rs`.
//!
//! case `(7 tree resources sigs steps (unmount drain))`
//!   tree ::= (0 n) text | (1 l e) `{move || e}` | (2 props kids) `<div ..>` | (3 l c a b) `<Show when=c!=0
//!            fallback=b>a</Show>` | (4 l enum sig lists row) `<For>`/`<ForEnumerate>` over lists[sig], each row
//!            `<div>{key-or-index*100+key} {row}</div>` | (5 l transition kids) `<Suspense>`/`<Transition>` with
//!            fallback "-(l)" | (6 l r) `{move || Suspend::new(async move { res_r.await })}` | (7 l r)
//!            `{move || res_r.get().unwrap_or(-1)}` | (8 l e kid) `<ErrorBoundary fallback="-(l)">{move || if e!=0
//!            { Ok(kid) } else { Err(..) }}</ErrorBoundary>`
//!   resources ::= (source_expr ..): `LocalResource::new(move || { let x = source; async { wait; 10*x + r } })`
//!   steps ::= ((writes picks completions) ..), completions ((r 0)|(r 1) ..) as in the extended tachys mode
//! observation: per idle point `(log nodes fresh_eq)` (as the extended mode), one more entry after all
//! futures were completed, and — if `unmount` — `(log n_children mutations)` observed after the mount
//! handle was dropped, every signal written and every future completed.
use crate::c04::{
    complete, complete_of, dec_expr, eval, exec, log, new_future, strip_status, top, Sigs, E, EXT, FRESH, FUTURES, LOG,
};
use leptos::{mount::mount_to_renderer, prelude::*};
use std::{collections::HashMap, sync::Arc};
use tachys::{reactive_graph::Suspend, renderer::dom::{self as ndom, Dom}};
use vsexp::{Lst, Num, Sexp};

#[derive(Clone, Debug)]
pub(crate) enum L {
    /// a fragment of 0..3 views (op 9)
    Frag(Vec<L>),
    /// "no fallback given" (op 10, only as the fallback of a Show)
    Nothing,
    Static(i64),
    Dyn(i64, E),
    Elem(Vec<(i64, i64, E)>, Vec<L>),
    Show(i64, E, Arc<L>, Arc<L>),
    For(i64, bool, usize, Vec<Vec<i64>>, Arc<L>),
    /// flags: bit 0 Transition, bit 1 no fallback prop
    Susp(i64, i64, Vec<L>),
    ResAwait(i64, usize),
    ResGet(i64, usize),
    Boundary(i64, E, Arc<L>),
    /// (11 l mode e kid): `<ErrorBoundary>{move || if mode == 0 { Either::Left("900+l") } else { Either::Right(if e != 0
    /// { Ok(kid) } else { Err }) }}</ErrorBoundary>`: a BRANCHING dynamic child that contains a `Result` (an Err
    /// first built, or dropped, by a re-run of the closure)
    Branchy(i64, E, E, Arc<L>),
}

pub(crate) fn dec(s: &Sexp) -> L {
    match s.at(0).num() {
        0 => L::Static(s.at(1).num()),
        1 => L::Dyn(s.at(1).num(), dec_expr(s.at(2))),
        2 => L::Elem(
            s.at(1).list().iter().map(|p| (p.at(0).num(), p.at(1).num(), dec_expr(p.at(2)))).collect(),
            s.at(2).list().iter().map(dec).collect(),
        ),
        3 => L::Show(s.at(1).num(), dec_expr(s.at(2)), Arc::new(dec(s.at(3))), Arc::new(dec(s.at(4)))),
        4 => L::For(
            s.at(1).num(),
            s.at(2).num() != 0,
            s.at(3).num() as usize,
            s.at(4).list().iter().map(|l| l.nums()).collect(),
            Arc::new(dec(s.at(5))),
        ),
        5 => L::Susp(s.at(1).num(), s.at(2).num(), s.at(3).list().iter().map(dec).collect()),
        6 => L::ResAwait(s.at(1).num(), s.at(2).num() as usize),
        7 => L::ResGet(s.at(1).num(), s.at(2).num() as usize),
        9 => L::Frag(s.at(1).list().iter().map(dec).collect()),
        10 => L::Nothing,
        11 => L::Branchy(s.at(1).num(), dec_expr(s.at(2)), dec_expr(s.at(3)), Arc::new(dec(s.at(4)))),
        _ => L::Boundary(s.at(1).num(), dec_expr(s.at(2)), Arc::new(dec(s.at(3)))),
    }
}

/// the resource representations (case flag `reskind`): all read the same two ways
#[derive(Clone)]
pub(crate) enum Res {
    Local(LocalResource<i64>),
    ArcLocal(ArcLocalResource<i64>),
    Server(Resource<i64>),
}
impl Res {
    fn get(&self) -> Option<i64> {
        match self {
            Res::Local(r) => r.get(),
            Res::ArcLocal(r) => r.get(),
            Res::Server(r) => r.get(),
        }
    }
    async fn wait(self) -> i64 {
        match self {
            Res::Local(r) => r.await,
            Res::ArcLocal(r) => r.await,
            Res::Server(r) => r.await,
        }
    }
}

#[derive(Clone)]
pub(crate) struct Ctx {
    pub sigs: Sigs,
    pub res: Arc<Vec<Res>>,
}

/// label offset of the futures of resource r
pub const RES: i64 = 1000;

#[derive(Debug, Clone)]
struct Boom;
impl std::fmt::Display for Boom {
    fn fmt(&self, f: &mut std::fmt::Formatter<'_>) -> std::fmt::Result {
        f.write_str("boom")
    }
}
impl std::error::Error for Boom {}

fn many(ls: &[L], cx: &Ctx) -> AnyView {
    ls.iter().map(|l| mk(l, cx)).collect::<Vec<_>>().into_any()
}

pub(crate) fn mk(l: &L, cx: &Ctx) -> AnyView {
    match l {
        L::Frag(kids) => many(kids, cx),
        L::Nothing => ().into_any(),
        L::Static(n) => n.to_string().into_any(),
        L::Dyn(lb, e) => {
            let (lb, e, s) = (*lb, e.clone(), cx.sigs.clone());
            (move || {
                log(lb);
                eval(&e, &s).to_string()
            })
            .into_any()
        }
        L::Elem(props, kids) => {
            use tachys::{
                html::{
                    attribute::{any_attribute::{AnyAttribute, IntoAnyAttribute}, title},
                    class::class,
                    element::ElementChild,
                    style::style,
                },
                view::add_attr::AddAnyAttr,
            };
            let mut attrs: Vec<AnyAttribute> = vec![];
            for (k, lb, e) in props {
                let (lb, e, s) = (*lb, e.clone(), cx.sigs.clone());
                attrs.push(match k {
                    0 => title(move || { log(lb); eval(&e, &s).to_string() }).into_any_attr(),
                    1 => class(move || { log(lb); format!("c{}", eval(&e, &s)) }).into_any_attr(),
                    2 => class(("on", move || { log(lb); eval(&e, &s) != 0 })).into_any_attr(),
                    _ => style(("width", move || { log(lb); format!("{}px", eval(&e, &s)) })).into_any_attr(),
                });
            }
            leptos::html::div().add_any_attr(attrs).child(many(kids, cx)).into_any()
        }
        L::Show(_lb, c, a, b) => {
            let (c, s) = (c.clone(), cx.sigs.clone());
            let (a, b, cxa, cxb) = (a.clone(), b.clone(), cx.clone(), cx.clone());
            if matches!(*b, L::Nothing) {
                // no `fallback` prop: `ViewFn::default()`
                return view! {
                    <Show when={move || eval(&c, &s) != 0}>
                        {mk(&a, &cxa)}
                    </Show>
                }
                .into_any();
            }
            view! {
                <Show when={move || eval(&c, &s) != 0} fallback={move || mk(&b, &cxb)}>
                    {mk(&a, &cxa)}
                </Show>
            }
            .into_any()
        }
        L::For(lb, enumerate, i, lists, row) => {
            let (lb, i, lists, s) = (*lb, *i, lists.clone(), cx.sigs.clone());
            let each = move || {
                log(lb);
                let n = s.get(i).map(|x| x.get()).unwrap_or(0);
                if lists.is_empty() { vec![] } else { lists[n.rem_euclid(lists.len() as i64) as usize].clone() }
            };
            let (row, cxr) = (row.clone(), cx.clone());
            if *enumerate {
                view! {
                    <ForEnumerate each={each} key={|k: &i64| *k}
                        children={move |idx: ReadSignal<usize>, k: i64| {
                            view! { <div>{move || (idx.get() as i64 * 100 + k).to_string()}{mk(&row, &cxr)}</div> }
                        }}
                    />
                }
                .into_any()
            } else {
                view! {
                    <For each={each} key={|k: &i64| *k}
                        children={move |k: i64| {
                            view! { <div>{k.to_string()}{mk(&row, &cxr)}</div> }
                        }}
                    />
                }
                .into_any()
            }
        }
        L::Susp(lb, flags, kids) => {
            let fb = format!("-{lb}");
            let (kids, cxk) = (kids.clone(), cx.clone());
            let transition = flags & 1 != 0;
            if flags & 2 != 0 {
                // no `fallback` prop: `ViewFnOnce::default()`
                return if transition {
                    view! { <Transition>{many(&kids, &cxk)}</Transition> }.into_any()
                } else {
                    view! { <Suspense>{many(&kids, &cxk)}</Suspense> }.into_any()
                };
            }
            if transition {
                view! { <Transition fallback={move || fb.clone()}>{many(&kids, &cxk)}</Transition> }.into_any()
            } else {
                view! { <Suspense fallback={move || fb.clone()}>{many(&kids, &cxk)}</Suspense> }.into_any()
            }
        }
        L::ResAwait(lb, r) => {
            let (lb, res) = (*lb, cx.res[*r].clone());
            (move || {
                log(lb);
                let res = res.clone();
                Suspend::new(async move { res.wait().await.to_string() })
            })
            .into_any()
        }
        L::ResGet(lb, r) => {
            let (lb, res) = (*lb, cx.res[*r].clone());
            (move || {
                log(lb);
                res.get().unwrap_or(-1).to_string()
            })
            .into_any()
        }
        L::Branchy(lb, m, e, kid) => {
            use leptos::either::Either;
            let fb = format!("-{lb}");
            let (lb, m, e, s) = (*lb, m.clone(), e.clone(), cx.sigs.clone());
            let (kid, cxk) = (kid.clone(), cx.clone());
            view! {
                <ErrorBoundary fallback={move |_errors| fb.clone()}>
                    {move || {
                        log(lb);
                        if eval(&m, &s) == 0 {
                            Either::Left((900 + lb).to_string())
                        } else {
                            Either::Right(if eval(&e, &s) != 0 { Ok(mk(&kid, &cxk)) } else { Err(Boom) })
                        }
                    }}
                </ErrorBoundary>
            }
            .into_any()
        }
        L::Boundary(lb, e, kid) => {
            let fb = format!("-{lb}");
            let (lb, e, s) = (*lb, e.clone(), cx.sigs.clone());
            let (kid, cxk) = (kid.clone(), cx.clone());
            view! {
                <ErrorBoundary fallback={move |_errors| fb.clone()}>
                    {move || {
                        log(lb);
                        if eval(&e, &s) != 0 { Ok(mk(&kid, &cxk)) } else { Err(Boom) }
                    }}
                </ErrorBoundary>
            }
            .into_any()
        }
    }
}

pub(crate) fn make_resources(sources: &[E], sigs: &Sigs, kind: i64) -> Arc<Vec<Res>> {
    Arc::new(
        sources
            .iter()
            .enumerate()
            .map(|(r, e)| {
                let (e, s) = (e.clone(), sigs.clone());
                let fetch = move |x: i64| {
                    let rx = new_future(RES + r as i64);
                    async move {
                        if let Some(rx) = rx {
                            let _ = rx.await;
                        }
                        10 * x + r as i64
                    }
                };
                match kind {
                    1 => {
                        let (e, s) = (e.clone(), s.clone());
                        Res::Server(Resource::new(move || eval(&e, &s), fetch))
                    }
                    2 => Res::ArcLocal(ArcLocalResource::new(move || fetch(eval(&e, &s)))),
                    _ => Res::Local(LocalResource::new(move || fetch(eval(&e, &s)))),
                }
            })
            .collect(),
    )
}

pub fn run(c: &Sexp) -> Sexp {
    exec::init();
    exec::reset();
    LOG.lock().unwrap().clear();
    FUTURES.lock().unwrap().clear();
    EXT.with(|e| e.set(true));
    let tree = dec(c.at(1));
    let sources: Vec<E> = c.at(2).list().iter().map(dec_expr).collect();
    let outer = Owner::new();
    outer.set();
    let sigs: Sigs = Arc::new(c.at(3).list().iter().map(|x| RwSignal::new(x.num())).collect());
    let unmount = c.at(5).at(0).num() != 0;
    let newest_first = c.at(5).at(1).num() != 0;
    let reskind = c.at(5).at(2).num();

    let root = Dom::create_element("div", None);
    let handle = {
        let (tree, sources, sigs) = (tree.clone(), sources.clone(), sigs.clone());
        mount_to_renderer(&root, move || {
            let res = make_resources(&sources, &sigs, reskind);
            mk(&tree, &Ctx { sigs, res })
        })
    };
    exec::run_all(&[]);

    let mut out: Vec<(Vec<i64>, Sexp, Vec<i64>)> = vec![];
    let take_log = || std::mem::take(&mut *LOG.lock().unwrap());
    let values = |s: &Sigs| s.iter().map(|x| x.get_untracked()).collect::<Vec<_>>();
    let (s0, mut prev) = top(&root, &HashMap::new(), true);
    out.push((take_log(), s0, values(&sigs)));
    for step in c.at(4).list() {
        for w in step.at(0).list() {
            if let Some(sig) = sigs.get(w.at(0).num() as usize) {
                sig.set(w.at(1).num());
            }
        }
        exec::run_all(&step.at(1).nums());
        for k in step.at(2).list() {
            if complete_of(RES + k.at(0).num(), k.at(1).num() != 0) {
                exec::run_all(&[]);
            }
        }
        let (s, cur) = top(&root, &prev, true);
        prev = cur;
        out.push((take_log(), s, values(&sigs)));
    }
    // everything completes
    let mut guard = 0;
    while complete(None, if newest_first { -1 } else { 0 }) {
        exec::run_all(&[]);
        guard += 1;
        assert!(guard < 500, "futures keep being created");
    }
    exec::run_all(&[]);
    let (s, _) = top(&root, &prev, true);
    out.push((take_log(), s, values(&sigs)));

    // the mount handle is dropped: nothing may run or touch the DOM afterwards
    let mut post = None;
    if unmount {
        drop(handle);
        exec::run_all(&[]);
        let _ = take_log();
        let m0 = ndom::mutations();
        for sig in sigs.iter() {
            sig.set(sig.get_untracked() + 1);
        }
        exec::run_all(&[]);
        while complete(None, 0) {
            exec::run_all(&[]);
        }
        for sig in sigs.iter() {
            sig.set(sig.get_untracked() - 1);
        }
        exec::run_all(&[]);
        post = Some(Lst(vec![
            Sexp::from_nums(take_log()),
            Num(root.children().len() as i64),
            Num((ndom::mutations() - m0) as i64),
        ]));
    } else {
        std::mem::forget(handle);
    }

    // fresh mounts with the values of each idle point, resources resolving at once
    let mut res = vec![];
    for (lg, shot, vals) in out {
        for (sig, v) in sigs.iter().zip(vals.iter()) {
            sig.set(*v);
        }
        let fresh_root = Dom::create_element("div", None);
        FRESH.with(|r| r.set(true));
        let h = {
            let (tree, sources, sigs) = (tree.clone(), sources.clone(), sigs.clone());
            mount_to_renderer(&fresh_root, move || {
                let res = make_resources(&sources, &sigs, reskind);
                mk(&tree, &Ctx { sigs, res })
            })
        };
        exec::run_all(&[]);
        FRESH.with(|r| r.set(false));
        let (f, _) = top(&fresh_root, &HashMap::new(), false);
        let eq = strip_status(&shot) == f;
        drop(h);
        exec::run_all(&[]);
        res.push(Lst(vec![Sexp::from_nums(lg), shot, Sexp::bool(eq)]));
    }
    if let Some(p) = post {
        res.push(p);
    }
    outer.cleanup();
    drop(outer);
    exec::reset();
    LOG.lock().unwrap().clear();
    FUTURES.lock().unwrap().clear();
    EXT.with(|e| e.set(false));
    Lst(res)
}
