//! `h_dom c11` modes 11 / 12: the real leptos `<For>` (11) and `<ForEnumerate>` (12), mounted
//! with `leptos::mount::mount_to_renderer` on the native DOM, with rows that own reactive
//! state created inside the children closure: an `RwSignal` rendered as text, a
//! `StoredValue`, an `on_cleanup` logger.
//!
//! case `(mode npre npost (l0 l1 … ln))`: `l0` is the first value of the `each` signal; every
//! further list is written to it.  After every list (and a tick of the executor) each
//! rendered row's signal is incremented and the executor ticked again.
//!
//! observation, one entry per list: `(A log flags B)`
//! * `A` / `B`: the non-comment children of the parent before / after the increments, each
//!   `(key gen count prev)` (mode 12: `(key gen count prev index)`) for a row `<li>` whose text
//!   is `key.gen.count[.index]` (`gen` = number of the children-closure call that built the
//!   row, `count` = the row's signal, `index` = the row's index signal), `(-1 0 j prev)` /
//!   `(-2 0 j prev)` for the siblings; `prev` = position of this very node among the
//!   non-comment children at the end of the previous entry (−1 = new)
//! * `log`: `(3 key gen)` children closure called, `(4 key gen)` the row's `on_cleanup` ran
//! * `flags`: per rendered key `(key gen signal_disposed stored_value_disposed)`
//!
//! mode 13 — nested `<For>`: case `(13 npre npost (l0 … ln) (b0 … bn))`.  The row of key `k` of the outer
//! `<For>` is `<For each=move || inner.get() …/>` followed by `(k odd).then(|| <li>)`: an inner `<For>` over
//! the row's own `RwSignal<Vec<i64>>` whose rows are `<li>k.gen.i</li>` (`i` = inner key), and a trailing
//! `<li>k.gen.-1</li>` for odd keys only, so that a row IS a keyed list (inside the `OwnedView` / `RenderEffect`
//! states of the component) or starts with one.  A row is built with the inner list `pick(b, k)` of the current
//! base list `b` (empty before step 0); step `s`: the outer keys are set to `l_s`, tick, observe `A`; then the
//! base becomes `b_s` and the inner signal of every rendered row `k` is set to `pick(b_s, k)`, tick, observe `B`.
//! `pick(b, k)` = `b` rotated left by `k mod (len b + 1)`, without its last element if `k mod 3 == 2`.
//! observation per step `(A log flags B)`: `A` / `B` the non-comment children `(key gen i prev)` /
//! siblings as above; `log` `(3 key gen)` / `(4 key gen)` for the OUTER rows; `flags` per rendered outer key
//! `(key gen inner_signal_disposed stored_value_disposed)`.
use any_spawner::Executor;
use leptos::{html::li, mount::mount_to_renderer, prelude::*};
use std::{cell::RefCell, collections::HashMap};
use tachys::renderer::dom::{Dom, Kind, Node};
use vsexp::{Lst, Sexp};

thread_local! {
    static LOG: RefCell<Vec<Sexp>> = RefCell::new(vec![]);
    static GEN: RefCell<i64> = RefCell::new(0);
    static ROWS: RefCell<HashMap<i64, (i64, RwSignal<i64>, StoredValue<i64>)>> = RefCell::new(HashMap::new());
}

pub fn tick() {
    for _ in 0..8 {
        Executor::poll_local();
    }
}

/// the state a row creates for itself; returns (gen, count)
fn row_state(k: i64) -> (i64, RwSignal<i64>) {
    let g = GEN.with(|g| {
        let v = *g.borrow();
        *g.borrow_mut() += 1;
        v
    });
    let count = RwSignal::new(0i64);
    let stored = StoredValue::new(k);
    ROWS.with(|r| r.borrow_mut().insert(k, (g, count, stored)));
    LOG.with(|l| l.borrow_mut().push(Sexp::from_nums([3, k, g])));
    on_cleanup(move || LOG.with(|l| l.borrow_mut().push(Sexp::from_nums([4, k, g]))));
    (g, count)
}

pub fn visible(parent: &Node, before: &[u64], enumerate: bool) -> (Sexp, Vec<u64>) {
    let mut out = vec![];
    let mut ids = vec![];
    for n in parent.children() {
        if n.kind() == Kind::Comment {
            continue;
        }
        let prev = before.iter().position(|b| *b == n.id()).map(|p| p as i64).unwrap_or(-1);
        let t = n.text_content().unwrap_or_default();
        let e = if let Some(r) = t.strip_prefix("PRE") {
            vec![-1, 0, r.parse().unwrap(), prev]
        } else if let Some(r) = t.strip_prefix("POST") {
            vec![-2, 0, r.parse().unwrap(), prev]
        } else {
            let p: Vec<i64> = t.split('.').map(|x| x.parse().unwrap_or(-7)).collect();
            let mut e = vec![p[0], p[1], p[2], prev];
            if enumerate {
                e.push(*p.get(3).unwrap_or(&-7));
            }
            e
        };
        out.push(Sexp::from_nums(e));
        ids.push(n.id());
    }
    (Lst(out), ids)
}

pub fn pick(base: &[i64], k: i64) -> Vec<i64> {
    let r = (k as usize) % (base.len() + 1);
    let mut v: Vec<i64> = base.iter().cycle().skip(r).take(base.len()).copied().collect();
    if k % 3 == 2 {
        v.pop();
    }
    v
}

thread_local! {
    static BASE: RefCell<Vec<i64>> = RefCell::new(vec![]);
    static INNER: RefCell<HashMap<i64, RwSignal<Vec<i64>>>> = RefCell::new(HashMap::new());
}

fn run_nested(c: &Sexp) -> Sexp {
    let (npre, npost) = (c.at(1).num() as usize, c.at(2).num() as usize);
    let lists: Vec<Vec<i64>> = c.at(3).list().iter().map(|l| l.nums()).collect();
    let bases: Vec<Vec<i64>> = c.at(4).list().iter().map(|l| l.nums()).collect();
    LOG.with(|l| l.borrow_mut().clear());
    GEN.with(|g| *g.borrow_mut() = 0);
    ROWS.with(|r| r.borrow_mut().clear());
    INNER.with(|r| r.borrow_mut().clear());
    BASE.with(|b| b.borrow_mut().clear());
    let root = Owner::new();
    let out = root.with(|| {
        let parent = Dom::create_element("ul", None);
        let keys = RwSignal::new(lists[0].clone());
        let pre: Vec<String> = (0..npre).map(|i| format!("PRE{i}")).collect();
        let post: Vec<String> = (0..npost).map(|i| format!("POST{i}")).collect();
        let handle = mount_to_renderer(&parent, move || {
            view! {
                {pre}
                <For each={move || keys.get()} key={|k: &i64| *k}
                    children={move |k: i64| {
                        let (g, _count) = row_state(k);
                        let inner = RwSignal::new(BASE.with(|b| pick(&b.borrow(), k)));
                        INNER.with(|r| r.borrow_mut().insert(k, inner));
                        view! {
                            <For each={move || inner.get()} key={|i: &i64| *i}
                                children={move |i: i64| li().child(format!("{k}.{g}.{i}"))}
                            />
                            {(k % 2 == 1).then(|| li().child(format!("{k}.{g}.-1")))}
                        }
                    }}
                />
                {post}
            }
        })
        .into_any_handle();
        let mut out = vec![];
        let mut before: Vec<u64> = vec![];
        for (s, l) in lists.iter().enumerate() {
            if s > 0 {
                keys.set(l.clone());
            }
            tick();
            let (a, ids_a) = visible(&parent, &before, false);
            let log = Lst(LOG.with(|x| std::mem::take(&mut *x.borrow_mut())));
            let base = bases.get(s).cloned().unwrap_or_default();
            BASE.with(|b| *b.borrow_mut() = base.clone());
            let mut flags = vec![];
            for k in l {
                let (g, _count, stored) = ROWS.with(|r| r.borrow()[k]);
                let inner = INNER.with(|r| r.borrow()[k]);
                let sd = inner.is_disposed();
                let vd = stored.try_get_value().is_none();
                flags.push(Sexp::from_nums([*k, g, sd as i64, vd as i64]));
                if !sd {
                    inner.set(pick(&base, *k));
                }
            }
            tick();
            let (b, ids_b) = visible(&parent, &ids_a, false);
            before = ids_b;
            out.push(Lst(vec![a, log, Lst(flags), b]));
        }
        drop(handle);
        Lst(out)
    });
    drop(root);
    tick();
    out
}

pub fn run(c: &Sexp) -> Sexp {
    let _ = Executor::init_futures_executor();
    if c.at(0).num() == 13 {
        return run_nested(c);
    }
    let enumerate = c.at(0).num() == 12;
    let (npre, npost) = (c.at(1).num() as usize, c.at(2).num() as usize);
    let lists: Vec<Vec<i64>> = c.at(3).list().iter().map(|l| l.nums()).collect();
    LOG.with(|l| l.borrow_mut().clear());
    GEN.with(|g| *g.borrow_mut() = 0);
    ROWS.with(|r| r.borrow_mut().clear());

    let root = Owner::new();
    let out = root.with(|| {
        let parent = Dom::create_element("ul", None);
        let keys = RwSignal::new(lists[0].clone());
        let pre: Vec<String> = (0..npre).map(|i| format!("PRE{i}")).collect();
        let post: Vec<String> = (0..npost).map(|i| format!("POST{i}")).collect();
        let handle = if enumerate {
            mount_to_renderer(&parent, move || {
                view! {
                    {pre}
                    <ForEnumerate each={move || keys.get()} key={|k: &i64| *k}
                        children={move |idx: ReadSignal<usize>, k: i64| {
                            let (g, count) = row_state(k);
                            li().child(move || format!("{k}.{g}.{}.{}", count.get(), idx.get()))
                        }}
                    />
                    {post}
                }
            })
            .into_any_handle()
        } else {
            mount_to_renderer(&parent, move || {
                view! {
                    {pre}
                    <For each={move || keys.get()} key={|k: &i64| *k}
                        children={move |k: i64| {
                            let (g, count) = row_state(k);
                            li().child(move || format!("{k}.{g}.{}", count.get()))
                        }}
                    />
                    {post}
                }
            })
            .into_any_handle()
        };
        let mut out = vec![];
        let mut before: Vec<u64> = vec![];
        for (s, l) in lists.iter().enumerate() {
            if s > 0 {
                keys.set(l.clone());
            }
            tick();
            let (a, ids_a) = visible(&parent, &before, enumerate);
            if s == 0 {
                // the siblings are part of the mounted view: nothing existed before
            }
            let log = Lst(LOG.with(|x| std::mem::take(&mut *x.borrow_mut())));
            let mut flags = vec![];
            for k in l {
                let (g, count, stored) = ROWS.with(|r| r.borrow()[k]);
                let sd = count.is_disposed();
                let vd = stored.try_get_value().is_none();
                flags.push(Sexp::from_nums([*k, g, sd as i64, vd as i64]));
                if !sd {
                    count.update(|n| *n += 1);
                }
            }
            tick();
            let (b, ids_b) = visible(&parent, &ids_a, enumerate);
            let _ = ids_a;
            before = ids_b;
            out.push(Lst(vec![a, log, Lst(flags), b]));
        }
        drop(handle);
        Lst(out)
    });
    drop(root);
    tick();
    out
}

/// erase the state type of the two `UnmountHandle`s
pub trait AnyHandle {
    fn into_any_handle(self) -> Box<dyn std::any::Any>;
}
impl<M: leptos::tachys::view::Mountable + 'static> AnyHandle for leptos::mount::UnmountHandle<M> {
    fn into_any_handle(self) -> Box<dyn std::any::Any> {
        Box::new(self)
    }
}
