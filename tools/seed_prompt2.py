#!/usr/bin/env python3
"""round-2 brief: tools/seed_prompt2.py Cxx <tag> <crates...> — like seed_prompt.py plus the list of round-1 changes to avoid"""
import json, sys, glob, subprocess, re
pid, tag = sys.argv[1], sys.argv[2]
base = subprocess.run([sys.executable, '/verif/tools/seed_prompt.py', pid, tag] + sys.argv[3:], capture_output=True, text=True).stdout
prev = []
for d in sorted(glob.glob('/verif/seeded/%s-*/meta.json' % pid)):
    m = json.load(open(d))
    prev.append("- " + re.sub(r'\s+', ' ', m.get('summary', ''))[:260])
extra = ("\n\nA PREVIOUS ROUND already produced the following changes for this property — do something DIFFERENT in kind and location "
         "(other files among those listed, other API entry points, other data shapes, other schedules):\n" + "\n".join(prev) +
         "\nAlso note `git log` of the worktree: commits whose message starts with `fix:` repaired real defects recently — re-introducing one of "
         "those verbatim is not interesting; variations on a different code path are.\n")
print(base.rstrip() + extra)
