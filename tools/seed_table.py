#!/usr/bin/env python3
"""print the markdown table of seeded changes from seeded/*/meta.json"""
import json, glob, os, re
rows = []
for d in sorted(glob.glob('/verif/seeded/*/'), key=lambda x: (x.split('/')[-2].split('-')[0], int(x.split('/')[-2].split('-')[1]))):
    sid = d.split('/')[-2]
    m = json.load(open(d + 'meta.json'))
    if m.get('caught_after_strengthening'):
        v = "missed at first → check strengthened → **caught**"
    elif m.get('caught', True) and 'MISSED' not in m.get('detected_by', ''):
        v = "caught"
    else:
        v = "**missed** (follow-up pending)"
    summ = re.sub(r'\s+', ' ', m.get('summary', ''))[:170]
    needs = re.sub(r'\s+', ' ', m.get('needs', ''))[:150]
    rows.append("| %s | %s | %s | %s |" % (sid, summ.replace('|', '/'), needs.replace('|', '/'), v))
print("| seed | change | needs | verdict |\n|---|---|---|---|")
print("\n".join(rows))
import collections
c = collections.Counter()
for r in rows:
    c['caught at once' if r.endswith('| caught |') else ('caught after strengthening' if 'strengthened' in r else 'missed')] += 1
print("\nTotals: %d seeds — %s." % (len(rows), ", ".join("%d %s" % (v, k) for k, v in c.items())))
