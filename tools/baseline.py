#!/usr/bin/env python3
"""Run the repository's baseline test command with the verif guard OFF on a clean worktree of
/repo's HEAD and compare with /root/.vp/BASELINE.json (all 182 stable tests must pass).
usage: tools/baseline.py [--keep]"""
import json, os, re, subprocess, sys, shutil

WT = "/tmp/wt-baseline"
def main():
    base = json.load(open("/root/.vp/BASELINE.json"))
    want = set(base["stable_pass"])
    subprocess.run(["git", "-C", "/repo", "worktree", "remove", "--force", WT], capture_output=True)
    subprocess.run(["git", "-C", "/repo", "worktree", "add", "-q", WT, "HEAD"], check=True)
    env = dict(os.environ, CARGO_NET_OFFLINE="true", CARGO_TARGET_DIR="/tmp/wt-baseline-target")
    p = subprocess.run("cargo test --workspace --no-fail-fast --offline 2>&1", shell=True, cwd=WT, env=env,
                       capture_output=True, text=True)
    out = p.stdout
    open("/tmp/baseline.log", "w").write(out)
    passed = set()
    pkg = unit = None
    for line in out.splitlines():
        m = re.search(r"Running (unittests )?(\S+) \(\S*/deps/([A-Za-z0-9_]+)-[0-9a-f]+\)", line)
        if m:
            if m.group(1):
                pkg = m.group(3); unit = None
            else:
                unit = m.group(3)
            continue
        m = re.match(r"test (\S+)(?: - should panic)? \.\.\. ok", line)
        if m and pkg:
            name = m.group(1)
            passed.add("%s::%s" % (pkg, name) if unit is None else "%s::%s::%s" % (pkg, unit, name))
            if unit is not None:
                passed.add("%s::%s" % (unit, name))
    # tolerate package attribution problems: match on suffix after the crate name
    suffixes = {n.split("::", 1)[1] if "::" in n else n for n in passed}
    missing = [w for w in sorted(want) if w not in passed and w.split("::", 1)[1] not in suffixes]
    print("stable tests expected: %d, missing/failed: %d" % (len(want), len(missing)))
    for m_ in missing:
        print("  MISSING", m_)
    if "--keep" not in sys.argv:
        subprocess.run(["git", "-C", "/repo", "worktree", "remove", "--force", WT])
        shutil.rmtree("/tmp/wt-baseline-target", ignore_errors=True)
    return 1 if missing else 0
if __name__ == "__main__":
    sys.exit(main())
