#!/bin/sh
# tools/confirm_seed.sh <tag> <N> <crate> [<crate>...]   — confirm a seeded change in the seeder's own worktree:
# demo passes without the patch, fails with it, the crate's existing tests give the same pass set with it.
tag=$1; n=$2; shift 2
wt=/tmp/wt-seed-$tag; out=/tmp/seed-$tag-out/$n
cd $wt || exit 2
git checkout -q -- . ; git clean -fdq -e target
export CARGO_NET_OFFLINE=true CARGO_TARGET_DIR=$wt/target
echo "--- without patch:"; sh $out/run.sh > $out/confirm_without.log 2>&1; echo "exit=$? $(grep -c FAIL $out/confirm_without.log) FAIL lines; last: $(tail -1 $out/confirm_without.log)"
git apply $out/patch.diff || { echo "PATCH DOES NOT APPLY"; exit 3; }
echo "--- with patch:"; sh $out/run.sh > $out/confirm_with.log 2>&1; echo "exit=$? $(grep -c FAIL $out/confirm_with.log) FAIL lines"
for c in "$@"; do
  cargo test -p $c --offline > $out/confirm_tests_$c.log 2>&1
  echo "--- tests $c with patch: $(grep -E '^test result' $out/confirm_tests_$c.log | tr '\n' ' ')"
  grep -E "^test .* FAILED" $out/confirm_tests_$c.log | head -5
done
git checkout -q -- . ; git clean -fdq -e target
