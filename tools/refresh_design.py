#!/usr/bin/env python3
"""rewrite the two generated tables of DESIGN.md section 11 in place:
the status table (tools/status_table.py) and the seeded-changes table (tools/seed_table.py)"""
import os, subprocess, sys
R = os.path.dirname(os.path.dirname(os.path.abspath(__file__)))
P = R + '/DESIGN.md'
L = open(P).read().split('\n')

def gen(tool):
    return subprocess.run([sys.executable, R + '/tools/' + tool], capture_output=True, text=True, check=True).stdout.rstrip('\n').split('\n')

def replace(lines, start_prefix, end_pred, new):
    i = next(k for k, l in enumerate(lines) if l.startswith(start_prefix) and k > 1200)
    j = next(k for k in range(i, len(lines)) if end_pred(lines[k]))
    return lines[:i] + new + lines[j + 1:]

# status table: from the header row to the "Total: N theorems" line
L = replace(L, '| id | theorems (all closed', lambda l: l.startswith('Total: '), gen('status_table.py'))
# seed table: from the header row to the "Totals:" line
L = replace(L, '| seed | change | needs | verdict |', lambda l: l.startswith('Totals: '), gen('seed_table.py'))
open(P, 'w').write('\n'.join(L))
print('DESIGN.md tables refreshed')

# the one-line list of open findings
import glob, json, re
L = open(P).read().split('\n')
k = next(i for i, l in enumerate(L) if l.startswith('Open findings in one line each'))
head = L[k][:L[k].index('property file): ') + len('property file): ')]
items = []
for f in sorted(glob.glob(R + '/known_findings/C*.json')):
    for x in json.load(open(f))['findings']:
        if x['status'] == 'open':
            txt = re.sub(r'\s+', ' ', x.get('what', x.get('text', '')))
            txt = txt[:130].rsplit(' ', 1)[0].rstrip(' ,;:(') + (' …' if len(txt) > 130 else '')
            items.append('**%s** %s' % (x['id'], txt))
L[k] = head + '; '.join(items) + '.'
open(P, 'w').write('\n'.join(L))
print('open findings list refreshed: %d' % len(items))
