#!/usr/bin/env python3
"""print the brief for an independent seeding sub-agent: tools/seed_prompt.py Cxx <tag> [crates to test]"""
import json, sys
pid, tag = sys.argv[1], sys.argv[2]
crates = sys.argv[3:] or ["<the affected crate>"]
p = [json.loads(l) for l in open('/verif/properties.jsonl') if json.loads(l)['id'] == pid][0]
wt = "/tmp/wt-seed-%s" % tag
out = "/tmp/seed-%s-out" % tag
tests = " and ".join("`cargo test -p %s --offline`" % c for c in crates)
print(f"""You are testing how well a (hidden) verification suite guards one semantic property of the Rust project leptos (a full-stack web framework: reactive graph, view renderer with SSR/hydration, router, server functions). You get the property text and your own scratch git worktree of the repository at {wt} (a checkout of the current code). Work ONLY inside {wt} (and scratch files under {out}). Do NOT read or touch /verif or /repo. No network is available; build offline (`CARGO_NET_OFFLINE=true cargo ... --offline`) and always with `CARGO_TARGET_DIR={wt}/target`. The machine is shared and busy: builds are slow, be patient, build only the crates you need (`-p <crate>`), never the whole workspace.

THE PROPERTY ({pid} — "{p['title']}"): "{p['statement']}" It is quantified: {p['quantifier']['text']}. Code meant to make it hold: {', '.join(p['anchors']['files'])}. Mechanisms: {'; '.join(m['name'] + ' (' + m.get('where', '') + ')' for m in p['anchors']['mechanism'])}.

YOUR TASK: produce up to THREE different, realistic changes to the repository (the kind of edit a developer could plausibly make during a refactor, a "performance improvement" or a "robustness fix" — not sabotage comments, not an obvious `panic!()`), each of which
 (1) still compiles,
 (2) still passes the existing tests of the affected crate(s): {tests} — every test that passes on the unchanged worktree must still pass (record the baseline first; some tests may fail already on the unchanged code — that is fine as long as the set of failures does not grow),
 (3) BREAKS the property, but only in a way that needs something specific to manifest — a particular interleaving or completion order, a multi-step sequence of operations, an unusual input, a particular nesting/shape, or two cooperating sites that each look fine alone — NOT something ordinary use (the simplest example, the existing tests) would expose at once.
Make the three changes different in kind and in location.
For each change write a demonstration: a tiny bin crate under {out}/N/demo (path dependencies on the crates in {wt}, empty `[workspace]` table in its Cargo.toml, `cp {wt}/Cargo.lock` next to it, build with the same CARGO_TARGET_DIR) that prints FAIL lines and exits 1 with the change applied and prints "all ok" and exits 0 on the unchanged worktree. Verify both directions yourself. Keep demos deterministic (drive futures/executors by hand, e.g. `any_spawner::Executor::init_futures_executor()` + `Executor::poll_local()`/`futures::executor::block_on`, oneshot channels for controlled completion).

OUTPUT: for each change N in 1..3 create {out}/N/ containing `patch.diff` (output of `git -C {wt} diff` for that change alone, applying cleanly to the unchanged checkout with `git apply`), `demo/` (Cargo.toml, src/main.rs), `run.sh`, and `meta.json` {{"property":"{pid}","summary":"what the change does","needs":"what specific input/sequence/interleaving it needs to manifest","commands_run":["…"],"demo_fails_with_change":true,"demo_passes_without":true,"existing_tests_pass":true}}. Reset the worktree to clean (`git -C {wt} checkout -- . && git -C {wt} clean -fdq -e target`) between changes and at the end. Finish with a short report listing the changes.""")
