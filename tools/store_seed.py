#!/usr/bin/env python3
"""tools/store_seed.py <tag> <N> <seed-id> <detected_by text> [--missed]
copy a confirmed seeded change from /tmp/seed-<tag>-out/<N> into /verif/seeded/<seed-id>/"""
import json, os, shutil, sys
tag, n, sid, det = sys.argv[1:5]
src = "/tmp/seed-%s-out/%s" % (tag, n)
dst = "/verif/seeded/" + sid
os.makedirs(dst + "/demo/src", exist_ok=True)
shutil.copy(src + "/patch.diff", dst)
if os.path.exists(src + "/run.sh"):
    shutil.copy(src + "/run.sh", dst)
shutil.copy(src + "/demo/Cargo.toml", dst + "/demo/")
for f in os.listdir(src + "/demo/src"):
    shutil.copy(src + "/demo/src/" + f, dst + "/demo/src/")
m = json.load(open(src + "/meta.json"))
logs = {}
for f in ("confirm_without.log", "confirm_with.log"):
    p = os.path.join(src, f)
    if os.path.exists(p):
        logs[f] = open(p).read()[-600:]
tests = {f: [l for l in open(os.path.join(src, f)).read().splitlines() if l.startswith("test result")]
         for f in os.listdir(src) if f.startswith("confirm_tests_")}
m.update(breaks=m.get("property"), origin="independent sub-agent given only the property text and a scratch worktree of /repo",
         confirmed_by_coordinator=dict(
             ran=["tools/confirm_seed.sh %s %s <crates>  (demo without patch / with patch; crate tests with patch)" % (tag, n),
                  "python3 tools/seedtest.py seeded/%s/patch.diff %s" % (sid, m.get("property"))],
             demo_logs=logs, tests_with_patch=tests),
         detected_by=det, caught=("--missed" not in sys.argv),
         note="demo path-dependencies refer to the seeder's scratch worktree /tmp/wt-seed-%s (removed after confirmation); "
              "re-create it with `git -C /repo worktree add /tmp/wt-seed-%s <commit>` to re-run" % (tag, tag))
json.dump(m, open(dst + "/meta.json", "w"), indent=1)
print("stored", dst)
