#!/usr/bin/env python3
"""Validate the checks against a seeded change without touching /repo.

  tools/seedtest.py <patch.diff> <Cxx> [<Cyy> ...] [--tier quick] [--keep]

Creates a scratch worktree of /repo's HEAD under /tmp, applies the patch there, runs
`./check Cxx --no-coq` with VERIF_REPO pointing at the worktree and VERIF_OUT at a scratch
directory, prints the verdict lines, and removes worktree + alt build output afterwards."""
import hashlib, os, shutil, subprocess, sys

def main():
    args = [a for a in sys.argv[1:] if not a.startswith("--")]
    patch, pids = os.path.abspath(args[0]), args[1:]
    tier = "quick"
    if "--tier" in sys.argv:
        tier = sys.argv[sys.argv.index("--tier") + 1]
        pids = [p for p in pids if p != tier]
    tag = hashlib.sha1(patch.encode()).hexdigest()[:8]
    wt = "/tmp/wt-mut-" + tag
    out = "/tmp/verif-out-" + tag
    subprocess.run(["git", "-C", "/repo", "worktree", "remove", "--force", wt], capture_output=True)
    subprocess.run(["git", "-C", "/repo", "worktree", "add", "-q", wt, "HEAD"], check=True)
    rc_all = {}
    try:
        r = subprocess.run(["git", "-C", wt, "apply", patch], capture_output=True, text=True)
        if r.returncode != 0:
            print("PATCH DOES NOT APPLY:", r.stderr)
            return 2
        env = dict(os.environ, VERIF_REPO=wt, VERIF_OUT=out)
        for pid in pids:
            p = subprocess.run([os.path.join(os.path.dirname(__file__), "..", "check"), pid, "--tier", tier, "--no-coq"],
                               env=env, capture_output=True, text=True)
            rc_all[pid] = p.returncode
            print("== %s rc=%d" % (pid, p.returncode))
            print("\n".join(l for l in p.stdout.splitlines() if l.startswith(("VIOLATION", "KNOWN-FINDING"))) or p.stdout[-600:])
            if p.stderr.strip():
                print(p.stderr[-800:])
            for l in p.stdout.splitlines():
                if l.startswith("VIOLATION") and "replay=" in l:
                    rp = os.path.join(out, l.split("replay=")[1].split()[0])
                    if os.path.exists(rp):
                        import json
                        d = json.load(open(rp))
                        print("   replay:", {k: (str(d[k])[:300]) for k in d if k in ("kind", "readable", "oracle", "impl", "model", "note")})
                        if d.get("kind") in ("harness-build", "model-build"):
                            print("   build log tail:", str(d.get("log") or d.get("error"))[-1500:])
    finally:
        if "--keep" not in sys.argv:
            subprocess.run(["git", "-C", "/repo", "worktree", "remove", "--force", wt], capture_output=True)
            tagdir = hashlib.sha1(wt.encode()).hexdigest()[:8]
            base = os.path.join(os.path.dirname(os.path.abspath(__file__)), "..", ".build")
            shutil.rmtree(os.path.join(base, "alt", tagdir), ignore_errors=True)
            for d in os.listdir(os.path.join(base, "target")):
                if d.endswith("-alt-" + tagdir):
                    shutil.rmtree(os.path.join(base, "target", d), ignore_errors=True)
            shutil.rmtree(out, ignore_errors=True)
    return 0 if all(v == 1 for v in rc_all.values()) else 1

if __name__ == "__main__":
    sys.exit(main())
