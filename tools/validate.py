#!/usr/bin/env python3-vt
"""Validate MANIFEST.json and every evidence file against the schemas in /root/.vp."""
import json, os, sys
import jsonschema
ROOT = os.path.dirname(os.path.dirname(os.path.abspath(__file__)))
ok = True
man = json.load(open(os.path.join(ROOT, "MANIFEST.json")))
try:
    jsonschema.validate(man, json.load(open("/root/.vp/MANIFEST.schema.json")))
    print("MANIFEST.json ok: %d checks, %d not_applicable" % (len(man["checks"]), len(man.get("not_applicable", []))))
except jsonschema.ValidationError as e:
    ok = False
    print("MANIFEST.json INVALID:", e.message)
props = [json.loads(l)["id"] for l in open(os.path.join(ROOT, "properties.jsonl"))]
claimed = [c["property_id"] for c in man["checks"]]
na = [c["property_id"] for c in man.get("not_applicable", [])]
for p in props:
    if (p in claimed) == (p in na):
        ok = False
        print("property %s must be exactly one of claimed / not_applicable" % p)
es = json.load(open("/root/.vp/EVIDENCE.schema.json"))
for c in man["checks"]:
    f = os.path.join(ROOT, c["evidence_file"])
    if not os.path.exists(f):
        ok = False
        print("missing evidence", c["evidence_file"])
        continue
    ev = json.load(open(f))
    try:
        jsonschema.validate(ev, es)
        cov = ev["coverage"]
        flag = "" if (cov.get("obligations", 0) >= 1 and cov.get("obligations") == cov.get("discharged")) else "  <-- obligations != discharged"
        if ev.get("violations"):
            flag += "  <-- violations=%s" % ev["violations"]
        print("%s ok: tier=%s obligations=%s/%s evals=%s distinct=%s wall=%ss%s" % (
            c["property_id"], ev["tier"], cov.get("discharged"), cov.get("obligations"), cov.get("evaluations"),
            cov.get("distinct_nontrivial"), ev["wall_s"], flag))
        if flag:
            ok = False
    except jsonschema.ValidationError as e:
        ok = False
        print(c["property_id"], "evidence INVALID:", e.message[:300])
sys.exit(0 if ok else 1)
