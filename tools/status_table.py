#!/usr/bin/env python3
"""regenerate the status table rows of DESIGN.md section 11 from evidence/, known_findings/ and tools/status_notes.json"""
import json, glob, re, os
R = os.path.dirname(os.path.dirname(os.path.abspath(__file__)))
ev = {}
for f in glob.glob(R + '/evidence/C*.json'):
    e = json.load(open(f)); ev[e['property_id']] = e
kf = {}
for f in glob.glob(R + '/known_findings/*.json'):
    for k in json.load(open(f))['findings']:
        kf.setdefault(k['property'], []).append(k)
notes = json.load(open(R + '/tools/status_notes.json'))
print("| id | theorems (all closed under the global context) | cases per quick run | /repo fix commits | open findings | what is modelled / driven · what is partial |\n|---|---|---|---|---|---|")
tot = 0
for pid in ['C%02d' % i for i in range(1, 21)]:
    e = ev.get(pid); c = e['coverage'] if e else {}
    fx = [k for k in kf.get(pid, []) if k['status'] != 'open']; op = [k for k in kf.get(pid, []) if k['status'] == 'open']
    commits = ' '.join(sorted(set(re.findall(r'\b[0-9a-f]{7}\b', ' '.join(k['status'] for k in fx)))))
    tot += int(c.get('discharged', 0) or 0)
    print("| %s | %s | %s | %s | %s | %s |" % (pid, c.get('discharged', '?'), c.get('evaluations', '?'), commits or '–', ', '.join(k['id'] for k in op) or '–', notes.get(pid, '')))
print("\nTotal: %d theorems; %d fixed and %d open findings." % (tot, sum(1 for v in kf.values() for k in v if k['status'] != 'open'), sum(1 for v in kf.values() for k in v if k['status'] == 'open')))
