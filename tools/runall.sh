#!/bin/sh
# run every claimed check (quick tier) sequentially, as vp check does; prints verdict per property
cd "$(dirname "$0")/.."
for pid in $(python3 -c "import json;print(' '.join(c['property_id'] for c in json.load(open('MANIFEST.json'))['checks']))"); do
  s=$(date +%s); out=$(./check "$pid" --tier "${1:-quick}" 2>&1); rc=$?; e=$(date +%s)
  echo "== $pid rc=$rc $((e-s))s"; echo "$out" | grep -E "^(VIOLATION|KNOWN-FINDING)" ; [ $rc -ne 0 ] && [ $rc -ne 1 ] && echo "$out" | tail -5
done
