theories/Base/Sexp.vo theories/Base/Sexp.glob theories/Base/Sexp.v.beautified theories/Base/Sexp.required_vo: theories/Base/Sexp.v 
theories/Base/Sexp.vio: theories/Base/Sexp.v 
theories/Base/Sexp.vos theories/Base/Sexp.vok theories/Base/Sexp.required_vos: theories/Base/Sexp.v 
theories/Base/Bytes.vo theories/Base/Bytes.glob theories/Base/Bytes.v.beautified theories/Base/Bytes.required_vo: theories/Base/Bytes.v 
theories/Base/Bytes.vio: theories/Base/Bytes.v 
theories/Base/Bytes.vos theories/Base/Bytes.vok theories/Base/Bytes.required_vos: theories/Base/Bytes.v 
theories/Router/Url.vo theories/Router/Url.glob theories/Router/Url.v.beautified theories/Router/Url.required_vo: theories/Router/Url.v theories/Base/Bytes.vo
theories/Router/Url.vio: theories/Router/Url.v theories/Base/Bytes.vio
theories/Router/Url.vos theories/Router/Url.vok theories/Router/Url.required_vos: theories/Router/Url.v theories/Base/Bytes.vos
theories/Router/UrlProofs.vo theories/Router/UrlProofs.glob theories/Router/UrlProofs.v.beautified theories/Router/UrlProofs.required_vo: theories/Router/UrlProofs.v theories/Base/Bytes.vo theories/Router/Url.vo
theories/Router/UrlProofs.vio: theories/Router/UrlProofs.v theories/Base/Bytes.vio theories/Router/Url.vio
theories/Router/UrlProofs.vos theories/Router/UrlProofs.vok theories/Router/UrlProofs.required_vos: theories/Router/UrlProofs.v theories/Base/Bytes.vos theories/Router/Url.vos
theories/Router/UrlRun.vo theories/Router/UrlRun.glob theories/Router/UrlRun.v.beautified theories/Router/UrlRun.required_vo: theories/Router/UrlRun.v theories/Base/Sexp.vo theories/Base/Bytes.vo theories/Router/Url.vo
theories/Router/UrlRun.vio: theories/Router/UrlRun.v theories/Base/Sexp.vio theories/Base/Bytes.vio theories/Router/Url.vio
theories/Router/UrlRun.vos theories/Router/UrlRun.vok theories/Router/UrlRun.required_vos: theories/Router/UrlRun.v theories/Base/Sexp.vos theories/Base/Bytes.vos theories/Router/Url.vos
theories/Props/Properties_C15.vo theories/Props/Properties_C15.glob theories/Props/Properties_C15.v.beautified theories/Props/Properties_C15.required_vo: theories/Props/Properties_C15.v theories/Base/Bytes.vo theories/Router/Url.vo theories/Router/UrlProofs.vo
theories/Props/Properties_C15.vio: theories/Props/Properties_C15.v theories/Base/Bytes.vio theories/Router/Url.vio theories/Router/UrlProofs.vio
theories/Props/Properties_C15.vos theories/Props/Properties_C15.vok theories/Props/Properties_C15.required_vos: theories/Props/Properties_C15.v theories/Base/Bytes.vos theories/Router/Url.vos theories/Router/UrlProofs.vos
