(** Generic case / observation language shared by every model and harness.
    One textual line per value:  (1 2 (3 -4) ())  — integers and lists. *)
From Coq Require Import List ZArith NArith Bool.
Import ListNotations.

Inductive sexp := Num (z : Z) | Lst (l : list sexp).

Definition sN (n : N) : sexp := Num (Z.of_N n).
Definition snat (n : nat) : sexp := Num (Z.of_nat n).
Definition sbool (b : bool) : sexp := Num (if b then 1 else 0)%Z.
Definition sbytes (l : list N) : sexp := Lst (map sN l).
Definition sZs (l : list Z) : sexp := Lst (map Num l).
Definition snats (l : list nat) : sexp := Lst (map snat l).
Definition sopt {A} (f : A -> sexp) (o : option A) : sexp :=
  match o with None => Lst [] | Some a => Lst [f a] end.

Definition as_Z (s : sexp) : Z := match s with Num z => z | Lst _ => 0%Z end.
Definition as_N (s : sexp) : N := Z.to_N (as_Z s).
Definition as_nat (s : sexp) : nat := Z.to_nat (as_Z s).
Definition as_bool (s : sexp) : bool := negb (Z.eqb (as_Z s) 0).
Definition as_list (s : sexp) : list sexp := match s with Lst l => l | Num _ => [] end.
Definition as_bytes (s : sexp) : list N := map as_N (as_list s).
Definition as_Zs (s : sexp) : list Z := map as_Z (as_list s).
Definition as_nats (s : sexp) : list nat := map as_nat (as_list s).
Definition nth_s (i : nat) (s : sexp) : sexp := nth i (as_list s) (Lst []).
Definition as_opt {A} (f : sexp -> A) (s : sexp) : option A :=
  match as_list s with [] => None | x :: _ => Some (f x) end.

Fixpoint sexp_eqb (a b : sexp) {struct a} : bool :=
  match a, b with
  | Num x, Num y => Z.eqb x y
  | Lst l, Lst m =>
      (fix go (l m : list sexp) : bool :=
         match l, m with
         | [], [] => true
         | x :: l, y :: m => sexp_eqb x y && go l m
         | _, _ => false
         end) l m
  | _, _ => false
  end.
