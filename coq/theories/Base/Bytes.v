(** Byte strings (Rust [str]/[String] = UTF-8 byte sequences), hex digits, ASCII
    classes, and Rust's [String::from_utf8_lossy] (core::str::lossy::Utf8Chunks). *)
From Coq Require Import List NArith Bool Lia.
Import ListNotations.
Open Scope N_scope.

Definition bytes := list N.

Definition in_range (lo hi b : N) : bool := (lo <=? b) && (b <=? hi).

Definition is_digit (b : N) := in_range 48 57 b.
Definition is_upper (b : N) := in_range 65 90 b.
Definition is_lower (b : N) := in_range 97 122 b.
Definition is_alnum (b : N) := is_digit b || is_upper b || is_lower b.

(** upper-case hex digit of a nibble *)
Definition hex_digit (n : N) : N := if n <? 10 then 48 + n else 55 + n.
(** value of a hex digit, either case (char::to_digit(16)) *)
Definition hex_val (b : N) : option N :=
  if is_digit b then Some (b - 48)
  else if in_range 65 70 b then Some (b - 55)
  else if in_range 97 102 b then Some (b - 87)
  else None.

(** ---- from_utf8_lossy ---- *)
Definition is_cont (b : N) : bool := in_range 128 191 b.

(** first byte [b] followed by [rest]: number of bytes consumed by the chunk that
    starts here and whether that chunk is a valid scalar value. Mirrors the loop body of
    Utf8Chunks::next: on failure the bytes consumed so far form the invalid chunk and
    the offending byte is not consumed. *)
Definition utf8_step (b : N) (rest : bytes) : nat * bool :=
  let get (i : nat) := nth i rest 0 in
  if b <? 128 then (1%nat, true)
  else if in_range 194 223 b then
    if is_cont (get 0%nat) then (2%nat, true) else (1%nat, false)
  else if in_range 224 239 b then
    let ok1 :=
      ((b =? 224) && in_range 160 191 (get 0%nat))
      || (in_range 225 236 b && in_range 128 191 (get 0%nat))
      || ((b =? 237) && in_range 128 159 (get 0%nat))
      || (in_range 238 239 b && in_range 128 191 (get 0%nat)) in
    if ok1 then
      if is_cont (get 1%nat) then (3%nat, true) else (2%nat, false)
    else (1%nat, false)
  else if in_range 240 244 b then
    let ok1 :=
      ((b =? 240) && in_range 144 191 (get 0%nat))
      || (in_range 241 243 b && in_range 128 191 (get 0%nat))
      || ((b =? 244) && in_range 128 143 (get 0%nat)) in
    if ok1 then
      if is_cont (get 1%nat) then
        if is_cont (get 2%nat) then (4%nat, true) else (3%nat, false)
      else (2%nat, false)
    else (1%nat, false)
  else (1%nat, false).

Definition replacement : bytes := [239; 191; 189].  (* U+FFFD *)

Fixpoint lossy_fuel (fuel : nat) (l : bytes) : bytes :=
  match fuel with
  | O => []
  | S fuel =>
      match l with
      | [] => []
      | b :: rest =>
          let '(n, ok) := utf8_step b rest in
          (if ok then firstn n l else replacement) ++ lossy_fuel fuel (skipn n l)
      end
  end.
Definition from_utf8_lossy (l : bytes) : bytes := lossy_fuel (length l) l.

Fixpoint valid_fuel (fuel : nat) (l : bytes) : bool :=
  match fuel with
  | O => match l with [] => true | _ => false end
  | S fuel =>
      match l with
      | [] => true
      | b :: rest =>
          let '(n, ok) := utf8_step b rest in
          ok && valid_fuel fuel (skipn n l)
      end
  end.
(** [str::from_utf8(l).is_ok()] *)
Definition utf8_valid (l : bytes) : bool := valid_fuel (length l) l.

Definition is_byte (b : N) : bool := b <? 256.
Definition all_bytes (l : bytes) : bool := forallb is_byte l.
