(** Proofs about the protocol glue (ServerFn/Protocol.v): over codecs that decode what they
    encode, the remote call returns what the direct call returns; whatever bytes arrive, the
    client obtains an error value of the declared type. *)
From Coq Require Import List NArith Bool Lia.
From LV Require Import Base.Bytes Router.Url Router.UrlProofs
  ServerFn.ErrorCodec ServerFn.ErrorCodecProofs ServerFn.Protocol.
Import ListNotations.
Open Scope N_scope.

Section Protocol.
  Variable C : Type.
  Variable cdisplay : C -> bytes.
  Variable cparse : bytes -> option C.
  Variables In Out : Type.
  Variable enc_in : In -> bytes + bytes.
  Variable dec_in : bytes -> In + bytes.
  Variable enc_out : Out -> bytes + bytes.
  Variable dec_out : bytes -> Out + bytes.
  Variable in_err_kind : kind.
  Variables ct_in ct_out : bytes.
  Variable path : bytes.
  Variable body : In -> Out + sfe C.
  Variable parse_referer : bytes -> referer.

  Notation remote := (remote C cdisplay cparse In Out enc_in dec_in enc_out dec_out in_err_kind
                             ct_in ct_out path body parse_referer).
  Notation direct := (direct C In Out body).
  Notation run_on_server := (run_on_server C cdisplay In Out dec_in enc_out in_err_kind ct_out path
                                           body parse_referer).
  Notation client_result := (client_result C cparse Out dec_out).
  Notation err_ok := (err_ok C cdisplay cparse).

  (** a client never announces that it accepts HTML (only a browser's <form> post does) *)
  Hypothesis client_not_html : contains L_text_html ct_in = false.

  (** the assumptions about the (third-party) codecs, for the argument [x] and for what the
      body returns on it: decoding inverts encoding; an error's strings are UTF-8 and its
      custom part is parsed back by FromStr *)
  Definition codecs_ok (x : In) : Prop :=
    (exists b, enc_in x = inl b /\ dec_in b = inl x)
    /\ (forall y, body x = inl y -> exists b, enc_out y = inl b /\ dec_out b = inl y)
    /\ (forall e, body x = inr e -> err_ok e).

  (** calling a server function remotely equals calling it directly, Ok and Err alike, and
      the redirect hook is not called *)
  Theorem remote_eq_direct x : codecs_ok x -> remote x = (direct x, []).
  Proof.
    intros [[b [Hb Hd]] [Hout Herr]].
    unfold Protocol.remote, run_client, Protocol.direct. rewrite Hb.
    unfold Protocol.run_on_server. cbn [rq_accept rq_data rq_referer].
    rewrite client_not_html. unfold run_server. rewrite Hd.
    destruct (body x) as [y|e] eqn:Hx.
    - destruct (Hout y eq_refl) as [b2 [Hb2 Hd2]]. rewrite Hb2.
      unfold Protocol.client_result. cbn [rs_status rs_body rs_redirect_header rs_location].
      rewrite Hd2. reflexivity.
    - unfold Protocol.client_result, error_response. cbn [rs_status rs_body].
      rewrite (error_roundtrip C cdisplay cparse e (Herr e eq_refl)). reflexivity.
  Qed.

  (** ---- malformed input: the client side ---- *)
  (** whatever the response is, the client's result is a value: never the panic outcome *)
  Theorem client_result_total res : fst (client_result res) <> Panic.
  Proof.
    unfold Protocol.client_result.
    destruct ((400 <=? rs_status res) && (rs_status res <=? 599)); cbn [fst]; [discriminate|].
    destruct (dec_out (rs_body res)); cbn [fst]; discriminate.
  Qed.

  (** an error status always yields an error value: the body decoded as an error, or the
      Deserialization error describing why it could not be *)
  Theorem client_error_status res :
    400 <= rs_status res <= 599 ->
    client_result res = (Err (de C cparse (rs_body res)), []).
  Proof.
    intros [H1 H2]. unfold Protocol.client_result.
    replace (400 <=? rs_status res) with true by (symmetry; apply N.leb_le; exact H1).
    replace (rs_status res <=? 599) with true by (symmetry; apply N.leb_le; exact H2).
    reflexivity.
  Qed.

  (** a success status with a body the output codec rejects yields a Deserialization error *)
  Theorem client_undecodable res msg :
    ~ (400 <= rs_status res <= 599) -> dec_out (rs_body res) = inr msg ->
    client_result res = (Err (Std KDeserialization msg), []).
  Proof.
    intros Hs Hd. unfold Protocol.client_result.
    destruct ((400 <=? rs_status res) && (rs_status res <=? 599)) eqn:E.
    - exfalso. apply Hs. apply andb_true_iff in E as [E1 E2].
      apply N.leb_le in E1. apply N.leb_le in E2. split; assumption.
    - rewrite Hd. reflexivity.
  Qed.

  (** ---- malformed input: the server side ---- *)
  (** a request whose payload the input codec rejects is answered with status 500 and the
      wire form of an error of the codec's kind; a client then obtains exactly that error *)
  Theorem server_malformed_request data msg acc :
    dec_in data = inr msg ->
    (match acc with Some a => contains L_text_html a | None => false end) = false ->
    utf8_valid msg = true ->
    let res := run_on_server {| rq_data := data; rq_accept := acc; rq_referer := None |} in
    rs_status res = 500
    /\ rs_body res = ser C cdisplay (Std in_err_kind msg)
    /\ client_result res = (Err (Std in_err_kind msg), []).
  Proof.
    intros Hd Ha Hm. unfold Protocol.run_on_server. cbn [rq_accept rq_data rq_referer].
    rewrite Ha. unfold run_server. rewrite Hd. cbn [from_server_fn_error].
    cbv zeta. split; [reflexivity|]. split; [reflexivity|].
    rewrite client_error_status by (cbn [error_response rs_status]; lia).
    cbn [error_response rs_body].
    rewrite (error_roundtrip C cdisplay cparse (Std in_err_kind msg)) by exact Hm.
    reflexivity.
  Qed.

  (** the multipart boundary lookup yields a value for every Content-Type header (it was a
      panic before the fix) *)
  Variable parse_boundary : bytes -> option bytes.
  Theorem multipart_boundary_total ct : multipart_boundary C parse_boundary ct <> Panic.
  Proof.
    unfold multipart_boundary.
    destruct (match ct with Some c => parse_boundary c | None => None end); discriminate.
  Qed.
End Protocol.

(** the glue instance the harness runs satisfies the hypotheses of [remote_eq_direct] *)
Lemma str_roundtrip x : utf8_valid x = true -> exists b, str_enc x = inl b /\ str_dec b = inl x.
Proof.
  intros H. exists x. split; [reflexivity|]. unfold str_dec.
  rewrite (utf8_error_valid _ H). reflexivity.
Qed.

Example remote_eq_direct_example :
  let x := [69; 52; 98; 124; 111; 111; 109] in       (* "E4b|oom": the body fails with ServerError("b|oom") *)
  codecs_ok N u8_display u8_parse bytes bytes str_enc str_dec str_enc str_dec demo_body x
  /\ remote N u8_display u8_parse bytes bytes str_enc str_dec str_enc str_dec KDeserialization
         [116; 101; 120; 116; 47; 112; 108; 97; 105; 110] [116; 101; 120; 116; 47; 112; 108; 97; 105; 110]
         [47; 97; 112; 105; 47; 103; 108; 117; 101] demo_body (fun _ => RefRaw []) x
     = (Err (Std KServerError [98; 124; 111; 111; 109]), [])
  /\ direct N bytes bytes demo_body x = Err (Std KServerError [98; 124; 111; 111; 109]).
Proof.
  split; [|split; vm_compute; reflexivity].
  split; [eexists; split; reflexivity|]. split.
  - intros y H. vm_compute in H. discriminate.
  - intros e H. vm_compute in H. inversion H; subst. vm_compute. reflexivity.
Qed.

(** the hypotheses of the malformed-input theorems are satisfiable *)
Example malformed_request_example :
  let data := [255; 104] in
  str_dec data = inr [105; 110; 118; 97; 108; 105; 100; 32; 117; 116; 102; 45; 56; 32; 115; 101; 113; 117;
                      101; 110; 99; 101; 32; 111; 102; 32; 49; 32; 98; 121; 116; 101; 115; 32; 102; 114; 111;
                      109; 32; 105; 110; 100; 101; 120; 32; 48]   (* "invalid utf-8 sequence of 1 bytes from index 0" *)
  /\ rs_status (run_on_server N u8_display bytes bytes str_dec str_enc KDeserialization [] [47; 102] demo_body
                  (fun _ => RefRaw []) {| rq_data := data; rq_accept := None; rq_referer := None |}) = 500.
Proof. split; vm_compute; reflexivity. Qed.

Example malformed_response_example :
  let res := {| rs_status := 404; rs_body := [110; 111; 112; 101]; rs_error_header := None;
                rs_location := None; rs_redirect_header := false; rs_content_type := None |} in
  exists msg, client_result N u8_parse bytes str_dec res = (Err (Std KDeserialization msg), []).
Proof. eexists. vm_compute. reflexivity. Qed.

Example undecodable_response_example :
  let res := {| rs_status := 200; rs_body := [255]; rs_error_header := None;
                rs_location := None; rs_redirect_header := false; rs_content_type := None |} in
  ~ (400 <= rs_status res <= 599) /\ exists msg, str_dec (rs_body res) = inr msg.
Proof. split; [cbn; lia|eexists; vm_compute; reflexivity]. Qed.
