(** Model of server_fn's error wire formats.
    Anchors: server_fn/src/error.rs
      - [ServerFnError<CustErr>] (ten variants), [ServerFnErrorErr], [from_server_fn_error]
      - [ServerFnErrorEncoding]: [Encodes::encode] ("Kind|message"), [Decodes::decode]
        ([String::from_utf8], [split_once('|')], the match on the kind, the three fallbacks)
      - [FromServerFnError::{ser,de}]
      - [ServerFnUrlError::{to_url,decode_err,strip_error_info}]
    server_fn/src/lib.rs [FormatType::{into_encoded_string,from_encoded_string}].
    Modelled third-party / std pieces they call (see TRUSTED in gen/c13.py): the [Display] of
    [core::str::Utf8Error], [Debug for str] (restricted Unicode tables), decimal printing,
    base64 0.22 general-purpose engine (URL_SAFE, STANDARD_NO_PAD), form_urlencoded
    byte_serialize / parse, [url::Url::query_pairs_mut] on an already parsed absolute URL.
    No proofs in this file. *)
From Coq Require Import List NArith Bool.
From LV Require Import Base.Bytes Router.Url.
Import ListNotations.
Open Scope N_scope.

(** byte-string literals (UTF-8 bytes of the Rust string literals quoted beside them;
    [lits_spelled] in ErrorCodecProofs.v checks each against its text) *)
Definition L_invalid_utf_8_sequence_of : bytes := [105; 110; 118; 97; 108; 105; 100; 32; 117; 116; 102; 45; 56; 32; 115; 101; 113; 117; 101; 110; 99; 101; 32; 111; 102; 32].  (* "invalid utf-8 sequence of " *)
Definition L_bytes_from_index : bytes := [32; 98; 121; 116; 101; 115; 32; 102; 114; 111; 109; 32; 105; 110; 100; 101; 120; 32].  (* " bytes from index " *)
Definition L_incomplete_utf_8_byte_sequence_from_index : bytes := [105; 110; 99; 111; 109; 112; 108; 101; 116; 101; 32; 117; 116; 102; 45; 56; 32; 98; 121; 116; 101; 32; 115; 101; 113; 117; 101; 110; 99; 101; 32; 102; 114; 111; 109; 32; 105; 110; 100; 101; 120; 32].  (* "incomplete utf-8 byte sequence from index " *)
Definition L_bs_u_lbrace : bytes := [92; 117; 123].  (* "\u{" *)
Definition L_rbrace : bytes := [125].  (* "}" *)
Definition L_Registration : bytes := [82; 101; 103; 105; 115; 116; 114; 97; 116; 105; 111; 110].  (* "Registration" *)
Definition L_Request : bytes := [82; 101; 113; 117; 101; 115; 116].  (* "Request" *)
Definition L_Response : bytes := [82; 101; 115; 112; 111; 110; 115; 101].  (* "Response" *)
Definition L_ServerError : bytes := [83; 101; 114; 118; 101; 114; 69; 114; 114; 111; 114].  (* "ServerError" *)
Definition L_MiddlewareError : bytes := [77; 105; 100; 100; 108; 101; 119; 97; 114; 101; 69; 114; 114; 111; 114].  (* "MiddlewareError" *)
Definition L_Deserialization : bytes := [68; 101; 115; 101; 114; 105; 97; 108; 105; 122; 97; 116; 105; 111; 110].  (* "Deserialization" *)
Definition L_Serialization : bytes := [83; 101; 114; 105; 97; 108; 105; 122; 97; 116; 105; 111; 110].  (* "Serialization" *)
Definition L_Args : bytes := [65; 114; 103; 115].  (* "Args" *)
Definition L_MissingArg : bytes := [77; 105; 115; 115; 105; 110; 103; 65; 114; 103].  (* "MissingArg" *)
Definition L_WrappedServerFn : bytes := [87; 114; 97; 112; 112; 101; 100; 83; 101; 114; 118; 101; 114; 70; 110].  (* "WrappedServerFn" *)
Definition L_UTF_8_conversion_error : bytes := [85; 84; 70; 45; 56; 32; 99; 111; 110; 118; 101; 114; 115; 105; 111; 110; 32; 101; 114; 114; 111; 114; 58; 32].  (* "UTF-8 conversion error: " *)
Definition L_Invalid_format_missing_delimiter_in : bytes := [73; 110; 118; 97; 108; 105; 100; 32; 102; 111; 114; 109; 97; 116; 58; 32; 109; 105; 115; 115; 105; 110; 103; 32; 100; 101; 108; 105; 109; 105; 116; 101; 114; 32; 105; 110; 32].  (* "Invalid format: missing delimiter in " *)
Definition L_Failed_to_parse_CustErr_from : bytes := [70; 97; 105; 108; 101; 100; 32; 116; 111; 32; 112; 97; 114; 115; 101; 32; 67; 117; 115; 116; 69; 114; 114; 32; 102; 114; 111; 109; 32].  (* "Failed to parse CustErr from " *)
Definition L_Unknown_error_type : bytes := [85; 110; 107; 110; 111; 119; 110; 32; 101; 114; 114; 111; 114; 32; 116; 121; 112; 101; 58; 32].  (* "Unknown error type: " *)
Definition L_Unit_Type_Displayed : bytes := [85; 110; 105; 116; 32; 84; 121; 112; 101; 32; 68; 105; 115; 112; 108; 97; 121; 101; 100].  (* "Unit Type Displayed" *)

(** ---- decimal / hexadecimal printing ([impl Display for usize/u8], [{:x}]) ---- *)
Fixpoint digits_fuel (fuel : nat) (base n : N) (dig : N -> N) (acc : bytes) : bytes :=
  match fuel with
  | O => acc
  | S f =>
      let acc' := dig (n mod base) :: acc in
      if n <? base then acc' else digits_fuel f base (n / base) dig acc'
  end.
Definition dec_of_N (n : N) : bytes :=
  digits_fuel (S (N.to_nat (N.log2 n))) 10 n (fun d => 48 + d) [].
Definition hex_lower_digit (d : N) : N := if d <? 10 then 48 + d else 87 + d.
Definition hex_of_N (n : N) : bytes :=
  digits_fuel (S (N.to_nat (N.log2 n))) 16 n hex_lower_digit [].
Definition dec_of_nat (n : nat) : bytes := dec_of_N (N.of_nat n).

(** ---- [String::from_utf8] failure: [Utf8Error { valid_up_to, error_len }] ---- *)
Definition is_lead (b : N) : bool := in_range 194 244 b.

(** [None] = valid; [Some (valid_up_to, error_len)] *)
Fixpoint utf8_err_fuel (fuel : nat) (pos : nat) (l : bytes) : option (nat * option nat) :=
  match fuel with
  | O => match l with [] => None | _ => Some (pos, Some 0%nat) end  (* out of fuel: never with the fuel given below *)
  | S fuel =>
      match l with
      | [] => None
      | b :: rest =>
          let '(n, ok) := utf8_step b rest in
          if ok then utf8_err_fuel fuel (pos + n)%nat (skipn n l)
          else if is_lead b && Nat.eqb (List.length l) n then Some (pos, None)
          else Some (pos, Some n)
      end
  end.
Definition utf8_error (l : bytes) : option (nat * option nat) :=
  utf8_err_fuel (List.length l) 0%nat l.

Definition utf8_error_display (e : nat * option nat) : bytes :=
  match snd e with
  | Some n => L_invalid_utf_8_sequence_of ++ dec_of_nat n ++ L_bytes_from_index
              ++ dec_of_nat (fst e)
  | None => L_incomplete_utf_8_byte_sequence_from_index ++ dec_of_nat (fst e)
  end.

(** ---- [impl Debug for str] ---- *)
Definition code_point (ch : bytes) : N :=
  match ch with
  | [a] => a
  | [a; b] => (a - 192) * 64 + (b - 128)
  | [a; b; c] => (a - 224) * 4096 + (b - 128) * 64 + (c - 128)
  | [a; b; c; d] => (a - 240) * 262144 + (b - 128) * 4096 + (c - 128) * 64 + (d - 128)
  | _ => 0
  end.

(** [char::is_grapheme_extended(c) || !is_printable(c)] (both give the \u{..} form).
    Exact for every code point below U+0378 and for the ranges listed; any other code
    point is treated as printable (the generator only compares debug output over the
    code points for which this was checked against the real tables, see gen/c13.py). *)
Definition debug_escaped (c : N) : bool :=
  (c <? 32) || in_range 127 160 c || (c =? 173) || in_range 768 879 c
  || in_range 8192 8207 c || in_range 8232 8239 c || in_range 8287 8303 c
  || (c =? 12288) || in_range 57344 63743 c || in_range 65024 65039 c
  || (c =? 65279) || in_range 65519 65531 c || in_range 65534 65535 c.

Definition escape_debug_char (ch : bytes) : bytes :=
  let c := code_point ch in
  if c =? 0 then [92; 48]
  else if c =? 9 then [92; 116]
  else if c =? 13 then [92; 114]
  else if c =? 10 then [92; 110]
  else if c =? 92 then [92; 92]
  else if c =? 34 then [92; 34]
  else if debug_escaped c then L_bs_u_lbrace ++ hex_of_N c ++ L_rbrace
  else ch.

Fixpoint debug_fuel (fuel : nat) (l : bytes) : bytes :=
  match fuel with
  | O => []
  | S fuel =>
      match l with
      | [] => []
      | b :: rest =>
          let n := fst (utf8_step b rest) in
          escape_debug_char (firstn n l) ++ debug_fuel fuel (skipn n l)
      end
  end.
(** [format!("{s:?}")] for a valid UTF-8 string [s] *)
Definition debug_str (s : bytes) : bytes := [34] ++ debug_fuel (List.length s) s ++ [34].

(** ---- error values ---- *)
Inductive kind :=
| KRegistration | KRequest | KResponse | KServerError | KMiddlewareError
| KDeserialization | KSerialization | KArgs | KMissingArg.

Definition kind_eqb (a b : kind) : bool :=
  match a, b with
  | KRegistration, KRegistration | KRequest, KRequest | KResponse, KResponse
  | KServerError, KServerError | KMiddlewareError, KMiddlewareError
  | KDeserialization, KDeserialization | KSerialization, KSerialization
  | KArgs, KArgs | KMissingArg, KMissingArg => true
  | _, _ => false
  end.

(** [ServerFnError<C>]: [WrappedServerError(C)] and the nine string-carrying variants *)
Inductive sfe (C : Type) :=
| Wrapped (c : C)
| Std (k : kind) (m : bytes).
Arguments Wrapped {C} c.
Arguments Std {C} k m.

(** [ServerFnErrorErr]: the nine kinds plus [UnsupportedRequestMethod] *)
Inductive errerr :=
| EE (k : kind) (m : bytes)
| Unsupported (m : bytes).

(** [<ServerFnError<C> as FromServerFnError>::from_server_fn_error] *)
Definition from_server_fn_error {C} (e : errerr) : sfe C :=
  match e with
  | EE k m => Std k m
  | Unsupported m => Std KRequest m
  end.

Definition tag (k : kind) : bytes :=
  match k with
  | KRegistration => L_Registration
  | KRequest => L_Request
  | KResponse => L_Response
  | KServerError => L_ServerError
  | KMiddlewareError => L_MiddlewareError
  | KDeserialization => L_Deserialization
  | KSerialization => L_Serialization
  | KArgs => L_Args
  | KMissingArg => L_MissingArg
  end.
Definition wrapped_tag : bytes := L_WrappedServerFn.

Definition all_kinds : list kind :=
  [KRegistration; KRequest; KResponse; KServerError; KMiddlewareError;
   KDeserialization; KSerialization; KArgs; KMissingArg].

(** the arms of the [match ty { ... }] in [decode], in source order *)
Definition kind_of_tag (t : bytes) : option kind :=
  find (fun k => bytes_eqb t (tag k)) all_kinds.

Section Codec.
  (** the custom error type: its [Display] and its [FromStr] *)
  Variable C : Type.
  Variable cdisplay : C -> bytes.
  Variable cparse : bytes -> option C.

  (** [ServerFnErrorEncoding::encode] ([write!] into a [String] cannot fail) = [ser] *)
  Definition ser (e : sfe C) : bytes :=
    match e with
    | Wrapped c => wrapped_tag ++ [124] ++ cdisplay c
    | Std k m => tag k ++ [124] ++ m
    end.

  (** [ServerFnErrorEncoding::decode] *)
  Definition decode (data : bytes) : sfe C + bytes :=
    match utf8_error data with
    | Some err => inr (L_UTF_8_conversion_error ++ utf8_error_display err)
    | None =>
        match split_first 124 data with
        | (_, None) => inr (L_Invalid_format_missing_delimiter_in ++ debug_str data)
        | (ty, Some rest) =>
            if bytes_eqb ty wrapped_tag then
              match cparse rest with
              | Some c => inl (Wrapped c)
              | None => inr (L_Failed_to_parse_CustErr_from ++ debug_str rest)
              end
            else
              match kind_of_tag ty with
              | Some k => inl (Std k rest)
              | None => inr (L_Unknown_error_type ++ ty)
              end
        end
    end.

  (** [FromServerFnError::de] *)
  Definition de (data : bytes) : sfe C :=
    match decode data with
    | inl e => e
    | inr msg => from_server_fn_error (EE KDeserialization msg)
    end.
End Codec.

(** ---- the two custom error types the harness instantiates ---- *)
(** [NoCustomError]: Display "Unit Type Displayed", [from_str] always [Ok] *)
Definition nc_display (_ : unit) : bytes := L_Unit_Type_Displayed.
Definition nc_parse (_ : bytes) : option unit := Some tt.

(** harness type [Code(u8)]: Display = decimal, FromStr = [u8::from_str] *)
Fixpoint parse_digits (acc : N) (s : bytes) : option N :=
  match s with
  | [] => Some acc
  | d :: t =>
      if is_digit d then
        let acc' := acc * 10 + (d - 48) in
        if acc' <? 256 then parse_digits acc' t else None
      else None
  end.
Definition u8_parse (s : bytes) : option N :=
  match s with
  | [] => None
  | c :: t =>
      if (c =? 43) || (c =? 45) then
        match t with
        | [] => None
        | _ => if c =? 43 then parse_digits 0 t else None
        end
      else parse_digits 0 s
  end.
Definition u8_display (n : N) : bytes := dec_of_N n.
