(** Model of server_fn's error wire formats.
    Anchors: server_fn/src/error.rs
      - [ServerFnError<CustErr>] (ten variants), [ServerFnErrorErr], [from_server_fn_error]
      - [ServerFnErrorEncoding]: [Encodes::encode] ("Kind|message"), [Decodes::decode]
        ([String::from_utf8], [split_once('|')], the match on the kind, the three fallbacks)
      - [FromServerFnError::{ser,de}]
      - [ServerFnUrlError::{to_url,decode_err,strip_error_info}]
    server_fn/src/lib.rs [FormatType::{into_encoded_string,from_encoded_string}].
    Modelled third-party / std pieces they call (see TRUSTED in gen/c13.py): the [Display] of
    [core::str::Utf8Error], [Debug for str] (restricted Unicode tables), decimal printing,
    base64 0.22 general-purpose engine (URL_SAFE, STANDARD_NO_PAD), form_urlencoded
    byte_serialize / parse, [url::Url::query_pairs_mut] on an already parsed absolute URL.
    No proofs in this file. *)
From Coq Require Import List NArith Bool.
From LV Require Import Base.Bytes Router.Url.
Import ListNotations.
Open Scope N_scope.

(** byte-string literals (UTF-8 bytes of the Rust string literals quoted beside them;
    [lits_spelled] in ErrorCodecProofs.v checks each against its text) *)
Definition L_invalid_utf_8_sequence_of : bytes := [105; 110; 118; 97; 108; 105; 100; 32; 117; 116; 102; 45; 56; 32; 115; 101; 113; 117; 101; 110; 99; 101; 32; 111; 102; 32].  (* "invalid utf-8 sequence of " *)
Definition L_bytes_from_index : bytes := [32; 98; 121; 116; 101; 115; 32; 102; 114; 111; 109; 32; 105; 110; 100; 101; 120; 32].  (* " bytes from index " *)
Definition L_incomplete_utf_8_byte_sequence_from_index : bytes := [105; 110; 99; 111; 109; 112; 108; 101; 116; 101; 32; 117; 116; 102; 45; 56; 32; 98; 121; 116; 101; 32; 115; 101; 113; 117; 101; 110; 99; 101; 32; 102; 114; 111; 109; 32; 105; 110; 100; 101; 120; 32].  (* "incomplete utf-8 byte sequence from index " *)
Definition L_bs_u_lbrace : bytes := [92; 117; 123].  (* "\u{" *)
Definition L_rbrace : bytes := [125].  (* "}" *)
Definition L_Registration : bytes := [82; 101; 103; 105; 115; 116; 114; 97; 116; 105; 111; 110].  (* "Registration" *)
Definition L_Request : bytes := [82; 101; 113; 117; 101; 115; 116].  (* "Request" *)
Definition L_Response : bytes := [82; 101; 115; 112; 111; 110; 115; 101].  (* "Response" *)
Definition L_ServerError : bytes := [83; 101; 114; 118; 101; 114; 69; 114; 114; 111; 114].  (* "ServerError" *)
Definition L_MiddlewareError : bytes := [77; 105; 100; 100; 108; 101; 119; 97; 114; 101; 69; 114; 114; 111; 114].  (* "MiddlewareError" *)
Definition L_Deserialization : bytes := [68; 101; 115; 101; 114; 105; 97; 108; 105; 122; 97; 116; 105; 111; 110].  (* "Deserialization" *)
Definition L_Serialization : bytes := [83; 101; 114; 105; 97; 108; 105; 122; 97; 116; 105; 111; 110].  (* "Serialization" *)
Definition L_Args : bytes := [65; 114; 103; 115].  (* "Args" *)
Definition L_MissingArg : bytes := [77; 105; 115; 115; 105; 110; 103; 65; 114; 103].  (* "MissingArg" *)
Definition L_WrappedServerFn : bytes := [87; 114; 97; 112; 112; 101; 100; 83; 101; 114; 118; 101; 114; 70; 110].  (* "WrappedServerFn" *)
Definition L_UTF_8_conversion_error : bytes := [85; 84; 70; 45; 56; 32; 99; 111; 110; 118; 101; 114; 115; 105; 111; 110; 32; 101; 114; 114; 111; 114; 58; 32].  (* "UTF-8 conversion error: " *)
Definition L_Invalid_format_missing_delimiter_in : bytes := [73; 110; 118; 97; 108; 105; 100; 32; 102; 111; 114; 109; 97; 116; 58; 32; 109; 105; 115; 115; 105; 110; 103; 32; 100; 101; 108; 105; 109; 105; 116; 101; 114; 32; 105; 110; 32].  (* "Invalid format: missing delimiter in " *)
Definition L_Failed_to_parse_CustErr_from : bytes := [70; 97; 105; 108; 101; 100; 32; 116; 111; 32; 112; 97; 114; 115; 101; 32; 67; 117; 115; 116; 69; 114; 114; 32; 102; 114; 111; 109; 32].  (* "Failed to parse CustErr from " *)
Definition L_Unknown_error_type : bytes := [85; 110; 107; 110; 111; 119; 110; 32; 101; 114; 114; 111; 114; 32; 116; 121; 112; 101; 58; 32].  (* "Unknown error type: " *)
Definition L_Unit_Type_Displayed : bytes := [85; 110; 105; 116; 32; 84; 121; 112; 101; 32; 68; 105; 115; 112; 108; 97; 121; 101; 100].  (* "Unit Type Displayed" *)

(** ---- decimal / hexadecimal printing ([impl Display for usize/u8], [{:x}]) ---- *)
Fixpoint digits_fuel (fuel : nat) (base n : N) (dig : N -> N) (acc : bytes) : bytes :=
  match fuel with
  | O => acc
  | S f =>
      let acc' := dig (n mod base) :: acc in
      if n <? base then acc' else digits_fuel f base (n / base) dig acc'
  end.
Definition dec_of_N (n : N) : bytes :=
  digits_fuel (S (N.to_nat (N.log2 n))) 10 n (fun d => 48 + d) [].
Definition hex_lower_digit (d : N) : N := if d <? 10 then 48 + d else 87 + d.
Definition hex_of_N (n : N) : bytes :=
  digits_fuel (S (N.to_nat (N.log2 n))) 16 n hex_lower_digit [].
Definition dec_of_nat (n : nat) : bytes := dec_of_N (N.of_nat n).

(** ---- [String::from_utf8] failure: [Utf8Error { valid_up_to, error_len }] ---- *)
Definition is_lead (b : N) : bool := in_range 194 244 b.

(** [None] = valid; [Some (valid_up_to, error_len)] *)
Fixpoint utf8_err_fuel (fuel : nat) (pos : nat) (l : bytes) : option (nat * option nat) :=
  match fuel with
  | O => match l with [] => None | _ => Some (pos, Some 0%nat) end  (* out of fuel: never with the fuel given below *)
  | S fuel =>
      match l with
      | [] => None
      | b :: rest =>
          let '(n, ok) := utf8_step b rest in
          if ok then utf8_err_fuel fuel (pos + n)%nat (skipn n l)
          else if is_lead b && Nat.eqb (List.length l) n then Some (pos, None)
          else Some (pos, Some n)
      end
  end.
Definition utf8_error (l : bytes) : option (nat * option nat) :=
  utf8_err_fuel (List.length l) 0%nat l.

Definition utf8_error_display (e : nat * option nat) : bytes :=
  match snd e with
  | Some n => L_invalid_utf_8_sequence_of ++ dec_of_nat n ++ L_bytes_from_index
              ++ dec_of_nat (fst e)
  | None => L_incomplete_utf_8_byte_sequence_from_index ++ dec_of_nat (fst e)
  end.

(** ---- [impl Debug for str] ---- *)
Definition code_point (ch : bytes) : N :=
  match ch with
  | [a] => a
  | [a; b] => (a - 192) * 64 + (b - 128)
  | [a; b; c] => (a - 224) * 4096 + (b - 128) * 64 + (c - 128)
  | [a; b; c; d] => (a - 240) * 262144 + (b - 128) * 4096 + (c - 128) * 64 + (d - 128)
  | _ => 0
  end.

(** [char::is_grapheme_extended(c) || !is_printable(c)] (both give the \u{..} form).
    Exact for every code point below U+0378 and for the ranges listed; any other code
    point is treated as printable (the generator only compares debug output over the
    code points for which this was checked against the real tables, see gen/c13.py). *)
Definition debug_escaped (c : N) : bool :=
  (c <? 32) || in_range 127 160 c || (c =? 173) || in_range 768 879 c
  || in_range 8192 8207 c || in_range 8232 8239 c || in_range 8287 8303 c
  || (c =? 12288) || in_range 57344 63743 c || in_range 65024 65039 c
  || (c =? 65279) || in_range 65519 65531 c || in_range 65534 65535 c.

Definition escape_debug_char (ch : bytes) : bytes :=
  let c := code_point ch in
  if c =? 0 then [92; 48]
  else if c =? 9 then [92; 116]
  else if c =? 13 then [92; 114]
  else if c =? 10 then [92; 110]
  else if c =? 92 then [92; 92]
  else if c =? 34 then [92; 34]
  else if debug_escaped c then L_bs_u_lbrace ++ hex_of_N c ++ L_rbrace
  else ch.

Fixpoint debug_fuel (fuel : nat) (l : bytes) : bytes :=
  match fuel with
  | O => []
  | S fuel =>
      match l with
      | [] => []
      | b :: rest =>
          let n := fst (utf8_step b rest) in
          escape_debug_char (firstn n l) ++ debug_fuel fuel (skipn n l)
      end
  end.
(** [format!("{s:?}")] for a valid UTF-8 string [s] *)
Definition debug_str (s : bytes) : bytes := [34] ++ debug_fuel (List.length s) s ++ [34].

(** ---- error values ---- *)
Inductive kind :=
| KRegistration | KRequest | KResponse | KServerError | KMiddlewareError
| KDeserialization | KSerialization | KArgs | KMissingArg.

Definition kind_eqb (a b : kind) : bool :=
  match a, b with
  | KRegistration, KRegistration | KRequest, KRequest | KResponse, KResponse
  | KServerError, KServerError | KMiddlewareError, KMiddlewareError
  | KDeserialization, KDeserialization | KSerialization, KSerialization
  | KArgs, KArgs | KMissingArg, KMissingArg => true
  | _, _ => false
  end.

(** [ServerFnError<C>]: [WrappedServerError(C)] and the nine string-carrying variants *)
Inductive sfe (C : Type) :=
| Wrapped (c : C)
| Std (k : kind) (m : bytes).
Arguments Wrapped {C} c.
Arguments Std {C} k m.

(** [ServerFnErrorErr]: the nine kinds plus [UnsupportedRequestMethod] *)
Inductive errerr :=
| EE (k : kind) (m : bytes)
| Unsupported (m : bytes).

(** [<ServerFnError<C> as FromServerFnError>::from_server_fn_error] *)
Definition from_server_fn_error {C} (e : errerr) : sfe C :=
  match e with
  | EE k m => Std k m
  | Unsupported m => Std KRequest m
  end.

Definition tag (k : kind) : bytes :=
  match k with
  | KRegistration => L_Registration
  | KRequest => L_Request
  | KResponse => L_Response
  | KServerError => L_ServerError
  | KMiddlewareError => L_MiddlewareError
  | KDeserialization => L_Deserialization
  | KSerialization => L_Serialization
  | KArgs => L_Args
  | KMissingArg => L_MissingArg
  end.
Definition wrapped_tag : bytes := L_WrappedServerFn.

Definition all_kinds : list kind :=
  [KRegistration; KRequest; KResponse; KServerError; KMiddlewareError;
   KDeserialization; KSerialization; KArgs; KMissingArg].

(** the arms of the [match ty { ... }] in [decode], in source order *)
Definition kind_of_tag (t : bytes) : option kind :=
  find (fun k => bytes_eqb t (tag k)) all_kinds.

Section Codec.
  (** the custom error type: its [Display] and its [FromStr] *)
  Variable C : Type.
  Variable cdisplay : C -> bytes.
  Variable cparse : bytes -> option C.

  (** [ServerFnErrorEncoding::encode] ([write!] into a [String] cannot fail) = [ser] *)
  Definition ser (e : sfe C) : bytes :=
    match e with
    | Wrapped c => wrapped_tag ++ [124] ++ cdisplay c
    | Std k m => tag k ++ [124] ++ m
    end.

  (** [ServerFnErrorEncoding::decode] *)
  Definition decode (data : bytes) : sfe C + bytes :=
    match utf8_error data with
    | Some err => inr (L_UTF_8_conversion_error ++ utf8_error_display err)
    | None =>
        match split_first 124 data with
        | (_, None) => inr (L_Invalid_format_missing_delimiter_in ++ debug_str data)
        | (ty, Some rest) =>
            if bytes_eqb ty wrapped_tag then
              match cparse rest with
              | Some c => inl (Wrapped c)
              | None => inr (L_Failed_to_parse_CustErr_from ++ debug_str rest)
              end
            else
              match kind_of_tag ty with
              | Some k => inl (Std k rest)
              | None => inr (L_Unknown_error_type ++ ty)
              end
        end
    end.

  (** [FromServerFnError::de] *)
  Definition de (data : bytes) : sfe C :=
    match decode data with
    | inl e => e
    | inr msg => from_server_fn_error (EE KDeserialization msg)
    end.
End Codec.

(** ---- the two custom error types the harness instantiates ---- *)
(** [NoCustomError]: Display "Unit Type Displayed", [from_str] always [Ok] *)
Definition nc_display (_ : unit) : bytes := L_Unit_Type_Displayed.
Definition nc_parse (_ : bytes) : option unit := Some tt.

(** harness type [Code(u8)]: Display = decimal, FromStr = [u8::from_str] *)
Fixpoint parse_digits (acc : N) (s : bytes) : option N :=
  match s with
  | [] => Some acc
  | d :: t =>
      if is_digit d then
        let acc' := acc * 10 + (d - 48) in
        if acc' <? 256 then parse_digits acc' t else None
      else None
  end.
Definition u8_parse (s : bytes) : option N :=
  match s with
  | [] => None
  | c :: t =>
      if (c =? 43) || (c =? 45) then
        match t with
        | [] => None
        | _ => if c =? 43 then parse_digits 0 t else None
        end
      else parse_digits 0 s
  end.
Definition u8_display (n : N) : bytes := dec_of_N n.

(** ---- base64 0.22 general-purpose engine ----
    [url = true]: URL-safe alphabet; [pad = true]: the PAD config (encode with '=',
    decode with [DecodePaddingMode::RequireCanonical]); [pad = false]: NO_PAD (no '=' on
    encode, [RequireNone] on decode). [decode_allow_trailing_bits] is false in both.
    server_fn uses URL_SAFE = (true, true) for the URL form of an error and
    STANDARD_NO_PAD = (false, false) for [FormatType::into_encoded_string]. *)
Definition L_Invalid_symbol : bytes := [73; 110; 118; 97; 108; 105; 100; 32; 115; 121; 109; 98; 111; 108; 32].  (* "Invalid symbol " *)
Definition L_offset : bytes := [44; 32; 111; 102; 102; 115; 101; 116; 32].  (* ", offset " *)
Definition L_dot : bytes := [46].  (* "." *)
Definition L_Invalid_input_length : bytes := [73; 110; 118; 97; 108; 105; 100; 32; 105; 110; 112; 117; 116; 32; 108; 101; 110; 103; 116; 104; 58; 32].  (* "Invalid input length: " *)
Definition L_Invalid_last_symbol : bytes := [73; 110; 118; 97; 108; 105; 100; 32; 108; 97; 115; 116; 32; 115; 121; 109; 98; 111; 108; 32].  (* "Invalid last symbol " *)
Definition L_Invalid_padding : bytes := [73; 110; 118; 97; 108; 105; 100; 32; 112; 97; 100; 100; 105; 110; 103].  (* "Invalid padding" *)
Definition L_path : bytes := [95; 95; 112; 97; 116; 104].  (* "__path" *)
Definition L_err : bytes := [95; 95; 101; 114; 114].  (* "__err" *)

Definition b64_sym (url : bool) (v : N) : N :=
  if v <? 26 then 65 + v
  else if v <? 52 then 97 + (v - 26)
  else if v <? 62 then 48 + (v - 52)
  else if v =? 62 then (if url then 45 else 43)
  else (if url then 95 else 47).

Definition b64_val (url : bool) (b : N) : option N :=
  if is_upper b then Some (b - 65)
  else if is_lower b then Some (b - 97 + 26)
  else if is_digit b then Some (b - 48 + 52)
  else if b =? (if url then 45 else 43) then Some 62
  else if b =? (if url then 95 else 47) then Some 63
  else None.

Fixpoint b64_encode (url pad : bool) (l : bytes) : bytes :=
  match l with
  | a :: b :: c :: t =>
      b64_sym url (a / 4) :: b64_sym url ((a mod 4) * 16 + b / 16)
      :: b64_sym url ((b mod 16) * 4 + c / 64) :: b64_sym url (c mod 64)
      :: b64_encode url pad t
  | [a; b] =>
      [b64_sym url (a / 4); b64_sym url ((a mod 4) * 16 + b / 16); b64_sym url ((b mod 16) * 4)]
      ++ (if pad then [61] else [])
  | [a] =>
      [b64_sym url (a / 4); b64_sym url ((a mod 4) * 16)] ++ (if pad then [61; 61] else [])
  | [] => []
  end.

Inductive b64_error :=
| InvalidByte (off : nat) (b : N)
| InvalidLength (n : nat)
| InvalidLastSymbol (off : nat) (b : N)
| InvalidPadding.

(** [impl Display for DecodeError] *)
Definition b64_error_display (e : b64_error) : bytes :=
  match e with
  | InvalidByte off b => L_Invalid_symbol ++ dec_of_N b ++ L_offset ++ dec_of_nat off ++ L_dot
  | InvalidLength n => L_Invalid_input_length ++ dec_of_nat n
  | InvalidLastSymbol off b => L_Invalid_last_symbol ++ dec_of_N b ++ L_offset ++ dec_of_nat off ++ L_dot
  | InvalidPadding => L_Invalid_padding
  end.

(** [decode_chunk_4] / [decode_chunk_8]: a complete non-terminal quad; the first symbol
    that is not in the alphabet ('=' included) is reported with its offset *)
Definition dec_quad (url : bool) (off : nat) (a b c d : N) : bytes + b64_error :=
  match b64_val url a with
  | None => inr (InvalidByte off a)
  | Some m0 =>
  match b64_val url b with
  | None => inr (InvalidByte (off + 1) b)
  | Some m1 =>
  match b64_val url c with
  | None => inr (InvalidByte (off + 2) c)
  | Some m2 =>
  match b64_val url d with
  | None => inr (InvalidByte (off + 3) d)
  | Some m3 => inl [m0 * 4 + m1 / 16; (m1 mod 16) * 16 + m2 / 4; (m2 mod 4) * 64 + m3]
  end end end end.

(** [decode_suffix]: the last 1..4 bytes (0 for empty input) *)
Record sfx := { morsels : list N; pads : nat; first_pad : nat; last_sym : N }.

Fixpoint sfx_loop (url : bool) (off i : nat) (l : bytes) (st : sfx) : sfx + b64_error :=
  match l with
  | [] => inl st
  | b :: t =>
      if b =? 61 then
        if Nat.ltb i 2 then inr (InvalidByte (off + i) b)
        else sfx_loop url off (S i) t
               {| morsels := morsels st; pads := S (pads st);
                  first_pad := (if Nat.eqb (pads st) 0 then i else first_pad st);
                  last_sym := last_sym st |}
      else if Nat.ltb 0 (pads st) then inr (InvalidByte (off + first_pad st) 61)
      else
        match b64_val url b with
        | None => inr (InvalidByte (off + i) b)
        | Some v =>
            sfx_loop url off (S i) t
              {| morsels := morsels st ++ [v]; pads := pads st; first_pad := first_pad st;
                 last_sym := b |}
        end
  end.

Definition dec_suffix (url canonical : bool) (off : nat) (l : bytes) : bytes + b64_error :=
  match sfx_loop url off 0 l {| morsels := []; pads := 0; first_pad := 0; last_sym := 0 |} with
  | inr e => inr e
  | inl st =>
      let n := List.length (morsels st) in
      let m i := nth i (morsels st) 0 in
      if (match l with [] => false | _ => true end) && Nat.ltb n 2 then inr (InvalidLength (off + n))
      else if (if canonical then negb (Nat.eqb (Nat.modulo (pads st + n) 4) 0) else Nat.ltb 0 (pads st))
      then inr InvalidPadding
      else
        (* leftover_num & mask: bits of the last symbol that do not reach the output *)
        match n with
        | 2%nat => if m 1%nat mod 16 =? 0 then inl [m 0%nat * 4 + m 1%nat / 16]
                   else inr (InvalidLastSymbol (off + 1) (last_sym st))
        | 3%nat => if m 2%nat mod 4 =? 0
                   then inl [m 0%nat * 4 + m 1%nat / 16; (m 1%nat mod 16) * 16 + m 2%nat / 4]
                   else inr (InvalidLastSymbol (off + 2) (last_sym st))
        | 4%nat => inl [m 0%nat * 4 + m 1%nat / 16; (m 1%nat mod 16) * 16 + m 2%nat / 4;
                        (m 2%nat mod 4) * 64 + m 3%nat]
        | _ => inl []
        end
  end.

(** quads that are followed by at least one more byte go through [dec_quad]; the rest
    (what [complete_quads_len] leaves: len % 4 bytes, or 4 if that is 0) is the suffix *)
Fixpoint dec_main (url canonical : bool) (off : nat) (l : bytes) : bytes + b64_error :=
  match l with
  | a :: b :: c :: d :: ((_ :: _) as t) =>
      match dec_quad url off a b c d with
      | inr e => inr e
      | inl o =>
          match dec_main url canonical (off + 4) t with
          | inl r => inl (o ++ r)
          | inr e => inr e
          end
      end
  | _ => dec_suffix url canonical off l
  end.

(** len % 4 *)
Fixpoint len_mod4 (l : bytes) : nat :=
  match l with
  | _ :: _ :: _ :: _ :: t => len_mod4 t
  | [_; _; _] => 3
  | [_; _] => 2
  | [_] => 1
  | [] => 0
  end.

(** [Engine::decode]: [complete_quads_len]'s "trailing invalid byte" convenience check
    comes first *)
Definition b64_decode (url pad : bool) (input : bytes) : bytes + b64_error :=
  let lastb := last input 0 in
  if Nat.eqb (len_mod4 input) 1 && negb (lastb =? 61)
     && (match b64_val url lastb with None => true | Some _ => false end)
  then inr (InvalidByte (List.length input - 1) lastb)
  else dec_main url pad 0 input.

(** ---- form_urlencoded::byte_serialize (Serializer::append_pair) ---- *)
Definition fs_unchanged (b : N) : bool :=
  is_alnum b || (b =? 42) || (b =? 45) || (b =? 46) || (b =? 95).
Definition fs_byte (b : N) : bytes :=
  if fs_unchanged b then [b]
  else if b =? 32 then [43]
  else [37; hex_digit (b / 16); hex_digit (b mod 16)].
Definition byte_serialize (s : bytes) : bytes := flat_map fs_byte s.

(** [Serializer::append_pair] on the query text [q] (text after '?') *)
Definition append_pair (q k v : bytes) : bytes :=
  (match q with [] => [] | _ => q ++ [38] end) ++ byte_serialize k ++ [61] ++ byte_serialize v.

(** an already parsed absolute URL: everything before '?', the query, the fragment *)
Record purl := { u_pre : bytes; u_query : option bytes; u_frag : option bytes }.
Definition url_string (u : purl) : bytes :=
  u_pre u ++ (match u_query u with Some q => 63 :: q | None => [] end)
          ++ (match u_frag u with Some f => 35 :: f | None => [] end).

(** [ParamsMap::get_str] / "the most recently added value" of a key among query pairs *)
Definition last_value (key : bytes) (pairs : list (bytes * bytes)) : option bytes :=
  fold_left (fun acc kv => if bytes_eqb (fst kv) key then Some (snd kv) else acc) pairs None.

Definition is_err_key (k : bytes) : bool := bytes_eqb k L_path || bytes_eqb k L_err.

(** [ServerFnUrlError::strip_error_info] on a URL that parses: every pair is decoded and
    re-serialized, those named __path / __err are dropped; the query becomes [Some] *)
Definition strip_error_info (u : purl) : purl :=
  let pairs := form_parse (match u_query u with Some q => q | None => [] end) in
  let kept := filter (fun kv => negb (is_err_key (fst kv))) pairs in
  {| u_pre := u_pre u;
     u_query := Some (fold_left (fun q kv => append_pair q (fst kv) (snd kv)) kept []);
     u_frag := u_frag u |}.

Section UrlForm.
  Variable C : Type.
  Variable cdisplay : C -> bytes.
  Variable cparse : bytes -> option C.

  (** [ServerFnUrlError::new(path, e).to_url(base)] where [base] parses to [u] *)
  Definition to_url (u : purl) (path : bytes) (e : sfe C) : purl :=
    let q0 := match u_query u with Some q => q | None => [] end in
    {| u_pre := u_pre u;
       u_query := Some (append_pair (append_pair q0 L_path path) L_err
                                    (b64_encode true true (ser C cdisplay e)));
       u_frag := u_frag u |}.

  (** [ServerFnUrlError::decode_err] *)
  Definition decode_err (s : bytes) : sfe C :=
    match b64_decode true true s with
    | inr err => from_server_fn_error (EE KDeserialization (b64_error_display err))
    | inl data => de C cparse data
    end.

  (** what the client reads back from the URL it was redirected to:
      [search_params.get_str("__path")], [get_str("__err")] then [decode_err] *)
  Definition read_back (u : purl) : option bytes * option (sfe C) :=
    let pairs := form_parse (match u_query u with Some q => q | None => [] end) in
    (last_value L_path pairs,
     match last_value L_err pairs with Some s => Some (decode_err s) | None => None end).
End UrlForm.
