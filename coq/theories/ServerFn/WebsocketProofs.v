(** Proofs about the websocket framing and the string form of errors (ServerFn/Websocket.v). *)
From Coq Require Import List NArith Bool Lia String Ascii.
From LV Require Import Base.Bytes Router.Url Router.UrlProofs
  ServerFn.ErrorCodec ServerFn.ErrorCodecProofs ServerFn.Base64Proofs ServerFn.Protocol
  ServerFn.ProtocolProofs ServerFn.Websocket.
Import ListNotations.
Open Scope N_scope.

Section Websocket.
  Variable C : Type.
  Variable cdisplay : C -> bytes.
  Variable cparse : bytes -> option C.
  Variables In Out : Type.
  Variable enc_in : In -> bytes + bytes.
  Variable dec_in : bytes -> In + bytes.
  Variable enc_out : Out -> bytes + bytes.
  Variable dec_out : bytes -> Out + bytes.
  Variable body : list (item C In) -> list (item C Out).

  Notation err_ok := (err_ok C cdisplay cparse).
  Notation send_item := (send_item C cdisplay).
  Notation recv_item := (recv_item C cparse).

  (** the assumption about an item and its codec: decoding inverts encoding; an error item
      is a Rust value (UTF-8 strings, FromStr inverts Display) *)
  Definition item_ok {A} (enc : A -> bytes + bytes) (dec : bytes -> A + bytes) (i : item C A) : Prop :=
    match i with
    | inl x => exists b, enc x = inl b /\ dec b = inl x
    | inr e => err_ok e
    end.

  (** one item survives one hop *)
  Lemma item_roundtrip {A} (enc : A -> bytes + bytes) (dec : bytes -> A + bytes) (i : item C A) :
    item_ok enc dec i -> recv_item dec (send_item enc i) = i.
  Proof.
    destruct i as [x|e]; cbn [item_ok Websocket.send_item Websocket.recv_item].
    - intros [b [Hb Hd]]. rewrite Hb. cbn [Websocket.recv_item]. rewrite Hd. reflexivity.
    - intros H. rewrite (error_roundtrip C cdisplay cparse e H). reflexivity.
  Qed.

  Lemma items_roundtrip {A} (enc : A -> bytes + bytes) (dec : bytes -> A + bytes) (l : list (item C A)) :
    Forall (item_ok enc dec) l -> map (recv_item dec) (map (send_item enc) l) = l.
  Proof.
    induction 1 as [|i l Hi _ IH]; [reflexivity|].
    cbn [map]. rewrite (item_roundtrip enc dec i Hi), IH. reflexivity.
  Qed.

  (** the stream a websocket server function returns to a remote caller is, item by item —
      values and error items of every variant and message alike, in both directions — the
      stream its body returns when called directly, whenever the transport delivers the
      frames it was given *)
  Theorem ws_remote_eq_direct (items : list (item C In)) :
    Forall (item_ok enc_in dec_in) items ->
    Forall (item_ok enc_out dec_out) (body items) ->
    ws_remote C cdisplay cparse In Out enc_in dec_in enc_out dec_out body [] [] items
    = ws_direct C In Out body items.
  Proof.
    intros Hin Hout. unfold ws_remote, ws_direct, in_flight. cbn [fold_left].
    rewrite (items_roundtrip enc_in dec_in items Hin).
    apply (items_roundtrip enc_out dec_out (body items) Hout).
  Qed.

  (** whatever frame arrives, the receiver obtains an item: a data frame its codec rejects is
      a Deserialization error carrying the codec's diagnostic, an error frame goes through the
      total [de] *)
  Theorem ws_frame_undecodable {A} (dec : bytes -> A + bytes) b msg :
    dec b = inr msg -> recv_item dec (inl b) = inr (Std KDeserialization msg).
  Proof. intros H. cbn [Websocket.recv_item]. rewrite H. reflexivity. Qed.
  Theorem ws_error_frame {A} (dec : bytes -> A + bytes) b :
    recv_item dec (inr b) = inr (de C cparse b).
  Proof. reflexivity. Qed.

  (** an item its codec cannot encode travels as a Serialization error and arrives as one *)
  Theorem ws_unencodable_item {A} (enc : A -> bytes + bytes) (dec : bytes -> A + bytes) x msg :
    enc x = inr msg -> utf8_valid msg = true ->
    recv_item dec (send_item enc (inl x)) = inr (Std KSerialization msg).
  Proof.
    intros H Hv. cbn [Websocket.send_item]. rewrite H. cbn [Websocket.recv_item from_server_fn_error].
    rewrite (error_roundtrip C cdisplay cparse (Std KSerialization msg) Hv). reflexivity.
  Qed.

  (** the transport only replaces frames: lengths are preserved, so a fault never loses or
      invents items *)
  Lemma replace_nth_length i f (l : list frame) : List.length (replace_nth i f l) = List.length l.
  Proof.
    revert i. induction l as [|h t IH]; intros [|j]; cbn [replace_nth List.length]; try reflexivity.
    rewrite IH. reflexivity.
  Qed.
  Lemma in_flight_length edits : forall l : list frame, List.length (in_flight edits l) = List.length l.
  Proof.
    unfold in_flight. induction edits as [|e es IH]; intros l; cbn [fold_left]; [reflexivity|].
    rewrite IH. apply replace_nth_length.
  Qed.
  Theorem ws_remote_length up down items :
    (forall l, List.length (body l) = List.length l) ->
    List.length (ws_remote C cdisplay cparse In Out enc_in dec_in enc_out dec_out body up down items)
    = List.length items.
  Proof.
    intros Hb. unfold ws_remote.
    rewrite map_length, in_flight_length, map_length, Hb, map_length, in_flight_length, map_length.
    reflexivity.
  Qed.
End Websocket.

(** the hypotheses are satisfiable by a non-trivial stream: values, a failing item, an error
    item of the custom kind, a message with the delimiter *)
Example ws_remote_eq_direct_example :
  let items : list (item N bytes) :=
    [inl [104; 105]; inl [69; 52; 98; 124; 111]; inr (Wrapped 7); inr (Std KArgs [124])] in
  Forall (item_ok N u8_display u8_parse str_enc str_dec) items
  /\ Forall (item_ok N u8_display u8_parse str_enc str_dec) (map glue_item items)
  /\ ws_glue_remote [] [] items
     = [inl [104; 105; 33]; inr (Std KServerError [98; 124; 111]); inr (Wrapped 7); inr (Std KArgs [124])].
Proof.
  split; [|split; [|vm_compute; reflexivity]].
  - repeat constructor; cbn [item_ok]; try (eexists; split; reflexivity); vm_compute; auto.
  - repeat constructor; cbn [item_ok]; try (eexists; split; reflexivity); vm_compute; auto.
Qed.
Example ws_fault_example :
  ws_glue_remote [(0%nat, inl [255])] [(1%nat, inr [120])] [inl [104]; inl [105]]
  = [inr (Std KDeserialization
            (ErrorCodecProofs.lit "invalid utf-8 sequence of 1 bytes from index 0"));
     inr (Std KDeserialization
            (ErrorCodecProofs.lit "Invalid format: missing delimiter in ""x"""))].
Proof. vm_compute. reflexivity. Qed.

(** ---- the string form of an error ---- *)
Section Wrapper.
  Variable E : Type.
  Variable fmt : format.
  Variable eser : E -> bytes.
  Variable ede : bytes -> E.
  Variable deser_error : bytes -> E.

  (** an error survives [to_string] / [from_str] of its wrapper for both kinds of encoder:
      a text encoder's output is taken as it is, a binary encoder's goes through unpadded
      standard base64 *)
  Theorem wrapper_roundtrip (e : E) :
    (fmt = FText -> utf8_valid (eser e) = true) ->
    all_bytes (eser e) = true ->
    ede (eser e) = e ->
    exists s, wrapper_to_string E fmt eser e = Some s
              /\ wrapper_from_str E fmt ede deser_error s = e.
  Proof.
    intros Htext Hbytes Hde. unfold wrapper_to_string, wrapper_from_str.
    destruct fmt; cbn [into_encoded_string from_encoded_string].
    - rewrite (Htext eq_refl). eexists; split; [reflexivity|]. exact Hde.
    - eexists; split; [reflexivity|].
      rewrite (base64_roundtrip false false (eser e) Hbytes). exact Hde.
  Qed.

  (** a string that is not the text form of anything still yields an error value *)
  Theorem wrapper_from_str_malformed s err :
    from_encoded_string fmt s = inr err ->
    wrapper_from_str E fmt ede deser_error s = deser_error (b64_error_display err).
  Proof. intros H. unfold wrapper_from_str. rewrite H. reflexivity. Qed.
End Wrapper.

(** for [ServerFnError<C>] itself *)
Theorem sfe_string_roundtrip C cdisplay cparse (e : sfe C) :
  err_ok C cdisplay cparse e ->
  exists s, sfe_to_string C cdisplay e = Some s /\ sfe_from_str C cparse s = e.
Proof.
  intros H. unfold sfe_to_string, sfe_from_str.
  apply wrapper_roundtrip.
  - intros _. apply ser_valid with (cparse := cparse). exact H.
  - apply utf8_valid_all_bytes. apply ser_valid with (cparse := cparse). exact H.
  - apply error_roundtrip. exact H.
Qed.
Example sfe_string_roundtrip_example :
  let e : sfe N := Std KMissingArg (ErrorCodecProofs.lit "a|b") in
  err_ok N u8_display u8_parse e
  /\ sfe_to_string N u8_display e = Some (ErrorCodecProofs.lit "MissingArg|a|b")
  /\ sfe_from_str N u8_parse (ErrorCodecProofs.lit "MissingArg|a|b") = e.
Proof. split; [|split]; vm_compute; reflexivity. Qed.
Example wrapper_binary_example :
  exists s, wrapper_to_string bytes FBinary (fun b => b) [255; 0; 1] = Some s
            /\ wrapper_from_str bytes FBinary (fun b => b) (fun m => m) s = [255; 0; 1].
Proof. eexists; split; vm_compute; reflexivity. Qed.
