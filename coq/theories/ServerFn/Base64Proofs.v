(** Proofs about the base64 engine model of ServerFn/ErrorCodec.v: decoding an encoding
    returns the original bytes, for both engines server_fn uses. *)
From Coq Require Import List NArith Bool Lia ZArith.
From LV Require Import Base.Bytes Router.Url Router.UrlProofs ServerFn.ErrorCodec.
Import ListNotations.
Open Scope N_scope.
Ltac Zify.zify_post_hook ::= Z.to_euclidean_division_equations.

Lemma b64_val_sym url v : v < 64 -> b64_val url (b64_sym url v) = Some v.
Proof.
  intros Hv. unfold b64_sym, b64_val, is_upper, is_lower, is_digit, in_range.
  destruct url; bdestr; cbn [andb]; try (f_equal; lia); try lia.
Qed.

Lemma b64_sym_not_pad url v : v < 64 -> (b64_sym url v =? 61) = false.
Proof.
  intros Hv. apply N.eqb_neq. unfold b64_sym. destruct url; bdestr; lia.
Qed.

Lemma b64_sym_ascii url v : v < 64 -> (b64_sym url v <? 128) = true.
Proof.
  intros Hv. apply N.ltb_lt. unfold b64_sym. destruct url; bdestr; lia.
Qed.

(** step-3 induction on lists *)
Lemma list_ind3 {A} (P : list A -> Prop) :
  P [] -> (forall a, P [a]) -> (forall a b, P [a; b]) ->
  (forall a b c t, P t -> P (a :: b :: c :: t)) -> forall l, P l.
Proof.
  intros H0 H1 H2 H3.
  assert (H : forall l, P l /\ (forall a, P (a :: l)) /\ (forall a b, P (a :: b :: l))).
  { induction l as [|x l [IH0 [IH1 IH2]]].
    - repeat split; auto.
    - split; [apply IH1|]. split; [intros a; apply IH2|]. intros a b. apply H3. exact IH0. }
  intros l. apply H.
Qed.

Definition st0 : sfx := {| morsels := []; pads := 0; first_pad := 0; last_sym := 0 |}.

Ltac sfx_step :=
  cbn [sfx_loop morsels pads first_pad last_sym app Nat.ltb Nat.leb Nat.eqb];
  repeat first
    [ rewrite b64_sym_not_pad by lia
    | rewrite b64_val_sym by lia
    | rewrite N.eqb_refl ];
  cbn [sfx_loop morsels pads first_pad last_sym app Nat.ltb Nat.leb Nat.eqb].

(** the five shapes the suffix of an encoding can have *)
Lemma suffix_full url canon off a b c :
  a < 256 -> b < 256 -> c < 256 ->
  dec_suffix url canon off
    [b64_sym url (a / 4); b64_sym url ((a mod 4) * 16 + b / 16);
     b64_sym url ((b mod 16) * 4 + c / 64); b64_sym url (c mod 64)] = inl [a; b; c].
Proof.
  intros Ha Hb Hc. unfold dec_suffix.
  do 5 sfx_step.
  cbn [List.length andb Nat.ltb Nat.leb Nat.add Nat.modulo Nat.divmod fst snd Nat.sub Nat.eqb negb nth].
  destruct canon; cbn [negb]; repeat f_equal; lia.
Qed.

Lemma suffix_two_pad url off a b :
  a < 256 -> b < 256 ->
  dec_suffix url true off
    [b64_sym url (a / 4); b64_sym url ((a mod 4) * 16 + b / 16); b64_sym url ((b mod 16) * 4); 61]
  = inl [a; b].
Proof.
  intros Ha Hb. unfold dec_suffix.
  do 5 sfx_step.
  cbn [List.length andb Nat.ltb Nat.leb Nat.add Nat.modulo Nat.divmod fst snd Nat.sub Nat.eqb negb nth].
  replace (((b mod 16) * 4) mod 4 =? 0) with true by (symmetry; apply N.eqb_eq; lia).
  repeat f_equal; lia.
Qed.

Lemma suffix_two_nopad url off a b :
  a < 256 -> b < 256 ->
  dec_suffix url false off
    [b64_sym url (a / 4); b64_sym url ((a mod 4) * 16 + b / 16); b64_sym url ((b mod 16) * 4)]
  = inl [a; b].
Proof.
  intros Ha Hb. unfold dec_suffix.
  do 4 sfx_step.
  cbn [List.length andb Nat.ltb Nat.leb Nat.add Nat.modulo Nat.divmod fst snd Nat.sub Nat.eqb negb nth].
  replace (((b mod 16) * 4) mod 4 =? 0) with true by (symmetry; apply N.eqb_eq; lia).
  repeat f_equal; lia.
Qed.

Lemma suffix_one_pad url off a :
  a < 256 ->
  dec_suffix url true off [b64_sym url (a / 4); b64_sym url ((a mod 4) * 16); 61; 61] = inl [a].
Proof.
  intros Ha. unfold dec_suffix.
  do 5 sfx_step.
  cbn [List.length andb Nat.ltb Nat.leb Nat.add Nat.modulo Nat.divmod fst snd Nat.sub Nat.eqb negb nth].
  replace (((a mod 4) * 16) mod 16 =? 0) with true by (symmetry; apply N.eqb_eq; lia).
  repeat f_equal; lia.
Qed.

Lemma suffix_one_nopad url off a :
  a < 256 ->
  dec_suffix url false off [b64_sym url (a / 4); b64_sym url ((a mod 4) * 16)] = inl [a].
Proof.
  intros Ha. unfold dec_suffix.
  do 3 sfx_step.
  cbn [List.length andb Nat.ltb Nat.leb Nat.add Nat.modulo Nat.divmod fst snd Nat.sub Nat.eqb negb nth].
  replace (((a mod 4) * 16) mod 16 =? 0) with true by (symmetry; apply N.eqb_eq; lia).
  repeat f_equal; lia.
Qed.

Lemma dec_quad_enc url off a b c :
  a < 256 -> b < 256 -> c < 256 ->
  dec_quad url off (b64_sym url (a / 4)) (b64_sym url ((a mod 4) * 16 + b / 16))
           (b64_sym url ((b mod 16) * 4 + c / 64)) (b64_sym url (c mod 64)) = inl [a; b; c].
Proof.
  intros Ha Hb Hc. unfold dec_quad.
  rewrite !b64_val_sym by lia. repeat f_equal; lia.
Qed.

Lemma byte_lt b : is_byte b = true -> b < 256.
Proof. unfold is_byte. intros H. apply N.ltb_lt. exact H. Qed.

Ltac bytes_hyp H :=
  cbn [all_bytes forallb] in H;
  repeat match type of H with
         | (_ && _) = true => let H1 := fresh "Hb" in apply andb_true_iff in H as [H1 H]; apply byte_lt in H1
         end.

Lemma dec_main_step url pad off a b c d x r :
  dec_main url pad off (a :: b :: c :: d :: x :: r) =
  match dec_quad url off a b c d with
  | inr e => inr e
  | inl o => match dec_main url pad (off + 4) (x :: r) with
             | inl r' => inl (o ++ r')
             | inr e => inr e
             end
  end.
Proof. reflexivity. Qed.

Lemma dec_main_encode url pad : forall l off,
  all_bytes l = true -> dec_main url pad off (b64_encode url pad l) = inl l.
Proof.
  induction l as [| a | a b | a b c t IH] using list_ind3; intros off Hl.
  - destruct pad; reflexivity.
  - bytes_hyp Hl. destruct pad; cbn [b64_encode app dec_main].
    + apply suffix_one_pad; assumption.
    + apply suffix_one_nopad; assumption.
  - bytes_hyp Hl. destruct pad; cbn [b64_encode app dec_main].
    + apply suffix_two_pad; assumption.
    + apply suffix_two_nopad; assumption.
  - bytes_hyp Hl. fold (all_bytes t) in Hl.
    cbn [b64_encode].
    destruct t as [|a' t'].
    + cbn [b64_encode dec_main]. apply suffix_full; assumption.
    + assert (Hne : exists x r, b64_encode url pad (a' :: t') = x :: r).
      { destruct t' as [|b' [|c' t'']]; cbn [b64_encode app]; eauto. }
      destruct Hne as [x [r Hr]]. specialize (IH (off + 4)%nat Hl). rewrite Hr in *.
      rewrite dec_main_step, dec_quad_enc by assumption.
      rewrite IH. reflexivity.
Qed.

Lemma len_mod4_encode url pad : forall l, len_mod4 (b64_encode url pad l) <> 1%nat.
Proof.
  induction l as [| a | a b | a b c t IH] using list_ind3;
    try (destruct pad; cbn; discriminate).
  cbn [b64_encode len_mod4]. exact IH.
Qed.

(** decoding what was encoded gives the bytes back: URL_SAFE (padded, canonical padding
    required) and STANDARD_NO_PAD (no padding written, none accepted) *)
Theorem base64_roundtrip url pad l :
  all_bytes l = true -> b64_decode url pad (b64_encode url pad l) = inl l.
Proof.
  intros Hl. unfold b64_decode.
  destruct (Nat.eqb (len_mod4 (b64_encode url pad l)) 1) eqn:E.
  - apply Nat.eqb_eq in E. exfalso. exact (len_mod4_encode url pad l E).
  - cbn [andb]. apply dec_main_encode. exact Hl.
Qed.

(** every symbol of an encoding is ASCII alphanumeric, '-', '_', '+', '/' or '=' *)
Lemma b64_encode_ascii url pad : forall l,
  all_bytes l = true -> forallb (fun b => b <? 128) (b64_encode url pad l) = true.
Proof.
  induction l as [| a | a b | a b c t IH] using list_ind3; intros Hl.
  - reflexivity.
  - bytes_hyp Hl. cbn [b64_encode app forallb].
    rewrite !b64_sym_ascii by lia. destruct pad; reflexivity.
  - bytes_hyp Hl. cbn [b64_encode app forallb].
    rewrite !b64_sym_ascii by lia. destruct pad; reflexivity.
  - bytes_hyp Hl. fold (all_bytes t) in Hl. cbn [b64_encode forallb].
    rewrite !b64_sym_ascii by lia. cbn [andb]. apply IH. exact Hl.
Qed.

Example base64_roundtrip_example :
  b64_encode true true [255; 254; 0; 1; 124] = [95; 95; 52; 65; 65; 88; 119; 61]   (* "__4AAXw=" *)
  /\ b64_decode true true [95; 95; 52; 65; 65; 88; 119; 61] = inl [255; 254; 0; 1; 124]
  /\ b64_decode true true [95; 95; 52; 65; 65; 88; 119] = inr InvalidPadding
  /\ b64_decode true true [95; 95; 52; 65; 65; 88; 120; 61] = inr (InvalidLastSymbol 6 120).
Proof. repeat split; vm_compute; reflexivity. Qed.
