(** Executable entry point of the C13 model for the correspondence check. *)
From Coq Require Import List ZArith NArith Bool.
From LV Require Import Base.Sexp Base.Bytes Router.Url ServerFn.ErrorCodec ServerFn.Protocol ServerFn.Websocket.
Import ListNotations.
Open Scope N_scope.

Definition kind_index (k : kind) : N :=
  match k with
  | KRegistration => 1 | KRequest => 2 | KResponse => 3 | KServerError => 4
  | KMiddlewareError => 5 | KDeserialization => 6 | KSerialization => 7
  | KArgs => 8 | KMissingArg => 9
  end.
Definition kind_of_index (n : N) : kind :=
  match find (fun k => kind_index k =? n) all_kinds with Some k => k | None => KServerError end.

Definition s_err {C} (disp : C -> bytes) (e : sfe C) : sexp :=
  match e with
  | Wrapped c => Lst [sN 0; sbytes (disp c)]
  | Std k m => Lst [sN (kind_index k); sbytes m]
  end.

(** error value described by a case: kind index 0 = the wrapped custom error *)
Definition as_err_nc (k : N) (payload : sexp) : sfe unit :=
  if k =? 0 then Wrapped tt else Std (kind_of_index k) (as_bytes payload).
Definition as_err_u8 (k : N) (payload : sexp) : sfe N :=
  if k =? 0 then Wrapped (as_N (nth_s 0 payload)) else Std (kind_of_index k) (as_bytes payload).

Definition s_b64 (r : bytes + b64_error) : sexp :=
  match r with
  | inl b => Lst [sN 0; sbytes b]
  | inr e => Lst [sN 1; sbytes (b64_error_display e)]
  end.
Definition as_purl (pre q f : sexp) : purl :=
  {| u_pre := as_bytes pre; u_query := as_opt as_bytes q; u_frag := as_opt as_bytes f |}.

(** the glue instance of Protocol.v: String codec, ServerFnError<Code>, demo_body *)
Definition L_text_plain : bytes := [116; 101; 120; 116; 47; 112; 108; 97; 105; 110].  (* "text/plain" *)
Definition L_api_glue : bytes := [47; 97; 112; 105; 47; 103; 108; 117; 101].  (* "/api/glue" *)
Definition as_referer (s : sexp) : option referer :=
  match as_Z (nth_s 0 s) with
  | 1%Z => Some (RefUrl (as_purl (nth_s 1 s) (nth_s 2 s) (nth_s 3 s)))
  | 2%Z => Some (RefRaw (from_utf8_lossy (as_bytes (nth_s 1 s))))   (* Req::referer is from_utf8_lossy of the header *)
  | _ => None
  end.
Definition s_result (r : outcome bytes (sfe N)) : sexp :=
  match r with
  | Ok y => Lst [sN 0; sbytes y]
  | Err e => Lst [sN 1; s_err u8_display e]
  | Panic => Lst [sN 2]
  end.
Definition s_response (r : response) : sexp :=
  Lst [sN (rs_status r); sbytes (rs_body r); sopt sbytes (rs_error_header r);
       sopt sbytes (rs_location r); sopt sbytes (rs_content_type r)].
(** the same function behind Post / Patch / Put (selector 0 / 1 / 2): only the path differs *)
Definition glue_path (sel : N) : bytes :=
  if sel =? 3 then [47; 97; 112; 105; 47; 97; 120; 95; 103; 108; 117; 101]   (* "/api/ax_glue": the same function on the axum backend *)
  else if sel =? 1 then L_api_glue ++ [95; 112; 97; 116; 99; 104]      (* "_patch" *)
  else if sel =? 2 then L_api_glue ++ [95; 112; 117; 116]         (* "_put" *)
  else L_api_glue.
Definition glue_server (sel : N) (ref : option referer) : request -> response :=
  run_on_server N u8_display bytes bytes str_dec str_enc KDeserialization L_text_plain (glue_path sel)
    demo_body (fun _ => match ref with Some r => r | None => RefRaw [] end).
Definition glue_client_result : response -> outcome bytes (sfe N) * list bytes :=
  client_result N u8_parse bytes str_dec.
Definition glue_remote (sel : N) (x : bytes) : outcome bytes (sfe N) * list bytes :=
  remote N u8_display u8_parse bytes bytes str_enc str_dec str_enc str_dec KDeserialization
    L_text_plain L_text_plain (glue_path sel) demo_body (fun _ => RefRaw []) x.

(** websocket glue (op 22, function 0) *)
Definition s_item (i : item N bytes) : sexp :=
  match i with
  | inl t => Lst [sN 0; sbytes t]
  | inr e => Lst [sN 1; s_err u8_display e]
  end.
Definition as_item (s : sexp) : item N bytes :=
  if as_N (nth_s 0 s) =? 0 then inl (as_bytes (nth_s 1 s))
  else inr (as_err_u8 (as_N (nth_s 1 s)) (nth_s 2 s)).
Definition as_frame (s : sexp) : frame :=
  if as_N (nth_s 0 s) =? 0 then inl (as_bytes (nth_s 1 s)) else inr (as_bytes (nth_s 1 s)).
Definition as_edits (dir : N) (s : sexp) : list (nat * frame) :=
  flat_map (fun e => if as_N (nth_s 0 e) =? dir
                     then [(as_nat (nth_s 1 e), as_frame (nth_s 2 e))] else [])
           (as_list s).
Definition take_items {A} (k : nat) (l : list A) : list A :=
  match k with O => l | _ => firstn k l end.

(** the text form of encoded values (op 25): encodings 0..2 are text, 3..6 binary *)
Definition format_of (enc : N) : format := if enc <? 3 then FText else FBinary.
Definition s_opt_bytes (o : option bytes) : sexp :=
  match o with Some b => sbytes b | None => Lst [sN 2] end.

Definition run_C13 (c : sexp) : sexp :=
  let cust := as_N (nth_s 1 c) in
  match as_Z (nth_s 0 c) with
  | 0%Z =>
      let k := as_N (nth_s 2 c) in
      let p := nth_s 3 c in
      if cust =? 0 then
        let w := ser unit nc_display (as_err_nc k p) in
        Lst [sbytes w; s_err nc_display (de unit nc_parse w)]
      else
        let w := ser N u8_display (as_err_u8 k p) in
        Lst [sbytes w; s_err u8_display (de N u8_parse w)]
  | 1%Z =>
      let data := as_bytes (nth_s 2 c) in
      if cust =? 0 then s_err nc_display (de unit nc_parse data)
      else s_err u8_display (de N u8_parse data)
  (* FormatType::Binary (STANDARD_NO_PAD): encode, then decode what was written *)
  | 2%Z =>
      let w := b64_encode false false (as_bytes (nth_s 1 c)) in
      Lst [sbytes w; s_b64 (b64_decode false false w)]
  | 3%Z => s_b64 (b64_decode false false (as_bytes (nth_s 1 c)))
  (* URL form: to_url, then what the client reads back *)
  | 4%Z =>
      let k := as_N (nth_s 2 c) in
      let p := nth_s 3 c in
      let path := as_bytes (nth_s 4 c) in
      let u := as_purl (nth_s 5 c) (nth_s 6 c) (nth_s 7 c) in
      if cust =? 0 then
        let u' := to_url unit nc_display u path (as_err_nc k p) in
        let rb := read_back unit nc_parse u' in
        Lst [sbytes (url_string u'); sopt sbytes (fst rb); sopt (s_err nc_display) (snd rb)]
      else
        let u' := to_url N u8_display u path (as_err_u8 k p) in
        let rb := read_back N u8_parse u' in
        Lst [sbytes (url_string u'); sopt sbytes (fst rb); sopt (s_err u8_display) (snd rb)]
  | 5%Z =>
      let data := as_bytes (nth_s 2 c) in
      if cust =? 0 then s_err nc_display (decode_err unit nc_parse data)
      else s_err u8_display (decode_err N u8_parse data)
  | 6%Z => sbytes (url_string (strip_error_info (as_purl (nth_s 1 c) (nth_s 2 c) (nth_s 3 c))))
  (* protocol glue: client side on a canned response *)
  | 7%Z =>
      let res := {| rs_status := as_N (nth_s 2 c); rs_body := as_bytes (nth_s 5 c);
                    rs_error_header := None; rs_location := as_opt as_bytes (nth_s 4 c);
                    rs_redirect_header := as_bool (nth_s 3 c); rs_content_type := None |} in
      let r := glue_client_result res in
      Lst [s_result (fst r); Lst (map sbytes (snd r))]
  (* server side on a raw request *)
  | 8%Z =>
      let ref := as_referer (nth_s 3 c) in
      s_response (glue_server (as_N (nth_s 4 c)) ref
        {| rq_data := as_bytes (nth_s 1 c); rq_accept := as_opt as_bytes (nth_s 2 c);
           rq_referer := option_map referer_string ref |})   (* only its presence matters: glue_server's parse_referer is the constant [ref] *)
  (* the whole loop, and the direct call *)
  | 9%Z =>
      let x := as_bytes (nth_s 1 c) in
      let r := glue_remote (as_N (nth_s 2 c)) x in
      Lst [s_result (fst r); Lst (map sbytes (snd r));
           s_result (direct N bytes bytes demo_body x)]
  (* from_server_fn_error *)
  (* websocket: the glue function's stream, remote (frames replaced in flight) and direct *)
  | 22%Z =>
      let items := map as_item (as_list (nth_s 2 c)) in
      let k := as_nat (nth_s 4 c) in
      let up := as_edits 0 (nth_s 5 c) in
      let down := as_edits 1 (nth_s 5 c) in
      Lst [Lst [sN 0; Lst (map s_item (take_items k (ws_glue_remote up down items)))];
           Lst [sN 0; Lst (map s_item (take_items k (ws_glue_direct items)))];
           sN 101]
  (* the string form of an error: Display of the wrapper, then FromStr *)
  | 23%Z =>
      let k := as_N (nth_s 2 c) in
      let p := nth_s 3 c in
      if cust =? 0 then
        match sfe_to_string unit nc_display (as_err_nc k p) with
        | Some w => Lst [sbytes w; s_err nc_display (sfe_from_str unit nc_parse w)]
        | None => Lst [sN 2]
        end
      else
        match sfe_to_string N u8_display (as_err_u8 k p) with
        | Some w => Lst [sbytes w; s_err u8_display (sfe_from_str N u8_parse w)]
        | None => Lst [sN 2]
        end
  | 24%Z =>
      let data := as_bytes (nth_s 2 c) in
      if cust =? 0 then s_err nc_display (sfe_from_str unit nc_parse data)
      else s_err u8_display (sfe_from_str N u8_parse data)
  (* FormatType of every encoding *)
  | 25%Z =>
      let f := format_of cust in
      let data := as_bytes (nth_s 3 c) in
      if as_N (nth_s 2 c) =? 0 then
        match into_encoded_string f data with
        | Some w => Lst [sbytes w; s_b64 (from_encoded_string f w)]
        | None => Lst [sN 2]
        end
      else s_b64 (from_encoded_string f data)
  (* the glue function on the axum backend: raw request, and the whole loop when the payload is text *)
  | 32%Z =>
      let ref := as_referer (nth_s 3 c) in
      let data := as_bytes (nth_s 1 c) in
      Lst [s_response (glue_server 3 ref
             {| rq_data := data; rq_accept := as_opt as_bytes (nth_s 2 c);
                rq_referer := option_map referer_string ref |});
           if utf8_valid data
           then Lst [s_result (fst (glue_remote 3 data)); s_result (direct N bytes bytes demo_body data)]
           else Lst []]
  | 16%Z =>
      let k := as_N (nth_s 2 c) in
      let m := as_bytes (nth_s 3 c) in
      let e := if k =? 10 then Unsupported m else EE (kind_of_index k) m in
      if cust =? 0 then s_err nc_display (from_server_fn_error e)
      else s_err u8_display (from_server_fn_error e)
  | _ => Lst []
  end.
