(** Executable entry point of the C13 model for the correspondence check. *)
From Coq Require Import List ZArith NArith Bool.
From LV Require Import Base.Sexp Base.Bytes Router.Url ServerFn.ErrorCodec.
Import ListNotations.
Open Scope N_scope.

Definition kind_index (k : kind) : N :=
  match k with
  | KRegistration => 1 | KRequest => 2 | KResponse => 3 | KServerError => 4
  | KMiddlewareError => 5 | KDeserialization => 6 | KSerialization => 7
  | KArgs => 8 | KMissingArg => 9
  end.
Definition kind_of_index (n : N) : kind :=
  match find (fun k => kind_index k =? n) all_kinds with Some k => k | None => KServerError end.

Definition s_err {C} (disp : C -> bytes) (e : sfe C) : sexp :=
  match e with
  | Wrapped c => Lst [sN 0; sbytes (disp c)]
  | Std k m => Lst [sN (kind_index k); sbytes m]
  end.

(** error value described by a case: kind index 0 = the wrapped custom error *)
Definition as_err_nc (k : N) (payload : sexp) : sfe unit :=
  if k =? 0 then Wrapped tt else Std (kind_of_index k) (as_bytes payload).
Definition as_err_u8 (k : N) (payload : sexp) : sfe N :=
  if k =? 0 then Wrapped (as_N (nth_s 0 payload)) else Std (kind_of_index k) (as_bytes payload).

Definition run_C13 (c : sexp) : sexp :=
  let cust := as_N (nth_s 1 c) in
  match as_Z (nth_s 0 c) with
  | 0%Z =>
      let k := as_N (nth_s 2 c) in
      let p := nth_s 3 c in
      if cust =? 0 then
        let w := ser unit nc_display (as_err_nc k p) in
        Lst [sbytes w; s_err nc_display (de unit nc_parse w)]
      else
        let w := ser N u8_display (as_err_u8 k p) in
        Lst [sbytes w; s_err u8_display (de N u8_parse w)]
  | 1%Z =>
      let data := as_bytes (nth_s 2 c) in
      if cust =? 0 then s_err nc_display (de unit nc_parse data)
      else s_err u8_display (de N u8_parse data)
  | _ => Lst []
  end.
