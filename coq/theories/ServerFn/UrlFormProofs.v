(** Proofs about the URL-embedded form of an error (ServerFn/ErrorCodec.v, section UrlForm):
    what [to_url] writes is what the client reads back. *)
From Coq Require Import List NArith Bool Lia.
From LV Require Import Base.Bytes Router.Url Router.UrlProofs
  ServerFn.ErrorCodec ServerFn.ErrorCodecProofs ServerFn.Base64Proofs.
Import ListNotations.
Open Scope N_scope.

(** * form_urlencoded: byte_serialize is inverted by form_decode *)
Lemma fs_unchanged_spec b : fs_unchanged b = true ->
  b <> 37 /\ b <> 38 /\ b <> 61 /\ b <> 43 /\ 32 < b /\ b < 128.
Proof.
  unfold fs_unchanged. intros H.
  do 4 (apply orb_true_iff in H; destruct H as [H|H]; [|apply N.eqb_eq in H; lia]).
  apply alnum_not_special in H. lia.
Qed.

Lemma hex_digit_range n : n < 16 ->
  hex_digit n <> 37 /\ hex_digit n <> 38 /\ hex_digit n <> 61 /\ hex_digit n <> 43.
Proof. intros Hn. pose proof (alnum_not_special _ (hex_digit_alnum n Hn)). lia. Qed.

Lemma decode_fs_byte b rest :
  b < 256 ->
  percent_decode (plus_to_space (fs_byte b ++ rest)) = b :: percent_decode (plus_to_space rest).
Proof.
  intros Hb. unfold fs_byte. destruct (fs_unchanged b) eqn:Hu.
  - apply fs_unchanged_spec in Hu. cbn [app plus_to_space map percent_decode].
    destruct (N.eqb_spec b 43); [lia|]. cbn [percent_decode].
    destruct (N.eqb_spec b 37); [lia|reflexivity].
  - destruct (N.eqb_spec b 32) as [->|Hs].
    + reflexivity.
    + assert (H1 : b / 16 < 16) by (apply N.div_lt_upper_bound; lia).
      assert (H2 : b mod 16 < 16) by (apply N.mod_lt; lia).
      pose proof (hex_digit_range _ H1) as R1. pose proof (hex_digit_range _ H2) as R2.
      cbn [app plus_to_space map].
      destruct (N.eqb_spec (hex_digit (b / 16)) 43); [lia|].
      destruct (N.eqb_spec (hex_digit (b mod 16)) 43); [lia|].
      cbn [N.eqb Pos.eqb percent_decode]. 
      rewrite (hex_val_hex_digit _ H1), (hex_val_hex_digit _ H2).
      f_equal. rewrite (N.div_mod b 16) at 3 by lia. lia.
Qed.

Lemma decode_byte_serialize s : all_bytes s = true ->
  percent_decode (plus_to_space (byte_serialize s)) = s.
Proof.
  induction s as [|b s IH]; intros Hs; [reflexivity|].
  cbn [all_bytes forallb] in Hs. apply andb_true_iff in Hs as [Hb Hs].
  unfold byte_serialize; cbn [flat_map].
  rewrite decode_fs_byte by (apply N.ltb_lt; exact Hb).
  f_equal. apply IH. exact Hs.
Qed.

Lemma form_decode_byte_serialize s : str_ok s -> form_decode (byte_serialize s) = s.
Proof.
  intros [Hb Hv]. unfold form_decode. rewrite decode_byte_serialize by exact Hb.
  apply lossy_valid. exact Hv.
Qed.

Lemma in_byte_serialize s x : all_bytes s = true -> In x (byte_serialize s) -> x <> 38 /\ x <> 61.
Proof.
  intros Hs Hx. unfold byte_serialize in Hx. apply in_flat_map in Hx as [b [Hb Hx]].
  unfold all_bytes in Hs. rewrite forallb_forall in Hs. specialize (Hs b Hb).
  unfold is_byte in Hs. apply N.ltb_lt in Hs.
  unfold fs_byte in Hx. destruct (fs_unchanged b) eqn:Hu.
  - destruct Hx as [<-|[]]. apply fs_unchanged_spec in Hu. lia.
  - destruct (b =? 32).
    + destruct Hx as [<-|[]]. lia.
    + assert (H1 : b / 16 < 16) by (apply N.div_lt_upper_bound; lia).
      assert (H2 : b mod 16 < 16) by (apply N.mod_lt; lia).
      pose proof (hex_digit_range _ H1). pose proof (hex_digit_range _ H2).
      destruct Hx as [<-|[<-|[<-|[]]]]; lia.
Qed.

(** * form_parse of a query extended by append_pair *)
Lemma split_on_app_gen sep x y :
  split_on sep (x ++ sep :: y) = split_on sep x ++ split_on sep y.
Proof.
  induction x as [|b x IH].
  - cbn [app split_on]. rewrite N.eqb_refl.
    destruct (split_on sep y) eqn:E; [|reflexivity].
    exfalso. destruct y; cbn [split_on] in E; [discriminate|].
    destruct (split_on sep y); [discriminate|]. destruct (n =? sep); discriminate.
  - cbn [app split_on]. rewrite IH.
    destruct (split_on sep x) as [|cur rest] eqn:E.
    + exfalso. destruct x; cbn [split_on] in E; [discriminate|].
      destruct (split_on sep x); [discriminate|]. destruct (n =? sep); discriminate.
    + cbn [app]. destruct (b =? sep); reflexivity.
Qed.

Lemma form_parse_amp x y : form_parse (x ++ 38 :: y) = form_parse x ++ form_parse y.
Proof. unfold form_parse. rewrite split_on_app_gen. apply flat_map_app. Qed.

Lemma form_parse_one k v :
  str_ok k -> str_ok v ->
  form_parse (byte_serialize k ++ 61 :: byte_serialize v) = [(k, v)].
Proof.
  intros Hk Hv. unfold form_parse.
  rewrite split_on_absent.
  2:{ intros x Hx. apply in_app_or in Hx as [Hx|Hx].
      - apply (in_byte_serialize _ _ (proj1 Hk)) in Hx. lia.
      - destruct Hx as [<-|Hx]; [lia|].
        apply (in_byte_serialize _ _ (proj1 Hv)) in Hx. lia. }
  cbn [flat_map]. rewrite app_nil_r.
  destruct (byte_serialize k ++ 61 :: byte_serialize v) eqn:E.
  - exfalso. destruct (byte_serialize k); discriminate.
  - rewrite <- E. rewrite split_first_app.
    + rewrite !form_decode_byte_serialize by assumption. reflexivity.
    + intros x Hx. apply (in_byte_serialize _ _ (proj1 Hk)) in Hx. lia.
Qed.

Lemma form_parse_nil : form_parse [] = [].
Proof. reflexivity. Qed.

Lemma form_parse_append_pair q k v :
  str_ok k -> str_ok v -> form_parse (append_pair q k v) = form_parse q ++ [(k, v)].
Proof.
  intros Hk Hv. unfold append_pair. destruct q as [|b q].
  - cbn [app]. rewrite form_parse_one by assumption. reflexivity.
  - rewrite <- app_assoc. cbn [app].
    change (b :: q ++ 38 :: ?r) with ((b :: q) ++ 38 :: r).
    rewrite form_parse_amp, form_parse_one by assumption. reflexivity.
Qed.

(** * the most recently added value of a key *)
Lemma last_value_snoc key pairs k v :
  last_value key (pairs ++ [(k, v)]) =
  if bytes_eqb k key then Some v else last_value key pairs.
Proof. unfold last_value. rewrite fold_left_app. reflexivity. Qed.

Lemma ascii_str_ok l : forallb (fun b => b <? 128) l = true -> str_ok l.
Proof.
  intros H. split.
  - unfold all_bytes. rewrite forallb_forall in *. intros x Hx. specialize (H x Hx).
    unfold is_byte. apply N.ltb_lt in H. apply N.ltb_lt. lia.
  - rewrite <- (app_nil_r l). apply valid_ascii_app; [exact H|reflexivity].
Qed.

Lemma L_path_ok : str_ok L_path. Proof. apply ascii_str_ok. reflexivity. Qed.
Lemma L_err_ok : str_ok L_err. Proof. apply ascii_str_ok. reflexivity. Qed.

Section UrlForm.
  Variable C : Type.
  Variable cdisplay : C -> bytes.
  Variable cparse : bytes -> option C.

  Theorem decode_err_encode e :
    err_ok C cdisplay cparse e ->
    decode_err C cparse (b64_encode true true (ser C cdisplay e)) = e.
  Proof.
    intros He. unfold decode_err.
    rewrite base64_roundtrip by (apply utf8_valid_all_bytes; exact (ser_valid C cdisplay cparse e He)).
    apply error_roundtrip. exact He.
  Qed.

  (** the URL-embedded form: whatever query the base URL already has (including stale
      __path/__err pairs of an earlier failure), after [to_url] the client reads back
      exactly this server function's path and this error *)
  Theorem url_error_roundtrip u path e :
    err_ok C cdisplay cparse e -> utf8_valid path = true ->
    read_back C cparse (to_url C cdisplay u path e) = (Some path, Some e).
  Proof.
    intros He Hp. apply utf8_valid_str_ok in Hp.
    unfold read_back, to_url. cbv zeta. cbn [u_query].
    set (q0 := match u_query u with Some q => q | None => [] end).
    assert (Hv : str_ok (b64_encode true true (ser C cdisplay e))).
    { apply ascii_str_ok. apply b64_encode_ascii.
      apply utf8_valid_all_bytes. exact (ser_valid C cdisplay cparse e He). }
    rewrite form_parse_append_pair by (exact L_err_ok || exact Hv).
    rewrite form_parse_append_pair by (exact L_path_ok || exact Hp).
    set (v := b64_encode true true (ser C cdisplay e)).
    rewrite (last_value_snoc L_path (form_parse q0 ++ [(L_path, path)]) L_err v).
    rewrite (last_value_snoc L_err (form_parse q0 ++ [(L_path, path)]) L_err v).
    replace (bytes_eqb L_err L_path) with false by reflexivity.
    replace (bytes_eqb L_err L_err) with true by reflexivity.
    rewrite (last_value_snoc L_path (form_parse q0) L_path path).
    replace (bytes_eqb L_path L_path) with true by reflexivity.
    unfold v.
    rewrite decode_err_encode by exact He. reflexivity.
  Qed.

  (** a malformed __err value (not canonical URL-safe base64, or not a wire string) still
      yields an error value of the declared type *)
  Theorem decode_err_malformed s err :
    b64_decode true true s = inr err ->
    decode_err C cparse s = Std KDeserialization (b64_error_display err).
  Proof. intros H. unfold decode_err. rewrite H. reflexivity. Qed.
End UrlForm.

(** * strip_error_info removes exactly the __path / __err pairs *)
Lemma form_parse_fold_append kept : forall q,
  Forall pair_ok kept ->
  form_parse (fold_left (fun q kv => append_pair q (fst kv) (snd kv)) kept q) = form_parse q ++ kept.
Proof.
  induction kept as [|[k v] kept IH]; intros q H; cbn [fold_left fst snd].
  - rewrite app_nil_r. reflexivity.
  - inversion H as [|? ? [Hk Hv] Hrest]; subst. cbn [fst snd] in *.
    rewrite IH by exact Hrest. rewrite form_parse_append_pair by assumption.
    rewrite <- app_assoc. reflexivity.
Qed.

Theorem strip_removes_only_err_pairs u :
  Forall pair_ok (form_parse (match u_query u with Some q => q | None => [] end)) ->
  form_parse (match u_query (strip_error_info u) with Some q => q | None => [] end)
  = filter (fun kv => negb (is_err_key (fst kv)))
           (form_parse (match u_query u with Some q => q | None => [] end))
  /\ u_pre (strip_error_info u) = u_pre u /\ u_frag (strip_error_info u) = u_frag u.
Proof.
  intros H. unfold strip_error_info. cbn [u_query u_pre u_frag]. split; [|split; reflexivity].
  rewrite form_parse_fold_append.
  - reflexivity.
  - apply Forall_forall. intros kv Hkv. apply filter_In in Hkv as [Hkv _].
    rewrite Forall_forall in H. apply H. exact Hkv.
Qed.

Example url_error_roundtrip_example :
  let e : sfe unit := Std KServerError [110; 111; 124; 61; 38; 37; 32; 195; 169] in  (* "no|=&% é" *)
  let u := {| u_pre := [104; 116; 116; 112; 58; 47; 47; 104; 47];                    (* "http://h/" *)
              u_query := Some [95; 95; 101; 114; 114; 61; 81; 81; 38; 120; 61; 49];  (* "__err=QQ&x=1" *)
              u_frag := Some [102] |} in
  err_ok unit nc_display nc_parse e
  /\ read_back unit nc_parse (to_url unit nc_display u [47; 97] e) = (Some [47; 97], Some e).
Proof. split; vm_compute; reflexivity. Qed.

Example strip_example :
  let u := {| u_pre := [104; 116; 116; 112; 58; 47; 47; 104; 47];
              (* "a=1&__err=QQ%3D%3D&__path=%2Ff&b=%20" *)
              u_query := Some [97; 61; 49; 38; 95; 95; 101; 114; 114; 61; 81; 81; 37; 51; 68; 37; 51; 68; 38;
                               95; 95; 112; 97; 116; 104; 61; 37; 50; 70; 102; 38; 98; 61; 37; 50; 48];
              u_frag := None |} in
  u_query (strip_error_info u) = Some [97; 61; 49; 38; 98; 61; 43].     (* "a=1&b=+" *)
Proof. vm_compute. reflexivity. Qed.

Example decode_err_malformed_example :
  decode_err unit nc_parse [33; 33] = Std KDeserialization (b64_error_display (InvalidByte 0 33)).
Proof. vm_compute. reflexivity. Qed.
