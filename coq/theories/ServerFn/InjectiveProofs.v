(** C13, consequences of the round trips: the wire forms are injective — two different errors
    (kind or message) never share a wire text, two different byte strings never share a
    base64 text, and two different (path, error) pairs never produce the same redirect URL
    from the same referer.  So the receiving side cannot confuse one failure with another. *)
From Coq Require Import List NArith.
From LV Require Import Base.Bytes Router.Url Router.UrlProofs
  ServerFn.ErrorCodec ServerFn.ErrorCodecProofs ServerFn.Base64Proofs ServerFn.UrlFormProofs.
Import ListNotations.
Open Scope N_scope.

Theorem ser_injective (C : Type) (cdisplay : C -> bytes) (cparse : bytes -> option C) (e1 e2 : sfe C) :
  err_ok C cdisplay cparse e1 -> err_ok C cdisplay cparse e2 ->
  ser C cdisplay e1 = ser C cdisplay e2 -> e1 = e2.
Proof.
  intros H1 H2 E.
  rewrite <- (error_roundtrip C cdisplay cparse e1 H1), <- (error_roundtrip C cdisplay cparse e2 H2), E.
  reflexivity.
Qed.

Theorem b64_encode_injective (url pad : bool) (l1 l2 : bytes) :
  all_bytes l1 = true -> all_bytes l2 = true ->
  b64_encode url pad l1 = b64_encode url pad l2 -> l1 = l2.
Proof.
  intros H1 H2 E.
  pose proof (base64_roundtrip url pad l1 H1) as R1.
  pose proof (base64_roundtrip url pad l2 H2) as R2.
  rewrite E in R1. rewrite R1 in R2. injection R2 as R2. exact R2.
Qed.

Theorem to_url_injective (C : Type) (cdisplay : C -> bytes) (cparse : bytes -> option C)
        (u : purl) (p1 p2 : bytes) (e1 e2 : sfe C) :
  err_ok C cdisplay cparse e1 -> err_ok C cdisplay cparse e2 ->
  utf8_valid p1 = true -> utf8_valid p2 = true ->
  to_url C cdisplay u p1 e1 = to_url C cdisplay u p2 e2 -> p1 = p2 /\ e1 = e2.
Proof.
  intros H1 H2 U1 U2 E.
  pose proof (url_error_roundtrip C cdisplay cparse u p1 e1 H1 U1) as R1.
  pose proof (url_error_roundtrip C cdisplay cparse u p2 e2 H2 U2) as R2.
  rewrite E in R1. rewrite R1 in R2. injection R2 as Rp Re. split; assumption.
Qed.
