(** Model of server_fn's websocket protocol and of the string form of errors.
    Anchors: server_fn/src/lib.rs [Websocket::run_client] (the forwarder: an item that cannot
    be encoded becomes the wire form of a Serialization error, an error item its own wire
    form; the receiver: a data frame is decoded, a failure becomes a Deserialization error, an
    error frame goes through [de]), [Websocket::run_server] (the same two maps, mirrored);
    [FormatType::{into_encoded_string,from_encoded_string}];
    server_fn/src/error.rs [ServerFnErrorWrapper]: [Display], [FromStr].
    The transport (which frame arrives when; a frame replaced in flight) is an explicit
    argument; the item codecs are parameters. No proofs here. *)
From Coq Require Import List NArith Bool.
From LV Require Import Base.Bytes Router.Url ServerFn.ErrorCodec ServerFn.Protocol.
Import ListNotations.
Open Scope N_scope.

(** a websocket frame as the [Client]/[Req] traits see it: [Result<Bytes, Bytes>] *)
Definition frame := (bytes + bytes)%type.

(** what the transport does: frame number [i] is delivered as [f] instead *)
Fixpoint replace_nth (i : nat) (f : frame) (l : list frame) : list frame :=
  match l, i with
  | [], _ => []
  | _ :: t, O => f :: t
  | h :: t, S j => h :: replace_nth j f t
  end.
Definition in_flight (edits : list (nat * frame)) (l : list frame) : list frame :=
  fold_left (fun acc e => replace_nth (fst e) (snd e) acc) edits l.

Section Websocket.
  Variable C : Type.
  Variable cdisplay : C -> bytes.
  Variable cparse : bytes -> option C.
  Variables In Out : Type.
  Variable enc_in : In -> bytes + bytes.
  Variable dec_in : bytes -> In + bytes.
  Variable enc_out : Out -> bytes + bytes.
  Variable dec_out : bytes -> Out + bytes.

  (** a stream item: [Result<T, ServerFnError<C>>] *)
  Definition item (A : Type) := (A + sfe C)%type.

  (** sender side (client forwarder for the input, server pump for the output) *)
  Definition send_item {A} (enc : A -> bytes + bytes) (i : item A) : frame :=
    match i with
    | inl x =>
        match enc x with
        | inl b => inl b
        | inr msg => inr (ser C cdisplay (from_server_fn_error (EE KSerialization msg)))
        end
    | inr e => inr (ser C cdisplay e)
    end.
  (** receiver side *)
  Definition recv_item {A} (dec : bytes -> A + bytes) (f : frame) : item A :=
    match f with
    | inl b =>
        match dec b with
        | inl x => inl x
        | inr msg => inr (from_server_fn_error (EE KDeserialization msg))
        end
    | inr b => inr (de C cparse b)
    end.

  (** the body: a transformer of item streams *)
  Variable body : list (item In) -> list (item Out).

  (** the remote call: items -> frames -> (transport) -> items -> body -> frames -> (transport) -> items *)
  Definition ws_remote (up down : list (nat * frame)) (items : list (item In)) : list (item Out) :=
    map (recv_item dec_out)
      (in_flight down
         (map (send_item enc_out)
            (body (map (recv_item dec_in) (in_flight up (map (send_item enc_in) items)))))).
  Definition ws_direct (items : list (item In)) : list (item Out) := body items.
End Websocket.

(** the instance the harness drives ([ws_glue]): transparent String codec,
    [ServerFnError<Code>], every item through [demo_body], error items echoed *)
Definition glue_item (i : item N bytes) : item N bytes :=
  match i with
  | inl s => demo_body s
  | inr e => inr e
  end.
Definition ws_glue_remote (up down : list (nat * frame)) (items : list (item N bytes)) : list (item N bytes) :=
  ws_remote N u8_display u8_parse bytes bytes str_enc str_dec str_enc str_dec (map glue_item) up down items.
Definition ws_glue_direct (items : list (item N bytes)) : list (item N bytes) := map glue_item items.

(** ---- the text form of encoded values ---- *)
Inductive format := FText | FBinary.

(** [FormatType::into_encoded_string]; [None] = the [expect] of the text branch fails *)
Definition into_encoded_string (f : format) (b : bytes) : option bytes :=
  match f with
  | FBinary => Some (b64_encode false false b)
  | FText => if utf8_valid b then Some b else None
  end.
(** [FormatType::from_encoded_string] (the argument is a [&str]) *)
Definition from_encoded_string (f : format) (s : bytes) : bytes + b64_error :=
  match f with
  | FBinary => b64_decode false false s
  | FText => inl s
  end.

Section Wrapper.
  (** an error type with its encoder's format, [ser], [de] and its image of a
      Deserialization error *)
  Variable E : Type.
  Variable fmt : format.
  Variable eser : E -> bytes.
  Variable ede : bytes -> E.
  Variable deser_error : bytes -> E.

  (** [impl Display for ServerFnErrorWrapper<E>] *)
  Definition wrapper_to_string (e : E) : option bytes := into_encoded_string fmt (eser e).
  (** [impl FromStr for ServerFnErrorWrapper<E>] (never fails) *)
  Definition wrapper_from_str (s : bytes) : E :=
    match from_encoded_string fmt s with
    | inl b => ede b
    | inr err => deser_error (b64_error_display err)
    end.
End Wrapper.

(** [ServerFnError<C>]: text format *)
Definition sfe_to_string C cdisplay (e : sfe C) : option bytes :=
  wrapper_to_string (sfe C) FText (ser C cdisplay) e.
Definition sfe_from_str C cparse (s : bytes) : sfe C :=
  wrapper_from_str (sfe C) FText (de C cparse)
    (fun msg => from_server_fn_error (EE KDeserialization msg)) s.
