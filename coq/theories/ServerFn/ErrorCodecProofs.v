(** Proofs about the error wire format (ServerFn/ErrorCodec.v). *)
From Coq Require Import List NArith Bool Lia String Ascii.
From LV Require Import Base.Bytes Router.Url Router.UrlProofs ServerFn.ErrorCodec.
Import ListNotations.
Open Scope N_scope.

(** * the byte-string literals of the model spell the intended text *)
Definition lit (s : string) : bytes := map N_of_ascii (list_ascii_of_string s).
Example lits_spelled :
  L_invalid_utf_8_sequence_of = lit "invalid utf-8 sequence of " /\
  L_bytes_from_index = lit " bytes from index " /\
  L_incomplete_utf_8_byte_sequence_from_index = lit "incomplete utf-8 byte sequence from index " /\
  L_bs_u_lbrace = lit "\u{" /\
  L_rbrace = lit "}" /\
  L_Registration = lit "Registration" /\
  L_Request = lit "Request" /\
  L_Response = lit "Response" /\
  L_ServerError = lit "ServerError" /\
  L_MiddlewareError = lit "MiddlewareError" /\
  L_Deserialization = lit "Deserialization" /\
  L_Serialization = lit "Serialization" /\
  L_Args = lit "Args" /\
  L_MissingArg = lit "MissingArg" /\
  L_WrappedServerFn = lit "WrappedServerFn" /\
  L_UTF_8_conversion_error = lit "UTF-8 conversion error: " /\
  L_Invalid_format_missing_delimiter_in = lit "Invalid format: missing delimiter in " /\
  L_Failed_to_parse_CustErr_from = lit "Failed to parse CustErr from " /\
  L_Unknown_error_type = lit "Unknown error type: " /\
  L_Unit_Type_Displayed = lit "Unit Type Displayed".
Proof. repeat split; vm_compute; reflexivity. Qed.

(** * UTF-8 validity of concatenations, and [utf8_error] on valid input *)
Definition ascii (l : bytes) : bool := forallb (fun b => b <? 128) l.

Lemma utf8_step_ascii b rest : b <? 128 = true -> utf8_step b rest = (1%nat, true).
Proof. intros H. unfold utf8_step. rewrite H. reflexivity. Qed.

Lemma utf8_step_pos b rest : (1 <= fst (utf8_step b rest))%nat.
Proof.
  unfold utf8_step.
  repeat match goal with
         | |- context [if ?c then _ else _] => destruct c
         end; cbn [fst]; lia.
Qed.

Lemma valid_fuel_mono f : forall l g, valid_fuel f l = true -> (f <= g)%nat -> valid_fuel g l = true.
Proof.
  induction f as [|f IH]; intros l g H Hg.
  - destruct l; [destruct g; reflexivity|discriminate].
  - destruct g as [|g]; [lia|]. destruct l as [|b rest]; [reflexivity|].
    cbn [valid_fuel] in *. destruct (utf8_step b rest) as [n ok].
    apply andb_true_iff in H as [Hok Hv]. rewrite Hok. cbn [andb].
    apply IH; [exact Hv|lia].
Qed.

Lemma valid_ascii_app a : forall m, ascii a = true -> utf8_valid m = true -> utf8_valid (a ++ m) = true.
Proof.
  induction a as [|b a IH]; intros m Ha Hm; [exact Hm|].
  cbn [ascii forallb] in Ha. apply andb_true_iff in Ha as [Hb Ha].
  unfold utf8_valid. cbn [app List.length valid_fuel].
  rewrite (utf8_step_ascii _ _ Hb). cbn [andb skipn]. apply IH; assumption.
Qed.

Lemma utf8_err_valid f : forall l, valid_fuel f l = true ->
  forall g pos, (List.length l <= g)%nat -> utf8_err_fuel g pos l = None.
Proof.
  induction f as [|f IH]; intros l H g pos Hg.
  - destruct l; [destruct g; reflexivity|discriminate].
  - destruct l as [|b rest]; [destruct g; reflexivity|].
    destruct g as [|g]; [cbn [List.length] in Hg; lia|].
    cbn [valid_fuel utf8_err_fuel] in *.
    pose proof (utf8_step_pos b rest) as Hp.
    destruct (utf8_step b rest) as [n ok]. cbn [fst] in Hp.
    apply andb_true_iff in H as [Hok Hv]. rewrite Hok.
    apply IH; [exact Hv|].
    rewrite skipn_length. cbn [List.length] in *. lia.
Qed.

Lemma utf8_error_valid l : utf8_valid l = true -> utf8_error l = None.
Proof. intros H. unfold utf8_error. eapply utf8_err_valid; [exact H|lia]. Qed.

(** * valid UTF-8 consists of bytes *)
Ltac bool_hyps := repeat match goal with
  | H : (_ && _) = true |- _ => apply andb_true_iff in H; destruct H
  | H : (_ || _) = true |- _ => apply orb_true_iff in H; destruct H
  | H : (_ <=? _) = true |- _ => apply N.leb_le in H
  | H : (_ <? _) = true |- _ => apply N.ltb_lt in H
  | H : (_ =? _) = true |- _ => apply N.eqb_eq in H
  end.

Lemma utf8_step_ok_bytes b rest n :
  utf8_step b rest = (n, true) -> all_bytes (firstn n (b :: rest)) = true.
Proof.
  unfold utf8_step, is_cont, in_range.
  destruct rest as [|r0 [|r1 [|r2 rest']]]; cbn [nth];
  repeat match goal with
         | |- context [if ?c then _ else _] => destruct c eqn:?
         end; intros H; inversion H; subst; clear H;
  cbn [firstn all_bytes forallb]; unfold is_byte; bool_hyps;
  repeat (apply andb_true_iff; split); try reflexivity; try (apply N.ltb_lt; lia); try discriminate.
Qed.

Lemma valid_fuel_all_bytes f : forall l, valid_fuel f l = true -> all_bytes l = true.
Proof.
  induction f as [|f IH]; intros l H.
  - destruct l; [reflexivity|discriminate].
  - destruct l as [|b rest]; [reflexivity|].
    cbn [valid_fuel] in H. destruct (utf8_step b rest) as [n ok] eqn:E.
    apply andb_true_iff in H as [Hok Hv]. subst ok.
    rewrite <- (firstn_skipn n (b :: rest)). unfold all_bytes. rewrite forallb_app.
    apply andb_true_iff. split; [apply (utf8_step_ok_bytes _ _ _ E)|apply IH; exact Hv].
Qed.

Lemma utf8_valid_all_bytes l : utf8_valid l = true -> all_bytes l = true.
Proof. apply valid_fuel_all_bytes. Qed.

Lemma utf8_valid_str_ok l : utf8_valid l = true -> str_ok l.
Proof. intros H. split; [apply utf8_valid_all_bytes|]; exact H. Qed.

(** * tags *)
Lemma tag_ascii k : ascii (tag k ++ [124]) = true.
Proof. destruct k; vm_compute; reflexivity. Qed.
Lemma wrapped_tag_ascii : ascii (wrapped_tag ++ [124]) = true.
Proof. vm_compute; reflexivity. Qed.

Lemma forallb_In_ne (l : bytes) sep :
  forallb (fun x => negb (x =? sep)) l = true -> forall x, In x l -> x <> sep.
Proof.
  intros H x Hx E. rewrite forallb_forall in H. specialize (H x Hx).
  subst x. rewrite N.eqb_refl in H. discriminate.
Qed.

Lemma tag_no_bar k : forall x, In x (tag k) -> x <> 124.
Proof. apply forallb_In_ne. destruct k; vm_compute; reflexivity. Qed.
Lemma wrapped_tag_no_bar : forall x, In x wrapped_tag -> x <> 124.
Proof. apply forallb_In_ne. vm_compute; reflexivity. Qed.

Lemma tag_not_wrapped k : bytes_eqb (tag k) wrapped_tag = false.
Proof. destruct k; vm_compute; reflexivity. Qed.
Lemma kind_of_tag_tag k : kind_of_tag (tag k) = Some k.
Proof. destruct k; vm_compute; reflexivity. Qed.
Lemma bytes_eqb_refl a : bytes_eqb a a = true.
Proof. apply bytes_eqb_eq. reflexivity. Qed.

Lemma kind_of_tag_sound t k : kind_of_tag t = Some k -> t = tag k.
Proof.
  unfold kind_of_tag. intros H. apply find_some in H as [_ H]. apply bytes_eqb_eq. exact H.
Qed.

Lemma split_first_some sep s : forall a r, split_first sep s = (a, Some r) -> s = a ++ sep :: r.
Proof.
  induction s as [|b t IH]; intros a r H; cbn [split_first] in H; [discriminate|].
  destruct (N.eqb_spec b sep) as [E|E].
  - inversion H; subst. reflexivity.
  - destruct (split_first sep t) as [a' r'] eqn:Es. inversion H; subst.
    cbn [app]. f_equal. apply IH. reflexivity.
Qed.

Section Codec.
  Variable C : Type.
  Variable cdisplay : C -> bytes.
  Variable cparse : bytes -> option C.

  (** what a Rust value of type [ServerFnError<C>] satisfies: its strings are UTF-8, and the
      custom error type's [FromStr] inverts its [Display] *)
  Definition err_ok (e : sfe C) : Prop :=
    match e with
    | Wrapped c => utf8_valid (cdisplay c) = true /\ cparse (cdisplay c) = Some c
    | Std _ m => utf8_valid m = true
    end.

  Lemma ser_valid e : err_ok e -> utf8_valid (ser C cdisplay e) = true.
  Proof.
    destruct e as [c|k m]; cbn [err_ok ser]; intros H.
    - destruct H as [H _]. rewrite app_assoc. apply valid_ascii_app; [apply wrapped_tag_ascii|exact H].
    - rewrite app_assoc. apply valid_ascii_app; [apply tag_ascii|exact H].
  Qed.

  Theorem decode_ser e : err_ok e -> decode C cparse (ser C cdisplay e) = inl e.
  Proof.
    intros H. unfold decode. rewrite (utf8_error_valid _ (ser_valid e H)).
    destruct e as [c|k m]; cbn [ser app].
    - rewrite (split_first_app 124 wrapped_tag (cdisplay c) wrapped_tag_no_bar).
      rewrite bytes_eqb_refl. destruct H as [_ H]. rewrite H. reflexivity.
    - rewrite (split_first_app 124 (tag k) m (tag_no_bar k)).
      rewrite tag_not_wrapped, kind_of_tag_tag. reflexivity.
  Qed.

  (** an error's kind and message survive the wire format: every variant, every message
      (empty, containing '|', any Unicode) *)
  Theorem error_roundtrip e : err_ok e -> de C cparse (ser C cdisplay e) = e.
  Proof. intros H. unfold de. rewrite (decode_ser e H). reflexivity. Qed.

  (** conversely the decoder accepts nothing but the canonical form of a standard error … *)
  Theorem decode_std_sound data k m :
    decode C cparse data = inl (Std k m) -> data = ser C cdisplay (Std k m).
  Proof.
    unfold decode. destruct (utf8_error data); [discriminate|].
    destruct (split_first 124 data) as [ty [rest|]] eqn:Es; [|discriminate].
    apply split_first_some in Es. subst data.
    destruct (bytes_eqb ty wrapped_tag).
    - destruct (cparse rest); discriminate.
    - destruct (kind_of_tag ty) as [k'|] eqn:Ek; [|discriminate].
      intros H. inversion H; subst. apply kind_of_tag_sound in Ek. subst ty. reflexivity.
  Qed.

  (** … a wrapped custom error only from "WrappedServerFn|" followed by text its FromStr accepts … *)
  Theorem decode_wrapped_sound data c :
    decode C cparse data = inl (Wrapped c) ->
    exists r, data = wrapped_tag ++ [124] ++ r /\ cparse r = Some c.
  Proof.
    unfold decode. destruct (utf8_error data); [discriminate|].
    destruct (split_first 124 data) as [ty [rest|]] eqn:Es; [|discriminate].
    apply split_first_some in Es. subst data.
    destruct (bytes_eqb ty wrapped_tag) eqn:Et.
    - apply bytes_eqb_eq in Et. subst ty.
      destruct (cparse rest) as [c'|] eqn:Ec; [|discriminate].
      intros H. inversion H; subst. exists rest. split; [reflexivity|exact Ec].
    - destruct (kind_of_tag ty); discriminate.
  Qed.

  (** … and everything else (invalid UTF-8, no '|', unknown kind, unparsable custom text)
      becomes a [Deserialization] error carrying the diagnostic: [de] is total *)
  Theorem de_malformed data msg :
    decode C cparse data = inr msg -> de C cparse data = Std KDeserialization msg.
  Proof. intros H. unfold de. rewrite H. reflexivity. Qed.
End Codec.

(** hypotheses of [error_roundtrip] are satisfiable by non-trivial values *)
Example error_roundtrip_example_bar :
  let e : sfe unit := Std KServerError (lit "a|b||Args|") in
  err_ok unit nc_display nc_parse e /\ de unit nc_parse (ser unit nc_display e) = e.
Proof. split; vm_compute; reflexivity. Qed.
Example error_roundtrip_example_wrapped :
  let e : sfe N := Wrapped 200 in
  err_ok N u8_display u8_parse e /\ de N u8_parse (ser N u8_display e) = e.
Proof. split; [split|]; vm_compute; reflexivity. Qed.
Example de_missing_delimiter :
  de unit nc_parse (lit "boom") =
  Std KDeserialization (lit "Invalid format: missing delimiter in ""boom""").
Proof. vm_compute; reflexivity. Qed.
