(** Model of server_fn's protocol glue over abstract codecs.
    Anchors: server_fn/src/lib.rs [Http::run_server], [Http::run_client],
    [ServerFn::run_on_server] (including the form-redirects branch), [ServerFn::run_on_client];
    server_fn/src/codec/post.rs (the shape every body codec has: encode -> request/response
    with that body, decode with the failure mapped to an error kind), codec/url.rs (same
    with the query string and kind Args); response/generic.rs [error_response], [redirect];
    codec/multipart.rs [FromReq] (the boundary lookup).
    The codecs themselves (serde_json, serde_qs, ciborium, …) are parameters. No proofs here. *)
From Coq Require Import List NArith Bool.
From LV Require Import Base.Bytes Router.Url ServerFn.ErrorCodec.
Import ListNotations.
Open Scope N_scope.

Inductive outcome (A E : Type) :=
| Ok (a : A)
| Err (e : E)
| Panic.            (* a panic branch of the code: no value of the declared type *)
Arguments Ok {A E} a.
Arguments Err {A E} e.
Arguments Panic {A E}.

(** what the glue looks at in a request / response *)
Record request := {
  rq_data : bytes;                 (* body, or query string for the GET/DELETE url codecs *)
  rq_accept : option bytes;        (* Accept header *)
  rq_referer : option bytes;       (* Referer header *)
}.
Record response := {
  rs_status : N;
  rs_body : bytes;
  rs_error_header : option bytes;  (* "serverfnerror": path *)
  rs_location : option bytes;      (* Location header *)
  rs_redirect_header : bool;       (* "serverfnredirect" present *)
  rs_content_type : option bytes;
}.

(** [str::contains] *)
Fixpoint starts_with (p s : bytes) : bool :=
  match p, s with
  | [], _ => true
  | a :: p', b :: s' => (a =? b) && starts_with p' s'
  | _ :: _, [] => false
  end.
Fixpoint contains (p s : bytes) : bool :=
  starts_with p s || match s with [] => false | _ :: t => contains p t end.

Definition L_text_html : bytes := [116; 101; 120; 116; 47; 104; 116; 109; 108].  (* "text/html" *)
Definition L_slash : bytes := [47].  (* "/" *)

(** [HeaderValue::from_str(s).is_ok()] *)
Definition header_value_ok (s : bytes) : bool :=
  forallb (fun b => ((32 <=? b) && negb (b =? 127)) || (b =? 9)) s.

(** a Referer either parses as an absolute URL (given by its parts) or does not *)
Inductive referer :=
| RefUrl (u : purl)
| RefRaw (s : bytes).
Definition referer_string (r : referer) : bytes :=
  match r with RefUrl u => url_string u | RefRaw s => s end.

Section Protocol.
  (** the error type [ServerFnError<C>] *)
  Variable C : Type.
  Variable cdisplay : C -> bytes.
  Variable cparse : bytes -> option C.
  (** argument and return types with their codecs: [inl] = encoded / decoded, [inr] = the
      codec's error text *)
  Variables In Out : Type.
  Variable enc_in : In -> bytes + bytes.
  Variable dec_in : bytes -> In + bytes.
  Variable enc_out : Out -> bytes + bytes.
  Variable dec_out : bytes -> Out + bytes.
  (** the kind the input codec's [FromReq] reports a decoding failure with
      ([Post<_>]: Deserialization; the url codecs: Args) *)
  Variable in_err_kind : kind.
  (** content types of the two encodings, the function's path, its body *)
  Variables ct_in ct_out : bytes.
  Variable path : bytes.
  Variable body : In -> Out + sfe C.
  (** how the server sees the Referer header *)
  Variable parse_referer : bytes -> referer.

  Definition E := sfe C.

  (** ---- server ---- *)
  (** [Http::run_server]: from_req, the body, into_res *)
  Definition run_server (data : bytes) : response + E :=
    match dec_in data with
    | inr msg => inr (from_server_fn_error (EE in_err_kind msg))
    | inl x =>
        match body x with
        | inr e => inr e
        | inl y =>
            match enc_out y with
            | inr msg => inr (from_server_fn_error (EE KSerialization msg))
            | inl b => inl {| rs_status := 200; rs_body := b; rs_error_header := None;
                              rs_location := None; rs_redirect_header := false;
                              rs_content_type := Some ct_out |}
            end
        end
    end.

  (** [Res::error_response(path, err)] *)
  Definition error_response (err : bytes) : response :=
    {| rs_status := 500; rs_body := err; rs_error_header := Some path; rs_location := None;
       rs_redirect_header := false; rs_content_type := None |}.

  (** [Res::redirect]: Location + 302, unless the value is not a legal header value *)
  Definition redirect (r : response) (loc : bytes) : response :=
    if header_value_ok loc then
      {| rs_status := 302; rs_body := rs_body r; rs_error_header := rs_error_header r;
         rs_location := Some loc; rs_redirect_header := rs_redirect_header r;
         rs_content_type := rs_content_type r |}
    else r.

  (** [ServerFn::run_on_server] with the form-redirects feature *)
  Definition run_on_server (rq : request) : response :=
    let accepts_html :=
      match rq_accept rq with Some a => contains L_text_html a | None => false end in
    let '(res, err) :=
      match run_server (rq_data rq) with
      | inl r => (r, None)
      | inr e => (error_response (ser C cdisplay e), Some e)
      end in
    if accepts_html then
      let ref := option_map parse_referer (rq_referer rq) in
      let ref' :=
        match err with
        | Some e =>
            (* to_url(referer or "/"): "/" is not an absolute URL, so nothing changes then *)
            match ref with
            | Some (RefUrl u) => Some (RefUrl (to_url C cdisplay u path e))
            | other => other
            end
        | None =>
            match ref with
            | Some (RefUrl u) => Some (RefUrl (strip_error_info u))
            | other => other
            end
        end in
      redirect res (match ref' with Some r => referer_string r | None => L_slash end)
    else res.

  (** ---- client ---- *)
  (** what [Http::run_client] does with the response it received *)
  Definition client_result (res : response) : outcome Out E * list bytes :=
    let r : outcome Out E :=
      if (400 <=? rs_status res) && (rs_status res <=? 599)
      then Err (de C cparse (rs_body res))
      else match dec_out (rs_body res) with
           | inl y => Ok y
           | inr msg => Err (from_server_fn_error (EE KDeserialization msg))
           end in
    match r with
    | Ok y =>
        (Ok y,
         if ((300 <=? rs_status res) && (rs_status res <=? 399)) || rs_redirect_header res
         then [match rs_location res with Some l => l | None => [] end] else [])
    | other => (other, [])
    end.

  (** [Http::run_client]: into_req, [Client::send], then the above. The request a client
      builds carries no Referer; its Accept header is a codec content type. *)
  Definition run_client (transport : request -> response + E) (x : In) : outcome Out E * list bytes :=
    match enc_in x with
    | inr msg => (Err (from_server_fn_error (EE KSerialization msg)), [])
    | inl b =>
        match transport {| rq_data := b; rq_accept := Some ct_in; rq_referer := None |} with
        | inr e => (Err e, [])
        | inl res => client_result res
        end
    end.

  (** the remote call through a loss-free transport *)
  Definition remote (x : In) : outcome Out E * list bytes :=
    run_client (fun rq => inl (run_on_server rq)) x.

  (** the direct call *)
  Definition direct (x : In) : outcome Out E :=
    match body x with inl y => Ok y | inr e => Err e end.

  (** ---- multipart: [FromReq<MultipartFormData>] looks up the boundary first ---- *)
  Variable parse_boundary : bytes -> option bytes.     (* multer::parse_boundary *)
  Definition L_no_boundary : bytes :=
    [99; 111; 117; 108; 100; 110; 39; 116; 32; 112; 97; 114; 115; 101; 32; 116; 104; 101; 32; 109; 117; 108; 116; 105; 112; 97; 114; 116; 32; 98; 111; 117; 110; 100; 97; 114; 121; 32; 102; 114; 111; 109; 32; 116; 104; 101; 32; 67; 111; 110; 116; 101; 110; 116; 45; 84; 121; 112; 101; 32; 104; 101; 97; 100; 101; 114].
    (* "couldn't parse the multipart boundary from the Content-Type header" *)
  Definition multipart_boundary (content_type : option bytes) : outcome bytes E :=
    match match content_type with Some c => parse_boundary c | None => None end with
    | Some b => Ok b
    | None => Err (from_server_fn_error (EE KArgs L_no_boundary))
      (* was [.expect("couldn't parse boundary")], i.e. [Panic], before the fix 51c8f23 *)
    end.
End Protocol.

(** ---- the concrete instance the harness drives the real glue with ----
    codec: [String] <-> its UTF-8 bytes (decode = [String::from_utf8]); error type
    [ServerFnError<Code>]; body: "E<d><rest>" fails with the error of kind d, anything else
    succeeds with the text followed by '!' *)
Definition str_enc (s : bytes) : bytes + bytes := inl s.
Definition str_dec (b : bytes) : bytes + bytes :=
  match utf8_error b with
  | Some e => inr (utf8_error_display e)
  | None => inl b
  end.
Definition kind_of_digit (d : N) : option kind :=
  nth_error all_kinds (N.to_nat (d - 49)).
Definition demo_body (s : bytes) : bytes + sfe N :=
  match s with
  | 69 :: d :: rest =>
      if d =? 48 then inr (Wrapped (N.of_nat (List.length rest) mod 256))
      else if is_digit d then
        match kind_of_digit d with Some k => inr (Std k rest) | None => inl (s ++ [33]) end
      else inl (s ++ [33])
  | _ => inl (s ++ [33])
  end.
