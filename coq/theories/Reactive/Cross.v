(** C19 — signal write / memo pull / mid-notification protocols across threads, under
    sequential consistency.  No proofs in this file (see CrossProofs.v).

    (c) signal writes and memo pulls from different threads: `ArcRwSignal::update` is a
        read-modify-write under `value.write()`; after unlocking, `WriteGuard::drop` notifies:
        `mark_subscribers_check` clones the subscribers and marks each dirty.  A memo pull
        (`MemoInner::update_if_necessary`, computed/inner.rs) is NOT atomic: needs_update ·
        "memo:needs_update" · take value; clear sources; run the function · "memo:computed" ·
        lock reactivity; store; state := Clean.
    (d) mid-notification reads: a write marks its subscribers one after the other
        ("signal:mark_sub" before each); an effect task woken by the first mark runs on
        another thread before the second mark. *)
From Coq Require Import List ZArith Bool Arith.
From LV Require Import Reactive.Park.
Import ListNotations.
Open Scope Z_scope.

(* ------------------------------------------------------------------------------------ *)
(** * (c) writes and memo pulls;  signal s (initially 1), memo m = s * 10 *)

Inductive op := OSet (v : Z) | OAdd (d : Z) | OPull.

(** [TIdle] at an operation boundary; [TUnlocked] write done, at "write:unlocked";
    [TMark] subscribers cloned, at "signal:mark_sub"; [TNeeds] pull found the memo dirty, at
    "memo:needs_update"; [TComputed nv] function ran, at "memo:computed". *)
Inductive tph := TIdle | TUnlocked | TMark | TNeeds | TComputed (nv : Z).

Record thr := mkT {
  t_ops : list op;
  t_ph : tph;
  t_idx : nat;            (* index of the current operation *)
  t_pulls : list Z;       (* values returned by its pulls, newest first *)
  t_panic : bool;         (* `t.as_ref().unwrap()` on a taken value *)
}.

Record mst := mkM {
  m_sv : Z;
  m_dirty : bool;                 (* MemoInnerReactivity.state = Dirty (else Clean) *)
  m_val : option Z;               (* MemoInner.value *)
  m_order : list (nat * nat);     (* (thread, op index) of the writes in lock order, newest first *)
  m_thr : list thr;
}.

Definition F (s : Z) : Z := s * 10.

Definition set_thr (s : mst) (j : nat) (x : thr) : mst :=
  mkM (m_sv s) (m_dirty s) (m_val s) (m_order s) (upd (m_thr s) j x).

Definition op_done (x : thr) : thr :=
  mkT (tl (t_ops x)) TIdle (S (t_idx x)) (t_pulls x) (t_panic x).

Definition apply_op (o : op) (v : Z) : Z :=
  match o with OSet w => w | OAdd d => v + d | OPull => v end.

Definition thr_step (s : mst) (j : nat) (x : thr) : mst :=
  if t_panic x then s else
  match t_ops x with
  | [] => s
  | o :: _ =>
      match t_ph x, o with
      | TIdle, OPull =>
          if m_dirty s then set_thr s j (mkT (t_ops x) TNeeds (t_idx x) (t_pulls x) false)
          else match m_val s with
               | Some v => set_thr s j (op_done (mkT (t_ops x) TIdle (t_idx x) (v :: t_pulls x) false))
               | None => set_thr s j (mkT (t_ops x) TIdle (t_idx x) (t_pulls x) true)
               end
      | TIdle, _ =>
          set_thr (mkM (apply_op o (m_sv s)) (m_dirty s) (m_val s) ((j, t_idx x) :: m_order s) (m_thr s))
                  j (mkT (t_ops x) TUnlocked (t_idx x) (t_pulls x) false)
      | TUnlocked, _ => set_thr s j (mkT (t_ops x) TMark (t_idx x) (t_pulls x) false)
      | TMark, _ => set_thr (mkM (m_sv s) true (m_val s) (m_order s) (m_thr s)) j (op_done x)
      | TNeeds, _ =>
          (* value.write().take(); clear_sources; fun() reads s; (re-subscribes) *)
          set_thr (mkM (m_sv s) (m_dirty s) None (m_order s) (m_thr s)) j
                  (mkT (t_ops x) (TComputed (F (m_sv s))) (t_idx x) (t_pulls x) false)
      | TComputed nv, _ =>
          (* reactivity.write(); value := new; state := Clean; then the read of the pull *)
          set_thr (mkM (m_sv s) false (Some nv) (m_order s) (m_thr s)) j
                  (op_done (mkT (t_ops x) TIdle (t_idx x) (nv :: t_pulls x) false))
      end
  end.

Definition mstep (t : nat) (s : mst) : mst :=
  match nth_error (m_thr s) t with Some x => thr_step s t x | None => s end.
Definition mrun (s : mst) (sched : list nat) : mst := fold_left (fun s t => mstep t s) sched s.

(** initial state = after the setup pull (memo Clean with value 10, subscribed to s) *)
Definition minit (progs : list (list op)) : mst :=
  mkM 1 false (Some 10) [] (map (fun p => mkT p TIdle 0 [] false) progs).

Definition thr_finished (x : thr) : bool :=
  negb (t_panic x) && match t_ops x with [] => true | _ => false end.
Definition mterminal (s : mst) : Prop := forall x, In x (m_thr s) -> thr_finished x = true.

(** a last pull by the main thread once every thread has finished *)
Definition final_pull (s : mst) : Z :=
  if m_dirty s then F (m_sv s) else match m_val s with Some v => v | None => -999 end.

(* ------------------------------------------------------------------------------------ *)
(** * (d) mid-notification read;  s (initially 1), memos a = s + 1, b = s * 2, effect logs (a, b) *)

Inductive mid := MA | MB.
Definition mid_eqb (x y : mid) : bool := match x, y with MA, MA => true | MB, MB => true | _, _ => false end.
Definition FA (s : Z) : Z := s + 1.
Definition FB (s : Z) : Z := s * 2.
Definition fof (x : mid) : Z -> Z := match x with MA => FA | MB => FB end.

Record gst := mkG {
  g_sv : Z;
  g_adirty : bool; g_aval : Z;
  g_bdirty : bool; g_bval : Z;
  g_subs : list mid;           (* subscribers of s, in SubscriberSet order *)
  g_edirty : bool;             (* EffectInner.dirty *)
  g_epending : bool;           (* the effect's task has been notified since it was last polled *)
  g_log : list (Z * Z);        (* newest first *)
  g_vals : list Z;             (* remaining writes of the writer thread *)
  g_marks : option (list mid); (* Some l: inside mark_subscribers_check, l still to be marked *)
}.

Definition g_dirty (s : gst) (x : mid) : bool := match x with MA => g_adirty s | MB => g_bdirty s end.
Definition g_val (s : gst) (x : mid) : Z := match x with MA => g_aval s | MB => g_bval s end.

(** `update_if_necessary` of memo x; [observer_is_effect]: the effect itself is reading it
    (then a changed memo does not mark the effect). Returns (changed, state). *)
Definition g_update (s : gst) (x : mid) (observer_is_effect : bool) : bool * gst :=
  if g_dirty s x then
    let nv := fof x (g_sv s) in
    let changed := negb (Z.eqb nv (g_val s x)) in
    let subs := filter (fun y => negb (mid_eqb x y)) (g_subs s) ++ [x] in
    let mark := changed && negb observer_is_effect in
    let ed := if mark then true else g_edirty s in
    let ep := if mark then true else g_epending s in
    (changed,
     match x with
     | MA => mkG (g_sv s) false nv (g_bdirty s) (g_bval s) subs ed ep (g_log s) (g_vals s) (g_marks s)
     | MB => mkG (g_sv s) (g_adirty s) (g_aval s) false nv subs ed ep (g_log s) (g_vals s) (g_marks s)
     end)
  else (false, s).

Definition g_run_effect (s : gst) : gst :=
  let '(_, s1) := g_update s MA true in
  let '(_, s2) := g_update s1 MB true in
  mkG (g_sv s2) (g_adirty s2) (g_aval s2) (g_bdirty s2) (g_bval s2) (g_subs s2) (g_edirty s2)
      (g_epending s2) ((g_aval s2, g_bval s2) :: g_log s2) (g_vals s2) (g_marks s2).

Definition g_set_ed (s : gst) (ed ep : bool) : gst :=
  mkG (g_sv s) (g_adirty s) (g_aval s) (g_bdirty s) (g_bval s) (g_subs s) ed ep (g_log s) (g_vals s) (g_marks s).

(** one poll of the effect's task (thread 0) *)
Definition g_rx (s : gst) : gst :=
  if g_epending s then
    let s0 := g_set_ed s (g_edirty s) false in
    if g_edirty s0 then g_run_effect (g_set_ed s0 false (g_epending s0))
    else
      let '(ca, s1) := g_update s0 MA false in
      let '(cb, s2) := if ca then (false, s1) else g_update s1 MB false in
      let d := g_edirty s2 in
      let s3 := g_set_ed s2 false (g_epending s2) in
      if ca || cb || d then g_run_effect s3 else s3
  else s.

Definition g_mark (s : gst) (x : mid) : gst :=
  match x with
  | MA => mkG (g_sv s) true (g_aval s) (g_bdirty s) (g_bval s) (g_subs s) (g_edirty s) true (g_log s) (g_vals s) (g_marks s)
  | MB => mkG (g_sv s) (g_adirty s) (g_aval s) true (g_bval s) (g_subs s) (g_edirty s) true (g_log s) (g_vals s) (g_marks s)
  end.

Definition g_set_marks (s : gst) (vals : list Z) (m : option (list mid)) : gst :=
  mkG (g_sv s) (g_adirty s) (g_aval s) (g_bdirty s) (g_bval s) (g_subs s) (g_edirty s) (g_epending s) (g_log s) vals m.

(** writer (thread 1) *)
Definition g_wr (s : gst) : gst :=
  match g_marks s with
  | None =>
      match g_vals s with
      | [] => s
      | v :: rest =>
          let s1 := mkG v (g_adirty s) (g_aval s) (g_bdirty s) (g_bval s) (g_subs s) (g_edirty s)
                        (g_epending s) (g_log s) rest None in
          match g_subs s1 with
          | [] => s1
          | l => g_set_marks s1 rest (Some l)
          end
      end
  | Some [] => g_set_marks s (g_vals s) None
  | Some (x :: l) =>
      let s1 := g_mark s x in
      match l with
      | [] => g_set_marks s1 (g_vals s1) None
      | _ => g_set_marks s1 (g_vals s1) (Some l)
      end
  end.

Definition gstep (t : nat) (s : gst) : gst :=
  match t with O => g_rx s | S O => g_wr s | _ => s end.
Definition grun (s : gst) (sched : list nat) : gst := fold_left (fun s t => gstep t s) sched s.

(** initial state = after the effect's first run: a = 2, b = 2 clean, s's subscribers [a; b] *)
Definition ginit (vals : list Z) : gst :=
  mkG 1 false 2 false 2 [MA; MB] false false [(2, 2)] vals None.

(** a logged pair is consistent when it is (v+1, 2v) for one value v of s *)
Definition consistent (p : Z * Z) : bool := Z.eqb (2 * (fst p - 1)) (snd p).

(* ------------------------------------------------------------------------------------ *)
(** * (e) a signal read that coincides with a write on another thread
    `Plain::try_new` (signal/guards.rs) takes the value lock with the NON-blocking `try_read`:
    while a writer holds `value.write()` it yields `None`, and `get()` / `read()` panic.
    Thread 0 = writer of s (1 -> 2) pausing inside the write lock, thread 1 = reader. *)
Inductive wpc := W0 | W1 | WDone.
Inductive rdpc := R0 | RDone (v : Z) | RPanic.
Record rst := mkR { r_sv : Z; r_w : wpc; r_r : rdpc }.

Definition rstep (t : nat) (s : rst) : rst :=
  match t with
  | O => match r_w s with
         | W0 => mkR (r_sv s) W1 (r_r s)
         | W1 => mkR 2 WDone (r_r s)
         | WDone => s
         end
  | S O => match r_r s with
           | R0 => match r_w s with
                   | W1 => mkR (r_sv s) (r_w s) RPanic
                   | _ => mkR (r_sv s) (r_w s) (RDone (r_sv s))
                   end
           | _ => s
           end
  | _ => s
  end.
Definition rrun (s : rst) (sched : list nat) : rst := fold_left (fun s t => rstep t s) sched s.
Definition rinit : rst := mkR 1 W0 R0.

(** the reader is scheduled while the writer holds the lock *)
Fixpoint read_under_write (s : rst) (sched : list nat) : bool :=
  match sched with
  | [] => false
  | t :: r =>
      (match t, r_w s, r_r s with S O, W1, R0 => true | _, _, _ => false end)
      || read_under_write (rstep t s) r
  end.

(* ------------------------------------------------------------------------------------ *)
(** * (f) read guards and synchronous reads of an async derived value overlapping the completion
    of a reload.  `set_inner_value` = `*value.write().await = new` (the replaced value is dropped
    inside the write lock: its user `Drop` is the yield point "user:value_drop"); synchronous
    reads (`AsyncPlain::try_new`) take the lock with the BLOCKING `blocking_read_arc`.
    The value is 1, the reload stores 2. *)

(** (f1) thread 1 holds a synchronous read guard until a task queued BEHIND the reload on the
    executor thread 0 releases it: the value's task must suspend (Pending), not park thread 0 *)
Record hst := mkH {
  h_val : Z; h_readers : nat; h_wwait : bool; h_dwoken : bool; h_go : bool;
  h_p0 : nat;              (* 0 before the completion poll, 1 at "op", 2 polling when woken *)
  h_p1 : nat;              (* 0 before taking the guard, 1 holding it, 2 done *)
  h_got : Z;
}.
Definition hstep (t : nat) (s : hst) : hst :=
  match t with
  | O =>
      match h_p0 s with
      | O => if (h_readers s =? 0)%nat
             then mkH 2 0%nat false (h_dwoken s) (h_go s) 1%nat (h_p1 s) (h_got s)
             else mkH (h_val s) (h_readers s) true false (h_go s) 1%nat (h_p1 s) (h_got s)
      | S O => mkH (h_val s) (h_readers s) (h_wwait s) (h_dwoken s) true 2%nat (h_p1 s) (h_got s)
      | _ => if h_dwoken s && h_wwait s && (h_readers s =? 0)%nat
             then mkH 2 0%nat false false (h_go s) 2%nat (h_p1 s) (h_got s)
             else mkH (h_val s) (h_readers s) (h_wwait s) false (h_go s) (h_p0 s) (h_p1 s) (h_got s)
      end
  | S O =>
      match h_p1 s with
      | O => mkH (h_val s) (S (h_readers s)) (h_wwait s) (h_dwoken s) (h_go s) (h_p0 s) 1%nat (h_got s)
      | S O => if h_go s
               then mkH (h_val s) (pred (h_readers s)) (h_wwait s)
                        (if h_wwait s then true else h_dwoken s) (h_go s) (h_p0 s) 2%nat (h_val s)
               else s
      | _ => s
      end
  | _ => s
  end.
Definition hrun (s : hst) (sched : list nat) : hst := fold_left (fun s t => hstep t s) sched s.
Definition hinit : hst := mkH 1 0%nat false false false 0%nat 0%nat 0.

(** (f2) thread 1 reads synchronously while the value's task (thread 0) stands in the `Drop`
    of the replaced value, holding the write lock: the read blocks and returns the new value *)
Record dst := mkD { d_val : Z; d_wheld : bool; d_p0 : nat; d_p1 : nat (* 0 start, 1 blocked, 2 done *); d_got : Z }.
Definition dstep (t : nat) (s : dst) : dst :=
  match t with
  | O =>
      match d_p0 s with
      | O => mkD (d_val s) true 1%nat (d_p1 s) (d_got s)
      | S O => if (d_p1 s =? 1)%nat then mkD 2 false 2%nat 2%nat 2 else mkD 2 false 2%nat (d_p1 s) (d_got s)
      | _ => s
      end
  | S O =>
      match d_p1 s with
      | O => if d_wheld s then mkD (d_val s) true (d_p0 s) 1%nat (d_got s)
             else mkD (d_val s) false (d_p0 s) 2%nat (d_val s)
      | _ => s
      end
  | _ => s
  end.
Definition drun (s : dst) (sched : list nat) : dst := fold_left (fun s t => dstep t s) sched s.
Definition dinit : dst := mkD 1 false 0%nat 0%nat 0.

(* ------------------------------------------------------------------------------------ *)
(** * (g) awaiting an async derived value while a user holds its WRITE guard
    thread 0: `let mut g = d.write();` · pause · `*g = Some(7); drop(g)` (unlock, then
    `notify_subs`); thread 1 polls `ready()` (kind 0: then reads synchronously, which blocks
    on the lock) or `into_future()` / `by_ref()` (kinds 1, 2: `value.poll(cx)` is Pending while
    the lock is held; `loading` is false, so the waker is NOT pushed to `wakers`).
    [fixed = false]: the code before commit "fix: awaiting an async derived value polls again
    when the value is write-locked" returned Pending with nothing registered. *)
Inductive upc := U0 | UParked (woken : bool) | UBlocked | UDone (v : Z).
Record wst := mkW { w_val : Z; w_held : bool; w_p0 : nat; w_a : upc; w_polls : nat }.

Definition wstep (fixed : bool) (kind : nat) (t : nat) (s : wst) : wst :=
  match t with
  | O =>
      match w_p0 s with
      | O => mkW (w_val s) true 1 (w_a s) (w_polls s)
      | S O => mkW 7 false 2 (match w_a s with UBlocked => UDone 7 | a => a end) (w_polls s)
      | _ => s
      end
  | S O =>
      let poll :=
        if w_held s then
          mkW (w_val s) true (w_p0 s) (match kind with O => UBlocked | _ => UParked fixed end) (S (w_polls s))
        else mkW (w_val s) false (w_p0 s) (UDone (w_val s)) (S (w_polls s)) in
      match w_a s with
      | U0 => poll
      | UParked true => poll
      | _ => s
      end
  | _ => s
  end.
Definition wrun (fixed : bool) (kind : nat) (s : wst) (sched : list nat) : wst :=
  fold_left (fun s t => wstep fixed kind t s) sched s.
Definition winit : wst := mkW 1 false 0 U0 0.
(** nothing can move *)
Definition w_terminal (s : wst) : Prop :=
  w_p0 s = 2%nat /\ match w_a s with U0 | UParked true => False | _ => True end.
