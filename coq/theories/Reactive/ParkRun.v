(** Executable entry point of the C19 models for the correspondence check.

    case                                   observation
    (0 kinds sched)  await, Prefix model   (((status value polls) ...) completer_done hang)
    (1 kinds sched)  await, Fixed (= HEAD)  same
    (2 fine progs sched)  effect channel    ((values seen by the effect) final_s (status ...) hang)
    (3 progs sched)  writes / memo pulls    (final_s final_m ((pulls) ...) ((thread op) ...) (status ...) hang)
    (4 vals sched)   mid-notification read  (((a b) ...) final_s (status status) hang)
    (5 0 sched)      lock order, HEAD traces of scenario 5      (hang)
    (6 0 sched)      lock order, traces before the notify_subs commit   (hang)
    (10 kinds sched) await with the waker callbacks as yield points      as (1 ..), hang = a thread blocked on the wakers lock
    (11 0 sched)     lock order signal -> memo -> effect, HEAD traces   (hang)
    (12 0 sched)     the same with mark_subscribers_check under the read lock   (hang)
    (13 sched)       signal -> memo -> ImmediateEffect on one thread, HEAD   (hang)
    (14 sched)       the same before the memo fix   (hang)
    (15)             by_ref() guard kept across an await on the executor thread of the reload: sequential, ((1 1) 2 0)
    (16 kind sched)  synchronous read guard on another thread released by a task queued behind the reload   ((st v) final hang)
    (17 sched)       synchronous read while the value's task holds the write lock (in the Drop of the old value)   ((st v) final hang)
    (18 kind sched)  await vs a user's write guard on the async derived value, HEAD   ((st v polls) writer_done hang)
    (28 kind sched)  the same before the fix
    (31 kinds sched) = (1 ..) with a fresh future and a fresh waker for every poll
    (23 progs sched) = (3 ..) driven through arena handles (RwSignal, Memo)
    (7 sched)        signal read vs write holding the lock      ((reader_status value) writer_status final_s)
    status: 0 = waiting at a yield point / parked, 1 = finished, 2 = blocked on a lock, 3 = panicked *)
From Coq Require Import List ZArith NArith Bool Arith.
From LV Require Import Base.Sexp Reactive.Park Reactive.Cross Reactive.Locks.
Import ListNotations.

Definition as_bools (s : sexp) : list bool := map as_bool (as_list s).

Definition s_awaiter (a : awaiter) : sexp :=
  match a_pc a with
  | ADone v => Lst [Num 1; Num v; snat (a_polls a)]
  | _ => Lst [Num 0; Num 0; snat (a_polls a)]
  end.

Definition obs_await (s : ast) : sexp :=
  Lst [Lst (map s_awaiter (aws s));
       Num (match c_pc s with CDone => 1 | _ => 0 end)%Z;
       Num 0].

Definition obs_chan (s : cst) : sexp :=
  let blocked t := existsb (Nat.eqb t) (c_waitq s) in
  let st_rx := if blocked 0%nat then 2%Z else 0%Z in
  let st_snd := map (fun jx => if blocked (S (fst jx)) then 2%Z
                               else if snd_finished (snd jx) then 1%Z else 0%Z)
                    (combine (seq 0%nat (length (c_snd s))) (c_snd s)) in
  Lst [sZs (rev (c_log s)); Num (c_sv s); sZs (st_rx :: st_snd);
       sbool (negb (match c_waitq s with [] => true | _ => false end))].

Definition as_op (s : sexp) : op :=
  match as_Z (nth_s 0 s) with
  | 0%Z => OSet (as_Z (nth_s 1 s))
  | 1%Z => OAdd (as_Z (nth_s 1 s))
  | _ => OPull
  end.

Definition obs_sig (s : mst) : sexp :=
  let sts := map (fun x => if t_panic x then 3%Z else if thr_finished x then 1%Z else 0%Z) (m_thr s) in
  let all_done := forallb thr_finished (m_thr s) in
  Lst [Num (m_sv s);
       Num (if all_done then final_pull s else (-998)%Z);
       Lst (map (fun x => sZs (rev (t_pulls x))) (m_thr s));
       Lst (map (fun p => Lst [snat (fst p); snat (snd p)]) (rev (m_order s)));
       sZs sts; Num 0].

Definition obs_glitch (s : gst) : sexp :=
  let wdone := match g_vals s, g_marks s with [], None => 1%Z | _, _ => 0%Z end in
  Lst [Lst (map (fun p => Lst [Num (fst p); Num (snd p)]) (rev (g_log s)));
       Num (g_sv s); sZs [0%Z; wdone]; Num 0].

Definition obs_lock (st : list lthr * list nat) : sexp :=
  Lst [sbool (deadlocked (fst st))].

Definition obs_await_u (u : ust) : sexp :=
  match obs_await (u_s u) with
  | Lst [a; c; _] => Lst [a; c; sbool (negb (match u_wq u with [] => true | _ => false end))]
  | x => x
  end.

Definition obs_read (s : rst) : sexp :=
  Lst [match r_r s with
       | R0 => Lst [Num 0; Num 0]
       | RDone v => Lst [Num 1; Num v]
       | RPanic => Lst [Num 3; Num 0]
       end;
       Num (match r_w s with WDone => 1 | _ => 0 end)%Z;
       Num (r_sv s)].

Definition obs_h (s : hst) : sexp :=
  Lst [Lst [Num (match h_p1 s with 2%nat => 1 | _ => 0 end)%Z; Num (match h_p1 s with 2%nat => h_got s | _ => 0%Z end)];
       Num (h_val s); Num 0].
Definition obs_d (s : dst) : sexp :=
  match d_p1 s with
  | 1%nat => Lst [Lst [Num 0; Num 0]; Num (-1); Num 1]
  | 2%nat => Lst [Lst [Num 1; Num (d_got s)]; Num (d_val s); Num 0]
  | _ => Lst [Lst [Num 0; Num 0]; Num (d_val s); Num 0]
  end.

Definition obs_w (s : wst) : sexp :=
  Lst [match w_a s with
       | UDone v => Lst [Num 1; Num v; snat (w_polls s)]
       | UBlocked => Lst [Num 0; Num 0; snat (pred (w_polls s))]
       | _ => Lst [Num 0; Num 0; snat (w_polls s)]
       end;
       Num (match w_p0 s with 2%nat => 1 | _ => 0 end)%Z;
       sbool (match w_a s with UBlocked => true | _ => false end)].

Definition run_C19 (c : sexp) : sexp :=
  match as_Z (nth_s 0 c) with
  | 0%Z => obs_await (arun Prefix (ainit (as_bools (nth_s 1 c))) (as_nats (nth_s 2 c)))
  | 1%Z => obs_await (arun Fixed (ainit (as_bools (nth_s 1 c))) (as_nats (nth_s 2 c)))
  | 31%Z => obs_await (arun Fixed (ainit (as_bools (nth_s 1 c))) (as_nats (nth_s 2 c)))
  | 2%Z => obs_chan (crun (cinit (as_bool (nth_s 1 c)) (map as_Zs (as_list (nth_s 2 c))))
                          (as_nats (nth_s 3 c)))
  | 3%Z => obs_sig (mrun (minit (map (fun p => map as_op (as_list p)) (as_list (nth_s 1 c))))
                         (as_nats (nth_s 2 c)))
  | 23%Z => obs_sig (mrun (minit (map (fun p => map as_op (as_list p)) (as_list (nth_s 1 c))))
                          (as_nats (nth_s 2 c)))
  | 4%Z => obs_glitch (grun (ginit (as_Zs (nth_s 1 c))) (as_nats (nth_s 2 c)))
  | 5%Z => obs_lock (lrun_coarse (linit [e_rerun_sd; d_complete]) (as_nats (nth_s 2 c)))
  | 6%Z => obs_lock (lrun_coarse (linit [e_rerun_sd; d_complete_prefix]) (as_nats (nth_s 2 c)))
  | 7%Z => obs_read (rrun rinit (as_nats (nth_s 1 c)))
  | 15%Z => Lst [Lst [Num 1; Num 1]; Num 2; Num 0]
  | 16%Z => obs_h (hrun hinit (as_nats (nth_s 2 c)))
  | 17%Z => obs_d (drun dinit (as_nats (nth_s 1 c)))
  | 18%Z => obs_w (wrun true (as_nat (nth_s 1 c)) winit (as_nats (nth_s 2 c)))
  | 28%Z => obs_w (wrun false (as_nat (nth_s 1 c)) winit (as_nats (nth_s 2 c)))
  | 10%Z => obs_await_u (urun (uinit (as_bools (nth_s 1 c))) (as_nats (nth_s 2 c)))
  | 11%Z => obs_lock (lrun_coarse (linit [e_rerun_mt; s_set_me]) (as_nats (nth_s 2 c)))
  | 12%Z => obs_lock (lrun_coarse (linit [e_rerun_mt; s_set_me_prefix]) (as_nats (nth_s 2 c)))
  | 13%Z => obs_lock (lrun_coarse (linit [s_set_immediate_head]) (as_nats (nth_s 1 c)))
  | 14%Z => obs_lock (lrun_coarse (linit [s_set_immediate_prefix]) (as_nats (nth_s 1 c)))
  | _ => Lst []
  end.
