(** C19 — park/wake protocols of the reactive graph, as small-step transition systems under
    SEQUENTIAL CONSISTENCY.  No proofs in this file (see ParkProofs.v).

    One step = what a thread executes between two named yield points of the instrumented
    code (`reactive_graph::verif_yield`, hook commit "verif-hook: named yield points in
    reactive_graph").  An interleaving is an explicit schedule [list nat] of thread ids; a
    slot whose thread has nothing to do (finished, parked and not woken, blocked on a lock)
    leaves the state unchanged.

    (a) await path — `AsyncDerivedReadyFuture / AsyncDerivedFuture / AsyncDerivedRefFuture
        ::poll` (computed/async_derived/future_impls.rs) against `set_inner_value` +
        `notify_subs` (arc_async_derived.rs), k awaiters x 1 completer;
    (b) effect notification channel — `Sender::notify` / `Receiver::poll_next` (channel.rs)
        with the AtomicWaker specification (register/wake linearizable; a wake takes the
        registered waker and wakes it; a wake before register is remembered by the flag),
        driven by `RwLock<EffectInner>::mark_dirty` (under the effect's inner lock) and the
        effect task loop (effect/effect.rs).

    What the model cannot exhibit: weak-memory behaviour of the Relaxed atomics, OS
    scheduling, lock fairness. *)
From Coq Require Import List ZArith Bool Arith.
Import ListNotations.

Fixpoint upd {A} (l : list A) (i : nat) (x : A) : list A :=
  match l, i with
  | [], _ => []
  | _ :: t, O => x :: t
  | h :: t, S j => h :: upd t j x
  end.

(* ------------------------------------------------------------------------------------ *)
(** * (a) await path *)

(** [Prefix]: the code before commit "fix: awaiting an async derived value re-checks
    `loading` under the wakers lock before parking": `if loading.load() { wakers.write().push(waker) }`.
    [Fixed]: `park_if_still_loading`: lock wakers; if loading.load() then push else wake_by_ref. *)
Inductive proto := Prefix | Fixed.

(** program counter of an awaiter task.
    [AStart]     not polled yet;
    [ALoaded g]  inside poll, at yield point "await:loaded": it has loaded `loading = true`
                 and polled the value lock: [GGuard] it holds a read guard of `value`,
                 [GListen] the poll was Pending (a writer waits) and its `ReadArc` future
                 keeps a listener on the lock's `no_writer` event until poll returns,
                 [GNone] ready(): no value lock;
    [AParked]    poll returned Pending;
    [ADone v]    poll returned Ready with value v. *)
Inductive guardst := GNone | GGuard | GListen.
Inductive apc := AStart | ALoaded (g : guardst) | AParked | ADone (v : Z).

Record awaiter := mkA {
  a_val : bool;      (* true: into_future()/by_ref() (polls `value.read_arc()`); false: ready() *)
  a_pc : apc;
  a_woken : bool;    (* its waker has been invoked since it was last polled *)
  a_polls : nat;
}.

(** completer = the resource's own task, from the moment its future resolves:
    `*value.write().await = v` · "ad:value_stored" · `loading.store(false)` ·
    "ad:loading_cleared" · state/ready_tx/mark subscribers · "ad:before_drain" ·
    `for w in take(wakers.write()) { w.wake() }`.
    [CWait]: `value.write().await` returned Pending (WRITER_BIT set, readers present). *)
Inductive cpc := CStart | CWait | CStored | CCleared | CBeforeDrain | CDone.

Record ast := mkS {
  loading : bool;            (* AtomicBool *)
  value : option Z;          (* contents of the async RwLock<SendOption<T>> *)
  wakers : list nat;         (* RwLock<Vec<Waker>>: awaiter indices *)
  readers : nat;             (* read guards of `value` currently held *)
  wbit : bool;               (* async_lock WRITER_BIT: a writer waits for the readers to leave; new readers get Pending *)
  cwoken : bool;             (* waker of the completer task invoked (by the last reader leaving) *)
  vq : list (nat * bool);    (* listeners on `no_writer`, FIFO: (awaiter, already notified) *)
  c_pc : cpc;
  aws : list awaiter;
}.

Definition VAL : Z := 42.

Definition set_aw (s : ast) (i : nat) (a : awaiter) : ast :=
  mkS (loading s) (value s) (wakers s) (readers s) (wbit s) (cwoken s) (vq s) (c_pc s) (upd (aws s) i a).
Definition set_readers (s : ast) (n : nat) (cw : bool) : ast :=
  mkS (loading s) (value s) (wakers s) n (wbit s) cw (vq s) (c_pc s) (aws s).
Definition set_wakers (s : ast) (w : list nat) : ast :=
  mkS (loading s) (value s) w (readers s) (wbit s) (cwoken s) (vq s) (c_pc s) (aws s).

Definition wake_aw (s : ast) (i : nat) : ast :=
  match nth_error (aws s) i with
  | Some a => set_aw s i (mkA (a_val a) (a_pc a) true (a_polls a))
  | None => s
  end.

(** dropping a read guard of `value`; the last reader wakes a waiting writer *)
Definition release_guard (s : ast) : ast :=
  let r := pred (readers s) in
  set_readers s r (if (r =? 0) && wbit s then true else cwoken s).

Definition cur_value (s : ast) : Z := match value s with Some v => v | None => (-2)%Z end.

Definition set_vq (s : ast) (q : list (nat * bool)) : ast :=
  mkS (loading s) (value s) (wakers s) (readers s) (wbit s) (cwoken s) q (c_pc s) (aws s).

(** event_listener `notify(1)` on `no_writer`: unless a listener is already notified, the
    oldest one is notified (its task is woken) *)
Definition notify1 (s : ast) : ast :=
  if existsb snd (vq s) then s else
  match vq s with
  | [] => s
  | (i, _) :: q => wake_aw (set_vq s ((i, true) :: q)) i
  end.

(** dropping the listener of awaiter i; a notified listener passes the notification on *)
Definition drop_listener (s : ast) (i : nat) : ast :=
  let mine := existsb (fun e => (fst e =? i) && snd e) (vq s) in
  let s1 := set_vq s (filter (fun e => negb (fst e =? i)) (vq s)) in
  if mine then notify1 s1 else s1.

(** first segment of a poll: `loading.load()`, then `value.poll(cx)`; reaches the yield
    point only if `loading` was true. *)
Definition poll_start (i : nat) (a : awaiter) (s : ast) : ast :=
  let n := S (a_polls a) in
  let l := loading s in
  if a_val a then
    if wbit s then
      (* value.poll = Pending; the listener lives until poll returns *)
      if l then set_aw (set_vq s (vq s ++ [(i, false)])) i (mkA true (ALoaded GListen) false n)
      else set_aw s i (mkA true AParked true n)   (* (false, Pending): wakes itself and polls again *)
    else if l then
      set_aw (set_readers s (S (readers s)) (cwoken s)) i (mkA true (ALoaded GGuard) false n)
    else
      set_aw s i (mkA true (ADone (cur_value s)) false n)
  else if l then set_aw s i (mkA false (ALoaded GNone) false n)
  else set_aw s i (mkA false (ADone (cur_value s)) false n).

(** second segment: register the waker, return Pending (dropping the read guard / listener) *)
Definition poll_park (p : proto) (i : nat) (a : awaiter) (g : guardst) (s : ast) : ast :=
  let s1 := set_aw s i (mkA (a_val a) AParked (a_woken a) (a_polls a)) in
  let s2 := match p with
            | Prefix => set_wakers s1 (wakers s1 ++ [i])
            | Fixed => if loading s1 then set_wakers s1 (wakers s1 ++ [i]) else wake_aw s1 i
            end in
  match g with
  | GGuard => release_guard s2
  | GListen => drop_listener s2 i
  | GNone => s2
  end.

Definition aw_step (p : proto) (i : nat) (a : awaiter) (s : ast) : ast :=
  match a_pc a with
  | AStart => poll_start i a s
  | ALoaded g => poll_park p i a g s
  | AParked => if a_woken a then poll_start i a s else s
  | ADone _ => s
  end.

Definition set_cpc (s : ast) (c : cpc) : ast :=
  mkS (loading s) (value s) (wakers s) (readers s) (wbit s) (cwoken s) (vq s) c (aws s).

(** `value.write().await`: sets WRITER_BIT; with no reader it acquires, stores, releases *)
Definition try_write (s : ast) : ast :=
  if readers s =? 0 then
    notify1 (mkS (loading s) (Some VAL) (wakers s) (readers s) false false (vq s) CStored (aws s))
  else mkS (loading s) (value s) (wakers s) (readers s) true false (vq s) CWait (aws s).

Definition comp_step (s : ast) : ast :=
  match c_pc s with
  | CStart => try_write s
  | CWait => if cwoken s then try_write s else s
  | CStored => mkS false (value s) (wakers s) (readers s) (wbit s) (cwoken s) (vq s) CCleared (aws s)
  | CCleared => set_cpc s CBeforeDrain
  | CBeforeDrain => set_cpc (set_wakers (fold_left wake_aw (wakers s) s) []) CDone
  | CDone => s
  end.

(** thread ids: 0 .. k-1 awaiters, k completer *)
Definition astep (p : proto) (t : nat) (s : ast) : ast :=
  match nth_error (aws s) t with
  | Some a => aw_step p t a s
  | None => if t =? length (aws s) then comp_step s else s
  end.

Definition arun (p : proto) (s : ast) (sched : list nat) : ast :=
  fold_left (fun s t => astep p t s) sched s.

Definition ainit (kinds : list bool) : ast :=
  mkS true None [] 0 false false [] CStart (map (fun k => mkA k AStart false 0) kinds).

(** can thread t change the state? *)
Definition aw_enabled (a : awaiter) : bool :=
  match a_pc a with AStart => true | ALoaded _ => true | AParked => a_woken a | ADone _ => false end.
Definition comp_enabled (s : ast) : bool :=
  match c_pc s with CDone => false | CWait => cwoken s | _ => true end.
Definition aterminal (s : ast) : Prop :=
  comp_enabled s = false /\ forall a, In a (aws s) -> aw_enabled a = false.
Definition aterminalb (s : ast) : bool :=
  negb (comp_enabled s) && forallb (fun a => negb (aw_enabled a)) (aws s).

Definition aw_done (a : awaiter) : bool := match a_pc a with ADone _ => true | _ => false end.

(* ------------------------------------------------------------------------------------ *)
(** * (a') await path at the granularity of USER CALLBACKS
    The awaiter's waker is user (executor) code that the library calls back into:
    `park_if_still_loading` = lock wakers; if loading { push(waker.clone()) } else { unlock;
    waker.wake_by_ref() }.  With a waker whose `clone` / `wake_by_ref` are yield points
    ("user:waker_clone", "user:waker_wake_by_ref") the awaiter can be pre-empted INSIDE the
    wakers lock (after the re-check, before the push).  A thread that needs the wakers lock
    then blocks and continues as soon as it is released. *)
Inductive ext := XNone | XClone | XSelf.
Record ust := mkU {
  u_s : ast;
  u_wl : option nat;       (* holder of the wakers lock across a yield point *)
  u_wq : list nat;         (* threads blocked on it, in arrival order *)
  u_ext : list ext;        (* per awaiter: where inside park_if_still_loading it stands *)
}.

Definition in_q (t : nat) (q : list nat) : bool := existsb (Nat.eqb t) q.

(** the awaiter enters park_if_still_loading: takes the lock and re-checks `loading` *)
Definition u_enter (u : ust) (i : nat) : ust :=
  match u_wl u with
  | Some _ => mkU (u_s u) (u_wl u) (u_wq u ++ [i]) (u_ext u)
  | None =>
      if loading (u_s u) then mkU (u_s u) (Some i) (u_wq u) (upd (u_ext u) i XClone)
      else mkU (u_s u) None (u_wq u) (upd (u_ext u) i XSelf)
  end.

Definition u_comp (u : ust) : ust :=
  let k := length (aws (u_s u)) in
  match c_pc (u_s u) with
  | CBeforeDrain =>
      match u_wl u with
      | Some _ => mkU (u_s u) (u_wl u) (u_wq u ++ [k]) (u_ext u)
      | None => mkU (comp_step (u_s u)) None (u_wq u) (u_ext u)
      end
  | _ => mkU (comp_step (u_s u)) (u_wl u) (u_wq u) (u_ext u)
  end.

Definition u_resume (u : ust) (t : nat) : ust :=
  match nth_error (aws (u_s u)) t with
  | Some _ => u_enter u t
  | None => u_comp u
  end.

Fixpoint u_settle (fuel : nat) (u : ust) : ust :=
  match fuel with
  | O => u
  | S f =>
      match u_wl u, u_wq u with
      | None, t :: q => u_settle f (u_resume (mkU (u_s u) None q (u_ext u)) t)
      | _, _ => u
      end
  end.

Definition ustep (t : nat) (u : ust) : ust :=
  if in_q t (u_wq u) then u else
  match nth_error (aws (u_s u)) t with
  | Some a =>
      match a_pc a with
      | ALoaded g =>
          match nth t (u_ext u) XNone with
          | XNone => u_enter u t
          | XClone =>
              (* waker cloned: push, unlock, return Pending *)
              let u1 := mkU (poll_park Prefix t a g (u_s u)) None (u_wq u) (upd (u_ext u) t XNone) in
              u_settle (length (u_wq u1)) u1
          | XSelf =>
              (* `loading` was false under the lock: wake_by_ref, return Pending *)
              mkU (poll_park Fixed t a g (u_s u)) (u_wl u) (u_wq u) (upd (u_ext u) t XNone)
          end
      | _ => mkU (aw_step Fixed t a (u_s u)) (u_wl u) (u_wq u) (u_ext u)
      end
  | None => if t =? length (aws (u_s u)) then u_comp u else u
  end.

Definition urun (u : ust) (sched : list nat) : ust := fold_left (fun u t => ustep t u) sched u.
Definition uinit (kinds : list bool) : ust := mkU (ainit kinds) None [] (map (fun _ => XNone) kinds).

Definition ext_idle (e : ext) : bool := match e with XNone => true | _ => false end.
(** nothing can move: no thread blocked, nobody inside park_if_still_loading, base state terminal *)
Definition uterminalb (u : ust) : bool :=
  match u_wq u with [] => true | _ => false end && forallb ext_idle (u_ext u)
  && aterminalb (u_s u).

(* ------------------------------------------------------------------------------------ *)
(** * (b) effect notification channel *)

(** receiver = the effect's task (`while rx.next().await.is_some() { if update_if_necessary() { run } }`)
    [RParked]      poll returned Pending;
    [RRegistered]  inside `poll_next`, at yield point "chan:registered" (after `waker.register`);
    [RWantLock]    `swap` returned true, blocked on the effect's inner lock, which a sender
                   paused between `set.store(true)` and `waker.wake()` holds. *)
Inductive rpc := RParked | RRegistered | RWantLock.

(** phases of one `signal.set(v)` on a sender thread:
    [PW] before the write · "write:unlocked" · [PM] before `mark_subscribers_check` clones the
    subscribers · "signal:mark_sub" · [PN1] before `effect.mark_dirty()` = lock inner; dirty := true;
    `set.store(true)` · "chan:flag_set" (fine granularity only) · [PN2] before `waker.wake()`; unlock. *)
Inductive sphase := PW | PM | PN1 | PN2.

Record sender := mkSnd { s_ops : list Z; s_ph : sphase }.

Record cst := mkC {
  c_fine : bool;             (* "chan:flag_set" is an active yield point *)
  c_flag : bool;             (* Inner.set *)
  c_reg : bool;              (* AtomicWaker holds a registered waker *)
  c_rwoken : bool;           (* receiver task's waker invoked *)
  c_dirty : bool;            (* EffectInner.dirty *)
  c_elock : option nat;      (* holder (thread id) of the effect's inner RwLock across a yield point *)
  c_sv : Z;                  (* signal value *)
  c_log : list Z;            (* values seen by the effect runs, newest first *)
  c_rpc : rpc;
  c_snd : list sender;
  c_waitq : list nat;        (* threads blocked on the inner lock, in arrival order *)
}.

Definition c_with_rx (s : cst) (flag reg rw dirty : bool) (log : list Z) (r : rpc) (q : list nat) : cst :=
  mkC (c_fine s) flag reg rw dirty (c_elock s) (c_sv s) log r (c_snd s) q.

(** after `swap` returned true: `update_if_necessary` (takes the inner lock, consumes `dirty`),
    run the effect if it was dirty (log the signal), loop: `register` again *)
Definition rx_run (s : cst) : cst :=
  match c_elock s with
  | None =>
      c_with_rx s (c_flag s) true (c_rwoken s) false
        (if c_dirty s then c_sv s :: c_log s else c_log s) RRegistered (c_waitq s)
  | Some _ =>
      c_with_rx s (c_flag s) (c_reg s) (c_rwoken s) (c_dirty s) (c_log s) RWantLock (c_waitq s ++ [0])
  end.

Definition rx_step (s : cst) : cst :=
  match c_rpc s with
  | RParked =>
      if c_rwoken s then c_with_rx s (c_flag s) true false (c_dirty s) (c_log s) RRegistered (c_waitq s)
      else s
  | RRegistered =>
      if c_flag s then rx_run (c_with_rx s false (c_reg s) (c_rwoken s) (c_dirty s) (c_log s) RRegistered (c_waitq s))
      else c_with_rx s false (c_reg s) (c_rwoken s) (c_dirty s) (c_log s) RParked (c_waitq s)
  | RWantLock => s
  end.

Definition set_snd (s : cst) (j : nat) (x : sender) : cst :=
  mkC (c_fine s) (c_flag s) (c_reg s) (c_rwoken s) (c_dirty s) (c_elock s) (c_sv s) (c_log s)
      (c_rpc s) (upd (c_snd s) j x) (c_waitq s).

(** AtomicWaker::wake *)
Definition do_wake (s : cst) : cst :=
  if c_reg s then
    mkC (c_fine s) (c_flag s) false true (c_dirty s) (c_elock s) (c_sv s) (c_log s) (c_rpc s) (c_snd s) (c_waitq s)
  else s.

Definition next_op (x : sender) : sender := mkSnd (tl (s_ops x)) PW.

(** `mark_dirty`: lock inner; dirty := true; `Sender::notify`: set := true; [yield]; wake; unlock *)
Definition snd_n1 (s : cst) (j : nat) (x : sender) : cst :=
  match c_elock s with
  | Some _ =>
      mkC (c_fine s) (c_flag s) (c_reg s) (c_rwoken s) (c_dirty s) (c_elock s) (c_sv s) (c_log s)
          (c_rpc s) (c_snd s) (c_waitq s ++ [S j])
  | None =>
      let s1 := mkC (c_fine s) true (c_reg s) (c_rwoken s) true (c_elock s) (c_sv s) (c_log s)
                    (c_rpc s) (c_snd s) (c_waitq s) in
      if c_fine s then
        set_snd (mkC (c_fine s1) (c_flag s1) (c_reg s1) (c_rwoken s1) (c_dirty s1) (Some (S j))
                     (c_sv s1) (c_log s1) (c_rpc s1) (c_snd s1) (c_waitq s1)) j (mkSnd (s_ops x) PN2)
      else set_snd (do_wake s1) j (next_op x)
  end.

(** resume the threads blocked on the inner lock, in arrival order, once it is free *)
Definition resume (s : cst) (t : nat) : cst :=
  match t with
  | O => rx_run s
  | S j =>
      match nth_error (c_snd s) j with
      | Some x => match s_ph x, s_ops x with PN1, _ :: _ => snd_n1 s j x | _, _ => s end
      | None => s
      end
  end.

Fixpoint settle (fuel : nat) (s : cst) : cst :=
  match fuel with
  | O => s
  | S f =>
      match c_elock s, c_waitq s with
      | None, t :: q =>
          settle f (resume (mkC (c_fine s) (c_flag s) (c_reg s) (c_rwoken s) (c_dirty s) (c_elock s)
                                (c_sv s) (c_log s) (c_rpc s) (c_snd s) q) t)
      | _, _ => s
      end
  end.

Definition snd_step (s : cst) (j : nat) (x : sender) : cst :=
  if existsb (Nat.eqb (S j)) (c_waitq s) then s else
  match s_ops x with
  | [] => s
  | v :: _ =>
      match s_ph x with
      | PW => set_snd (mkC (c_fine s) (c_flag s) (c_reg s) (c_rwoken s) (c_dirty s) (c_elock s) v
                           (c_log s) (c_rpc s) (c_snd s) (c_waitq s)) j (mkSnd (s_ops x) PM)
      | PM => set_snd s j (mkSnd (s_ops x) PN1)
      | PN1 => snd_n1 s j x
      | PN2 =>
          let s1 := do_wake s in
          let s2 := mkC (c_fine s1) (c_flag s1) (c_reg s1) (c_rwoken s1) (c_dirty s1) None (c_sv s1)
                        (c_log s1) (c_rpc s1) (c_snd s1) (c_waitq s1) in
          let s3 := set_snd s2 j (next_op x) in
          settle (length (c_waitq s3)) s3
      end
  end.

(** thread ids: 0 receiver, j+1 sender j *)
Definition cstep (t : nat) (s : cst) : cst :=
  match t with
  | O => rx_step s
  | S j => match nth_error (c_snd s) j with Some x => snd_step s j x | None => s end
  end.

Definition crun (s : cst) (sched : list nat) : cst := fold_left (fun s t => cstep t s) sched s.

(** initial state = after the effect's first run (it logged the initial value 0, subscribed,
    registered its waker and parked) *)
Definition cinit (fine : bool) (progs : list (list Z)) : cst :=
  mkC fine false true false false None 0%Z [0%Z] RParked (map (fun p => mkSnd p PW) progs) [].

Definition snd_finished (x : sender) : bool := match s_ops x with [] => true | _ => false end.
Definition cterminal (s : cst) : Prop :=
  (forall x, In x (c_snd s) -> snd_finished x = true) /\ c_rpc s = RParked /\ c_rwoken s = false.
