(** Push phase: what [mark_check] / [mark_dirty] / [notify_sig] do to a well-formed state.
    Marking only raises memo states (Clean < Check < Dirty) and effect flags, never touches
    values, edges or logs, stays inside its recursion bound on a DAG, and is CLOSED: every
    memo it takes out of Clean has, at the end, no Clean memo subscriber and all its live
    effect subscribers flagged. *)
From Coq Require Import List ZArith Bool Arith Lia.
From LV Require Import Reactive.Graph Reactive.GraphLemmas Reactive.GraphInvariant.
Import ListNotations.
Close Scope Z_scope.
Open Scope nat_scope.

Lemma fold_left_inv {A B} (f : A -> B -> A) (P : list B -> A -> Prop) :
  (forall x rest a, P (x :: rest) a -> P rest (f a x)) ->
  forall l a, P l a -> P [] (fold_left f l a).
Proof.
  intros Hstep l; induction l as [|x t IH]; intros a Ha; cbn; auto.
Qed.

Section P.
Variable p : prog.
Notation memob := (memob p).
Notation effb := (effb p).
Notation WF := (WF p).
Notation MarkRel := (MarkRel p).

(* ---------------------------------------------------------------- single-node updates *)
Lemma updn_MarkRel i f s :
  let n := getn s i in
  same_core n (f n) ->
  st_le (st n) (st (f n)) ->
  (memob i = false -> st (f n) = st n) ->
  (effb i = false -> edirty (f n) = edirty n /\ eflag (f n) = eflag n /\ ereg (f n) = ereg n) ->
  bool_le (edirty n) (edirty (f n)) ->
  bool_le (eflag n) (eflag (f n)) ->
  MarkRel s (updn i f s).
Proof.
  intros n Hc Hs Hm He Hd Hf. split; try reflexivity.
  - apply nlen_updn.
  - intros j. destruct (getn_updn_cases i f s j) as [[<- E]|E]; rewrite E; auto using same_core_refl.
  - intros j. destruct (getn_updn_cases i f s j) as [[<- E]|E]; rewrite E; auto using st_le_refl.
  - intros j Hj. destruct (getn_updn_cases i f s j) as [[<- E]|E]; rewrite E; auto.
  - intros j Hj. destruct (getn_updn_cases i f s j) as [[<- E]|E]; rewrite E; auto.
  - intros j. destruct (getn_updn_cases i f s j) as [[<- E]|E]; rewrite E; auto. unfold bool_le; auto.
  - intros j. destruct (getn_updn_cases i f s j) as [[<- E]|E]; rewrite E; auto. unfold bool_le; auto.
  - exists []; rewrite app_nil_r; reflexivity.
Qed.

Lemma enqueue_MarkRel i s : MarkRel s (enqueue i s).
Proof.
  unfold enqueue. destruct (existsb _ _); [apply MarkRel_refl|].
  split; try reflexivity; intros; auto using same_core_refl, st_le_refl; unfold bool_le; auto.
  exists [i]; reflexivity.
Qed.

Lemma getn_enqueue i s j : getn (enqueue i s) j = getn s j.
Proof. unfold enqueue. destruct (existsb _ _); reflexivity. Qed.

Ltac core_tac := unfold same_core; nsimpl; intuition.

Lemma eff_notify_MarkRel i s : effb i = true -> MarkRel s (eff_notify i s).
Proof.
  intros He. unfold eff_notify. destruct (ealive (getn s i)); [|apply MarkRel_refl].
  assert (M1 : MarkRel s (updn i (fun n => set_eflag n true) s)).
  { apply updn_MarkRel; cbv zeta; intros; try congruence; nsimpl; auto using st_le_refl; try core_tac;
      unfold bool_le; auto. }
  destruct (ereg (getn _ i)); auto.
  eapply MarkRel_trans; [exact M1|]. eapply MarkRel_trans; [|apply enqueue_MarkRel].
  apply updn_MarkRel; cbv zeta; intros; try congruence; nsimpl; auto using st_le_refl; try core_tac;
    unfold bool_le; auto.
Qed.

Lemma eff_notify_flag i s :
  ealive (getn s i) = true -> i < nlen s -> eflag (getn (eff_notify i s) i) = true.
Proof.
  intros Ha Hi. unfold eff_notify. rewrite Ha.
  destruct (ereg (getn _ i)).
  - rewrite getn_enqueue, !getn_updn_same; auto. rewrite nlen_updn; auto.
  - rewrite getn_updn_same; auto.
Qed.

Lemma eff_mark_dirty_MarkRel i s : effb i = true -> MarkRel s (eff_mark_dirty i s).
Proof.
  intros He. unfold eff_mark_dirty. destruct (ealive (getn s i)); [|apply MarkRel_refl].
  eapply MarkRel_trans; [|apply eff_notify_MarkRel; auto].
  apply updn_MarkRel; cbv zeta; intros; try congruence; nsimpl; auto using st_le_refl; try core_tac;
    unfold bool_le; auto.
Qed.

Lemma eff_mark_dirty_flags i s :
  effb i = true -> ealive (getn s i) = true -> i < nlen s ->
  eflag (getn (eff_mark_dirty i s) i) = true /\ edirty (getn (eff_mark_dirty i s) i) = true.
Proof.
  intros He Ha Hi. unfold eff_mark_dirty. rewrite Ha.
  set (s1 := updn i (fun n => set_edirty n true) s).
  assert (Ha1 : ealive (getn s1 i) = true) by (unfold s1; rewrite getn_updn_same; auto).
  assert (Hi1 : i < nlen s1) by (unfold s1; rewrite nlen_updn; auto).
  split; [apply eff_notify_flag; auto|].
  assert (Hd : edirty (getn s1 i) = true) by (unfold s1; rewrite getn_updn_same; auto).
  apply (mr_edirty p _ _ (eff_notify_MarkRel i s1 He) i Hd).
Qed.

(* ---------------------------------------------------------------- closure with exceptions *)
Definition ClosedX (E : nat -> nat -> Prop) (s0 s : state) : Prop :=
  forall y k, ~ E y k -> memob y = true -> st (getn s0 y) = Clean -> st (getn s y) <> Clean ->
  In k (subs (getn s y)) ->
  (memob k = true -> st (getn s k) <> Clean) /\
  (effb k = true -> ealive (getn s k) = true -> eflag (getn s k) = true).

Lemma ClosedX_none s0 s : ClosedX (fun _ _ => False) s0 s <-> Closed p s0 s.
Proof.
  unfold ClosedX, Closed; split.
  - intros H y k Hy H0 Hn Hk. apply (H y k); auto.
  - intros H y k _ Hy H0 Hn Hk. apply (H y k); auto.
Qed.

(* a discharged obligation stays discharged under further marking *)
Lemma marked_mono s s' k :
  MarkRel s s' ->
  ((memob k = true -> st (getn s k) <> Clean) /\
   (effb k = true -> ealive (getn s k) = true -> eflag (getn s k) = true)) ->
  ((memob k = true -> st (getn s' k) <> Clean) /\
   (effb k = true -> ealive (getn s' k) = true -> eflag (getn s' k) = true)).
Proof.
  intros M [H1 H2]. split.
  - intros Hm Hc. apply (H1 Hm). apply st_le_clean. rewrite <- Hc. apply M.
  - intros He Ha. apply (mr_eflag p _ _ M k). apply H2; auto.
    destruct (mr_core p _ _ M k) as (_&_&_&_&_&_&_&_&Hal&_). congruence.
Qed.

(* marking never lowers a state, so an obligation that did not exist before and exists now
   was created by the marking itself; when nothing changed at [y] nothing new is owed *)
Lemma ClosedX_step E s0 s s' :
  MarkRel s s' ->
  ClosedX E s0 s ->
  (forall y k, ~ E y k -> memob y = true -> st (getn s0 y) = Clean ->
               st (getn s y) = Clean -> st (getn s' y) <> Clean -> In k (subs (getn s' y)) ->
               (memob k = true -> st (getn s' k) <> Clean) /\
               (effb k = true -> ealive (getn s' k) = true -> eflag (getn s' k) = true)) ->
  ClosedX E s0 s'.
Proof.
  intros M C New y k HE Hy H0 Hn Hk.
  destruct (nstate_eqb (st (getn s y)) Clean) eqn:Ec.
  - apply nstate_eqb_eq in Ec. apply (New y k); auto.
  - apply nstate_eqb_neq in Ec. apply (marked_mono s s' k M). apply (C y k); auto.
    destruct (mr_core p _ _ M y) as (_&Hs&_). congruence.
Qed.

(* ---------------------------------------------------------------- mark_check *)
Definition MarkedAt (s : state) (k : nat) : Prop :=
  (memob k = true -> st (getn s k) <> Clean) /\
  (effb k = true -> ealive (getn s k) = true -> eflag (getn s k) = true).

Lemma ClosedX_weaken (E E' : nat -> nat -> Prop) s0 s :
  (forall y k, E y k -> E' y k) -> ClosedX E s0 s -> ClosedX E' s0 s.
Proof. intros H C y k HE. apply C. intros HE'. apply HE. auto. Qed.

Lemma eff_notify_other i s j : j <> i -> getn (eff_notify i s) j = getn s j.
Proof.
  intros Hn. unfold eff_notify. destruct (ealive _); auto.
  destruct (ereg _).
  - rewrite getn_enqueue, !getn_updn_other; auto.
  - rewrite getn_updn_other; auto.
Qed.

Lemma eff_mark_dirty_other i s j : j <> i -> getn (eff_mark_dirty i s) j = getn s j.
Proof.
  intros Hn. unfold eff_mark_dirty. destruct (ealive _); auto.
  rewrite eff_notify_other, getn_updn_other; auto.
Qed.

Lemma memob_range s i : WF s -> memob i = true -> i < nlen s.
Proof.
  intros W Hm. rewrite (wf_len p s W).
  destruct (Nat.lt_ge_cases i (length p)); auto.
  unfold memob, decl_of in Hm. rewrite nth_overflow in Hm by auto. discriminate.
Qed.

Lemma effb_range s i : WF s -> effb i = true -> i < nlen s.
Proof.
  intros W Hm. rewrite (wf_len p s W).
  destruct (Nat.lt_ge_cases i (length p)); auto.
  unfold effb, decl_of in Hm. rewrite nth_overflow in Hm by auto. discriminate.
Qed.

(* the fold over the subscribers of a node [i] whose state has just been raised *)
Lemma mark_subs_fold (g : nat -> state -> state) i E s0 s1 :
  (forall x E' a, WF a -> MarkRel s0 a -> ClosedX E' s0 a -> i < x ->
        MarkRel a (g x a) /\ ClosedX E' s0 (g x a) /\ MarkedAt (g x a) x) ->
  WF s1 -> MarkRel s0 s1 ->
  ClosedX (fun y k => E y k \/ (y = i /\ In k (subs (getn s1 i)))) s0 s1 ->
  let s' := fold_left (fun a k => g k a) (subs (getn s1 i)) s1 in
  MarkRel s1 s' /\ ClosedX E s0 s'.
Proof.
  intros Hg W1 M01 C1.
  set (l := subs (getn s1 i)).
  pose (P := fun (rest : list nat) (a : state) =>
    MarkRel s1 a /\
    ClosedX (fun y k => E y k \/ (y = i /\ In k rest)) s0 a /\
    (forall k, In k rest -> In k l)).
  assert (HP : P [] (fold_left (fun a k => g k a) l s1)).
  { apply (fold_left_inv (fun a k => g k a) P).
    - intros x rest a (Ma & Ca & Hsub).
      assert (Wa : WF a) by (eapply MarkRel_WF; eauto).
      assert (Hx : In x l) by (apply Hsub; left; auto).
      assert (Hix : i < x) by (apply (wf_sub_gt p s1 i x W1 Hx)).
      assert (M0a : MarkRel s0 a) by (eapply MarkRel_trans; eauto).
      destruct (Hg x (fun y k => E y k \/ (y = i /\ In k (x :: rest))) a Wa M0a Ca Hix)
        as (Mx & Cx & Mkx).
      split; [eapply MarkRel_trans; eauto|]. split.
      + intros y k HE Hy H0 Hn Hk.
        destruct (Nat.eq_dec y i) as [->|Hyi]; [destruct (Nat.eq_dec k x) as [->|Hkx]|].
        * exact Mkx.
        * apply (Cx i k); auto. intros [HEy|[_ [Hk'|Hk']]]; [apply HE; auto|congruence|apply HE; auto].
        * apply (Cx y k); auto. intros [HEy|[Hy' _]]; [apply HE; auto|congruence].
      + intros k Hk. apply Hsub; right; auto.
    - split; [apply MarkRel_refl|]. split; auto. }
  destruct HP as (Ma & Ca & _). split; auto.
  eapply ClosedX_weaken; [|exact Ca]. cbn. intros y k [H|[_ []]]; auto.
Qed.

Lemma mark_check_spec f : forall i E s0 s,
  WF s -> MarkRel s0 s -> ClosedX E s0 s -> length p - i < f ->
  let s' := mark_check p f i s in
  MarkRel s s' /\ ClosedX E s0 s' /\ MarkedAt s' i.
Proof.
  induction f as [|f IH]; intros i E s0 s W M0 C Hf; [lia|].
  cbn [mark_check]. destruct (decl_of p i) eqn:Hd.
  - (* signal *) split; [apply MarkRel_refl|]. split; auto.
    split; unfold GraphInvariant.memob, GraphInvariant.effb; rewrite Hd; discriminate.
  - (* memo *)
    assert (Hm : memob i = true) by (unfold GraphInvariant.memob; rewrite Hd; auto).
    assert (Hi : i < nlen s) by (eapply memob_range; eauto).
    set (s1 := if nstate_eqb (st (getn s i)) Dirty then s else updn i (fun n => set_st n Check) s).
    assert (M1 : MarkRel s s1).
    { unfold s1. destruct (nstate_eqb _ Dirty) eqn:Ed; [apply MarkRel_refl|].
      apply nstate_eqb_neq in Ed.
      apply updn_MarkRel; cbv zeta; intros; try congruence; nsimpl; try core_tac; unfold bool_le; auto.
      destruct (st (getn s i)); try exact I. congruence. }
    assert (Hi1 : st (getn s1 i) <> Clean).
    { unfold s1. destruct (nstate_eqb _ Dirty) eqn:Ed.
      - apply nstate_eqb_eq in Ed. congruence.
      - rewrite getn_updn_same; auto. nsimpl. discriminate. }
    assert (Hoth : forall y, y <> i -> getn s1 y = getn s y).
    { intros y Hy. unfold s1. destruct (nstate_eqb _ _); auto. apply getn_updn_other; auto. }
    assert (W1 : WF s1) by (eapply MarkRel_WF; eauto).
    assert (M01 : MarkRel s0 s1) by (eapply MarkRel_trans; eauto).
    destruct (mark_subs_fold (fun k a => mark_check p f k a) i E s0 s1) as (Mf & Cf); auto.
    + intros x E' a Wa Ma Ca Hix. apply IH; auto.
      assert (Hil : i < length p) by (rewrite <- (wf_len p s W); exact Hi). lia.
    + apply (ClosedX_step _ s0 s s1); auto.
      * eapply ClosedX_weaken; [|exact C]. auto.
      * intros y k HE Hy H0 Hc Hn Hk. exfalso.
        destruct (Nat.eq_dec y i) as [->|Hyi].
        -- apply HE. right; auto.
        -- rewrite Hoth in Hn; auto.
    + split; [eapply MarkRel_trans; eauto|]. split; auto.
      split; [|unfold GraphInvariant.effb; rewrite Hd; discriminate].
      intros _ Hc. apply Hi1. apply st_le_clean. rewrite <- Hc. apply Mf.
  - (* derived *) split; [apply MarkRel_refl|]. split; auto.
    split; unfold GraphInvariant.memob, GraphInvariant.effb; rewrite Hd; discriminate.
  - (* effect *)
    assert (He : effb i = true) by (unfold GraphInvariant.effb; rewrite Hd; auto).
    assert (Mn := eff_notify_MarkRel i s He).
    split; auto. split.
    + apply (ClosedX_step _ s0 s _); auto.
      intros y k0 HE Hy H0 Hc Hn Hk. exfalso. apply Hn.
      rewrite eff_notify_other; auto. intros ->. unfold GraphInvariant.memob in Hy. rewrite Hd in Hy. discriminate.
    + split; [unfold GraphInvariant.memob; rewrite Hd; discriminate|].
      intros _ Ha. apply eff_notify_flag.
      * destruct (mr_core p _ _ Mn i) as (_&_&_&_&_&_&_&_&Hal&_). congruence.
      * eapply effb_range; eauto.
Qed.

(* ---------------------------------------------------------------- mark_dirty *)
Definition DirtyAt (s : state) (k : nat) : Prop :=
  (memob k = true -> st (getn s k) = Dirty) /\
  (effb k = true -> ealive (getn s k) = true ->
   eflag (getn s k) = true /\ edirty (getn s k) = true).

Lemma mark_dirty_spec i E s0 s :
  WF s -> MarkRel s0 s -> ClosedX E s0 s ->
  let s' := mark_dirty p i s in
  MarkRel s s' /\ ClosedX E s0 s' /\ DirtyAt s' i.
Proof.
  intros W M0 C. unfold mark_dirty. destruct (decl_of p i) eqn:Hd.
  - split; [apply MarkRel_refl|]. split; auto.
    split; unfold GraphInvariant.memob, GraphInvariant.effb; rewrite Hd; discriminate.
  - assert (Hm : memob i = true) by (unfold GraphInvariant.memob; rewrite Hd; auto).
    assert (Hi : i < nlen s) by (eapply memob_range; eauto).
    set (s1 := updn i (fun n => set_st n Dirty) s).
    assert (M1 : MarkRel s s1).
    { apply updn_MarkRel; cbv zeta; intros; try congruence; nsimpl; try core_tac; unfold bool_le; auto.
      destruct (st (getn s i)); exact I. }
    assert (Hi1 : st (getn s1 i) = Dirty) by (unfold s1; rewrite getn_updn_same; auto).
    assert (W1 : WF s1) by (eapply MarkRel_WF; eauto).
    assert (M01 : MarkRel s0 s1) by (eapply MarkRel_trans; eauto).
    destruct (mark_subs_fold (fun k a => mark_check p (mfuel p) k a) i E s0 s1) as (Mf & Cf); auto.
    + intros x E' a Wa Ma Ca Hix. apply mark_check_spec; auto. unfold mfuel. lia.
    + apply (ClosedX_step _ s0 s s1); auto.
      * eapply ClosedX_weaken; [|exact C]. auto.
      * intros y k HE Hy H0 Hc Hn Hk. exfalso.
        destruct (Nat.eq_dec y i) as [->|Hyi].
        -- apply HE. right; auto.
        -- unfold s1 in Hn. rewrite getn_updn_other in Hn; auto.
    + split; [eapply MarkRel_trans; eauto|]. split; auto.
      split; [|unfold GraphInvariant.effb; rewrite Hd; discriminate].
      intros _. apply st_le_dirty. rewrite <- Hi1. apply Mf.
  - split; [apply MarkRel_refl|]. split; auto.
    split; unfold GraphInvariant.memob, GraphInvariant.effb; rewrite Hd; discriminate.
  - assert (He : effb i = true) by (unfold GraphInvariant.effb; rewrite Hd; auto).
    assert (Mn := eff_mark_dirty_MarkRel i s He).
    split; auto. split.
    + apply (ClosedX_step _ s0 s _); auto.
      intros y k0 HE Hy H0 Hc Hn Hk. exfalso. apply Hn.
      rewrite eff_mark_dirty_other; auto. intros ->. unfold GraphInvariant.memob in Hy. rewrite Hd in Hy. discriminate.
    + split; [unfold GraphInvariant.memob; rewrite Hd; discriminate|].
      intros _ Ha. apply eff_mark_dirty_flags; auto.
      * destruct (mr_core p _ _ Mn i) as (_&_&_&_&_&_&_&_&Hal&_). congruence.
      * eapply effb_range; eauto.
Qed.

(* a Dirty mark stays under further marking *)
Lemma DirtyAt_mono s s' k : MarkRel s s' -> DirtyAt s k -> DirtyAt s' k.
Proof.
  intros M [H1 H2]. split.
  - intros Hm. apply st_le_dirty. rewrite <- (H1 Hm). apply M.
  - intros He Ha.
    assert (Ha0 : ealive (getn s k) = true).
    { destruct (mr_core p _ _ M k) as (_&_&_&_&_&_&_&_&Hal&_). congruence. }
    destruct (H2 He Ha0). split; [apply (mr_eflag p _ _ M k)|apply (mr_edirty p _ _ M k)]; auto.
Qed.

(* marking a list of subscribers dirty, in order, all but those [skip] excludes *)
Lemma mark_dirty_list (skip : nat -> bool) l : forall E s0 s,
  WF s -> MarkRel s0 s -> ClosedX E s0 s ->
  let s' := fold_left (fun a k => if skip k then a else mark_dirty p k a) l s in
  MarkRel s s' /\ ClosedX E s0 s' /\ (forall k, In k l -> skip k = false -> DirtyAt s' k).
Proof.
  induction l as [|x t IH]; intros E s0 s W M0 C; cbn.
  - split; [apply MarkRel_refl|]. split; auto. intros k [].
  - destruct (skip x) eqn:Hs.
    + destruct (IH E s0 s W M0 C) as (M & C' & D). split; auto. split; auto.
      intros k [->|Hk] Hsk; [congruence|auto].
    + destruct (mark_dirty_spec x E s0 s W M0 C) as (M1 & C1 & D1).
      assert (W1 : WF (mark_dirty p x s)) by (eapply MarkRel_WF; eauto).
      destruct (IH E s0 (mark_dirty p x s) W1) as (M & C' & D); auto.
      { eapply MarkRel_trans; eauto. }
      split; [eapply MarkRel_trans; eauto|]. split; auto.
      intros k [->|Hk] Hsk; auto. eapply DirtyAt_mono; eauto.
Qed.

End P.
