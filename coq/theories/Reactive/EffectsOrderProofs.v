(** Effects, part 3: an effect under a paused owner, or whose owner was cleaned up, never
    starts a run; and effects that subscribed to a signal directly are woken in the order in
    which they subscribed. *)
From Coq Require Import List ZArith Bool Arith Lia.
From LV Require Import Reactive.Graph Reactive.Effects Reactive.GraphLemmas Reactive.GraphInvariant
                       Reactive.GraphMarkProofs Reactive.GraphQueueProofs.
Import ListNotations.
Close Scope Z_scope.
Open Scope nat_scope.

Section P.
Variable p : prog.
Variable par : nat -> option nat.                (* any owner tree *)
Variable selw : nat -> bool.
Variable chk : nat -> state -> state * bool.     (* any update_if_necessary *)

(* ---------------------------------------------------------------- paused / disposed: no run *)
(* the only events a poll of a paused or disposed effect can add: "spinning" *)
Definition only_diverge (s s' : state) : Prop :=
  forall ev, In ev (trace s') -> In ev (trace s) \/ ev = EvDiverge.

Lemma only_diverge_refl s : only_diverge s s.
Proof. intros ev H; auto. Qed.
Lemma only_diverge_trans a b c : only_diverge a b -> only_diverge b c -> only_diverge a c.
Proof. intros H1 H2 ev H. destruct (H2 ev H) as [H'|]; auto. Qed.
Lemma only_diverge_same s s' : trace s' = trace s -> only_diverge s s'.
Proof. intros E ev H. rewrite E in H. auto. Qed.

Lemma eff_iter_paused e k b h s :
  decl_of p e = DEff k b h -> epaused (getn s e) = true ->
  trace (eff_iter p chk e s) = trace s /\
  (forall x, epaused (getn (eff_iter p chk e s) x) = epaused (getn s x)).
Proof.
  intros Hd Hp. unfold eff_iter. rewrite Hd, Hp. split; [reflexivity|].
  intros x. apply (updn_field epaused); auto.
Qed.

Lemma poll_loop_paused e k b h : decl_of p e = DEff k b h -> forall f s,
  epaused (getn s e) = true -> only_diverge s (poll_loop p chk f e s).
Proof.
  intros Hd. induction f as [|f IH]; intros s Hp; cbn [poll_loop].
  - intros ev [<-|H]; auto.
  - destruct (negb (ealive (getn s e))); [apply only_diverge_same; reflexivity|].
    set (s1 := updn e (fun n => set_ereg n true) s).
    destruct (eflag (getn s1 e)); [|apply only_diverge_same; reflexivity].
    set (s2 := updn e (fun n => set_eflag n false) s1).
    assert (Hp2 : epaused (getn s2 e) = true).
    { unfold s2, s1. rewrite !(updn_field epaused); auto. }
    destruct (eff_iter_paused e k b h s2 Hd Hp2) as (Ht & Hpe).
    eapply only_diverge_trans; [|apply IH; rewrite Hpe; exact Hp2].
    apply only_diverge_same. rewrite Ht. reflexivity.
Qed.

(* [paused_never_runs]: polling the task of an effect whose owner is paused emits no
   body-start event, whatever the notification and dirty flags are *)
Theorem paused_never_runs e s :
  epaused (getn s e) = true -> only_diverge s (poll_task p chk e s).
Proof.
  intros Hp. unfold poll_task. destruct (decl_of p e) as [| | |k b h] eqn:Hd; try apply only_diverge_refl.
  destruct (_ || _); [apply only_diverge_refl|].
  eapply only_diverge_trans; [|apply (poll_loop_paused e k b h Hd); rewrite (updn_field epaused); auto].
  apply only_diverge_same. reflexivity.
Qed.

(* [disposed_never_runs]: once the EffectInner is dropped the task ends at its next poll without
   running anything, and is never polled into a run again *)
Theorem disposed_never_runs e s :
  ealive (getn s e) = false -> trace (poll_task p chk e s) = trace s.
Proof.
  intros Ha. unfold poll_task. destruct (decl_of p e); auto.
  destruct (_ || _); auto.
  unfold POLL_FUEL. cbn [poll_loop]. rewrite (updn_field ealive) by auto. rewrite Ha. reflexivity.
Qed.

(* the same for what the executor does with a task it took from the queue ([poll_sched] only
   reorders the run queue afterwards) *)
Lemma canon_wakes_trace i n0 s : trace (canon_wakes selw i n0 s) = trace s.
Proof. unfold canon_wakes. destruct (selw i); reflexivity. Qed.

Theorem paused_never_runs_sched e s :
  epaused (getn s e) = true -> only_diverge s (poll_sched p selw chk e s).
Proof.
  intros Hp. unfold poll_sched. eapply only_diverge_trans; [apply paused_never_runs; exact Hp|].
  apply only_diverge_same. apply canon_wakes_trace.
Qed.

Theorem disposed_never_runs_sched e s :
  ealive (getn s e) = false -> trace (poll_sched p selw chk e s) = trace s.
Proof.
  intros Ha. unfold poll_sched. rewrite canon_wakes_trace. apply disposed_never_runs; auto.
Qed.

(* ---------------------------------------------------------------- the owner tree *)
(* [under o e]: the owner effect e was created under is the owner of o or one of its descendants *)
Inductive under (o : nat) : nat -> Prop :=
| under_self : under o o
| under_step e q : par e = Some q -> is_eff p e = true -> e < length p -> under o q -> under o e.

(* creation order: an owner is created after its parent *)
Definition wf_par : Prop := forall c q, par c = Some q -> q < c.

Lemma in_children o c :
  In c (children p par o) <-> c < length p /\ is_eff p c = true /\ par c = Some o.
Proof.
  unfold children. rewrite filter_In, in_seq, andb_true_iff. split.
  - intros (Hc & He & Hp). split; [lia|]. split; auto.
    destruct (par c) as [q|]; [|discriminate]. apply Nat.eqb_eq in Hp. subst; auto.
  - intros (Hc & He & Hp). split; [lia|]. split; auto. rewrite Hp. apply Nat.eqb_refl.
Qed.

Lemma subtree_self f o : In o (subtree p par f o).
Proof. destruct f; cbn; auto. Qed.

Lemma subtree_child f : forall o q c,
  In q (subtree p par f o) -> In c (children p par q) -> In c (subtree p par (S f) o).
Proof.
  induction f as [|f IH]; intros o q c Hq Hc.
  - destruct Hq as [<-|[]]. cbn [subtree]. right. apply in_flat_map. exists c. split; auto. apply (subtree_self 0).
  - cbn [subtree] in Hq. destruct Hq as [<-|Hq].
    + change (In c (o :: flat_map (subtree p par (S f)) (children p par o))). right.
      apply in_flat_map. exists c. split; auto. apply subtree_self.
    + apply in_flat_map in Hq as (k & Hk & Hq).
      change (In c (o :: flat_map (subtree p par (S f)) (children p par o))). right.
      apply in_flat_map. exists k. split; auto. apply (IH k q c); auto.
Qed.

Lemma subtree_mono f : forall o e, In e (subtree p par f o) -> In e (subtree p par (S f) o).
Proof.
  induction f as [|f IH]; intros o e He.
  - destruct He as [<-|[]]. apply subtree_self.
  - cbn [subtree] in He. destruct He as [<-|He]; [apply subtree_self|].
    apply in_flat_map in He as (k & Hk & He).
    change (In e (o :: flat_map (subtree p par (S f)) (children p par o))). right.
    apply in_flat_map. exists k. split; auto.
Qed.

Lemma subtree_mono_le f g o e : f <= g -> In e (subtree p par f o) -> In e (subtree p par g o).
Proof. intros Hle. induction Hle; auto. intros H. apply subtree_mono; auto. Qed.

Lemma under_in_subtree o e : wf_par -> under o e -> o <= e /\ In e (subtree p par (e - o) o).
Proof.
  intros Hwf H. induction H as [|e q Hp He Hl Hu [IH1 IH2]].
  - split; auto. apply subtree_self.
  - pose proof (Hwf e q Hp) as Hq. split; [lia|].
    apply (subtree_mono_le (S (q - o))); [lia|].
    apply (subtree_child (q - o) o q e); auto. apply in_children. auto.
Qed.

(* Owner::pause / Owner::resume on the owner of o reach every effect below it, however deep *)
Lemma under_reached o e : wf_par -> under o e -> e < length p ->
  In e (subtree p par (length p) o).
Proof.
  intros Hwf H Hl. destruct (under_in_subtree o e Hwf H) as [Hle Hin].
  apply (subtree_mono_le (e - o)); [lia|auto].
Qed.

Lemma set_paused_list b l : forall s x,
  epaused (getn (fold_left (fun s e => updn e (fun n => set_epaused n b) s) l s) x) =
  if existsb (Nat.eqb x) l && Nat.ltb x (nlen s) then b else epaused (getn s x).
Proof.
  induction l as [|e t IH]; intros s x; cbn [fold_left existsb]; [reflexivity|].
  rewrite IH, nlen_updn, getn_updn. rewrite (Nat.eqb_sym x e).
  destruct (Nat.eqb_spec e x) as [->|Hx]; cbn [orb andb].
  - destruct (Nat.ltb x (nlen s)) eqn:El.
    + rewrite andb_true_r. destruct (existsb _ t); reflexivity.
    + rewrite andb_false_r. reflexivity.
  - reflexivity.
Qed.

(* [pause_reaches_subtree] / [resume_reaches_subtree]: after Owner::pause (resume) on the owner of
   o, every effect e created under that owner or under any of its descendants is paused (not
   paused), whether or not the owners in between were paused themselves; every other effect
   keeps its flag *)
Theorem set_paused_tree_reaches b o e s : wf_par -> under o e -> e < length p -> e < nlen s ->
  epaused (getn (set_paused_tree p par b o s) e) = b.
Proof.
  intros Hwf Hu Hl Hn. unfold set_paused_tree. rewrite set_paused_list.
  assert (Hin : existsb (Nat.eqb e) (subtree p par (length p) o) = true).
  { apply existsb_exists. exists e. split; [apply under_reached; auto|apply Nat.eqb_refl]. }
  rewrite Hin. apply Nat.ltb_lt in Hn. rewrite Hn. reflexivity.
Qed.

Theorem set_paused_tree_others b o e s : ~ In e (subtree p par (length p) o) ->
  epaused (getn (set_paused_tree p par b o s) e) = epaused (getn s e).
Proof.
  intros Hn. unfold set_paused_tree. rewrite set_paused_list.
  destruct (existsb (Nat.eqb e) (subtree p par (length p) o)) eqn:E; [|reflexivity].
  apply existsb_exists in E as (x & Hx & Ex). apply Nat.eqb_eq in Ex. subst x. contradiction.
Qed.

(* ... and nothing revives it: no operation of the model sets [ealive] back (see [dispose],
   [init_node]); stated for the marking functions, which are the only ones that touch a dead
   effect at all *)
Lemma dead_effect_ignores_marks e s :
  ealive (getn s e) = false -> eff_mark_dirty e s = s /\ eff_notify e s = s.
Proof. intros Ha. unfold eff_mark_dirty, eff_notify. rewrite Ha. auto. Qed.

(* ---------------------------------------------------------------- wake order *)
(* an effect subscriber wakes its task iff it is alive, its waker is registered and the task is
   not already queued *)
Definition wakes (s : state) (k : nat) : bool :=
  ealive (getn s k) && ereg (getn s k) && negb (existsb (Nat.eqb k) (ready s)).

Lemma eff_mark_dirty_ready k s :
  ready (eff_mark_dirty k s) = if wakes s k then ready s ++ [k] else ready s.
Proof.
  unfold eff_mark_dirty, wakes. destruct (ealive (getn s k)) eqn:Ha; cbn [andb]; auto.
  unfold eff_notify. rewrite (updn_field ealive) by auto. rewrite Ha.
  rewrite !(updn_field ereg) by auto.
  destruct (ereg (getn s k)) eqn:Er; cbn [andb]; [|rewrite !ready_updn; reflexivity].
  unfold enqueue. rewrite !ready_updn. destruct (existsb (Nat.eqb k) (ready s)); reflexivity.
Qed.

Lemma eff_mark_dirty_wakes_other k s x : x <> k ->
  wakes (eff_mark_dirty k s) x = wakes s x.
Proof.
  intros Hx. unfold wakes. rewrite eff_mark_dirty_other by auto.
  rewrite eff_mark_dirty_ready. destruct (wakes s k); auto.
  rewrite existsb_app. cbn. destruct (Nat.eqb_spec x k); [congruence|].
  rewrite !orb_false_r. reflexivity.
Qed.

(* a signal all of whose subscribers are effects: the run queue grows by exactly the
   subscribers that wake, in subscriber-list order *)
Lemma wake_order_list l : forall s,
  NoDup l -> (forall k, In k l -> effb p k = true) ->
  ready (fold_left (fun a k => mark_dirty p k a) l s) = ready s ++ filter (wakes s) l.
Proof.
  induction l as [|k t IH]; intros s Hnd Heff; cbn [fold_left filter].
  - rewrite app_nil_r. reflexivity.
  - inversion Hnd as [|? ? Hk Ht]; subst.
    assert (Hmk : mark_dirty p k s = eff_mark_dirty k s).
    { unfold mark_dirty. pose proof (Heff k (or_introl eq_refl)) as He.
      unfold effb in He. destruct (decl_of p k); try discriminate. reflexivity. }
    rewrite Hmk, IH; auto; [|intros x Hx; apply Heff; right; auto].
    rewrite eff_mark_dirty_ready.
    assert (Hf : filter (wakes (eff_mark_dirty k s)) t = filter (wakes s) t).
    { apply filter_ext_in. intros x Hx. apply eff_mark_dirty_wakes_other. intros ->. contradiction. }
    rewrite Hf. destruct (wakes s k); [rewrite <- app_assoc|]; reflexivity.
Qed.

(* [wake_order_is_subscription_order], first half: the tasks woken by a write are appended to the
   run queue in the order of the signal's subscriber list *)
Theorem wake_order_is_subscriber_order j s :
  NoDup (subs (getn s j)) -> (forall k, In k (subs (getn s j)) -> effb p k = true) ->
  ready (notify_sig p j s) = ready s ++ filter (wakes s) (subs (getn s j)).
Proof.
  intros Hnd Heff. unfold notify_sig.
  assert (Hsub : subs (getn (add_cause j s) j) = subs (getn s j)).
  { unfold add_cause, getn. cbn [nodes set_nodes].
    set (f := fun n : node => if tracks n j then set_since n (j :: since n) else n).
    change dnode with (f dnode) at 1. rewrite map_nth. unfold f. destruct (tracks _ j); reflexivity. }
  rewrite Hsub, wake_order_list; auto.
  assert (Hw : forall k, wakes (add_cause j s) k = wakes s k).
  { intros k. unfold wakes, add_cause, getn. cbn [nodes set_nodes ready].
    set (f := fun n : node => if tracks n j then set_since n (j :: since n) else n).
    change dnode with (f dnode) at 1 2. rewrite !map_nth. unfold f. destruct (tracks _ j); reflexivity. }
  f_equal. apply filter_ext. exact Hw.
Qed.

(* second half: the subscriber list IS the order of subscription: a new subscriber goes to the
   end, an existing one keeps its place, removing one keeps the order of the others *)
Theorem subscribe_appends l x :
  subscribe l x = l \/ (~ In x l /\ subscribe l x = l ++ [x]).
Proof.
  unfold subscribe. destruct (existsb (Nat.eqb x) l) eqn:E; auto.
  right. split; auto. intros Hin.
  assert (existsb (Nat.eqb x) l = true); [|congruence].
  apply existsb_exists. exists x. split; auto. apply Nat.eqb_refl.
Qed.

Theorem unsubscribe_keeps_order l x : exists l1 l2,
  (l = l1 ++ l2 /\ unsubscribe l x = l1 ++ l2 /\ ~ In x l) \/
  (l = l1 ++ x :: l2 /\ unsubscribe l x = l1 ++ l2 /\ ~ In x l1).
Proof.
  induction l as [|h t IH]; cbn.
  - exists [], []. left. auto.
  - destruct (Nat.eqb_spec h x) as [->|Hn].
    + exists [], t. right. auto.
    + destruct IH as (l1 & l2 & [(E1 & E2 & Hx)|(E1 & E2 & Hx)]).
      * exists (h :: l1), l2. left. cbn. split; [congruence|]. split; [congruence|].
        intros [H|H]; auto. 
      * exists (h :: l1), l2. right. cbn. split; [congruence|]. split; [congruence|].
        intros [H|H]; auto.
Qed.

End P.
