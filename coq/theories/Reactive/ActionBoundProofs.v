(** C17, a consequence of [version_counts_completions]: the version never runs ahead of the
    dispatches — after ANY history (idle or not, any completion order, any aborts) it is at most
    the number of dispatches made so far, and each counted completion belongs to a different
    dispatch that has a recorded result. *)
From Coq Require Import List Arith Lia.
From LV Require Import Reactive.Action Reactive.ActionProofs.
Import ListNotations.

Theorem version_le_dispatches : forall evs,
  version (run true evs) <= length (summary evs).
Proof.
  intros evs. destruct (version_counts_completions evs) as (Hv & Hnd & Hlog & _).
  cbv zeta in Hv, Hnd, Hlog. rewrite Hv.
  rewrite <- (seq_length (length (summary evs)) 0).
  apply NoDup_incl_length; [exact Hnd|].
  intros k Hk. apply wkeys_In in Hk as (r & Hin).
  destruct (Hlog k r Hin) as (h & Hn).
  apply in_seq. split; [lia|]. cbn.
  apply nth_error_Some. rewrite Hn. discriminate.
Qed.
