(** Effects, part 2: the executor.  Polling any ready task, draining the queue, pausing /
    resuming / disposing, creating the effects and every operation of a history preserve
    [Inv0]; hence every reachable state satisfies it, for every schedule. *)
From Coq Require Import List ZArith Bool Arith Lia.
From LV Require Import Reactive.Graph Reactive.Effects Reactive.GraphLemmas Reactive.GraphInvariant
                       Reactive.GraphMarkProofs Reactive.GraphMarkOrigin Reactive.GraphQueueProofs
                       Reactive.GraphPullBase Reactive.GraphPullSteps
                       Reactive.GraphPullDefs Reactive.GraphPullEval Reactive.GraphPullRead
                       Reactive.GraphPullMemo Reactive.GraphPullProofs Reactive.GraphProofs
                       Reactive.EffectsProofs.
Import ListNotations.
Close Scope Z_scope.
Open Scope nat_scope.

Section P.
Variable p : prog.
Variable par : nat -> option nat.
Variable selw : nat -> bool.
Hypothesis wfp : wf_prog p.
Hypothesis nsf : no_self_feed p.
Notation memob := (memob p).
Notation dead := (dead p).
Notation GoneSame := (GoneSame p).
Notation effb := (effb p).
Notation sigb := (sigb p).
Notation Inv := (Inv p).
Notation InvBut := (InvBut p).
Notation Inv0 := (Inv0 p).
Notation Rest := (Rest p).
Notation Lcur := (Lcur p).
Notation Lclean := (Lclean p).
Notation cur := (cur p).
Notation queue_ok := (queue_ok p).
Notation hasrun := (hasrun p).
Notation IterPost := (IterPost p).

Ltac gs :=
  repeat match goal with |- GraphPullDefs.GoneSame _ _ ?x => unfold x end;
  repeat (first [ apply GoneSame_refl
                | apply updn_eff_GoneSame; solve [auto]
                | apply GoneSame_getn; intros; rewrite ?getn_emit, ?getn_enqueue; reflexivity
                | eapply GoneSame_trans; [|apply updn_eff_GoneSame; solve [auto]] ]).

(* an update of effect-only fields of [e]: everybody else is unaffected *)
Lemma Inv0_updn_eff e f s :
  effb e = true ->
  Inv0 s -> (forall n, core_same n (f n)) ->
  Rest (updn e f s) e -> queue_ok (updn e f s) e -> Inv0 (updn e f s).
Proof.
  intros He I Hf R Q. apply (InvBut_close p e (updn e f s)); auto.
  apply InvBut_updn; auto. apply Inv_InvBut; auto.
Qed.

Lemma Rest_eff_fields e k b h s s' :
  decl_of p e = DEff k b h -> Rest s e -> GoneSame s s' ->
  rlog (getn s' e) = rlog (getn s e) -> srcs (getn s' e) = srcs (getn s e) ->
  since (getn s' e) = since (getn s e) ->
  (forall x, cur s' x = cur s x) -> (forall x, st (getn s' x) = st (getn s x)) ->
  (needs_cur p s' e -> needs_cur p s e) ->
  (needs_clean p s' e -> needs_clean p s e) ->
  (will_run p s' e -> will_run p s e) ->
  Rest s' e.
Proof.
  intros Hd (R1&R2&R3&R4&R5) Hgs Hr Hs Hsi Hc Hst N1 N2 N3.
  split; [unfold L1 in *; rewrite Hs, Hr; exact R1|].
  split; [unfold uncached_ok; rewrite Hd; exact Logic.I|].
  split; [|split].
  - intros Hn. apply (Lcur_ext p s s' e Hr Hgs); [intros x v _; apply Hc|auto].
  - intros Hn. apply (Lclean_ext p s s' e Hr Hgs); [|auto]. intros x v _ _ Hx. rewrite Hst; auto.
  - intros Hn. rewrite Hsi. auto.
Qed.

(* ---------------------------------------------------------------- the task loop *)
Lemma poll_loop_spec e k b h : decl_of p e = DEff k b h ->
  forall f s, Inv0 s -> epoll (getn s e) = true -> edone (getn s e) = false ->
  (ealive (getn s e) = true -> IterPost s e) ->
  let s' := poll_loop p (eff_check p) f e s in
  Inv0 s' /\
  (halted s' = true \/
   (halted s' = halted s /\
    forall x, epoll (getn s' x) = if Nat.eqb x e then false else epoll (getn s x))).
Proof.
  intros Hde. assert (He : effb e = true) by (unfold GraphInvariant.effb; rewrite Hde; auto).
  assert (Hel : e < length p) by (apply effb_lt; auto).
  induction f as [|f IH]; intros s I Hp Hdn HIP; cbv zeta; cbn [poll_loop].
  - (* fuel: the case halts *)
    split; [|left; reflexivity].
    apply (Inv_views p [] 0 s); auto; try apply I.
    + eapply WF_getn_eq; [| |apply I]; auto.
    + intros i. apply nview_eq_refl.
  - assert (Hei : e < nlen s) by (rewrite (wf_len p s (inv_wf _ _ _ _ I)); auto).
    destruct (inv_rest _ _ _ _ I e (fun x => x)) as (R1&R2&R3&R4&R5).
    pose proof (inv_queue _ _ _ _ I e) as Q. unfold GraphInvariant.queue_ok, queue_ok_n in Q. rewrite Hde in Q.
    destruct (ealive (getn s e)) eqn:Ha; cbn [negb].
    + (* alive *)
      destruct (HIP eq_refl) as [IP1 IP2].
      destruct (Q eq_refl) as (Q1 & _).
      set (s1 := updn e (fun n => set_ereg n true) s).
      assert (E1 : getn s1 e = set_ereg (getn s e) true) by (apply getn_updn_same; auto).
      assert (Hc1 : forall x, cur s1 x = cur s x).
      { intros x. apply cur_view; unfold s1; [apply (updn_field sval)|apply (updn_field cache)]; auto. }
      assert (Hs1 : forall x, st (getn s1 x) = st (getn s x)) by (intros x; unfold s1; apply (updn_field st); auto).
      assert (I1 : Inv0 s1).
      { unfold s1. apply Inv0_updn_eff; auto; fold s1.
        - intros n. unfold core_same; nsimpl; intuition.
        - apply (Rest_eff_fields e k b h s s1 Hde (conj R1 (conj R2 (conj R3 (conj R4 R5))))).
          + gs.
          + rewrite E1; reflexivity.
          + rewrite E1; reflexivity.
          + rewrite E1; reflexivity.
          + exact Hc1.
          + exact Hs1.
          + unfold GraphInvariant.needs_cur. rewrite Hde, E1. cbn [needs_cur_n hasrun_n]. nsimpl. auto.
          + unfold GraphInvariant.needs_clean. rewrite Hde, E1. cbn [needs_clean_n hasrun_n]. nsimpl. auto.
          + unfold GraphInvariant.will_run. rewrite Hde, E1. cbn [will_run_n hasrun_n]. nsimpl. auto.
        - unfold GraphInvariant.queue_ok, queue_ok_n. rewrite Hde, E1. nsimpl. intros _.
          split; auto. intros Hpf. congruence. }
      fold s1. destruct (eflag (getn s1 e)) eqn:Ef.
      * (* a notification: one iteration, then again *)
        assert (Ha1 : ealive (getn s1 e) = true) by (rewrite E1; exact Ha).
        assert (Hp1 : epoll (getn s1 e) = true) by (rewrite E1; exact Hp).
        assert (IP : IterPost s1 e).
        { unfold EffectsProofs.IterPost, EffectsProofs.hasrun in *. rewrite E1. nsimpl. split; auto.
          intros H1 H2 H3 H4. apply (Lclean_ext p s s1 e); [rewrite E1; reflexivity|gs| |auto].
          intros x v _ _ Hx. rewrite Hs1; auto. }
        destruct (eff_iter_spec p wfp e k b h s1 nsf Hde I1 Ha1 Hp1 IP) as (I2 & IP2' & S2).
        set (s2 := eff_iter p (eff_check p) e (updn e (fun n => set_eflag n false) s1)) in *.
        destruct (IH s2) as (I3 & H3); auto.
        -- rewrite (static_epoll s1 _ e S2). exact Hp1.
        -- destruct S2 as [S2 _]. destruct (S2 e) as (_&_&->&_). rewrite E1. exact Hdn.
        -- split; auto. destruct H3 as [H3|[H3 H3']]; auto. right.
           destruct S2 as [S2 S2h]. split; [rewrite H3, S2h; reflexivity|].
           intros x. rewrite H3'. destruct (Nat.eqb_spec x e); auto.
           destruct (S2 x) as (_&_&_&->). unfold s1. rewrite (updn_field epoll); auto.
      * (* Pending: the task goes back to sleep with its waker registered *)
        set (s2 := updn e (fun n => set_epoll n false) s1).
        assert (E2 : getn s2 e = set_epoll (set_ereg (getn s e) true) false).
        { unfold s2. rewrite getn_updn_same by (unfold s1; rewrite nlen_updn; auto). rewrite E1. reflexivity. }
        rewrite E1 in Ef. nsimpl.
        assert (Hc2 : forall x, cur s2 x = cur s x).
        { intros x. rewrite <- Hc1. apply cur_view; unfold s2; [apply (updn_field sval)|apply (updn_field cache)]; auto. }
        assert (Hs2 : forall x, st (getn s2 x) = st (getn s x)).
        { intros x. rewrite <- Hs1. unfold s2. apply (updn_field st); auto. }
        split; [|right; split; [reflexivity|]; intros x; fold s2; destruct (Nat.eqb_spec x e) as [->|Hx];
                 [rewrite E2; reflexivity|unfold s2, s1; rewrite !getn_updn_other; auto]].
        apply Inv0_updn_eff; auto.
        -- intros n. unfold core_same; nsimpl; intuition.
        -- fold s2.
           unfold GraphInvariant.Rest, L1, uncached_ok, GraphInvariant.needs_cur, GraphInvariant.needs_clean,
             GraphInvariant.will_run. rewrite Hde, E2. cbn [needs_cur_n needs_clean_n will_run_n hasrun_n]. nsimpl.
           split; [exact R1|]. split; [exact Logic.I|]. split; [|split].
           ++ intros Hn. apply (Lcur_ext p s s2 e); [rewrite E2; reflexivity|gs|intros x v _; apply Hc2|].
              apply R3. unfold GraphInvariant.needs_cur. rewrite Hde. exact Hn.
           ++ intros (_ & Hh & Hd0 & Hf0 & Hm0 & _).
              apply (Lclean_ext p s s2 e); [rewrite E2; reflexivity|gs| |].
              ** intros x v _ _ Hx. rewrite Hs2; auto.
              ** apply IP2; auto. unfold EffectsProofs.hasrun. rewrite Hde. exact Hh.
           ++ intros Hw. apply R5. unfold GraphInvariant.will_run. rewrite Hde. exact Hw.
        -- fold s2. unfold GraphInvariant.queue_ok, queue_ok_n. rewrite Hde, E2. nsimpl. intros _.
           split; [exact Q1|]. intros _. split; [exact Hdn|]. split; [discriminate|].
           split; [intros Hf; congruence|].
           intros Hh. apply IP1. unfold EffectsProofs.hasrun. rewrite Hde. exact Hh.
    + (* the effect was disposed: the stream ends *)
      split; [|right; split; [reflexivity|]; intros x; destruct (Nat.eqb_spec x e) as [->|Hx];
               [rewrite getn_updn_same by auto; reflexivity|rewrite getn_updn_other; auto]].
      apply Inv0_updn_eff; auto.
      * intros n. unfold core_same; nsimpl; intuition.
      * set (s2 := updn e (fun n => set_epoll (set_edone n true) false) s).
        assert (E2 : getn s2 e = set_epoll (set_edone (getn s e) true) false) by (apply getn_updn_same; auto).
        unfold GraphInvariant.Rest, L1, uncached_ok, GraphInvariant.needs_cur, GraphInvariant.needs_clean,
          GraphInvariant.will_run. rewrite Hde, E2. cbn [needs_cur_n needs_clean_n will_run_n]. nsimpl.
        split; [exact R1|]. split; [exact Logic.I|]. rewrite Ha.
        split; [intros (Hx&_); discriminate|]. split; [intros (Hx&_); discriminate|intros (Hx&_); discriminate].
      * unfold GraphInvariant.queue_ok, queue_ok_n. rewrite Hde.
        rewrite getn_updn_same by auto. nsimpl. rewrite Ha. discriminate.
Qed.

(* ---------------------------------------------------------------- a task is taken from the queue *)
Lemma Inv0_same_nodes s s' :
  Inv0 s -> nlen s' = nlen s -> (forall i, getn s' i = getn s i) ->
  err s' = err s -> nocause s' = nocause s ->
  (forall e, queue_ok s' e) -> Inv0 s'.
Proof.
  intros I Hl Hg He Hn Q. split.
  - eapply WF_getn_eq; [exact Hl|exact Hg|apply I].
  - rewrite He. apply I.
  - rewrite Hn. apply I.
  - intros i Hi. apply (Rest_ext p s s' i).
    + rewrite Hg. apply nview_eq_refl.
    + apply GoneSame_getn; auto.
    + intros x v _. apply cur_view; rewrite Hg; reflexivity.
    + intros x v _ _ Hc. rewrite Hg. exact Hc.
    + apply I; auto.
  - exact Q.
  - intros k [].
Qed.

(* at operation boundaries polls leave every [epoll] flag as it was, unless the case halts *)
Definition EpollSame (s s' : state) : Prop :=
  halted s' = true \/ (halted s' = halted s /\ forall x, epoll (getn s' x) = epoll (getn s x)).

Lemma EpollSame_refl s : EpollSame s s.
Proof. right. auto. Qed.
Lemma EpollSame_trans a b c : EpollSame a b -> (halted b = true -> halted c = true) ->
  EpollSame b c -> EpollSame a c.
Proof.
  intros [H1|[H1 H1']] Hh [H2|[H2 H2']]; try (left; auto; fail).
  right. split; [congruence|]. intros x. rewrite H2', H1'. reflexivity.
Qed.

Lemma poll_popped e s l1 l2 ev :
  Inv0 s -> ready s = l1 ++ e :: l2 ->
  let s' := poll_task p (eff_check p) e (emit ev (set_ready s (l1 ++ l2))) in
  Inv0 s' /\ EpollSame s s'.
Proof.
  intros I Hr. cbv zeta. set (sp := emit ev (set_ready s (l1 ++ l2))).
  assert (Hg : forall i, getn sp i = getn s i) by reflexivity.
  assert (Qoth : forall x, x <> e -> queue_ok sp x).
  { intros x Hx. pose proof (inv_queue _ _ _ _ I x) as Q. unfold GraphInvariant.queue_ok, queue_ok_n in *.
    rewrite Hg. destruct (decl_of p x); auto. intros Ha. destruct (Q Ha) as (Q1 & Q2). split; auto.
    intros Hp. destruct (Q2 Hp) as (A & B & C). split; auto. split; auto.
    intros Hreg. specialize (B Hreg). rewrite Hr in B. cbn [ready sp emit set_ready set_trace].
    apply in_app_iff in B. apply in_app_iff. destruct B as [B|[B|B]]; auto. congruence. }
  pose proof (inv_queue _ _ _ _ I e) as Qe. unfold GraphInvariant.queue_ok, queue_ok_n in Qe.
  unfold poll_task. destruct (decl_of p e) as [| | |k b h] eqn:Hde;
    try (split; [|right; split; [reflexivity|intros; reflexivity]];
         apply (Inv0_same_nodes s sp); auto; intros x; destruct (Nat.eq_dec x e) as [->|Hx]; auto;
         unfold GraphInvariant.queue_ok, queue_ok_n; rewrite Hde; exact Logic.I).
  assert (He : effb e = true) by (unfold GraphInvariant.effb; rewrite Hde; auto).
  assert (Hel : e < length p) by (apply effb_lt; auto).
  assert (Hei : e < nlen s) by (rewrite (wf_len p s (inv_wf _ _ _ _ I)); auto).
  rewrite Hg. destruct (edone (getn s e) || epoll (getn s e)) eqn:Edp.
  - (* finished or not spawned: nothing to poll *)
    split; [|right; split; [reflexivity|intros; reflexivity]].
    apply (Inv0_same_nodes s sp); auto. intros x. destruct (Nat.eq_dec x e) as [->|Hx]; auto.
    unfold GraphInvariant.queue_ok, queue_ok_n. rewrite Hde, Hg. intros Ha. destruct (Qe Ha) as (Q1 & Q2).
    split; auto. intros Hp. destruct (Q2 Hp) as (A & _). rewrite A, Hp in Edp. discriminate.
  - apply orb_false_elim in Edp as [Hdn Hp0].
    set (s0 := updn e (fun n => set_epoll n true) sp).
    assert (E0 : getn s0 e = set_epoll (getn s e) true).
    { unfold s0. rewrite getn_updn_same by exact Hei. rewrite Hg. reflexivity. }
    assert (Hc0 : forall x, cur s0 x = cur s x).
    { intros x. apply cur_view; unfold s0; rewrite ?(updn_field sval), ?(updn_field cache); auto. }
    assert (Hs0 : forall x, st (getn s0 x) = st (getn s x)).
    { intros x. unfold s0. rewrite (updn_field st); auto. }
    destruct (inv_rest _ _ _ _ I e (fun x => x)) as (R1&R2&R3&R4&R5).
    assert (IBp : InvBut e [] 0 sp).
    { split.
      - eapply WF_getn_eq; [| |apply I]; auto.
      - exact (inv_err _ _ _ _ I).
      - exact (inv_nocause _ _ _ _ I).
      - intros i Hi _. apply (Rest_ext p s sp i); [rewrite Hg; apply nview_eq_refl|apply GoneSame_getn; auto| | |apply I; auto].
        + intros x v _. apply cur_view; rewrite Hg; reflexivity.
        + intros x v _ _ Hc. rewrite Hg; auto.
      - intros _. unfold L1. rewrite Hg. exact R1.
      - exact Qoth.
      - intros x []. }
    assert (I0 : Inv0 s0).
    { apply (InvBut_close p e s0).
      - apply InvBut_updn; auto. intros n. unfold core_same; nsimpl; intuition.
      - apply (Rest_eff_fields e k b h s s0 Hde (conj R1 (conj R2 (conj R3 (conj R4 R5))))).
        + gs.
        + rewrite E0; reflexivity.
        + rewrite E0; reflexivity.
        + rewrite E0; reflexivity.
        + exact Hc0.
        + exact Hs0.
        + unfold GraphInvariant.needs_cur. rewrite Hde, E0. cbn [needs_cur_n hasrun_n]. nsimpl. auto.
        + unfold GraphInvariant.needs_clean. rewrite Hde, E0. cbn [needs_clean_n hasrun_n]. nsimpl.
          intros (_&_&_&_&_&Hx). discriminate.
        + unfold GraphInvariant.will_run. rewrite Hde, E0. cbn [will_run_n hasrun_n]. nsimpl. auto.
      - unfold GraphInvariant.queue_ok, queue_ok_n. rewrite Hde, E0. nsimpl. intros Ha.
        destruct (Qe Ha) as (Q1 & _). split; auto. discriminate. }
    destruct (poll_loop_spec e k b h Hde POLL_FUEL s0 I0) as (IL & HL).
    4:{ split; auto. destruct HL as [HL|[HL HL']]; [left; auto|]. right. split; [rewrite HL; reflexivity|].
        intros x. rewrite HL'. destruct (Nat.eqb_spec x e) as [->|Hx]; [rewrite Hp0; reflexivity|].
        unfold s0. rewrite getn_updn_other by auto. apply f_equal. apply Hg. }
    + rewrite E0. reflexivity.
    + rewrite E0. nsimpl. exact Hdn.
    + rewrite E0. nsimpl. intros Ha. destruct (Qe Ha) as (Q1 & Q2). destruct (Q2 Hp0) as (_&_&_&Q5).
      unfold EffectsProofs.IterPost, EffectsProofs.hasrun. rewrite E0, Hde. nsimpl. split; auto.
      intros Hd0 Hf0 Hm0 Hh.
      apply (Lclean_ext p s s0 e); [rewrite E0; reflexivity|gs| |].
      * intros x v _ _ Hx. rewrite Hs0; auto.
      * apply R4. unfold GraphInvariant.needs_clean. rewrite Hde. cbn [needs_clean_n]. auto 10.
Qed.

Lemma remove_nth_split (l : list nat) : forall k, k < length l ->
  exists l1 l2, l = l1 ++ nth k l 0 :: l2 /\ remove_nth k l = l1 ++ l2.
Proof.
  induction l as [|a t IH]; intros [|k] Hk; cbn in *; try lia.
  - exists [], t. auto.
  - destruct (IH k ltac:(lia)) as (l1 & l2 & E1 & E2). exists (a :: l1), l2. cbn. split; congruence.
Qed.

(* the run queue is a set as far as the invariant goes: reordering it changes nothing *)
Lemma in_insert_sorted x y l : In x (insert_sorted y l) <-> x = y \/ In x l.
Proof.
  induction l as [|h t IH]; cbn [insert_sorted].
  - cbn. intuition.
  - destruct (Nat.leb y h); cbn [In]; [intuition|]. rewrite IH. intuition.
Qed.
Lemma in_isort x l : In x (isort l) <-> In x l.
Proof.
  induction l as [|h t IH]; cbn [isort fold_right]; [tauto|].
  fold (isort t). rewrite in_insert_sorted, IH. cbn. intuition.
Qed.
Lemma in_canon_queue x n l : In x (firstn n l ++ isort (skipn n l)) <-> In x l.
Proof.
  rewrite in_app_iff, in_isort. rewrite <- (firstn_skipn n l) at 3. rewrite in_app_iff. tauto.
Qed.

Lemma Inv0_requeue s l :
  Inv0 s -> (forall x, In x l <-> In x (ready s)) -> Inv0 (set_ready s l).
Proof.
  intros I Hl. apply (Inv0_same_nodes s); auto. intros e.
  pose proof (inv_queue _ _ _ _ I e) as Q. unfold GraphInvariant.queue_ok, queue_ok_n in *.
  change (getn (set_ready s l) e) with (getn s e). cbn [ready set_ready].
  destruct (decl_of p e); auto. intros Ha. destruct (Q Ha) as (Q1 & Q2). split; auto.
  intros Hp. destruct (Q2 Hp) as (A & B & C). split; auto. split; auto.
  intros Hr. apply Hl. auto.
Qed.

Lemma canon_wakes_spec i n0 s :
  Inv0 s -> Inv0 (canon_wakes selw i n0 s) /\ EpollSame s (canon_wakes selw i n0 s).
Proof.
  intros I. unfold canon_wakes. destruct (selw i); [|split; [exact I|apply EpollSame_refl]].
  split; [apply Inv0_requeue; auto; intros x; apply in_canon_queue|].
  right. split; [reflexivity|intros; reflexivity].
Qed.

Lemma sched_popped e s l1 l2 ev :
  Inv0 s -> ready s = l1 ++ e :: l2 ->
  let s' := poll_sched p selw (eff_check p) e (emit ev (set_ready s (l1 ++ l2))) in
  Inv0 s' /\ EpollSame s s'.
Proof.
  intros I Hr. cbv zeta. unfold poll_sched.
  destruct (poll_popped e s l1 l2 ev I Hr) as (I1 & E1).
  set (s1 := poll_task p (eff_check p) e (emit ev (set_ready s (l1 ++ l2)))) in *.
  destruct (canon_wakes_spec e (length (ready (emit ev (set_ready s (l1 ++ l2))))) s1 I1) as (I2 & E2).
  split; auto. eapply EpollSame_trans; [exact E1| |exact E2].
  unfold canon_wakes. destruct (selw e); auto.
Qed.

Lemma drain_spec : forall f s, Inv0 s ->
  Inv0 (drain p selw (eff_check p) f s) /\ EpollSame s (drain p selw (eff_check p) f s).
Proof.
  induction f as [|f IH]; intros s I; cbn [drain]; destruct (halted s) eqn:Hh;
    try (split; [exact I|apply EpollSame_refl]); destruct (ready s) as [|e r] eqn:Er.
  - split; [apply Inv_emit; auto|right; split; [reflexivity|intros; reflexivity]].
  - split; [|left; reflexivity]. apply (Inv_views p [] 0 s); auto; try apply I.
    + eapply WF_getn_eq; [| |apply I]; auto.
    + intros i. apply nview_eq_refl.
  - split; [apply Inv_emit; auto|right; split; [reflexivity|intros; reflexivity]].
  - destruct (sched_popped e s [] r (EvPoll (Some e)) I Er) as (I1 & E1).
    set (s1 := poll_sched p selw (eff_check p) e (emit (EvPoll (Some e)) (set_ready s ([] ++ r)))) in *.
    change (set_ready s r) with (set_ready s ([] ++ r)). fold s1.
    destruct (IH s1 I1) as (I2 & E2). split; auto.
    destruct (halted s1) eqn:Hh1.
    + left. destruct f; cbn [drain]; rewrite Hh1; exact Hh1.
    + destruct E1 as [E1|[E1 E1']]; [congruence|].
      destruct E2 as [E2|[E2 E2']]; [left; auto|]. right. split; [congruence|].
      intros x. rewrite E2', E1'. reflexivity.
Qed.

(* ---------------------------------------------------------------- owner operations *)
Lemma Inv0_enqueue x s : Inv0 s -> Inv0 (enqueue x s).
Proof.
  intros I. unfold enqueue. destruct (existsb _ _); auto.
  apply (Inv0_same_nodes s); auto. intros e.
  pose proof (inv_queue _ _ _ _ I e) as Q. unfold GraphInvariant.queue_ok, queue_ok_n in *.
  change (getn (set_ready s (ready s ++ [x])) e) with (getn s e).
  destruct (decl_of p e); auto. intros Ha. destruct (Q Ha) as (Q1 & Q2). split; auto.
  intros Hp. destruct (Q2 Hp) as (A & B & C). split; auto. split; auto.
  intros Hr. cbn. apply in_app_iff. left; auto.
Qed.

Lemma Inv0_dead e f s :
  Inv0 s -> effb e = true -> (forall n, core_same n (f n)) ->
  (forall n, ealive (f n) = false) -> Inv0 (updn e f s).
Proof.
  intros I He Hf Hd. destruct (effb_decl p e He) as (k & b & h & Hde).
  destruct (Nat.lt_ge_cases e (nlen s)) as [Hei|Hei]; [|rewrite updn_oob; auto].
  destruct (inv_rest _ _ _ _ I e (fun x => x)) as (R1&_).
  apply Inv0_updn_eff; auto.
  - destruct (Hf (getn s e)) as (_&_&_&_&Hs&Hr&_).
    unfold GraphInvariant.Rest, L1, uncached_ok, GraphInvariant.needs_cur, GraphInvariant.needs_clean,
      GraphInvariant.will_run. rewrite Hde, getn_updn_same by auto.
    cbn [needs_cur_n needs_clean_n will_run_n]. rewrite Hs, Hr, Hd.
    split; [exact R1|]. split; [exact Logic.I|].
    split; [intros (Hx&_); discriminate|]. split; [intros (Hx&_); discriminate|intros (Hx&_); discriminate].
  - unfold GraphInvariant.queue_ok, queue_ok_n. rewrite Hde, getn_updn_same by auto. rewrite Hd. discriminate.
Qed.

Lemma dispose_spec e s : Inv0 s -> effb e = true -> Inv0 (dispose e s).
Proof.
  intros I He. unfold dispose. destruct (ealive (getn s e)); auto.
  set (s1 := updn e (fun n => set_ealive n false) s).
  assert (I1 : Inv0 s1).
  { apply Inv0_dead; auto. intros n. unfold core_same; nsimpl; intuition. }
  destruct (ereg (getn s1 e)); auto.
  apply Inv0_enqueue.
  destruct (Nat.lt_ge_cases e (nlen s)) as [Hei|Hei].
  - assert (Hal : ealive (getn s1 e) = false) by (unfold s1; rewrite getn_updn_same; auto).
    destruct (effb_decl p e He) as (k & b & h & Hde).
    destruct (inv_rest _ _ _ _ I1 e (fun x => x)) as (R1&_).
    assert (Hei1 : e < nlen s1) by (unfold s1; rewrite nlen_updn; auto).
    apply Inv0_updn_eff; auto.
    + intros n. unfold core_same; nsimpl; intuition.
    + unfold GraphInvariant.Rest, L1, uncached_ok, GraphInvariant.needs_cur, GraphInvariant.needs_clean,
        GraphInvariant.will_run. rewrite Hde, getn_updn_same by auto.
      cbn [needs_cur_n needs_clean_n will_run_n]. nsimpl. rewrite Hal.
      split; [exact R1|]. split; [exact Logic.I|].
      split; [intros (Hx&_); discriminate|]. split; [intros (Hx&_); discriminate|intros (Hx&_); discriminate].
    + unfold GraphInvariant.queue_ok, queue_ok_n. rewrite Hde, getn_updn_same by auto. nsimpl.
      rewrite Hal. discriminate.
  - rewrite updn_oob; auto. unfold s1. rewrite nlen_updn. auto.
Qed.

Lemma pause_spec e b s : Inv0 s -> Inv0 (updn e (fun n => set_epaused n b) s).
Proof.
  intros I. apply (Inv_views p [] 0 s); auto; try apply I.
  - apply (WF_same_edges p s); [apply nlen_updn| | |apply I].
    + intros i. rewrite (updn_field srcs), (updn_field subs); auto.
    + intros i. apply dead_view. apply (updn_field edone); auto.
  - intros i. destruct (getn_updn_cases e (fun n => set_epaused n b) s i) as [[_ E]|E]; rewrite E;
      [unfold nview_eq; nsimpl; intuition|apply nview_eq_refl].
Qed.

Lemma pause_list_spec b l : forall s, Inv0 s ->
  Inv0 (fold_left (fun s e => updn e (fun n => set_epaused n b) s) l s).
Proof. induction l as [|e t IH]; intros s I; cbn [fold_left]; auto. apply IH. apply pause_spec; auto. Qed.

Lemma dispose_list_spec l : forall s, Inv0 s -> (forall e, In e l -> effb e = true) ->
  Inv0 (fold_left (fun s e => dispose e s) l s).
Proof.
  induction l as [|e t IH]; intros s I He; cbn [fold_left]; auto.
  apply IH; [apply dispose_spec; auto; apply He; left; auto|intros x Hx; apply He; right; auto].
Qed.

Lemma children_eff o c : In c (children p par o) -> effb c = true.
Proof. unfold children. intros H. apply filter_In in H as [_ H]. apply andb_prop in H as [H _]. exact H. Qed.

Lemma postorder_eff f : forall o e, effb o = true -> In e (postorder p par f o) -> effb e = true.
Proof.
  induction f as [|f IH]; intros o e Ho; cbn [postorder].
  - intros [<-|[]]; auto.
  - intros H. apply in_app_iff in H as [H|[<-|[]]]; auto.
    apply in_flat_map in H as (c & Hc & He). apply (IH c e); auto. apply (children_eff o c Hc).
Qed.

Lemma dispose_tree_spec o s : Inv0 s -> effb o = true -> Inv0 (dispose_tree p par o s).
Proof.
  intros I Ho. unfold dispose_tree. apply dispose_list_spec; auto.
  intros e He. apply in_app_iff in He as [He|He]; apply filter_In in He as [He _];
    apply (postorder_eff (length p) o e Ho He).
Qed.

(* ---------------------------------------------------------------- a source is disposed *)
(* nothing is marked, nobody runs: the node keeps its fields (a disposed memo is still marked by
   its own sources, to no effect), its subscriber set is dropped, and what its subscribers
   logged about it no longer binds them *)
Lemma drop_spec n s :
  Inv0 s -> effb n = false -> Inv0 (updn n (fun nd => set_subs (set_edone nd true) []) s).
Proof.
  intros I He.
  destruct (Nat.lt_ge_cases n (nlen s)) as [Hn|Hn]; [|rewrite updn_oob; auto].
  set (f := fun nd => set_subs (set_edone nd true) []).
  set (s' := updn n f s).
  assert (W : WF p s) by apply I.
  assert (En : getn s' n = f (getn s n)) by (apply getn_updn_same; auto).
  assert (Ho : forall k, k <> n -> getn s' k = getn s k) by (intros k Hk; apply getn_updn_other; auto).
  assert (Hdn : dead s' n = true).
  { unfold GraphInvariant.dead. rewrite He, En. reflexivity. }
  assert (Hdo : forall k, k <> n -> dead s' k = dead s k) by (intros k Hk; apply dead_node; auto).
  assert (Hmono : GoneMono p s s').
  { intros k Hk. destruct (Nat.eq_dec k n) as [->|Hkn]; [congruence|]. rewrite <- Hdo; auto. }
  assert (Hsr : forall k, srcs (getn s' k) = srcs (getn s k)).
  { intros k. unfold s'. apply (updn_field srcs). reflexivity. }
  assert (Hrl : forall k, rlog (getn s' k) = rlog (getn s k)).
  { intros k. unfold s'. apply (updn_field rlog). reflexivity. }
  assert (Hst : forall k, st (getn s' k) = st (getn s k)).
  { intros k. unfold s'. apply (updn_field st). reflexivity. }
  assert (Hca : forall k, cache (getn s' k) = cache (getn s k)).
  { intros k. unfold s'. apply (updn_field cache). reflexivity. }
  assert (Hcur : forall x, cur s' x = cur s x).
  { intros x. apply cur_view; auto. unfold s'. apply (updn_field sval). reflexivity. }
  assert (Hsu : forall k, subs (getn s' k) = if Nat.eqb k n then [] else subs (getn s k)).
  { intros k. destruct (Nat.eqb_spec k n) as [->|Hk]; [rewrite En; reflexivity|rewrite Ho; auto]. }
  split.
  - split.
    + unfold s'. rewrite nlen_updn. apply W.
    + intros i j. rewrite Hsr. apply W.
    + intros j. rewrite Hsu. destruct (Nat.eqb j n); [constructor|apply W].
    + intros j k. rewrite Hsu, Hsr. destruct (Nat.eqb j n); [intros []|apply W].
    + intros j k. rewrite Hsu, Hsr. intros Hj Hg. destruct (Nat.eqb_spec j n) as [->|Hjn]; [congruence|].
      eapply wf_src_sub; eauto.
    + intros i j. rewrite Hsr. apply W.
    + intros j. rewrite Hsu. destruct (Nat.eqb_spec j n) as [->|Hjn]; auto.
      rewrite Hdo by auto. apply W.
  - apply I.
  - apply I.
  - intros i _. destruct (inv_rest _ _ _ _ I i (fun x => x)) as (R1 & R2 & R3 & R4 & R5).
    assert (Hnv : needs_cur p s' i -> needs_cur p s i).
    { unfold GraphInvariant.needs_cur, needs_cur_n, hasrun_n.
      destruct (Nat.eq_dec i n) as [->|Hi]; [|rewrite Ho; auto].
      rewrite Hca, Hst. unfold GraphInvariant.effb in He. destruct (decl_of p n); auto. discriminate. }
    assert (Hnc : needs_clean p s' i -> needs_clean p s i).
    { unfold GraphInvariant.needs_clean, needs_clean_n, hasrun_n.
      destruct (Nat.eq_dec i n) as [->|Hi]; [|rewrite Ho; auto].
      rewrite Hca, Hst. unfold GraphInvariant.effb in He. destruct (decl_of p n); auto. discriminate. }
    assert (Hwr : will_run p s' i -> will_run p s i).
    { unfold GraphInvariant.will_run, will_run_n, hasrun_n.
      destruct (Nat.eq_dec i n) as [->|Hi]; [|rewrite Ho; auto].
      rewrite Hca, Hst. unfold GraphInvariant.effb in He. destruct (decl_of p n); auto. discriminate. }
    split; [unfold L1; rewrite Hsr, Hrl; exact R1|].
    split.
    { unfold uncached_ok in *. destruct (decl_of p i); auto. rewrite Hca, Hst, Hrl. exact R2. }
    split; [|split].
    + intros Hx. apply (Lcur_mono p s s' i (Hrl i) Hmono); [intros x v _; apply Hcur|auto].
    + intros Hx. apply (Lclean_mono p s s' i (Hrl i) Hmono); [intros x v _ _ Hc; rewrite Hst; auto|auto].
    + intros Hx. assert (Hsi : since (getn s' i) = since (getn s i)).
      { unfold s'. apply (updn_field since). reflexivity. }
      rewrite Hsi. auto.
  - intros e. unfold GraphInvariant.queue_ok. unfold s' at 1. rewrite ready_updn.
    destruct (Nat.eq_dec e n) as [->|Hen]; [|rewrite Ho; auto; apply I].
    unfold queue_ok_n. unfold GraphInvariant.effb in He. destruct (decl_of p n); auto. discriminate.
  - intros k [].
Qed.

(* ---------------------------------------------------------------- one operation *)
Definition wf_op (o : op) : Prop :=
  match o with
  | OWrite j _ | ONotify j => sigb j = true
  | ORead n => n < length p /\ effb n = false
  | _ => True
  end.

Lemma is_sig_sigb j : is_sig p j = GraphInvariant.sigb p j.
Proof. reflexivity. Qed.
Lemma is_eff_effb j : is_eff p j = GraphInvariant.effb p j.
Proof. reflexivity. Qed.

Lemma step_spec s o :
  Inv0 s -> wf_op o -> Inv0 (step p par selw (eff_check p) (notify_sig p) s o).
Proof.
  intros I Hw. unfold step. destruct (halted s); auto.
  assert (I1 : Inv0 (emit EvOp s)) by (apply Inv_emit; auto).
  set (s1 := emit EvOp s) in *.
  destruct o as [j v|j|n|k| |e|e|e|n]; cbn [wf_op] in Hw.
  - rewrite is_sig_sigb, Hw. destruct (sgone (getn s1 j)) eqn:Eg; auto.
    apply Inv_notify; auto. rewrite dead_src; auto.
    unfold GraphInvariant.effb, GraphInvariant.sigb in *. destruct (decl_of p j); congruence.
  - rewrite is_sig_sigb, Hw. destruct (sgone (getn s1 j)) eqn:Eg; auto.
    rewrite <- (updn_id j (fun n => set_sval n (sval (getn s1 j))) s1) at 1.
    + apply Inv_notify; auto. rewrite dead_src; auto.
      unfold GraphInvariant.effb, GraphInvariant.sigb in *. destruct (decl_of p j); congruence.
    + destruct (getn s1 j); reflexivity.
  - destruct Hw as [Hn He]. rewrite is_eff_effb, He.
    destruct (sgone (getn s1 n)) eqn:Eg; auto.
    destruct (read_top p n s1) as [s2 v] eqn:Er. cbn [fst].
    assert (Hgn : dead s1 n = false) by (rewrite dead_src; auto).
    destruct (Inv_read p wfp n s1 s2 v I1 Hn He Hgn Er) as (I2 & _). exact I2.
  - destruct (ready s1) as [|a r] eqn:Er; [apply Inv_emit; auto|].
    rewrite <- Er.
    assert (Hlen : Nat.modulo k (length (ready s1)) < length (ready s1)).
    { apply Nat.mod_upper_bound. rewrite Er. discriminate. }
    destruct (remove_nth_split (ready s1) _ Hlen) as (l1 & l2 & E1 & E2).
    rewrite E2. apply (sched_popped _ s1 l1 l2); auto.
  - apply drain_spec; auto.
  - destruct (is_eff p e); auto. apply pause_list_spec; auto.
  - destruct (is_eff p e); auto. apply pause_list_spec; auto.
  - rewrite is_eff_effb. destruct (GraphInvariant.effb p e) eqn:He; auto. apply dispose_tree_spec; auto.
  - rewrite is_eff_effb. destruct (GraphInvariant.effb p n) eqn:He; auto. apply drop_spec; auto.
Qed.

(* ---------------------------------------------------------------- creation *)
Definition init0 : state := mkState (map init_node p) [] [] 0 false false.

Lemma getn_init0 i : getn init0 i = init_node (decl_of p i).
Proof.
  unfold getn, init0, decl_of. cbn [nodes].
  change dnode with (init_node (DSig false 0%Z)). apply map_nth.
Qed.

Lemma init_node_empty d :
  srcs (init_node d) = [] /\ subs (init_node d) = [] /\ rlog (init_node d) = [] /\
  cache (init_node d) = None /\ st (init_node d) = Dirty /\ edirty (init_node d) = false /\
  since (init_node d) = [].
Proof. destruct d as [| | |k b h]; cbn; auto 10. Qed.

Lemma init0_spec : Inv0 init0.
Proof.
  assert (H := fun i => init_node_empty (decl_of p i)).
  split.
  - split.
    + unfold nlen, init0; cbn. apply map_length.
    + intros i j. rewrite getn_init0. destruct (H i) as (->&_). intros [].
    + intros j. rewrite getn_init0. destruct (H j) as (_&->&_). constructor.
    + intros j k. rewrite getn_init0. destruct (H j) as (_&->&_). intros [].
    + intros j k. rewrite getn_init0. destruct (H k) as (->&_). intros [].
    + intros i j. rewrite getn_init0. destruct (H i) as (->&_). intros [].
    + intros j _. rewrite getn_init0. destruct (H j) as (_&->&_). reflexivity.
  - reflexivity.
  - reflexivity.
  - intros i _. destruct (H i) as (Hs&_&Hr&Hc&Hst&Hd&_).
    unfold GraphInvariant.Rest, L1, GraphInvariant.Lcur, GraphInvariant.Lclean. rewrite getn_init0, Hs, Hr.
    split; [reflexivity|]. split.
    { unfold uncached_ok. destruct (decl_of p i); auto. cbn. split; [auto|intros v Hv; discriminate]. }
    split; [intros _ x v []|]. split; [intros _ x v []|].
    unfold GraphInvariant.will_run, will_run_n. rewrite getn_init0.
    destruct (decl_of p i) eqn:Hdi; cbn; try contradiction.
    + intros [Hx _]. exfalso. apply Hx. reflexivity.
    + intros (_&_&Hx). discriminate.
  - intros e. unfold GraphInvariant.queue_ok, queue_ok_n. rewrite getn_init0.
    destruct (decl_of p e); auto. cbn. intros _. split; discriminate.
  - intros k [].
Qed.

(* the task of effect [i] is spawned: [f] sets the channel / waker fields, then the task is queued *)
Lemma spawn_spec i k b h f s0 :
  decl_of p i = DEff k b h ->
  InvBut i [] 0 s0 -> i < nlen s0 ->
  (forall n, core_same n (f n)) ->
  (forall n, epoll (f n) = false /\ ereg (f n) = false /\ edone (f n) = false) ->
  (ealive (f (getn s0 i)) = true ->
     (edirty (f (getn s0 i)) = true -> eflag (f (getn s0 i)) = true) /\
     (hasrun_n (DEff k b h) (f (getn s0 i)) = false -> edirty (f (getn s0 i)) = true)) ->
  (needs_cur p (updn i f s0) i -> Lcur (updn i f s0) i) ->
  (needs_clean p (updn i f s0) i -> Lclean (updn i f s0) i) ->
  (will_run p (updn i f s0) i -> False) ->
  Inv0 (enqueue i (updn i f s0)).
Proof.
  intros Hde IB Hi0 Hf Hq1 Hq2 N1 N2 N3.
  assert (He : effb i = true) by (unfold GraphInvariant.effb; rewrite Hde; auto).
  set (s1 := updn i f s0) in *.
  assert (E1 : getn s1 i = f (getn s0 i)) by (apply getn_updn_same; auto).
  assert (IB1 : InvBut i [] 0 s1) by (apply InvBut_updn; auto).
  assert (Hgq : forall x, getn (enqueue i s1) x = getn s1 x) by (intros x; apply getn_enqueue).
  assert (Hcq : forall y, cur (enqueue i s1) y = cur s1 y) by (intros y; apply cur_view; rewrite Hgq; reflexivity).
  assert (IBq : InvBut i [] 0 (enqueue i s1)).
  { split.
    - eapply WF_getn_eq; [| |apply IB1]; [unfold enqueue; destruct (existsb _ _); reflexivity|exact Hgq].
    - unfold enqueue. destruct (existsb _ _); apply IB1.
    - unfold enqueue. destruct (existsb _ _); apply IB1.
    - intros x Hx Hxi. apply (Rest_ext p s1 (enqueue i s1) x).
      + rewrite Hgq. apply nview_eq_refl.
      + apply GoneSame_getn; auto.
      + intros y v _. apply Hcq.
      + intros y v _ _ Hc. rewrite Hgq; auto.
      + apply (ib_rest _ _ _ _ _ IB1 x Hx Hxi).
    - intros _. unfold L1. rewrite Hgq. apply (ib_l1 _ _ _ _ _ IB1). intros [].
    - intros x Hx. pose proof (ib_queue _ _ _ _ _ IB1 x Hx) as Q.
      unfold GraphInvariant.queue_ok, queue_ok_n in *. rewrite Hgq.
      destruct (decl_of p x); auto. intros Ha. destruct (Q Ha) as (Q1 & Q2). split; auto.
      intros Hp. destruct (Q2 Hp) as (A & B & C). split; auto. split; auto.
      intros Hr. apply in_enqueue. auto.
    - intros x []. }
  apply (InvBut_close p i (enqueue i s1) IBq).
  - split; [unfold L1; rewrite Hgq; apply (ib_l1 _ _ _ _ _ IB1); intros []|].
    split; [unfold uncached_ok; rewrite Hde; exact Logic.I|].
    split; [|split].
    + intros Hn. apply (Lcur_ext p s1 (enqueue i s1) i); [rewrite Hgq; reflexivity|gs|intros y v _; apply Hcq|].
      apply N1. unfold GraphInvariant.needs_cur in *. rewrite Hgq in Hn. exact Hn.
    + intros Hn. apply (Lclean_ext p s1 (enqueue i s1) i); [rewrite Hgq; reflexivity|gs| |].
      * intros y v _ _ Hy. rewrite Hgq; auto.
      * apply N2. unfold GraphInvariant.needs_clean in *. rewrite Hgq in Hn. exact Hn.
    + intros Hn. exfalso. apply N3. unfold GraphInvariant.will_run in *. rewrite Hgq in Hn. exact Hn.
  - unfold GraphInvariant.queue_ok, queue_ok_n. rewrite Hde, Hgq, E1.
    destruct (Hq1 (getn s0 i)) as (Hp & Hr & Hdn). intros Ha. destruct (Hq2 Ha) as (Q1 & Q2).
    split; [intros Hd; left; auto|]. intros _. split; [exact Hdn|]. split; [intros _; apply in_enqueue_self|].
    split; [intros _; exact Hr|exact Q2].
Qed.

Lemma create_spec i s : Inv0 s -> Inv0 (create p s i).
Proof.
  intros I. unfold create. destruct (decl_of p i) as [| | |k b h] eqn:Hde; auto.
  assert (He : effb i = true) by (unfold GraphInvariant.effb; rewrite Hde; auto).
  assert (Hel : i < length p) by (apply effb_lt; auto).
  assert (Hei : i < nlen s) by (rewrite (wf_len p s (inv_wf _ _ _ _ I)); auto).
  (* Effect::new, new_isomorphic, watch: dirty, notified once, never ran *)
  assert (Hplain : k <> ERender ->
    Inv0 (enqueue i (updn i (fun n => set_epoll (set_edone (set_ereg (set_eflag (set_edirty (set_efirst n true) true) true) false) false) false) s))).
  { intros Hk. apply (spawn_spec i k b h _ s Hde (Inv_InvBut p i [] 0 s I) Hei).
    - intros n. unfold core_same; nsimpl; intuition.
    - intros n. nsimpl. auto.
    - intros _. nsimpl. auto.
    - unfold GraphInvariant.needs_cur, needs_cur_n. rewrite Hde, getn_updn_same by auto. nsimpl.
      intros (_&Hx&_). destruct k; [discriminate|congruence|discriminate].
    - unfold GraphInvariant.needs_clean, needs_clean_n. rewrite Hde, getn_updn_same by auto. nsimpl.
      intros (_&Hx&_). destruct k; [discriminate|congruence|discriminate].
    - unfold GraphInvariant.will_run, will_run_n. rewrite Hde, getn_updn_same by auto. nsimpl.
      intros (_&Hx&_). destruct k; [discriminate|congruence|discriminate]. }
  destruct k as [| |imm]; try (apply Hplain; discriminate).
  (* RenderEffect: first run now, then spawned *)
  set (f0 := fun n => set_epoll (set_edone (set_ereg (set_eflag (set_edirty (set_efirst n false) false) false) false) false) true).
  set (sa := updn i f0 s).
  assert (Ea : getn sa i = f0 (getn s i)) by (apply getn_updn_same; auto).
  assert (IBa : InvBut i [] 0 sa).
  { apply InvBut_updn; [auto|apply Inv_InvBut; auto|]. intros n. unfold core_same, f0; nsimpl; intuition. }
  assert (Qa : queue_ok sa i).
  { unfold GraphInvariant.queue_ok, queue_ok_n. rewrite Hde, Ea. unfold f0. nsimpl. intros _. split; discriminate. }
  destruct (nsf_body_ok p wfp i ERender b h nsf Hde) as (Hokb & _).
  destruct (eval p (read_any p) true (Some i, true) b (begin_run true i (clear_sources i sa))) as [s2 v] eqn:Ev.
  destruct (eff_body_spec p wfp true i b sa s2 v IBa Qa He Hokb) as (I2 & P2 & Hc2 & Hcl2 & Hd2); auto.
  { rewrite Ea. unfold f0. nsimpl. reflexivity. }
  set (s3 := emit (EvEnd i v) s2).
  assert (I3 : Inv0 s3) by (apply Inv_emit; auto).
  assert (Hei3 : i < nlen s3) by (rewrite (wf_len p s3 (inv_wf _ _ _ _ I3)); auto).
  set (f3 := fun n => set_epoll (set_edone (set_ereg n false) false) false).
  assert (E3 : getn (updn i f3 s3) i = f3 (getn s2 i)) by (rewrite getn_updn_same by auto; reflexivity).
  assert (Hc3 : forall y, cur (updn i f3 s3) y = cur s2 y).
  { intros y. apply cur_view; rewrite ?(updn_field sval), ?(updn_field cache); auto. }
  apply (spawn_spec i ERender b h f3 s3 Hde (Inv_InvBut p i [] 0 s3 I3) Hei3).
  - intros n. unfold core_same, f3; nsimpl; intuition.
  - intros n. unfold f3. nsimpl. auto.
  - intros _. unfold f3. nsimpl. change (getn s3 i) with (getn s2 i). rewrite Hd2.
    split; [discriminate|]. cbn. discriminate.
  - intros _. apply (Lcur_ext p s2 (updn i f3 s3) i); [rewrite E3; reflexivity|gs|intros y w _; apply Hc3|exact Hc2].
  - intros _. apply (Lclean_ext p s2 (updn i f3 s3) i); [rewrite E3; reflexivity|gs| |exact Hcl2].
    intros y w _ _ Hy. rewrite (updn_field st); auto.
  - unfold GraphInvariant.will_run, will_run_n. rewrite Hde, E3. unfold f3. nsimpl.
    intros (_&_&Hx). congruence.
Qed.

Lemma init_spec : Inv0 (init p).
Proof.
  unfold init. fold init0.
  assert (H : forall l s, Inv0 s -> Inv0 (fold_left (create p) l s)).
  { induction l as [|x t IH]; intros s I; cbn; auto. apply IH. apply create_spec; auto. }
  apply H. apply init0_spec.
Qed.

(* ---------------------------------------------------------------- every reachable state *)
Definition wf_ops (ops : list op) : Prop := Forall wf_op ops.

Theorem reachable_inv : forall ops, wf_ops ops -> Inv0 (run_fixed p par selw ops).
Proof.
  intros ops Hw. unfold run_fixed, run_ops.
  assert (H : forall l s, Forall wf_op l -> Inv0 s ->
              Inv0 (fold_left (step p par selw (eff_check p) (notify_sig p)) l s)).
  { induction l as [|o t IH]; intros s Hf I; cbn; auto.
    inversion Hf; subst. apply IH; auto. apply step_spec; auto. }
  apply H; auto. apply init_spec.
Qed.

(* ---------------------------------------------------------------- every task is spawned and at rest *)
Lemma notify_static j v s :
  Inv0 s ->
  let s' := notify_sig p j (updn j (fun n => set_sval n v) s) in
  halted s' = halted s /\ forall x, epoll (getn s' x) = epoll (getn s x).
Proof.
  intros I. cbv zeta. unfold notify_sig.
  set (s1 := updn j (fun n => set_sval n v) s).
  set (s2 := add_cause j s1).
  assert (H2 := fun k => add_cause_getn j s1 k). cbv zeta in H2. fold s2 in H2.
  assert (H2m := add_cause_misc j s1). fold s2 in H2m.
  assert (W2 : WF p s2).
  { apply (WF_same_edges p s s2); [| | |apply I].
    - destruct H2m as (->&_). unfold s1. apply nlen_updn.
    - intros k. destruct (H2 k) as (_&->&_&_&->&_). unfold s1.
      rewrite (updn_field srcs), (updn_field subs); auto.
    - intros k. apply dead_view. destruct (H2 k) as (_&_&_&_&_&_&_&_&_&_&_&_&->&_). unfold s1.
      apply (updn_field edone); auto. }
  assert (HML := mark_dirty_list p (fun _ => false) (subs (getn s2 j)) (fun _ _ => False) s2 s2 W2 (MarkRel_refl p s2)).
  cbv beta iota zeta in HML. destruct HML as (MR & _ & _).
  { intros y k HE; contradiction. }
  split.
  - rewrite (mr_halted p _ _ MR). destruct H2m as (_&_&_&->&_). reflexivity.
  - intros x. destruct (mr_core p _ _ MR x) as (_&_&_&_&_&_&_&_&_&_&_&->).
    destruct (H2 x) as (_&_&_&_&_&_&_&_&_&_&_&_&_&_&->). unfold s1. apply (updn_field epoll); auto.
Qed.

Lemma pause_list_static b l : forall s,
  let s' := fold_left (fun s e => updn e (fun n => set_epaused n b) s) l s in
  halted s' = halted s /\ forall x, epoll (getn s' x) = epoll (getn s x).
Proof.
  induction l as [|e t IH]; intros s; cbn [fold_left]; [split; reflexivity|].
  destruct (IH (updn e (fun n => set_epaused n b) s)) as (A & B). cbv zeta in A, B.
  split; [rewrite A; reflexivity|]. intros x. rewrite B. apply (updn_field epoll). reflexivity.
Qed.

Lemma dispose_static e s :
  halted (dispose e s) = halted s /\ forall x, epoll (getn (dispose e s) x) = epoll (getn s x).
Proof.
  unfold dispose.
  assert (Hq : forall a, halted (enqueue e a) = halted a).
  { intros a. unfold enqueue. destruct (existsb _ _); reflexivity. }
  destruct (ealive (getn s e)); [|auto].
  destruct (ereg _).
  + split; [rewrite Hq; reflexivity|]. intros x. rewrite getn_enqueue, !(updn_field epoll) by auto. reflexivity.
  + split; [reflexivity|]. intros x. rewrite (updn_field epoll) by auto. reflexivity.
Qed.

Lemma dispose_list_static l : forall s,
  let s' := fold_left (fun s e => dispose e s) l s in
  halted s' = halted s /\ forall x, epoll (getn s' x) = epoll (getn s x).
Proof.
  induction l as [|e t IH]; intros s; cbn [fold_left]; [split; reflexivity|].
  destruct (IH (dispose e s)) as (A & B). cbv zeta in A, B. destruct (dispose_static e s) as (C & D).
  split; [rewrite A; exact C|]. intros x. rewrite B. apply D.
Qed.

Lemma step_epoll s o :
  Inv0 s -> wf_op o -> EpollSame s (step p par selw (eff_check p) (notify_sig p) s o).
Proof.
  intros I Hw. unfold step. destruct (halted s) eqn:Hh; [apply EpollSame_refl|].
  assert (I1 : Inv0 (emit EvOp s)) by (apply Inv_emit; auto).
  set (s1 := emit EvOp s) in *.
  assert (Hs1 : halted s1 = halted s /\ forall x, epoll (getn s1 x) = epoll (getn s x)) by (split; reflexivity).
  destruct o as [j v|j|n|k| |e|e|e|n]; cbn [wf_op] in Hw.
  - rewrite is_sig_sigb, Hw. destruct (sgone (getn s1 j)); [right; auto|].
    destruct (notify_static j v s1 I1) as (A & B). right. auto.
  - rewrite is_sig_sigb, Hw. destruct (sgone (getn s1 j)); [right; auto|].
    rewrite <- (updn_id j (fun n => set_sval n (sval (getn s1 j))) s1) at 1.
    + destruct (notify_static j (sval (getn s1 j)) s1 I1) as (A & B). right. auto.
    + destruct (getn s1 j); reflexivity.
  - destruct Hw as [Hn He]. rewrite is_eff_effb, He.
    destruct (sgone (getn s1 n)) eqn:Eg; [right; auto|].
    destruct (read_top p n s1) as [s2 v] eqn:Er. cbn [fst].
    assert (Hgn : dead s1 n = false) by (rewrite dead_src; auto).
    destruct (Inv_read p wfp n s1 s2 v I1 Hn He Hgn Er) as (_ & P & _). right. split.
    + rewrite (pr_halted _ _ _ _ _ _ P). reflexivity.
    + intros x. destruct (pr_eff _ _ _ _ _ _ P x) as (_&_&_&_&_&->). reflexivity.
  - destruct (ready s1) as [|a r] eqn:Er; [right; split; [reflexivity|intros; reflexivity]|].
    rewrite <- Er.
    assert (Hlen : Nat.modulo k (length (ready s1)) < length (ready s1)).
    { apply Nat.mod_upper_bound. rewrite Er. discriminate. }
    destruct (remove_nth_split (ready s1) _ Hlen) as (l1 & l2 & E1 & E2).
    rewrite E2. destruct (sched_popped _ s1 l1 l2 (EvPoll (Some (nth (Nat.modulo k (length (ready s1))) (ready s1) 0))) I1 E1) as (_ & E).
    destruct E as [E|[Ea Eb]]; [left; auto|right; auto].
  - destruct (drain_spec RUN_LIMIT s1 I1) as (_ & E). destruct E as [E|[Ea Eb]]; [left; auto|right; auto].
  - destruct (is_eff p e); [|right; auto]. right. exact (pause_list_static true _ s1).
  - destruct (is_eff p e); [|right; auto]. right. exact (pause_list_static false _ s1).
  - destruct (is_eff p e); [|right; auto]. right. exact (dispose_list_static _ s1).
  - destruct (is_eff p n); [right; auto|]. right. split; [reflexivity|].
    intros x. rewrite (updn_field epoll) by auto. reflexivity.
Qed.

Lemma create_epoll i s :
  Inv0 s ->
  halted (create p s i) = halted s /\
  forall x, epoll (getn (create p s i) x) =
            if Nat.eqb x i && GraphInvariant.effb p i then false else epoll (getn s x).
Proof.
  intros I. unfold create, GraphInvariant.effb.
  destruct (decl_of p i) as [| | |k b h] eqn:Hde;
    try (split; [reflexivity|intros x; rewrite andb_false_r; reflexivity]).
  assert (He : effb i = true) by (unfold GraphInvariant.effb; rewrite Hde; auto).
  assert (Hel : i < length p) by (apply effb_lt; auto).
  assert (Hei : i < nlen s) by (rewrite (wf_len p s (inv_wf _ _ _ _ I)); auto).
  assert (Hq : forall a, halted (enqueue i a) = halted a).
  { intros a. unfold enqueue. destruct (existsb _ _); reflexivity. }
  assert (Hplain : forall f, (forall n, epoll (f n) = false) ->
    halted (enqueue i (updn i f s)) = halted s /\
    forall x, epoll (getn (enqueue i (updn i f s)) x) = if Nat.eqb x i && true then false else epoll (getn s x)).
  { intros f Hf. split; [rewrite Hq; reflexivity|]. intros x. rewrite getn_enqueue, andb_true_r.
    destruct (Nat.eqb_spec x i) as [->|Hx]; [rewrite getn_updn_same; auto|rewrite getn_updn_other; auto]. }
  destruct k as [| |imm]; try (apply Hplain; intros n; reflexivity).
  set (f0 := fun n => set_epoll (set_edone (set_ereg (set_eflag (set_edirty (set_efirst n false) false) false) false) false) true).
  set (sa := updn i f0 s).
  assert (Ea : getn sa i = f0 (getn s i)) by (apply getn_updn_same; auto).
  assert (IBa : InvBut i [] 0 sa).
  { apply InvBut_updn; [auto|apply Inv_InvBut; auto|]. intros n. unfold core_same, f0; nsimpl; intuition. }
  assert (Qa : queue_ok sa i).
  { unfold GraphInvariant.queue_ok, queue_ok_n. rewrite Hde, Ea. unfold f0. nsimpl. intros _. split; discriminate. }
  destruct (nsf_body_ok p wfp i ERender b h nsf Hde) as (Hokb & _).
  destruct (eval p (read_any p) true (Some i, true) b (begin_run true i (clear_sources i sa))) as [s2 v] eqn:Ev.
  destruct (eff_body_spec p wfp true i b sa s2 v IBa Qa He Hokb) as (I2 & P2 & _); auto.
  { rewrite Ea. unfold f0. nsimpl. reflexivity. }
  assert (Hei2 : i < nlen s2) by (rewrite (wf_len p s2 (inv_wf _ _ _ _ I2)); auto).
  split.
  - rewrite Hq. cbn. rewrite (proj2 P2). reflexivity.
  - intros x. rewrite getn_enqueue, andb_true_r. destruct (Nat.eqb_spec x i) as [->|Hx].
    + rewrite getn_updn_same by (rewrite nlen_emit; auto). reflexivity.
    + rewrite getn_updn_other by auto. rewrite getn_emit.
      destruct (proj1 P2 x) as (_&_&_&_&_&->). unfold sa. rewrite getn_updn_other; auto.
Qed.

Lemma init_spawned :
  halted (init p) = false /\ forall e, effb e = true -> epoll (getn (init p) e) = false.
Proof.
  unfold init. fold init0.
  assert (H : forall l s, Inv0 s -> NoDup l ->
            let s' := fold_left (create p) l s in
            halted s' = halted s /\
            forall x, epoll (getn s' x) = if existsb (Nat.eqb x) l && GraphInvariant.effb p x then false else epoll (getn s x)).
  { induction l as [|i t IH]; intros s I Hnd; cbn [fold_left existsb].
    - split; auto.
    - inversion Hnd as [|? ? Hi Ht]; subst.
      destruct (create_epoll i s I) as (A & B).
      destruct (IH (create p s i) (create_spec i s I) Ht) as (C & D). cbv zeta in C, D.
      split; [congruence|]. intros x. rewrite D, B.
      destruct (Nat.eqb_spec x i) as [->|Hx]; cbn [orb andb].
      + destruct (GraphInvariant.effb p i); [destruct (existsb _ t); reflexivity|].
        rewrite !andb_false_r. reflexivity.
      + reflexivity. }
  destruct (H (seq 0 (length p)) init0 init0_spec (seq_NoDup _ _)) as (A & B). cbv zeta in A, B.
  split; [rewrite A; reflexivity|].
  intros e He. rewrite B, He, andb_true_r.
  assert (Hin : existsb (Nat.eqb e) (seq 0 (length p)) = true).
  { apply existsb_exists. exists e. split; [|apply Nat.eqb_refl]. apply in_seq. pose proof (effb_lt p e He). lia. }
  rewrite Hin. reflexivity.
Qed.

(* in every reachable state that has not halted, no task is unspawned or in the middle of a poll *)
Theorem reachable_at_rest : forall ops, wf_ops ops ->
  halted (run_fixed p par selw ops) = true \/
  forall e, effb e = true -> epoll (getn (run_fixed p par selw ops) e) = false.
Proof.
  intros ops Hw. unfold run_fixed, run_ops.
  assert (H : forall l s, Forall wf_op l -> Inv0 s ->
              (halted s = true \/ forall e, effb e = true -> epoll (getn s e) = false) ->
              let s' := fold_left (step p par selw (eff_check p) (notify_sig p)) l s in
              halted s' = true \/ forall e, effb e = true -> epoll (getn s' e) = false).
  { induction l as [|o t IH]; intros s Hf I Hs; cbn [fold_left]; auto.
    inversion Hf; subst. apply IH; auto; [apply step_spec; auto|].
    destruct Hs as [Hs|Hs].
    - left. unfold step. rewrite Hs. exact Hs.
    - destruct (step_epoll s o I H1) as [E|[Ea Eb]]; [left; auto|].
      right. intros e He. rewrite Eb. auto. }
  apply H; auto; [apply init_spec|]. right. apply init_spawned.
Qed.

(* ---------------------------------------------------------------- consequences *)
(* C01: a read from outside, in any reachable state *)
Theorem read_consistent_cone : forall ops n s' v,
  wf_ops ops -> n < length p -> effb n = false -> dead (run_fixed p par selw ops) n = false ->
  read_top p n (run_fixed p par selw ops) = (s', v) ->
  Inv0 s' /\
  (forall i, sval (getn s' i) = sval (getn (run_fixed p par selw ops) i)) /\
  (memob n = true -> st (getn s' n) = Clean /\ cache (getn s' n) = Some v /\ ConsistentM p s' n) /\
  (sigb n = true -> v = sval (getn s' n)).
Proof.
  intros ops n s' v Hw Hn He Hg Hr.
  destruct (Inv_read p wfp n _ s' v (reachable_inv ops Hw) Hn He Hg Hr) as (I' & P' & Hm & Hs).
  split; auto. split; [apply (pr_sval _ _ _ _ _ _ P')|]. split; auto.
  intros Hmn. destruct (Hm Hmn) as [Hc Hca]. split; auto. split; auto.
  apply clean_consistent; auto.
Qed.

(* reading again changes nothing *)
Theorem read_idempotent : forall ops n s1 v1 s2 v2,
  wf_ops ops -> n < length p -> memob n = true -> dead (run_fixed p par selw ops) n = false ->
  read_top p n (run_fixed p par selw ops) = (s1, v1) -> read_top p n s1 = (s2, v2) -> v2 = v1.
Proof.
  intros ops n s1 v1 s2 v2 Hw Hn Hm Hg H1 H2.
  assert (He : effb n = false).
  { unfold GraphInvariant.effb, GraphInvariant.memob in *. destruct (decl_of p n); congruence. }
  destruct (Inv_read p wfp n _ s1 v1 (reachable_inv ops Hw) Hn He Hg H1) as (I1 & P1 & Hm1 & _).
  assert (Hg1 : dead s1 n = false) by (rewrite (PullRel_GoneSame p _ _ _ _ _ P1 n); exact Hg).
  destruct (Inv_read p wfp n s1 s2 v2 I1 Hn He Hg1 H2) as (I2 & P2 & Hm2 & _).
  destruct (Hm1 Hm) as [Hc1 Hca1]. destruct (Hm2 Hm) as [_ Hca2].
  destruct (pr_stable _ _ _ _ _ _ P2 n Hm (fun x => x) Hc1) as (_ & Hca & _). congruence.
Qed.

(* C09: no body invocation (other than a first one) without a recorded cause *)
Theorem no_causeless_run : forall ops, wf_ops ops -> nocause (run_fixed p par selw ops) = 0.
Proof. intros ops Hw. apply (inv_nocause _ _ _ _ (reachable_inv ops Hw)). Qed.

End P.
