(** Pull phase, part 3: the specification of [update_if_necessary] (updater) and of reads
    (reader) at a level of the index-bounded recursion, the frame relation [PullRel], and
    the transfer lemmas that move the invariant across the primitive steps. *)
From Coq Require Import List ZArith Bool Arith Lia.
From LV Require Import Reactive.Graph Reactive.GraphLemmas Reactive.GraphReplay Reactive.GraphInvariant
                       Reactive.GraphMarkProofs Reactive.GraphPullBase Reactive.GraphPullSteps.
Import ListNotations.
Close Scope Z_scope.
Open Scope nat_scope.

Section P.
Variable p : prog.
Notation memob := (memob p).
Notation dead := (dead p).
Notation effb := (effb p).
Notation sigb := (sigb p).
Notation WF := (WF p).
Notation MarkRel := (MarkRel p).
Notation Inv := (Inv p).
Notation Lcur := (Lcur p).
Notation Lclean := (Lclean p).
Notation Rest := (Rest p).
Notation Frame := (Frame p).
Notation cur := (cur p).
Notation UpClosed := (UpClosed p).

(* ---------------------------------------------------------------- views *)
Lemma cur_view s s' j : sval (getn s' j) = sval (getn s j) -> cache (getn s' j) = cache (getn s j) ->
  cur s' j = cur s j.
Proof. intros H1 H2. unfold GraphInvariant.cur, cache_val. rewrite H1, H2. reflexivity. Qed.

(* no source is disposed (or revived) between the two states *)
Definition GoneSame (s s' : state) : Prop := forall j, dead s' j = dead s j.
Lemma GoneSame_refl s : GoneSame s s. Proof. intros j; reflexivity. Qed.
Lemma GoneSame_trans a b c : GoneSame a b -> GoneSame b c -> GoneSame a c.
Proof. intros H1 H2 j. rewrite H2, H1. reflexivity. Qed.

Lemma Lcur_ext s s' i :
  rlog (getn s' i) = rlog (getn s i) -> GoneSame s s' ->
  (forall j v, In (j, v, true) (rlog (getn s i)) -> cur s' j = cur s j) ->
  Lcur s i -> Lcur s' i.
Proof. intros Hr Hg Hc H j v Hin Hgj. rewrite Hr in Hin. rewrite (Hc j v Hin). rewrite Hg in Hgj. eauto. Qed.

Lemma Lclean_ext s s' i :
  rlog (getn s' i) = rlog (getn s i) -> GoneSame s s' ->
  (forall j v, In (j, v, true) (rlog (getn s i)) -> memob j = true ->
               st (getn s j) = Clean -> st (getn s' j) = Clean) ->
  Lclean s i -> Lclean s' i.
Proof. intros Hr Hg Hc H j v Hin Hm Hgj. rewrite Hr in Hin. rewrite Hg in Hgj. eapply Hc; eauto. Qed.

(* the same when sources may have been disposed in between: whatever is still alive was alive *)
Definition GoneMono (s s' : state) : Prop := forall j, dead s' j = false -> dead s j = false.

Lemma Lcur_mono s s' i :
  rlog (getn s' i) = rlog (getn s i) -> GoneMono s s' ->
  (forall j v, In (j, v, true) (rlog (getn s i)) -> cur s' j = cur s j) ->
  Lcur s i -> Lcur s' i.
Proof. intros Hr Hg Hc H j v Hin Hgj. rewrite Hr in Hin. rewrite (Hc j v Hin). apply Hg in Hgj. eauto. Qed.

Lemma Lclean_mono s s' i :
  rlog (getn s' i) = rlog (getn s i) -> GoneMono s s' ->
  (forall j v, In (j, v, true) (rlog (getn s i)) -> memob j = true ->
               st (getn s j) = Clean -> st (getn s' j) = Clean) ->
  Lclean s i -> Lclean s' i.
Proof. intros Hr Hg Hc H j v Hin Hm Hgj. rewrite Hr in Hin. apply Hg in Hgj. eapply Hc; eauto. Qed.

Lemma L1_ext s s' i :
  rlog (getn s' i) = rlog (getn s i) -> srcs (getn s' i) = srcs (getn s i) -> L1 s i -> L1 s' i.
Proof. unfold L1. intros -> ->. auto. Qed.

(* a resting node keeps its clauses when its own view is unchanged, the values it logged are
   still the current ones and the memos it logged as Clean still are *)
Lemma Rest_ext s s' i :
  nview_eq (getn s i) (getn s' i) -> GoneSame s s' ->
  (forall j v, In (j, v, true) (rlog (getn s i)) -> cur s' j = cur s j) ->
  (forall j v, In (j, v, true) (rlog (getn s i)) -> memob j = true ->
               st (getn s j) = Clean -> st (getn s' j) = Clean) ->
  Rest s i -> Rest s' i.
Proof.
  intros V Hg Hc Hcl (R1 & R2 & R3 & R4 & R5).
  assert (Vr : rlog (getn s' i) = rlog (getn s i)) by apply V.
  assert (Vs : srcs (getn s' i) = srcs (getn s i)) by apply V.
  split; [eapply L1_ext; eauto|]. split; [eapply uncached_ok_view; eauto|].
  split; [|split].
  - intros Hn. eapply Lcur_ext; eauto. apply R3. eapply needs_cur_view; eauto.
  - intros Hn. eapply Lclean_ext; eauto. apply R4. eapply needs_clean_view; eauto.
  - intros Hn. assert (Hs : since (getn s' i) = since (getn s i)) by apply V.
    rewrite Hs. apply R5. eapply will_run_view; eauto.
Qed.

Lemma Frame_ext t s s' k :
  rlog (getn s' k) = rlog (getn s k) -> srcs (getn s' k) = srcs (getn s k) -> GoneSame s s' ->
  (memob k = true -> st (getn s k) <> Clean -> st (getn s' k) <> Clean) ->
  (effb k = true -> edirty (getn s k) = false -> edirty (getn s' k) = false) ->
  (forall j v, In (j, v, true) (rlog (getn s k)) -> cur s' j = cur s j) ->
  (forall j v, In (j, v, true) (rlog (getn s k)) -> memob j = true ->
               st (getn s j) = Clean -> st (getn s' j) = Clean) ->
  Frame t s k -> Frame t s' k.
Proof.
  intros Vr Vs Hg Vst Vd Hc Hcl (F1 & F2 & F3 & F4 & F5 & F6 & F7).
  split; [eapply Lcur_ext; eauto|]. split; [eapply Lclean_ext; eauto|].
  split; [intros x; rewrite Vs, Vr; auto|]. split; [exact F4|]. split; [exact F5|].
  split; [intros Hm; apply Vst; auto|intros He; apply Vd; auto].
Qed.

(* ---------------------------------------------------------------- not-Clean is upward closed *)
Lemma Inv_UpClosed stk t s : Inv stk t s -> UpClosed s.
Proof.
  intros I y x Hy Hn Hx Hmx Hc.
  destruct (in_dec Nat.eq_dec x stk) as [Hin|Hin].
  - destruct (inv_frame _ _ _ _ I x Hin) as (_&_&_&_&_&Hnc&_). apply (Hnc Hmx Hc).
  - destruct (inv_rest _ _ _ _ I x Hin) as (R1 & R2 & _ & R4 & _).
    destruct (memob_decl p x Hmx) as (cm & e & Hd).
    unfold uncached_ok, GraphInvariant.needs_clean, needs_clean_n in *. rewrite Hd in *.
    destruct R2 as [R2 _].
    destruct (cache (getn s x)) eqn:Ec; [|destruct (R2 eq_refl); congruence].
    assert (Hsrc : In y (srcs (getn s x))) by (eapply wf_sub_src; eauto; apply I).
    rewrite R1 in Hsrc. apply in_tracked_of in Hsrc as (v & Hv).
    assert (Hgy : dead s y = false).
    { destruct (dead s y) eqn:E; auto. rewrite (wf_gone p s (inv_wf _ _ _ _ I) y E) in Hx. destruct Hx. }
    apply Hn. eapply R4; eauto. split; auto. congruence.
Qed.

(* ---------------------------------------------------------------- contexts *)
Definition ctx_ok (stk : list nat) (c : ctx) : Prop :=
  match fst c with
  | Some w => exists tl, stk = w :: tl
  | None => stk = [] /\ snd c = false
  end.

(* between two reads the source set of the running body is exactly its tracked log *)
Definition TopOK (c : ctx) (s : state) : Prop :=
  match fst c with Some w => L1 s w | None => True end.

Lemma ctx_ok_untr stk c : ctx_ok stk c -> ctx_ok stk (fst c, false).
Proof. unfold ctx_ok; cbn. destruct (fst c); auto. intros [H _]; auto. Qed.

Lemma ctx_ok_obs stk c o : ctx_ok stk c -> obs_of c = Some o -> fst c = Some o /\ In o stk.
Proof.
  unfold ctx_ok, obs_of. destruct c as [w tr]; cbn. destruct tr; [|discriminate].
  intros H ->. split; auto. destruct H as [tl ->]. left; auto.
Qed.

(* ---------------------------------------------------------------- the frame relation *)
(* a pull that serves nodes below [b]: everything at or above b keeps its log, sources, cache
   and subscribers and can only be marked; Clean memos that are not running are untouched;
   signal values never change.  [ex] is the running body whose log is being extended. *)
Record PullRel (b : nat) (stk : list nat) (ex : option nat) (s s' : state) : Prop := {
  pr_len : nlen s' = nlen s;
  pr_sval : forall i, sval (getn s' i) = sval (getn s i);
  pr_stable : forall i, memob i = true -> ~ In i stk -> st (getn s i) = Clean ->
     st (getn s' i) = Clean /\ cache (getn s' i) = cache (getn s i) /\
     rlog (getn s' i) = rlog (getn s i) /\ srcs (getn s' i) = srcs (getn s i);
  pr_above : forall y, b <= y -> Some y <> ex ->
     rlog (getn s' y) = rlog (getn s y) /\ srcs (getn s' y) = srcs (getn s y);
  pr_above2 : forall y, b <= y ->
     cache (getn s' y) = cache (getn s y) /\ st_le (st (getn s y)) (st (getn s' y)) /\
     subs (getn s' y) = subs (getn s y);
  pr_eff : forall i, efirst (getn s' i) = efirst (getn s i) /\ epaused (getn s' i) = epaused (getn s i) /\
     ealive (getn s' i) = ealive (getn s i) /\ edone (getn s' i) = edone (getn s i) /\
     emissed (getn s' i) = emissed (getn s i) /\ epoll (getn s' i) = epoll (getn s i);
  pr_halted : halted s' = halted s
}.

Lemma PullRel_refl b stk ex s : PullRel b stk ex s s.
Proof. split; intros; auto using st_le_refl; intuition auto using st_le_refl. Qed.

Lemma PullRel_trans b stk ex s1 s2 s3 :
  PullRel b stk ex s1 s2 -> PullRel b stk ex s2 s3 -> PullRel b stk ex s1 s3.
Proof.
  intros A B. split.
  - rewrite (pr_len _ _ _ _ _ B). apply A.
  - intros i. rewrite (pr_sval _ _ _ _ _ B). apply A.
  - intros i Hm Hn Hc. destruct (pr_stable _ _ _ _ _ A i Hm Hn Hc) as (H1&H2&H3&H4).
    destruct (pr_stable _ _ _ _ _ B i Hm Hn H1) as (G1&G2&G3&G4). intuition congruence.
  - intros y Hy He. destruct (pr_above _ _ _ _ _ A y Hy He), (pr_above _ _ _ _ _ B y Hy He).
    intuition congruence.
  - intros y Hy. destruct (pr_above2 _ _ _ _ _ A y Hy) as (H1&H2&H3).
    destruct (pr_above2 _ _ _ _ _ B y Hy) as (G1&G2&G3).
    split; [congruence|]. split; [eapply st_le_trans; eauto|congruence].
  - intros i. pose proof (pr_eff _ _ _ _ _ A i). pose proof (pr_eff _ _ _ _ _ B i). intuition congruence.
  - rewrite (pr_halted _ _ _ _ _ B). apply A.
Qed.

Lemma PullRel_weaken b b' stk ex s s' : b <= b' -> PullRel b stk ex s s' -> PullRel b' stk ex s s'.
Proof.
  intros Hb A. split; try apply A.
  - intros y Hy. apply A. lia.
  - intros y Hy. apply A. lia.
Qed.

(* dropping the exception when the excepted node did not change either *)
Lemma PullRel_noex b stk w s s' :
  PullRel b stk (Some w) s s' ->
  rlog (getn s' w) = rlog (getn s w) -> srcs (getn s' w) = srcs (getn s w) ->
  PullRel b stk None s s'.
Proof.
  intros A Hr Hs. split; try apply A.
  intros y Hy _. destruct (Nat.eq_dec y w) as [->|Hn]; auto.
  apply (pr_above _ _ _ _ _ A y Hy). intros E. apply Hn. injection E; auto.
Qed.

Lemma PullRel_addex b stk w s s' : PullRel b stk None s s' -> PullRel b stk w s s'.
Proof.
  intros A. split; try apply A. intros y Hy _. apply (pr_above _ _ _ _ _ A y Hy). discriminate.
Qed.

Lemma PullRel_stk b stk stk' ex s s' :
  (forall i, In i stk -> In i stk') -> PullRel b stk ex s s' -> PullRel b stk' ex s s'.
Proof.
  intros Hs A. split; try apply A. intros i Hm Hn. apply A; auto.
Qed.

Lemma PullRel_GoneSame b stk ex s s' : PullRel b stk ex s s' -> GoneSame s s'.
Proof. intros P j. apply dead_view. destruct (pr_eff _ _ _ _ _ P j) as (_&_&_&H&_). exact H. Qed.

(* MarkRel and StableM give a PullRel for any bound *)
Lemma MarkRel_PullRel b stk ex s s' :
  MarkRel s s' -> StableM p s s' -> PullRel b stk ex s s'.
Proof.
  intros M S. split.
  - apply M.
  - intros i. apply (mr_core p _ _ M i).
  - intros i Hm _ Hc. destruct (mr_core p _ _ M i) as (_&_&H1&H2&H3&_).
    split; [apply S; auto|]. auto.
  - intros y _ _. destruct (mr_core p _ _ M y) as (_&_&_&H2&H3&_). auto.
  - intros y _. destruct (mr_core p _ _ M y) as (_&H0&H1&_). split; auto. split; auto. apply M.
  - intros i. destruct (mr_core p _ _ M i) as (_&_&_&_&_&_&H1&H2&H3&H4&H5&H6). repeat split; assumption.
  - apply M.
Qed.

(* ---------------------------------------------------------------- specifications *)
Definition USpec (n : nat) (U : updater) : Prop :=
  forall c j s stk t s' ch,
    j < n -> j < t -> Inv stk t s -> ctx_ok stk c ->
    U c j s = (s', ch) ->
    Inv stk t s' /\ PullRel (S j) stk None s s' /\
    subs (getn s' j) = subs (getn s j) /\
    (memob j = true -> dead s j = false -> st (getn s' j) = Clean /\ cache (getn s' j) <> None) /\
    (ch = true -> forall k, In j (tracked_of (rlog (getn s' k))) -> since (getn s' k) <> []).

(* [Growth]: what a read (or an evaluation) appends to the log of the running body replays to
   the value it returned *)
Definition Growth (c : ctx) (s s' : state) (P : list lentry -> Prop) : Prop :=
  forall w, fst c = Some w -> exists D, rlog (getn s' w) = rlog (getn s w) ++ D /\ P D.

(* the running body statically depends on the node it reads *)
Definition CtxDep (c : ctx) (j : nat) : Prop := forall w, fst c = Some w -> dep p w j.

Definition RSpec (n : nat) (R : reader) : Prop :=
  forall m c j s stk t s' v,
    j < n -> j < t -> effb j = false -> CtxDep c j -> Inv stk t s -> ctx_ok stk c -> TopOK c s ->
    R m c j s = (s', v) ->
    Inv stk t s' /\ TopOK c s' /\ PullRel (S j) stk (fst c) s s' /\
    (memob j = true -> dead s j = false -> st (getn s' j) = Clean /\ cache (getn s' j) = Some v) /\
    (sigb j = true -> dead s j = false -> v = sval (getn s' j)) /\
    Growth c s s' (fun D => forall rest, rlvl p n m (snd c) j (D ++ rest) = Some (v, rest)).

End P.
