(** C20 — proofs about the ambient-state model (Reactive/Ambient.v).

    Main results (all for arbitrary interleavings [list sev] of any number of requests, with
    global or sandboxed arenas):
      scoped_isolation   every probe of request r sees an owner of r (or none once r's own root
                         is gone) — never an owner of another request, never an orphan
      solo_equivalence   the whole component of r (log, owners+contexts, slots, tasks, cleanups,
                         its arena items) after the interleaved run = after the run that keeps
                         r's events only
      drop_frame         dropping r's root changes nothing of r' <> r
      unscoped_counterexample   a bare (unwrapped) task does read another request's context
    under the discipline hypothesis [scoped]: every step that depends on the ambient state sits
    inside a wrapper (ScopedFuture / Owner::with / OwnedView) holding an owner of the task's own
    request. *)
From Coq Require Import List ZArith Bool Arith Lia.
From LV Require Import Reactive.Ambient.
Import ListNotations.

(** * The discipline *)
Section Scoped.
Variable me : rid.
Fixpoint scoped (inside : bool) (i : instr) {struct i} : bool :=
  let scoped_list :=
    fix scoped_list (ins : bool) (l : list instr) {struct l} : bool :=
      match l with
      | [] => true
      | i :: l' => scoped ins i && scoped_list ins l'
      end in
  match i with
  | IAct (AFire _) => true
  | IAct _ => inside
  | IAwait _ => true
  | IChild b => inside && scoped_list true b
  | IWith o b => Nat.eqb (fst o) me && scoped_list true b
  | IObs _ b => scoped_list inside b
  | IScoped WCapture b => inside && scoped_list true b
  | IScoped (WCaptured o _) b => Nat.eqb (fst o) me && scoped_list true b
  | IScoped WBare b => scoped_list inside b
  | ISpawn WCapture b => inside && scoped_list true b
  | ISpawn (WCaptured o _) b => inside && Nat.eqb (fst o) me && scoped_list true b
  | ISpawn WBare _ => false
  | IDropRoot => negb inside
  end.

Fixpoint scoped_list (ins : bool) (l : list instr) {struct l} : bool :=
  match l with
  | [] => true
  | i :: l' => scoped ins i && scoped_list ins l'
  end.
End Scoped.

(** induction principle for the nested type *)
Section InstrInd.
  Variable P : instr -> Prop.
  Variable Q : list instr -> Prop.
  Hypothesis Hnil : Q [].
  Hypothesis Hcons : forall i l, P i -> Q l -> Q (i :: l).
  Hypothesis Hact : forall a, P (IAct a).
  Hypothesis Hawait : forall g, P (IAwait g).
  Hypothesis Hchild : forall b, Q b -> P (IChild b).
  Hypothesis Hwith : forall o b, Q b -> P (IWith o b).
  Hypothesis Hobs : forall s b, Q b -> P (IObs s b).
  Hypothesis Hscoped : forall w b, Q b -> P (IScoped w b).
  Hypothesis Hspawn : forall w b, Q b -> P (ISpawn w b).
  Hypothesis Hdrop : P IDropRoot.

  Fixpoint instr_ind2 (i : instr) : P i :=
    let lst := fix lst (l : list instr) : Q l :=
      match l with [] => Hnil | i :: l' => Hcons i l' (instr_ind2 i) (lst l') end in
    match i with
    | IAct a => Hact a
    | IAwait g => Hawait g
    | IChild b => Hchild b (lst b)
    | IWith o b => Hwith o b (lst b)
    | IObs s b => Hobs s b (lst b)
    | IScoped w b => Hscoped w b (lst b)
    | ISpawn w b => Hspawn w b (lst b)
    | IDropRoot => Hdrop
    end.

  Lemma instr_list_ind2 : forall l, Q l.
  Proof. induction l as [|i l IH]; [exact Hnil | apply Hcons; [apply instr_ind2 | exact IH]]. Qed.
End InstrInd.

(** * Request table and store: basic facts *)
Lemma get_set_same : forall r q w, get_req r (set_req r q w) = q.
Proof. intros; unfold get_req, set_req; cbn. now rewrite Nat.eqb_refl. Qed.
Lemma get_set_other : forall r r' q w, r' <> r -> get_req r' (set_req r q w) = get_req r' w.
Proof.
  intros r r' q w H; unfold get_req, set_req; cbn.
  destruct (Nat.eqb r' r) eqn:E; [apply Nat.eqb_eq in E; contradiction | reflexivity].
Qed.

Lemma get_set_store : forall r s w, get_req r (set_store s w) = get_req r w.
Proof. reflexivity. Qed.

Lemma key_eqb_refl : forall k, key_eqb k k = true.
Proof. intros [a [x y]]; unfold key_eqb; cbn; now rewrite !Nat.eqb_refl. Qed.
Lemma key_eqb_eq : forall a b, key_eqb a b = true -> a = b.
Proof.
  intros [a [x y]] [b [u v]]; unfold key_eqb; cbn; intro H.
  apply andb_prop in H as [H H3]; apply andb_prop in H as [H1 H2].
  apply Nat.eqb_eq in H1, H2, H3; subst; reflexivity.
Qed.
Lemma key_eqb_sym : forall a b, key_eqb a b = key_eqb b a.
Proof.
  intros [a [x y]] [b [u v]]; unfold key_eqb; cbn.
  now rewrite (Nat.eqb_sym a b), (Nat.eqb_sym x u), (Nat.eqb_sym y v).
Qed.

Lemma store_get_del : forall k k' s,
  store_get k (store_del k' s) = if key_eqb k k' then None else store_get k s.
Proof.
  intros k k' s; unfold store_del; induction s as [|[k0 v] s IH]; cbn [filter store_get fst].
  - now destruct (key_eqb k k').
  - destruct (key_eqb k' k0) eqn:E0; cbn [negb store_get].
    + apply key_eqb_eq in E0; subst k0. rewrite IH. destruct (key_eqb k k') eqn:E; reflexivity.
    + rewrite IH. destruct (key_eqb k k0) eqn:E1; [|reflexivity].
      apply key_eqb_eq in E1; subst k0. rewrite key_eqb_sym, E0. reflexivity.
Qed.

Lemma store_get_del_arena : forall k a s,
  store_get k (store_del_arena a s) = if Nat.eqb a (fst k) then None else store_get k s.
Proof.
  intros k a s; unfold store_del_arena; induction s as [|[k0 v] s IH]; cbn [filter store_get fst].
  - now destruct (Nat.eqb a (fst k)).
  - destruct (Nat.eqb a (fst k0)) eqn:E0; cbn [negb store_get].
    + rewrite IH. destruct (key_eqb k k0) eqn:E1; [|reflexivity].
      apply key_eqb_eq in E1; subst k0. now rewrite E0.
    + rewrite IH. destruct (key_eqb k k0) eqn:E1; [|reflexivity].
      apply key_eqb_eq in E1; subst k0. now rewrite E0.
Qed.

Lemma store_get_fold_del : forall a k nodes s,
  store_get k (fold_left (fun s h => store_del (a, h) s) nodes s) =
  if existsb (fun h => key_eqb k (a, h)) nodes then None else store_get k s.
Proof.
  intros a k nodes; induction nodes as [|h t IH]; intro s; cbn; [reflexivity|].
  rewrite IH, store_get_del. destruct (key_eqb k (a, h)); cbn; [|reflexivity].
  now destruct (existsb _ t).
Qed.

(** * Components and the similarity of two worlds on one request *)
(** which store entries are request r's: its own arena (sandboxed), or the keys it named *)
Definition belongs (sb : bool) (r : rid) (k : nat * handle) : bool :=
  if sb then Nat.eqb (fst k) r else Nat.eqb (fst k) 0 && Nat.eqb (fst (snd k)) r.

Definition sim (sb : bool) (r : rid) (w1 w2 : world) : Prop :=
  get_req r w1 = get_req r w2 /\
  forall k, belongs sb r k = true -> store_get k (w_store w1) = store_get k (w_store w2).

Lemma sim_refl : forall sb r w, sim sb r w w.
Proof. split; auto. Qed.
Lemma sim_trans : forall sb r w1 w2 w3, sim sb r w1 w2 -> sim sb r w2 w3 -> sim sb r w1 w3.
Proof. intros sb r w1 w2 w3 [A B] [C D]; split; [congruence | intros k Hk; rewrite B, D; auto]. Qed.
Lemma sim_sym : forall sb r w1 w2, sim sb r w1 w2 -> sim sb r w2 w1.
Proof. intros sb r w1 w2 [A B]; split; [congruence | intros k Hk; rewrite B; auto]. Qed.

(** * Invariant *)
Definition ev_owner (e : event) : nat := match e with (_, _, o, _, _, _) => o end.
Definition hns (sb : bool) (r : rid) : nat := if sb then 0 else r.

Record req_ok (sb : bool) (r : rid) (q : reqst) : Prop := {
  ok_prog : scoped_list r false (q_prog q) = true;
  ok_tasks : Forall (fun t => scoped_list r false (t_prog t) = true) (q_tasks q);
  ok_log : Forall (fun e => ev_owner e = r \/ ev_owner e = 0) (q_log q);
  ok_slots : forall s h, In (s, h) (q_slots q) -> fst h = hns sb r;
  ok_nodes : forall o h, In o (q_owners q) -> In h (o_nodes o) -> fst h = hns sb r
}.

Definition good (sb : bool) (w : world) : Prop := forall r, r <> 0 -> req_ok sb r (get_req r w).

(** the ambient state inside a wrapper of request [me] *)
Definition amb_in (sb : bool) (me : rid) (c : cfg) : Prop :=
  (exists o, a_owner (c_amb c) = Some o /\ fst o = me) /\
  (sb = true -> a_arena (c_amb c) = Some me).

(** * Unfolding [exec] *)
Section Unfold.
  Variables (sb : bool) (me : rid).
  Lemma exec_IChild : forall b c,
    exec sb me (IChild b) c =
    let c1 := fst (new_child c) in
    let o := snd (new_child c) in
    let r := exec_list sb me b (enter_owner sb o c1) in
    block (IWith o) (leave_owner (a_owner (c_amb c1)) (fst r), snd r).
  Proof. reflexivity. Qed.
  Lemma exec_IWith : forall o b c,
    exec sb me (IWith o b) c =
    let r := exec_list sb me b (enter_owner sb o c) in
    block (IWith o) (leave_owner (a_owner (c_amb c)) (fst r), snd r).
  Proof. reflexivity. Qed.
  Lemma exec_IObs : forall s b c,
    exec sb me (IObs s b) c =
    let r := exec_list sb me b (set_obs (Some s) c) in
    block (IObs s) (set_obs (a_obs (c_amb c)) (fst r), snd r).
  Proof. reflexivity. Qed.
  Lemma exec_IScoped : forall w b c,
    exec sb me (IScoped w b) c =
    match resolve_wrap w c with
    | WCaptured o obs =>
        let r := exec_list sb me b (set_obs obs (enter_owner sb o c)) in
        block (IScoped (WCaptured o obs))
              (set_obs (a_obs (c_amb c)) (leave_owner (a_owner (c_amb c)) (fst r)), snd r)
    | _ => block (IScoped WBare) (exec_list sb me b c)
    end.
  Proof. reflexivity. Qed.
  Lemma exec_list_cons : forall i l c,
    exec_list sb me (i :: l) c =
    match exec sb me i c with
    | (c', None) => exec_list sb me l c'
    | (c', Some i') => (c', i' :: l)
    end.
  Proof. reflexivity. Qed.

  Lemma scoped_IChild : forall ins b, scoped me ins (IChild b) = ins && scoped_list me true b.
  Proof. reflexivity. Qed.
  Lemma scoped_IWith : forall ins o b, scoped me ins (IWith o b) = Nat.eqb (fst o) me && scoped_list me true b.
  Proof. reflexivity. Qed.
  Lemma scoped_IObs : forall ins s b, scoped me ins (IObs s b) = scoped_list me ins b.
  Proof. reflexivity. Qed.
  Lemma scoped_IScoped : forall ins w b,
    scoped me ins (IScoped w b) =
    match w with
    | WCapture => ins && scoped_list me true b
    | WCaptured o _ => Nat.eqb (fst o) me && scoped_list me true b
    | WBare => scoped_list me ins b
    end.
  Proof. intros ins [| |] b; reflexivity. Qed.
  Lemma scoped_ISpawn : forall ins w b,
    scoped me ins (ISpawn w b) =
    match w with
    | WCapture => ins && scoped_list me true b
    | WCaptured o _ => ins && Nat.eqb (fst o) me && scoped_list me true b
    | WBare => false
    end.
  Proof. intros ins [| |] b; reflexivity. Qed.
End Unfold.

(** * List helpers *)
Lemma In_set_nth : forall A (l : list A) n x y, In x (set_nth n y l) -> In x l \/ x = y.
Proof.
  induction l as [|a l IH]; intros n x y H.
  - destruct n; cbn in H; destruct H.
  - destruct n; cbn in H.
    + destruct H as [H|H]; [right; auto | left; right; auto].
    + destruct H as [H|H]; [left; left; auto|]. apply IH in H. destruct H; [left; right; auto | right; auto].
Qed.

Lemma In_upd_owner : forall i g os o',
  In o' (upd_owner i g os) -> In o' os \/ exists o0, In o0 os /\ o' = g o0.
Proof.
  intros i g os o' H; unfold upd_owner in H.
  destruct (nth_error os i) as [o0|] eqn:E; [|tauto].
  apply In_set_nth in H as [H|H]; [tauto|].
  right; exists o0; split; [eapply nth_error_In; eauto | auto].
Qed.

Lemma Forall_set_nth : forall A (P : A -> Prop) l n y, Forall P l -> P y -> Forall P (set_nth n y l).
Proof.
  intros A P l n y Hl Hy; apply Forall_forall; intros x Hx.
  apply In_set_nth in Hx as [Hx|Hx]; [eapply Forall_forall; eauto | subst; auto].
Qed.

Lemma cur_owner_some : forall c o, cur_owner c = Some o -> a_owner (c_amb c) = Some o.
Proof.
  intros c o; unfold cur_owner. destruct (a_owner (c_amb c)) as [o'|]; [|discriminate].
  destruct (owner_live (c_w c) o'); [congruence | discriminate].
Qed.
Lemma write_owner_some : forall c o, write_owner c = Some o -> a_owner (c_amb c) = Some o.
Proof.
  intros c o; unfold write_owner. destruct (cur_owner c) as [o'|] eqn:E; [|discriminate].
  destruct (Nat.eqb (fst o') 0); [discriminate|]. intro H; inversion H; subst. now apply cur_owner_some.
Qed.

(** * One-run lemma: a poll of a scoped program touches only its own request *)
Section ExecOk.
Variable sb : bool.
Variable me : rid.
Hypothesis me_nz : me <> 0.

Definition frame (w w' : world) : Prop := forall r, r <> me -> sim sb r w w'.

Record post (inside : bool) (c c' : cfg) : Prop := mkPost {
  p_good : good sb (c_w c');
  p_frame : frame (c_w c) (c_w c');
  p_obs : a_obs (c_amb c') = a_obs (c_amb c);
  p_in : inside = true -> amb_in sb me c ->
         a_owner (c_amb c') = a_owner (c_amb c) /\ amb_in sb me c'
}.

Lemma post_refl : forall ins c, good sb (c_w c) -> post ins c c.
Proof. intros; constructor; auto. intros r _; apply sim_refl. Qed.

Lemma post_trans : forall ins c c1 c2, post ins c c1 -> post ins c1 c2 -> post ins c c2.
Proof.
  intros ins c c1 c2 [G1 F1 O1 I1] [G2 F2 O2 I2]; constructor; auto.
  - intros r Hr; eapply sim_trans; [apply F1 | apply F2]; auto.
  - congruence.
  - intros Hi Ha. destruct (I1 Hi Ha) as [E1 A1]. destruct (I2 Hi A1) as [E2 A2]. split; [congruence | auto].
Qed.

(** a step that leaves the world alone *)
Lemma post_amb : forall ins c c',
  good sb (c_w c) -> w_reqs (c_w c') = w_reqs (c_w c) -> w_store (c_w c') = w_store (c_w c) ->
  a_obs (c_amb c') = a_obs (c_amb c) ->
  (ins = true -> amb_in sb me c -> a_owner (c_amb c') = a_owner (c_amb c) /\ amb_in sb me c') ->
  post ins c c'.
Proof.
  intros ins c c' G W S O I; constructor; auto.
  - intros r Hr. unfold get_req. rewrite W. now apply G.
  - intros r _; split; [unfold get_req; now rewrite W | intros k _; now rewrite S].
Qed.

Lemma post_upd_me : forall ins c f,
  good sb (c_w c) -> req_ok sb me (f (get_req me (c_w c))) -> post ins c (upd_req me f c).
Proof.
  intros ins c f G H; constructor; cbn.
  - intros r Hr. destruct (Nat.eq_dec r me) as [->|Hne].
    + now rewrite get_set_same.
    + rewrite get_set_other by auto. now apply G.
  - intros r Hr; split; [now rewrite get_set_other by auto | reflexivity].
  - reflexivity.
  - intros _ A; split; [reflexivity | exact A].
Qed.

Lemma post_store : forall ins c s',
  good sb (c_w c) ->
  (forall r k, r <> me -> belongs sb r k = true -> store_get k s' = store_get k (w_store (c_w c))) ->
  post ins c (with_w c (set_store s' (c_w c))).
Proof.
  intros ins c s' G H; constructor; cbn.
  - exact G.
  - intros r Hr; split; [reflexivity | intros k Hk; cbn; symmetry; eapply H; eauto].
  - reflexivity.
  - intros _ A; split; [reflexivity | exact A].
Qed.

(** updaters preserve [req_ok] *)
Lemma ok_add_log : forall q e, req_ok sb me q -> (ev_owner e = me \/ ev_owner e = 0) -> req_ok sb me (add_log e q).
Proof.
  intros q e [A B C D E] He; constructor; cbn; auto.
  apply Forall_app; split; auto.
Qed.
Lemma ok_add_fired : forall q g, req_ok sb me q -> req_ok sb me (add_fired g q).
Proof. intros q g [A B C D E]; constructor; cbn; auto. Qed.
Lemma ok_bump : forall q, req_ok sb me q -> req_ok sb me (bump_cnt q).
Proof. intros q [A B C D E]; constructor; cbn; auto. Qed.
Lemma ok_add_slot : forall q s h, req_ok sb me q -> fst h = hns sb me -> req_ok sb me (add_slot s h q).
Proof.
  intros q s h [A B C D E] Hh; constructor; cbn; auto.
  intros s' h' [H|H]; [inversion H; subst; auto | eauto].
Qed.
Lemma ok_add_task : forall q t, req_ok sb me q -> scoped_list me false (t_prog t) = true ->
  req_ok sb me (upd_tasks (fun ts => ts ++ [t]) q).
Proof.
  intros q t [A B C D E] Ht; constructor; cbn; auto.
  apply Forall_app; split; auto.
Qed.
Lemma ok_set_task : forall q n t, req_ok sb me q -> scoped_list me false (t_prog t) = true ->
  req_ok sb me (upd_tasks (set_nth n t) q).
Proof. intros q n t [A B C D E] Ht; constructor; cbn; auto. now apply Forall_set_nth. Qed.
Lemma ok_upd_owner : forall q i g, req_ok sb me q ->
  (forall o h, In h (o_nodes (g o)) -> In h (o_nodes o) \/ fst h = hns sb me) ->
  req_ok sb me (upd_owners (upd_owner i g) q).
Proof.
  intros q i g [A B C D E] Hg; constructor; cbn; auto.
  intros o h Ho Hh. apply In_upd_owner in Ho as [Ho|[o0 [Ho0 ->]]]; [eauto|].
  apply Hg in Hh as [Hh|Hh]; eauto.
Qed.
Lemma ok_new_owner : forall q p, req_ok sb me q ->
  req_ok sb me (upd_owners (fun os => os ++ [mkOwner p [] [] []]) q).
Proof.
  intros q p [A B C D E]; constructor; cbn; auto.
  intros o h Ho Hh. apply in_app_or in Ho as [Ho|[<-|[]]]; [eauto | destruct Hh].
Qed.

Lemma amb_in_owner : forall c o, amb_in sb me c -> a_owner (c_amb c) = Some o -> fst o = me.
Proof. intros c o [[o' [E1 E2]] _] E; congruence. Qed.

Lemma probe_owner : forall c, amb_in sb me c -> read_owner_req c = me \/ read_owner_req c = 0.
Proof.
  intros c A; unfold read_owner_req. destruct (cur_owner c) as [o|] eqn:E; [|auto].
  apply cur_owner_some in E. rewrite (amb_in_owner _ _ A E).
  destruct (Nat.eqb me 0) eqn:E0; [apply Nat.eqb_eq in E0; contradiction | auto].
Qed.

Lemma do_act_ok : forall a c,
  good sb (c_w c) -> amb_in sb me c -> post true c (do_act sb me a c).
Proof.
  intros a c G A. assert (Gme := G me me_nz).
  destruct a as [p kind slot|k v|slot v|id|g]; cbn [do_act].
  - apply post_upd_me; auto. apply ok_add_log; auto. cbn. now apply probe_owner.
  - destruct (write_owner c) as [o|] eqn:E; [|now apply post_refl].
    apply write_owner_some in E. rewrite (amb_in_owner _ _ A E).
    apply post_upd_me; auto. apply ok_upd_owner; auto.
  - unfold alloc_place.
    assert (Hplace : (if sb then match cur_arena sb c with Some a => Some (a, a) | None => None end
                      else Some (0, me)) = None \/
                     (if sb then match cur_arena sb c with Some a => Some (a, a) | None => None end
                      else Some (0, me)) = Some (if sb then me else 0, me)).
    { destruct sb eqn:Esb; [|auto]. unfold cur_arena. destruct A as [_ Ha]. rewrite (Ha eq_refl).
      destruct (q_dropped (get_req me (c_w c))); auto. }
    destruct Hplace as [-> | ->].
    { apply post_amb; auto. }
    set (h := (if sb then 0 else me, q_cnt (get_req me (c_w c)))).
    assert (Hh : fst h = hns sb me) by (unfold h, hns; now destruct sb).
    set (c1 := upd_req me bump_cnt c).
    assert (P1 : post true c c1) by (apply post_upd_me; auto; now apply ok_bump).
    set (c2 := with_w c1 (set_store (((if sb then me else 0, h), v) :: w_store (c_w c1)) (c_w c1))).
    assert (P2 : post true c1 c2).
    { apply post_store; [apply P1|]. intros r k Hr Hk. cbn [store_get].
      destruct (key_eqb k (if sb then me else 0, h)) eqn:Ek; [|reflexivity].
      apply key_eqb_eq in Ek; subst k. exfalso. unfold belongs in Hk. destruct sb; cbn in Hk.
      - apply Nat.eqb_eq in Hk. congruence.
      - apply Nat.eqb_eq in Hk. congruence. }
    set (c3 := upd_req me (add_slot slot h) c2).
    assert (P3 : post true c2 c3).
    { apply post_upd_me; [apply P2|]. apply ok_add_slot; auto. apply P2; auto. }
    assert (P03 : post true c c3) by (eapply post_trans; [eapply post_trans|]; eauto).
    change (post true c match write_owner c3 with
                        | Some o => upd_req (fst o) (upd_owners (upd_owner (snd o)
                              (fun ow => mkOwner (o_parent ow) (o_ctx ow) (h :: o_nodes ow) (o_cleanups ow)))) c3
                        | None => c3
                        end).
    destruct (write_owner c3) as [o|] eqn:E; [|exact P03].
    apply write_owner_some in E.
    assert (A3 : amb_in sb me c3) by (apply P03; auto).
    rewrite (amb_in_owner _ _ A3 E).
    eapply post_trans; [exact P03|]. apply post_upd_me; [apply P03|].
    apply ok_upd_owner; [apply P03; auto|]. cbn. intros o0 h0 [<-|H]; auto.
  - destruct (write_owner c) as [o|] eqn:E; [|now apply post_refl].
    apply write_owner_some in E. rewrite (amb_in_owner _ _ A E).
    apply post_upd_me; auto. apply ok_upd_owner; auto.
  - apply post_upd_me; auto. now apply ok_add_fired.
Qed.

Lemma new_child_ok : forall c,
  good sb (c_w c) -> amb_in sb me c ->
  post true c (fst (new_child c)) /\ fst (snd (new_child c)) = me.
Proof.
  intros c G A. unfold new_child. destruct A as [[o [Eo Ho]] Ha]. rewrite Eo, Ho. cbn [fst snd].
  split; [|reflexivity].
  apply post_upd_me; auto. apply ok_new_owner. now apply G.
Qed.

Lemma existsb_false : forall A (f : A -> bool) l, (forall x, In x l -> f x = false) -> existsb f l = false.
Proof.
  intros A f l H; induction l as [|a l IH]; cbn; [reflexivity|].
  rewrite (H a (or_introl eq_refl)), IH; [reflexivity | intros x Hx; apply H; now right].
Qed.

Lemma drop_ok : forall c, good sb (c_w c) -> post false c (drop_req sb me c).
Proof.
  intros c G. unfold drop_req.
  destruct (q_dropped (get_req me (c_w c))) eqn:Ed; [now apply post_refl|].
  assert (Gme := G me me_nz).
  constructor; cbn [c_w c_amb].
  - intros r Hr. rewrite get_set_store. destruct (Nat.eq_dec r me) as [->|Hne].
    + rewrite get_set_same. destruct Gme as [A B C D E]; constructor; cbn; auto.
    + rewrite get_set_other by auto. now apply G.
  - intros r Hr; split; [rewrite get_set_store; now rewrite get_set_other by auto|].
    intros k Hk. cbn [w_store set_store].
    assert (Hfold : store_get k (fold_left (fun s h => store_del (if sb then me else 0, h) s)
                                  (flat_map o_nodes (q_owners (get_req me (c_w c)))) (w_store (c_w c)))
                    = store_get k (w_store (c_w c))).
    { rewrite store_get_fold_del. rewrite existsb_false; [reflexivity|].
      intros h Hh. cbv beta. destruct (key_eqb k (if sb then me else 0, h)) eqn:Ek; [|exact Ek].
      apply key_eqb_eq in Ek; subst k. exfalso.
      apply in_flat_map in Hh as [o [Ho Hh]].
      assert (Hns := ok_nodes _ _ _ Gme o h Ho Hh).
      unfold belongs, hns in *. destruct sb; cbn in Hk.
      - apply Nat.eqb_eq in Hk. congruence.
      - apply Nat.eqb_eq in Hk. congruence. }
    destruct sb eqn:Esb.
    + rewrite store_get_del_arena. unfold belongs in Hk. apply Nat.eqb_eq in Hk.
      destruct (Nat.eqb me (fst k)) eqn:E; [apply Nat.eqb_eq in E; congruence|]. symmetry; exact Hfold.
    + symmetry; exact Hfold.
  - destruct (a_owner (c_amb c)) as [o|]; [|reflexivity].
    destruct (Nat.eqb (fst o) me && Nat.eqb (snd o) 0); reflexivity.
  - discriminate.
Qed.

(** ** the induction *)
Definition exec_ok_i (i : instr) : Prop :=
  forall ins c, good sb (c_w c) -> scoped me ins i = true -> (ins = true -> amb_in sb me c) ->
    post ins c (fst (exec sb me i c)) /\
    match snd (exec sb me i c) with Some i' => scoped me ins i' = true | None => True end.
Definition exec_ok_l (l : list instr) : Prop :=
  forall ins c, good sb (c_w c) -> scoped_list me ins l = true -> (ins = true -> amb_in sb me c) ->
    post ins c (fst (exec_list sb me l c)) /\ scoped_list me ins (snd (exec_list sb me l c)) = true.

Lemma block_ok : forall mk ins c c' rest (P : Prop),
  (rest <> [] -> scoped me ins (mk rest) = true) ->
  post ins c c' ->
  post ins c (fst (block mk (c', rest))) /\
  match snd (block mk (c', rest)) with Some i' => scoped me ins i' = true | None => True end.
Proof.
  intros mk ins c c' rest _ Hs Hp. unfold block; cbn [fst snd].
  destruct rest as [|x rest]; cbn [fst snd]; split; auto. apply Hs; discriminate.
Qed.

(** entering a wrapper that holds an owner of [me] *)
Lemma enter_amb_in : forall o c, fst o = me -> amb_in sb me (enter_owner sb o c).
Proof.
  intros o c Ho; split; cbn.
  - exists o; auto.
  - intros ->. now rewrite Ho.
Qed.

Lemma scoped_body_ok : forall ins o obs b c saved_o saved_s mk,
  exec_ok_l b ->
  good sb (c_w c) -> fst o = me -> scoped_list me true b = true ->
  saved_o = a_owner (c_amb c) -> saved_s = a_obs (c_amb c) ->
  (ins = true -> amb_in sb me c) ->
  (forall rest, scoped_list me true rest = true -> scoped me ins (mk rest) = true) ->
  let r := exec_list sb me b (set_obs obs (enter_owner sb o c)) in
  post ins c (fst (block mk (set_obs saved_s (leave_owner saved_o (fst r)), snd r))) /\
  match snd (block mk (set_obs saved_s (leave_owner saved_o (fst r)), snd r)) with
  | Some i' => scoped me ins i' = true | None => True end.
Proof.
  intros ins o obs b c saved_o saved_s mk IH G Ho Hb Eo Es Hin Hmk r.
  set (c0 := set_obs obs (enter_owner sb o c)).
  assert (A0 : amb_in sb me c0).
  { destruct (enter_amb_in o c Ho) as [X Y]; split; cbn; auto. }
  destruct (IH true c0 G Hb (fun _ => A0)) as [[G1 F1 O1 I1] S1]. fold r in G1, F1, O1, I1, S1.
  destruct (I1 eq_refl A0) as [E1 A1].
  apply block_ok; [exact True | intros _; now apply Hmk |].
  constructor; cbn.
  - exact G1.
  - exact F1.
  - now subst.
  - intros _ A. split; [now subst|].
    destruct A1 as [_ Ar]. destruct A as [Ao _]. split; cbn; [now subst | exact Ar].
Qed.

Lemma exec_ok_all : (forall i, exec_ok_i i) /\ (forall l, exec_ok_l l).
Proof.
  assert (H : forall i, exec_ok_i i).
  { apply (instr_ind2 exec_ok_i exec_ok_l).
    - (* nil *) intros ins c G _ _. split; [now apply post_refl | reflexivity].
    - (* cons *) intros i l IHi IHl ins c G Hs Hin.
      cbn [scoped_list] in Hs. apply andb_prop in Hs as [Hs1 Hs2].
      destruct (IHi ins c G Hs1 Hin) as [P1 K1]. rewrite exec_list_cons.
      destruct (exec sb me i c) as [c' [i'|]] eqn:E; cbn [fst snd] in *.
      + split; [exact P1 | cbn [scoped_list]; now rewrite K1, Hs2].
      + assert (Hin' : ins = true -> amb_in sb me c').
        { intro Hi. apply P1; auto. }
        destruct (IHl ins c' (p_good _ _ _ P1) Hs2 Hin') as [P2 K2].
        split; [eapply post_trans; eauto | exact K2].
    - (* IAct *) intros a ins c G Hs Hin. cbn [exec fst snd]. split; [|exact I].
      destruct a as [p kind slot|k v|slot v|id|g]; cbn [scoped] in Hs;
        try (subst ins; apply do_act_ok; auto; fail).
      cbn [do_act]. apply post_upd_me; auto. apply ok_add_fired. now apply G.
    - (* IAwait *) intros g ins c G Hs Hin. cbn [exec].
      destruct (fired me g c); cbn [fst snd]; split; auto using post_refl.
    - (* IChild *) intros b IH ins c G Hs Hin. rewrite scoped_IChild in Hs.
      apply andb_prop in Hs as [-> Hb]. specialize (Hin eq_refl).
      rewrite exec_IChild. cbv zeta.
      destruct (new_child_ok c G Hin) as [P1 Ho].
      set (c1 := fst (new_child c)) in *. set (o := snd (new_child c)) in *.
      assert (A1 : amb_in sb me c1) by (apply P1; auto).
      assert (E1 : a_owner (c_amb c1) = a_owner (c_amb c)) by (apply P1; auto).
      pose proof (scoped_body_ok true o (a_obs (c_amb c1)) b c1 (a_owner (c_amb c1)) (a_obs (c_amb c1))
                    (IWith o) IH (p_good _ _ _ P1) Ho Hb eq_refl eq_refl (fun _ => A1)) as Hbody.
      assert (Hmk : forall rest, scoped_list me true rest = true -> scoped me true (IWith o rest) = true).
      { intros rest Hr. rewrite scoped_IWith, Hr, Ho, Nat.eqb_refl. reflexivity. }
      specialize (Hbody Hmk). cbv zeta in Hbody.
      assert (Eobs : set_obs (a_obs (c_amb c1)) (enter_owner sb o c1) = enter_owner sb o c1).
      { unfold set_obs, enter_owner, with_amb; cbn. reflexivity. }
      rewrite Eobs in Hbody.
      assert (Eleave : forall x, set_obs (a_obs (c_amb c1)) (leave_owner (a_owner (c_amb c1)) x)
                                 = leave_owner (a_owner (c_amb c1)) x
                                 \/ True) by (intros; right; exact I).
      clear Eleave.
      (* the body's post-state keeps the observer, so set_obs is the identity on it *)
      destruct Hbody as [Pb Kb].
      set (r := exec_list sb me b (enter_owner sb o c1)) in *.
      assert (Er : set_obs (a_obs (c_amb c1)) (leave_owner (a_owner (c_amb c1)) (fst r))
                   = leave_owner (a_owner (c_amb c1)) (fst r)).
      { destruct (IH true (enter_owner sb o c1) (p_good _ _ _ P1) Hb
                    (fun _ => enter_amb_in o c1 Ho)) as [[_ _ Ob _] _]. fold r in Ob.
        unfold set_obs, leave_owner, with_amb; cbn in *. now rewrite Ob. }
      rewrite Er in Pb, Kb.
      split; [eapply post_trans; eauto | exact Kb].
    - (* IWith *) intros o b IH ins c G Hs Hin. rewrite scoped_IWith in Hs.
      apply andb_prop in Hs as [Ho Hb]. apply Nat.eqb_eq in Ho.
      rewrite exec_IWith. cbv zeta.
      pose proof (scoped_body_ok ins o (a_obs (c_amb c)) b c (a_owner (c_amb c)) (a_obs (c_amb c))
                    (IWith o) IH G Ho Hb eq_refl eq_refl Hin) as Hbody.
      assert (Hmk : forall rest, scoped_list me true rest = true -> scoped me ins (IWith o rest) = true).
      { intros rest Hr. rewrite scoped_IWith, Hr, Ho, Nat.eqb_refl. reflexivity. }
      specialize (Hbody Hmk). cbv zeta in Hbody.
      assert (Eobs : set_obs (a_obs (c_amb c)) (enter_owner sb o c) = enter_owner sb o c) by reflexivity.
      rewrite Eobs in Hbody.
      set (r := exec_list sb me b (enter_owner sb o c)) in *.
      assert (Er : set_obs (a_obs (c_amb c)) (leave_owner (a_owner (c_amb c)) (fst r))
                   = leave_owner (a_owner (c_amb c)) (fst r)).
      { destruct (IH true (enter_owner sb o c) G Hb (fun _ => enter_amb_in o c Ho)) as [[_ _ Ob _] _].
        fold r in Ob. unfold set_obs, leave_owner, with_amb; cbn in *. now rewrite Ob. }
      rewrite Er in Hbody. exact Hbody.
    - (* IObs *) intros s b IH ins c G Hs Hin. rewrite scoped_IObs in Hs.
      rewrite exec_IObs. cbv zeta.
      set (c0 := set_obs (Some s) c).
      assert (Hin0 : ins = true -> amb_in sb me c0) by (intro Hi; apply Hin in Hi; exact Hi).
      destruct (IH ins c0 G Hs Hin0) as [[G1 F1 O1 I1] S1].
      set (r := exec_list sb me b c0) in *.
      apply block_ok; [exact True | intros _; now rewrite scoped_IObs |].
      constructor; cbn; auto.
      all: try (intros Hi A; destruct (I1 Hi (Hin0 Hi)) as [E1 A1]; split; [exact E1 | exact A1]).
    - (* IScoped *) intros w b IH ins c G Hs Hin. rewrite scoped_IScoped in Hs.
      rewrite exec_IScoped.
      destruct w as [|o obs|]; cbn [resolve_wrap].
      + apply andb_prop in Hs as [-> Hb]. specialize (Hin eq_refl).
        destruct Hin as [[o [Eo Ho]] Ha].
        replace (match a_owner (c_amb c) with Some o0 => o0 | None => orphan end) with o by (now rewrite Eo).
        cbv zeta.
        apply (scoped_body_ok true o (a_obs (c_amb c)) b c (a_owner (c_amb c)) (a_obs (c_amb c))
                 (IScoped (WCaptured o (a_obs (c_amb c)))) IH G Ho Hb eq_refl eq_refl).
        * intros _. split; [exists o; auto | exact Ha].
        * intros rest Hr. rewrite scoped_IScoped, Hr, Ho, Nat.eqb_refl. reflexivity.
      + apply andb_prop in Hs as [Ho Hb]. apply Nat.eqb_eq in Ho. cbv zeta.
        apply (scoped_body_ok ins o obs b c (a_owner (c_amb c)) (a_obs (c_amb c))
                 (IScoped (WCaptured o obs)) IH G Ho Hb eq_refl eq_refl Hin).
        intros rest Hr. rewrite scoped_IScoped, Hr, Ho, Nat.eqb_refl. reflexivity.
      + destruct (IH ins c G Hs Hin) as [P1 S1].
        destruct (exec_list sb me b c) as [c' rest] eqn:E; cbn [fst snd] in *.
        apply block_ok; [exact True | intros _; now rewrite scoped_IScoped | exact P1].
    - (* ISpawn *) intros w b IH ins c G Hs Hin. rewrite scoped_ISpawn in Hs.
      cbn [exec fst snd]. split; [|exact I].
      apply post_upd_me; auto. apply ok_add_task; [now apply G|]. cbn [t_prog scoped_list].
      rewrite scoped_IScoped, andb_true_r.
      destruct w as [|o obs|]; cbn [resolve_wrap].
      * apply andb_prop in Hs as [-> Hb]. destruct (Hin eq_refl) as [[o [Eo Ho]] _].
        rewrite Eo, Ho, Nat.eqb_refl, Hb. reflexivity.
      * apply andb_prop in Hs as [Hs Hb]. apply andb_prop in Hs as [_ Ho]. now rewrite Ho, Hb.
      * discriminate.
    - (* IDropRoot *) intros ins c G Hs Hin. cbn [scoped] in Hs.
      destruct ins; [discriminate|]. cbn [exec fst snd]. split; [now apply drop_ok | exact I]. }
  split; [exact H|]. induction l as [|i l IHl].
  - intros ins c G _ _. split; [now apply post_refl | reflexivity].
  - pose proof (H i) as IHi. intros ins c G Hs Hin.
    cbn [scoped_list] in Hs. apply andb_prop in Hs as [Hs1 Hs2].
    destruct (IHi ins c G Hs1 Hin) as [P1 K1]. rewrite exec_list_cons.
    destruct (exec sb me i c) as [c' [i'|]] eqn:E; cbn [fst snd] in *.
    + split; [exact P1 | cbn [scoped_list]; now rewrite K1, Hs2].
    + assert (Hin' : ins = true -> amb_in sb me c') by (intro Hi; apply P1; auto).
      destruct (IHl ins c' (p_good _ _ _ P1) Hs2 Hin') as [P2 K2].
      split; [eapply post_trans; eauto | exact K2].
Qed.
End ExecOk.

(** * Two-run lemma: what a poll does to its own request depends on that request only *)
Section ExecRel.
Variable sb : bool.
Variable me : rid.
Hypothesis me_nz : me <> 0.

(** two configurations that agree on request [me] (and, inside a wrapper, on the ambient owner) *)
Definition rel (ins : bool) (c1 c2 : cfg) : Prop :=
  sim sb me (c_w c1) (c_w c2) /\
  a_obs (c_amb c1) = a_obs (c_amb c2) /\
  (ins = true -> a_owner (c_amb c1) = a_owner (c_amb c2) /\ amb_in sb me c1 /\ amb_in sb me c2).

Lemma sim_upd : forall w1 w2 f, sim sb me w1 w2 ->
  sim sb me (set_req me (f (get_req me w1)) w1) (set_req me (f (get_req me w2)) w2).
Proof.
  intros w1 w2 f [A B]; split; [now rewrite !get_set_same, A | exact B].
Qed.

Lemma rel_upd : forall ins c1 c2 f, rel ins c1 c2 -> rel ins (upd_req me f c1) (upd_req me f c2).
Proof.
  intros ins c1 c2 f [S [O I]]; split; [|split].
  - unfold upd_req; cbn [c_w with_w]. now apply sim_upd.
  - exact O.
  - intro Hi. destruct (I Hi) as [E [A1 A2]]. split; [exact E | split; [exact A1 | exact A2]].
Qed.

Lemma rel_store_cons : forall ins c1 c2 k v, rel ins c1 c2 ->
  rel ins (with_w c1 (set_store ((k, v) :: w_store (c_w c1)) (c_w c1)))
          (with_w c2 (set_store ((k, v) :: w_store (c_w c2)) (c_w c2))).
Proof.
  intros ins c1 c2 k v [[A B] [O I]]; split; [|split].
  - split; [exact A|]. intros k' Hk'; cbn. destruct (key_eqb k' k); [reflexivity | now apply B].
  - exact O.
  - intro Hi. destruct (I Hi) as [E [A1 A2]]. split; [exact E | split; [exact A1 | exact A2]].
Qed.

Lemma rel_cur_owner : forall c1 c2, rel true c1 c2 -> cur_owner c1 = cur_owner c2.
Proof.
  intros c1 c2 [[A _] [_ I]]. destruct (I eq_refl) as [E [A1 _]].
  unfold cur_owner. rewrite <- E. destruct (a_owner (c_amb c1)) as [o|] eqn:Eo; [|reflexivity].
  assert (Ho : fst o = me) by (eapply amb_in_owner; eauto).
  unfold owner_live. now rewrite Ho, A.
Qed.

Lemma rel_owner_get : forall c1 c2 o, rel true c1 c2 -> cur_owner c1 = Some o -> fst o = me.
Proof.
  intros c1 c2 o [_ [_ I]] E. destruct (I eq_refl) as [_ [A1 _]].
  eapply amb_in_owner; eauto. now apply cur_owner_some.
Qed.

Lemma rel_read_ctx : forall c1 c2 k, rel true c1 c2 -> read_ctx c1 k = read_ctx c2 k.
Proof.
  intros c1 c2 k R. unfold read_ctx. rewrite <- (rel_cur_owner _ _ R).
  destruct (cur_owner c1) as [o|] eqn:E; [|reflexivity].
  rewrite (rel_owner_get _ _ _ R E). destruct R as [[A _] _]. now rewrite A.
Qed.

Lemma rel_owner_req : forall c1 c2, rel true c1 c2 -> read_owner_req c1 = read_owner_req c2.
Proof. intros c1 c2 R. unfold read_owner_req. now rewrite (rel_cur_owner _ _ R). Qed.

Lemma rel_write_owner : forall c1 c2, rel true c1 c2 -> write_owner c1 = write_owner c2.
Proof. intros c1 c2 R. unfold write_owner. now rewrite (rel_cur_owner _ _ R). Qed.

Lemma rel_cur_arena : forall c1 c2, rel true c1 c2 -> cur_arena sb c1 = cur_arena sb c2.
Proof.
  intros c1 c2 [[A _] [_ I]]. destruct (I eq_refl) as [_ [[_ A1] [_ A2]]].
  unfold cur_arena. destruct sb; [|reflexivity].
  rewrite (A1 eq_refl), (A2 eq_refl), A. reflexivity.
Qed.

Lemma cur_arena_in : forall c a, amb_in sb me c -> cur_arena sb c = Some a -> a = if sb then me else 0.
Proof.
  intros c a [_ A] H. unfold cur_arena in H. destruct sb.
  - rewrite (A eq_refl) in H. destruct (q_dropped (get_req me (c_w c))); congruence.
  - congruence.
Qed.

Lemma alloc_place_in : forall c, amb_in sb me c ->
  alloc_place sb me c = None \/ alloc_place sb me c = Some (if sb then me else 0, me).
Proof.
  intros c [_ A]. unfold alloc_place, cur_arena. destruct sb; [|auto].
  rewrite (A eq_refl). destruct (q_dropped (get_req me (c_w c))); auto.
Qed.

Lemma rel_read_item : forall c1 c2 s, good sb (c_w c1) -> rel true c1 c2 ->
  read_item sb me c1 s = read_item sb me c2 s.
Proof.
  intros c1 c2 s G R. unfold read_item.
  pose proof R as [[A B] [_ I]]. destruct (I eq_refl) as [_ [A1 A2]].
  rewrite <- A. destruct (assoc_nat s (q_slots (get_req me (c_w c1)))) as [h|] eqn:Es; [|reflexivity].
  unfold read_handle. rewrite <- (rel_cur_arena _ _ R).
  destruct (cur_arena sb c1) as [a|] eqn:Ea; [|reflexivity].
  apply (cur_arena_in _ _ A1) in Ea. subst a.
  assert (Hh : fst h = hns sb me).
  { eapply (ok_slots _ _ _ (G me me_nz) s). clear - Es.
    induction (q_slots (get_req me (c_w c1))) as [|[s' h'] l IH]; cbn in Es; [discriminate|].
    destruct (Nat.eqb s s') eqn:E; [apply Nat.eqb_eq in E; inversion Es; subst; now left | right; auto]. }
  rewrite B; [reflexivity|]. unfold belongs, hns in *. destruct sb; cbn.
  - apply Nat.eqb_refl.
  - rewrite Hh. apply Nat.eqb_refl.
Qed.

Lemma rel_world_only : forall ins c1 c2 c1' c2',
  rel ins c1 c2 -> c_amb c1' = c_amb c1 -> c_amb c2' = c_amb c2 ->
  sim sb me (c_w c1') (c_w c2') -> rel ins c1' c2'.
Proof.
  intros ins c1 c2 c1' c2' [_ [O I]] E1 E2 S; split; [exact S|split].
  - now rewrite E1, E2.
  - intro Hi. destruct (I Hi) as [E [[X1 Y1] [X2 Y2]]]. rewrite E1, E2.
    split; [exact E|]. unfold amb_in. rewrite E1, E2. split; split; auto.
Qed.

Lemma do_act_rel : forall a c1 c2,
  good sb (c_w c1) -> rel true c1 c2 ->
  sim sb me (c_w (do_act sb me a c1)) (c_w (do_act sb me a c2)).
Proof.
  intros a c1 c2 G R.
  destruct a as [p kind slot|k v|slot v|id|g]; cbn [do_act].
  - rewrite (rel_owner_req _ _ R), !(rel_read_ctx _ _ _ R).
    replace (match slot with Some s => read_item sb me c1 s | None => (-9)%Z end)
      with (match slot with Some s => read_item sb me c2 s | None => (-9)%Z end)
      by (destruct slot; [symmetry; now apply rel_read_item | reflexivity]).
    apply (rel_upd true c1 c2 _ R).
  - rewrite <- (rel_write_owner _ _ R). destruct (write_owner c1) as [o|] eqn:E; [|apply R].
    assert (Ho : fst o = me).
    { unfold write_owner in E. destruct (cur_owner c1) as [o'|] eqn:E'; [|discriminate].
      destruct (Nat.eqb (fst o') 0); [discriminate|]. inversion E; subst. eapply rel_owner_get; eauto. }
    rewrite Ho. apply (rel_upd true c1 c2 _ R).
  - pose proof R as [[A B] [_ I]]. destruct (I eq_refl) as [_ [A1 A2]].
    replace (alloc_place sb me c2) with (alloc_place sb me c1)
      by (unfold alloc_place; now rewrite (rel_cur_arena _ _ R)).
    destruct (alloc_place_in c1 A1) as [-> | ->].
    { split; [exact A | exact B]. }
    rewrite <- A.
    set (h := (if sb then 0 else me, q_cnt (get_req me (c_w c1)))).
    pose proof (rel_upd true c1 c2 bump_cnt R) as R1.
    pose proof (rel_store_cons true _ _ (if sb then me else 0, h) v R1) as R2.
    pose proof (rel_upd true _ _ (add_slot slot h) R2) as R3.
    match type of R3 with rel true ?x ?y => set (c31 := x) in *; set (c32 := y) in * end.
    change (sim sb me
      (c_w match write_owner c31 with
           | Some o => upd_req (fst o) (upd_owners (upd_owner (snd o)
                 (fun ow => mkOwner (o_parent ow) (o_ctx ow) (h :: o_nodes ow) (o_cleanups ow)))) c31
           | None => c31 end)
      (c_w match write_owner c32 with
           | Some o => upd_req (fst o) (upd_owners (upd_owner (snd o)
                 (fun ow => mkOwner (o_parent ow) (o_ctx ow) (h :: o_nodes ow) (o_cleanups ow)))) c32
           | None => c32 end)).
    rewrite <- (rel_write_owner _ _ R3). destruct (write_owner c31) as [o|] eqn:E; [|apply R3].
    assert (Ho : fst o = me).
    { unfold write_owner in E. destruct (cur_owner c31) as [o'|] eqn:E'; [|discriminate].
      destruct (Nat.eqb (fst o') 0); [discriminate|]. inversion E; subst. eapply rel_owner_get; eauto. }
    rewrite Ho. apply (rel_upd true c31 c32 _ R3).
  - rewrite <- (rel_write_owner _ _ R). destruct (write_owner c1) as [o|] eqn:E; [|apply R].
    assert (Ho : fst o = me).
    { unfold write_owner in E. destruct (cur_owner c1) as [o'|] eqn:E'; [|discriminate].
      destruct (Nat.eqb (fst o') 0); [discriminate|]. inversion E; subst. eapply rel_owner_get; eauto. }
    rewrite Ho. apply (rel_upd true c1 c2 _ R).
  - apply (rel_upd true c1 c2 _ R).
Qed.

Lemma fst_block : forall mk c rest, fst (block mk (c, rest)) = c.
Proof. intros; unfold block; cbn [fst snd]. now destruct rest. Qed.
Lemma snd_block : forall mk c c' rest, snd (block mk (c, rest)) = snd (block mk (c', rest)).
Proof. intros; unfold block; cbn [fst snd]. now destruct rest. Qed.

(** from similarity of the worlds after a step to [rel] of the configurations, using what the
    one-run lemma says about the ambient state of each side *)
Lemma rel_post : forall ins c1 c2 c1' c2',
  rel ins c1 c2 -> post sb me ins c1 c1' -> post sb me ins c2 c2' ->
  sim sb me (c_w c1') (c_w c2') -> rel ins c1' c2'.
Proof.
  intros ins c1 c2 c1' c2' [_ [O I]] [_ _ O1 I1] [_ _ O2 I2] S; split; [exact S | split].
  - congruence.
  - intro Hi. destruct (I Hi) as [E [A1 A2]].
    destruct (I1 Hi A1) as [E1 A1']. destruct (I2 Hi A2) as [E2 A2'].
    split; [congruence | split; assumption].
Qed.

Lemma new_child_rel : forall c1 c2, rel true c1 c2 ->
  snd (new_child c1) = snd (new_child c2) /\
  sim sb me (c_w (fst (new_child c1))) (c_w (fst (new_child c2))).
Proof.
  intros c1 c2 R. pose proof R as [[A B] [_ I]]. destruct (I eq_refl) as [E [[[o [Eo Ho]] _] _]].
  unfold new_child. rewrite <- (rel_cur_owner _ _ R), <- E, Eo, Ho. cbn [fst snd].
  split; [now rewrite A|]. apply (rel_upd true c1 c2 _ R).
Qed.

Lemma drop_rel : forall c1 c2, sim sb me (c_w c1) (c_w c2) ->
  sim sb me (c_w (drop_req sb me c1)) (c_w (drop_req sb me c2)).
Proof.
  intros c1 c2 [A B]. unfold drop_req. rewrite <- A.
  destruct (q_dropped (get_req me (c_w c1))); [split; assumption|].
  cbn [c_w]. split.
  - rewrite !get_set_store, !get_set_same. reflexivity.
  - intros k Hk. cbn [w_store set_store].
    destruct sb.
    + rewrite !store_get_del_arena. destruct (Nat.eqb me (fst k)); [reflexivity|].
      rewrite !store_get_fold_del. destruct (existsb _ _); [reflexivity | now apply B].
    + rewrite !store_get_fold_del. destruct (existsb _ _); [reflexivity | now apply B].
Qed.

Definition exec_rel_i (i : instr) : Prop :=
  forall ins c1 c2, good sb (c_w c1) -> good sb (c_w c2) -> scoped me ins i = true -> rel ins c1 c2 ->
    snd (exec sb me i c1) = snd (exec sb me i c2) /\
    rel ins (fst (exec sb me i c1)) (fst (exec sb me i c2)).
Definition exec_rel_l (l : list instr) : Prop :=
  forall ins c1 c2, good sb (c_w c1) -> good sb (c_w c2) -> scoped_list me ins l = true -> rel ins c1 c2 ->
    snd (exec_list sb me l c1) = snd (exec_list sb me l c2) /\
    rel ins (fst (exec_list sb me l c1)) (fst (exec_list sb me l c2)).

Lemma rel_amb : forall ins c1 c2, rel ins c1 c2 -> ins = true -> amb_in sb me c1 /\ amb_in sb me c2.
Proof. intros ins c1 c2 [_ [_ I]] Hi. destruct (I Hi) as [_ [A1 A2]]. auto. Qed.

Lemma wrap_rel : forall ins o obs b c1 c2 so1 so2 ss mk,
  exec_rel_l b -> good sb (c_w c1) -> good sb (c_w c2) -> fst o = me -> scoped_list me true b = true ->
  rel ins c1 c2 -> so1 = a_owner (c_amb c1) -> so2 = a_owner (c_amb c2) ->
  let r1 := exec_list sb me b (set_obs obs (enter_owner sb o c1)) in
  let r2 := exec_list sb me b (set_obs obs (enter_owner sb o c2)) in
  snd (block mk (set_obs ss (leave_owner so1 (fst r1)), snd r1)) =
  snd (block mk (set_obs ss (leave_owner so2 (fst r2)), snd r2)) /\
  rel ins (fst (block mk (set_obs ss (leave_owner so1 (fst r1)), snd r1)))
          (fst (block mk (set_obs ss (leave_owner so2 (fst r2)), snd r2))).
Proof.
  intros ins o obs b c1 c2 so1 so2 ss mk IH G1 G2 Ho Hb R E1 E2 r1 r2.
  assert (R0 : rel true (set_obs obs (enter_owner sb o c1)) (set_obs obs (enter_owner sb o c2))).
  { destruct R as [S [O I]]. split; [exact S | split; [reflexivity|]]. intros _.
    split; [reflexivity|]. split; split; cbn; try (exists o; auto); intros ->; now rewrite Ho. }
  destruct (IH true (set_obs obs (enter_owner sb o c1)) (set_obs obs (enter_owner sb o c2)) G1 G2 Hb R0) as [K Rr].
  fold r1 r2 in K, Rr.
  rewrite !fst_block. split.
  - rewrite K. apply snd_block.
  - destruct Rr as [S [O I]]. destruct (I eq_refl) as [_ [[_ Ar1] [_ Ar2]]].
    split; [exact S | split; [reflexivity|]]. intro Hi.
    destruct R as [_ [_ Ic]]. destruct (Ic Hi) as [Ec [[X1 _] [X2 _]]].
    cbn. subst so1 so2. split; [exact Ec|]. split; split; cbn; auto.
Qed.

Lemma exec_rel_all : (forall i, exec_rel_i i) /\ (forall l, exec_rel_l l).
Proof.
  destruct (exec_ok_all sb me me_nz) as [OKi OKl].
  assert (Hcons : forall i l, exec_rel_i i -> exec_rel_l l -> exec_rel_l (i :: l)).
  { intros i l IHi IHl ins c1 c2 G1 G2 Hs R.
    cbn [scoped_list] in Hs. apply andb_prop in Hs as [Hs1 Hs2].
    destruct (IHi ins c1 c2 G1 G2 Hs1 R) as [K Rr].
    destruct (OKi i ins c1 G1 Hs1 (fun Hi => proj1 (rel_amb _ _ _ R Hi))) as [P1 _].
    destruct (OKi i ins c2 G2 Hs1 (fun Hi => proj2 (rel_amb _ _ _ R Hi))) as [P2 _].
    rewrite !exec_list_cons.
    destruct (exec sb me i c1) as [c1' k1] eqn:E1. destruct (exec sb me i c2) as [c2' k2] eqn:E2.
    cbn [fst snd] in *. subst k2. destruct k1 as [i'|]; cbn [fst snd].
    - split; [reflexivity | exact Rr].
    - apply IHl; auto; [apply P1 | apply P2]. }
  assert (H : forall i, exec_rel_i i).
  { apply (instr_ind2 exec_rel_i exec_rel_l).
    - intros ins c1 c2 _ _ _ R. split; [reflexivity | exact R].
    - exact Hcons.
    - (* IAct *) intros a ins c1 c2 G1 G2 Hs R. cbn [exec fst snd]. split; [reflexivity|].
      destruct a as [p kind slot|k v|slot v|id|g]; cbn [scoped] in Hs;
        try (subst ins; eapply rel_post; [exact R | apply do_act_ok; auto; apply (rel_amb _ _ _ R eq_refl)
                                          | apply do_act_ok; auto; apply (rel_amb _ _ _ R eq_refl)
                                          | now apply do_act_rel]; fail).
      cbn [do_act]. now apply rel_upd.
    - (* IAwait *) intros g ins c1 c2 G1 G2 Hs R. cbn [exec].
      replace (fired me g c2) with (fired me g c1) by (unfold fired; destruct R as [[A _] _]; now rewrite A).
      destruct (fired me g c1); cbn [fst snd]; split; auto.
    - (* IChild *) intros b IH ins c1 c2 G1 G2 Hs R. rewrite scoped_IChild in Hs.
      apply andb_prop in Hs as [-> Hb].
      destruct (rel_amb _ _ _ R eq_refl) as [A1 A2].
      destruct (new_child_ok sb me me_nz c1 G1 A1) as [P1 Ho1].
      destruct (new_child_ok sb me me_nz c2 G2 A2) as [P2 Ho2].
      destruct (new_child_rel c1 c2 R) as [Eo S].
      assert (R1 : rel true (fst (new_child c1)) (fst (new_child c2))) by (eapply rel_post; eauto).
      rewrite !exec_IChild. cbv zeta. rewrite <- Eo.
      set (o := snd (new_child c1)) in *. set (d1 := fst (new_child c1)) in *. set (d2 := fst (new_child c2)) in *.
      pose proof (wrap_rel true o (a_obs (c_amb d1)) b d1 d2 (a_owner (c_amb d1)) (a_owner (c_amb d2))
                    (a_obs (c_amb d1)) (IWith o) IH (p_good _ _ _ _ _ P1) (p_good _ _ _ _ _ P2) Ho1 Hb R1
                    eq_refl eq_refl) as W. cbv zeta in W.
      assert (Eobs : a_obs (c_amb d2) = a_obs (c_amb d1)) by (symmetry; apply R1).
      assert (X1 : set_obs (a_obs (c_amb d1)) (enter_owner sb o d1) = enter_owner sb o d1) by reflexivity.
      assert (X2 : set_obs (a_obs (c_amb d1)) (enter_owner sb o d2) = enter_owner sb o d2).
      { rewrite <- Eobs. reflexivity. }
      rewrite X1, X2 in W.
      set (r1 := exec_list sb me b (enter_owner sb o d1)) in *.
      set (r2 := exec_list sb me b (enter_owner sb o d2)) in *.
      assert (Y1 : set_obs (a_obs (c_amb d1)) (leave_owner (a_owner (c_amb d1)) (fst r1))
                   = leave_owner (a_owner (c_amb d1)) (fst r1)).
      { destruct (OKl b true (enter_owner sb o d1) (p_good _ _ _ _ _ P1) Hb
                    (fun _ => enter_amb_in sb me o d1 Ho1)) as [[_ _ Ob _] _]. fold r1 in Ob.
        unfold set_obs, leave_owner, with_amb; cbn in *. now rewrite Ob. }
      assert (Y2 : set_obs (a_obs (c_amb d1)) (leave_owner (a_owner (c_amb d2)) (fst r2))
                   = leave_owner (a_owner (c_amb d2)) (fst r2)).
      { destruct (OKl b true (enter_owner sb o d2) (p_good _ _ _ _ _ P2) Hb
                    (fun _ => enter_amb_in sb me o d2 Ho1)) as [[_ _ Ob _] _]. fold r2 in Ob.
        unfold set_obs, leave_owner, with_amb; cbn in *. now rewrite Ob, Eobs. }
      rewrite Y1, Y2 in W. exact W.
    - (* IWith *) intros o b IH ins c1 c2 G1 G2 Hs R. rewrite scoped_IWith in Hs.
      apply andb_prop in Hs as [Ho Hb]. apply Nat.eqb_eq in Ho.
      rewrite !exec_IWith. cbv zeta.
      pose proof (wrap_rel ins o (a_obs (c_amb c1)) b c1 c2 (a_owner (c_amb c1)) (a_owner (c_amb c2))
                    (a_obs (c_amb c1)) (IWith o) IH G1 G2 Ho Hb R eq_refl eq_refl) as W. cbv zeta in W.
      assert (Eobs : a_obs (c_amb c2) = a_obs (c_amb c1)) by (symmetry; apply R).
      assert (X1 : set_obs (a_obs (c_amb c1)) (enter_owner sb o c1) = enter_owner sb o c1) by reflexivity.
      assert (X2 : set_obs (a_obs (c_amb c1)) (enter_owner sb o c2) = enter_owner sb o c2).
      { rewrite <- Eobs. reflexivity. }
      rewrite X1, X2 in W.
      set (r1 := exec_list sb me b (enter_owner sb o c1)) in *.
      set (r2 := exec_list sb me b (enter_owner sb o c2)) in *.
      assert (Y1 : set_obs (a_obs (c_amb c1)) (leave_owner (a_owner (c_amb c1)) (fst r1))
                   = leave_owner (a_owner (c_amb c1)) (fst r1)).
      { destruct (OKl b true (enter_owner sb o c1) G1 Hb
                    (fun _ => enter_amb_in sb me o c1 Ho)) as [[_ _ Ob _] _]. fold r1 in Ob.
        unfold set_obs, leave_owner, with_amb; cbn in *. now rewrite Ob. }
      assert (Y2 : set_obs (a_obs (c_amb c1)) (leave_owner (a_owner (c_amb c2)) (fst r2))
                   = leave_owner (a_owner (c_amb c2)) (fst r2)).
      { destruct (OKl b true (enter_owner sb o c2) G2 Hb
                    (fun _ => enter_amb_in sb me o c2 Ho)) as [[_ _ Ob _] _]. fold r2 in Ob.
        unfold set_obs, leave_owner, with_amb; cbn in *. now rewrite Ob, Eobs. }
      rewrite Y1, Y2 in W. exact W.
    - (* IObs *) intros s b IH ins c1 c2 G1 G2 Hs R. rewrite scoped_IObs in Hs.
      rewrite !exec_IObs. cbv zeta.
      assert (R0 : rel ins (set_obs (Some s) c1) (set_obs (Some s) c2)).
      { destruct R as [S [O I]]. split; [exact S | split; [reflexivity|]]. intro Hi.
        destruct (I Hi) as [E [[X1 Y1] [X2 Y2]]]. split; [exact E|]. split; split; cbn; auto. }
      destruct (IH ins (set_obs (Some s) c1) (set_obs (Some s) c2) G1 G2 Hs R0) as [K Rr].
      set (r1 := exec_list sb me b (set_obs (Some s) c1)) in *.
      set (r2 := exec_list sb me b (set_obs (Some s) c2)) in *.
      rewrite !fst_block. split; [rewrite K; apply snd_block|].
      destruct Rr as [S [O I]]. split; [exact S | split; [cbn; apply R|]]. intro Hi.
      destruct (I Hi) as [E [[X1 Y1] [X2 Y2]]]. split; [exact E|]. split; split; cbn; auto.
    - (* IScoped *) intros w b IH ins c1 c2 G1 G2 Hs R. rewrite scoped_IScoped in Hs.
      rewrite !exec_IScoped.
      assert (Eobs : a_obs (c_amb c2) = a_obs (c_amb c1)) by (symmetry; apply R).
      destruct w as [|o obs|]; cbn [resolve_wrap].
      + apply andb_prop in Hs as [-> Hb].
        destruct R as [S [O I]]. destruct (I eq_refl) as [E [[[o [Eo Ho]] Y1] A2]].
        rewrite <- E, Eo, Eobs. cbv zeta.
        assert (R' : rel true c1 c2) by (split; [exact S | split; [exact O | exact I]]).
        pose proof (wrap_rel true o (a_obs (c_amb c1)) b c1 c2 (Some o) (Some o) (a_obs (c_amb c1))
                      (IScoped (WCaptured o (a_obs (c_amb c1)))) IH G1 G2 Ho Hb R') as W.
        apply W; [now rewrite Eo | now rewrite <- E, Eo].
      + apply andb_prop in Hs as [Ho Hb]. apply Nat.eqb_eq in Ho. cbv zeta. rewrite Eobs.
        apply (wrap_rel ins o obs b c1 c2 (a_owner (c_amb c1)) (a_owner (c_amb c2)) (a_obs (c_amb c1))
                 (IScoped (WCaptured o obs)) IH G1 G2 Ho Hb R eq_refl eq_refl).
      + destruct (IH ins c1 c2 G1 G2 Hs R) as [K Rr].
        destruct (exec_list sb me b c1) as [c1' k1]. destruct (exec_list sb me b c2) as [c2' k2].
        cbn [fst snd] in *. subst k2. rewrite !fst_block. split; [apply snd_block | exact Rr].
    - (* ISpawn *) intros w b IH ins c1 c2 G1 G2 Hs R. rewrite scoped_ISpawn in Hs.
      assert (Hi : ins = true) by (destruct w; [apply andb_prop in Hs as [? _]; auto
                                               | apply andb_prop in Hs as [Hs _]; apply andb_prop in Hs as [? _]; auto
                                               | discriminate]).
      subst ins. cbn [exec fst snd]. split; [reflexivity|].
      pose proof R as [_ [O I]]. destruct (I eq_refl) as [E [[_ Y1] [_ Y2]]].
      replace (resolve_wrap w c2) with (resolve_wrap w c1)
        by (destruct w; cbn [resolve_wrap]; [now rewrite E, O | reflexivity | reflexivity]).
      replace (if sb then Some (a_arena (c_amb c2)) else None) with (if sb then Some (a_arena (c_amb c1)) else None : option (option nat))
        by (clear - Y1 Y2; destruct sb; [now rewrite (Y1 eq_refl), (Y2 eq_refl) | reflexivity]).
      now apply rel_upd.
    - (* IDropRoot *) intros ins c1 c2 G1 G2 Hs R. cbn [scoped] in Hs.
      destruct ins; [discriminate|]. cbn [exec fst snd]. split; [reflexivity|].
      eapply rel_post; [exact R | now apply drop_ok | now apply drop_ok | apply drop_rel, R]. }
  split; [exact H|]. induction l as [|i l IHl].
  - intros ins c1 c2 _ _ _ R. split; [reflexivity | exact R].
  - apply Hcons; auto.
Qed.
End ExecRel.

(** * Steps of the scheduler *)
Section Sched.
Variable sb : bool.

Lemma nth_error_Forall : forall A (P : A -> Prop) l n x, Forall P l -> nth_error l n = Some x -> P x.
Proof. intros A P l n x H E. eapply Forall_forall; eauto. eapply nth_error_In; eauto. Qed.

Lemma poll_task_ok : forall r t c, r <> 0 -> good sb (c_w c) -> post sb r false c (poll_task sb r t c).
Proof.
  intros r t c Hr G. unfold poll_task.
  destruct (nth_error (q_tasks (get_req r (c_w c))) t) as [tk|] eqn:E; [|now apply post_refl].
  assert (Hs : scoped_list r false (t_prog tk) = true).
  { exact (nth_error_Forall _ (fun t0 => scoped_list r false (t_prog t0) = true) _ t tk (ok_tasks _ _ _ (G r Hr)) E). }
  set (c1 := match t_sb tk with
             | Some a => if sb then with_amb c (mkAmb (a_owner (c_amb c)) (a_obs (c_amb c)) a) else c
             | None => c end).
  assert (P1 : post sb r false c c1).
  { apply post_amb; auto; try discriminate; unfold c1; destruct (t_sb tk); destruct sb; reflexivity. }
  destruct (proj2 (exec_ok_all sb r Hr) (t_prog tk) false c1 (p_good _ _ _ _ _ P1) Hs) as [P2 K2]; [discriminate|].
  destruct (exec_list sb r (t_prog tk) c1) as [c2 rest] eqn:E2. cbn [fst snd] in *.
  eapply post_trans; [exact P1 | eapply post_trans; [exact P2|]].
  apply post_upd_me; auto; [apply P2|]. apply ok_set_task; [apply P2; auto | exact K2].
Qed.

Lemma start_ok : forall r c, good sb (c_w c) -> post sb r false c (start sb r c).
Proof.
  intros r c G. unfold start.
  destruct (q_started (get_req r (c_w c)) || Nat.eqb r 0) eqn:Eg; [now apply post_refl|].
  apply orb_false_elim in Eg as [_ Er]. apply Nat.eqb_neq in Er.
  constructor; cbn [c_w c_amb a_obs].
  - intros r' Hr'. destruct (Nat.eq_dec r' r) as [->|Hne].
    + rewrite get_set_same. pose proof (G r Er) as [A B C D E].
      constructor; cbn.
      * exact A.
      * constructor; [cbn; exact A | constructor].
      * constructor.
      * intros s h [].
      * intros o h [<-|[]] [].
    + rewrite get_set_other by auto. now apply G.
  - intros r' Hr'; split; [now rewrite get_set_other by auto | reflexivity].
  - reflexivity.
  - discriminate.
Qed.

Lemma step_ok : forall e c, sev_req e <> 0 -> good sb (c_w c) -> post sb (sev_req e) false c (step sb e c).
Proof.
  intros [r|r g|r t] c Hr G; cbn [step sev_req] in *.
  - now apply start_ok.
  - destruct (q_started (get_req r (c_w c))); [|now apply post_refl].
    apply post_upd_me; auto. apply ok_add_fired. now apply G.
  - now apply poll_task_ok.
Qed.

(** the orphan pseudo-request is never started and has no task: events addressed to it do nothing *)
Definition inv (c : cfg) : Prop := good sb (c_w c) /\ get_req 0 (c_w c) = orphan_req.

Lemma step_zero : forall e c, sev_req e = 0 -> inv c -> step sb e c = c.
Proof.
  intros [r|r g|r t] c Hr [_ H0]; cbn [step sev_req] in *; subst r.
  - unfold start. now rewrite orb_true_r.
  - now rewrite H0.
  - unfold poll_task. rewrite H0. cbn. now destruct t.
Qed.

Lemma step_inv : forall e c, inv c -> inv (step sb e c).
Proof.
  intros e c Hi. destruct (Nat.eq_dec (sev_req e) 0) as [E|E].
  - now rewrite step_zero.
  - destruct Hi as [G H0]. destruct (step_ok e c E G) as [G' F _ _]. split; [exact G'|].
    destruct (F 0 (fun H => E (eq_sym H))) as [A _]. now rewrite <- A.
Qed.

Lemma run_inv : forall s c, inv c -> inv (run_sched sb s c).
Proof. induction s as [|e s IH]; intros c H; cbn; [exact H | apply IH, step_inv, H]. Qed.

(** ** two runs *)
Lemma step_rel : forall e c1 c2, sev_req e <> 0 -> good sb (c_w c1) -> good sb (c_w c2) ->
  rel sb (sev_req e) false c1 c2 -> rel sb (sev_req e) false (step sb e c1) (step sb e c2).
Proof.
  intros e c1 c2 Hr G1 G2 R.
  eapply rel_post; [exact R | now apply step_ok | now apply step_ok |].
  pose proof R as [[A B] [O _]].
  destruct e as [r|r g|r t]; cbn [step sev_req] in *.
  - unfold start. rewrite <- A.
    destruct (q_started (get_req r (c_w c1)) || Nat.eqb r 0); [split; assumption|].
    cbn [c_w]. split; [now rewrite !get_set_same | exact B].
  - rewrite <- A. destruct (q_started (get_req r (c_w c1))); [|split; assumption].
    apply (rel_upd sb r false c1 c2 _ R).
  - unfold poll_task. rewrite <- A.
    destruct (nth_error (q_tasks (get_req r (c_w c1))) t) as [tk|] eqn:E; [|split; assumption].
    assert (Hs : scoped_list r false (t_prog tk) = true).
    { exact (nth_error_Forall _ (fun t0 => scoped_list r false (t_prog t0) = true) _ t tk (ok_tasks _ _ _ (G1 r Hr)) E). }
    set (d1 := match t_sb tk with
               | Some a => if sb then with_amb c1 (mkAmb (a_owner (c_amb c1)) (a_obs (c_amb c1)) a) else c1
               | None => c1 end).
    set (d2 := match t_sb tk with
               | Some a => if sb then with_amb c2 (mkAmb (a_owner (c_amb c2)) (a_obs (c_amb c2)) a) else c2
               | None => c2 end).
    assert (W1 : c_w d1 = c_w c1) by (unfold d1; destruct (t_sb tk); destruct sb; reflexivity).
    assert (W2 : c_w d2 = c_w c2) by (unfold d2; destruct (t_sb tk); destruct sb; reflexivity).
    assert (Rd : rel sb r false d1 d2).
    { split; [rewrite W1, W2; split; assumption | split; [|discriminate]].
      unfold d1, d2; destruct (t_sb tk); destruct sb; cbn; exact O. }
    assert (Gd1 : good sb (c_w d1)) by now rewrite W1.
    assert (Gd2 : good sb (c_w d2)) by now rewrite W2.
    destruct (proj2 (exec_rel_all sb r Hr) (t_prog tk) false d1 d2 Gd1 Gd2 Hs Rd) as [K Rr].
    destruct (exec_list sb r (t_prog tk) d1) as [e1 rest1]. destruct (exec_list sb r (t_prog tk) d2) as [e2 rest2].
    cbn [fst snd] in *. subst rest2.
    apply (rel_upd sb r false e1 e2 _ Rr).
Qed.

(** the schedule restricted to the events of request r *)
Definition only (r : rid) (s : list sev) : list sev := filter (fun e => Nat.eqb (sev_req e) r) s.

Lemma run_rel : forall r s c1 c2, r <> 0 -> inv c1 -> inv c2 -> rel sb r false c1 c2 ->
  rel sb r false (run_sched sb s c1) (run_sched sb (only r s) c2).
Proof.
  intros r s; induction s as [|e s IH]; intros c1 c2 Hr I1 I2 R; cbn [run_sched fold_left only filter]; [exact R|].
  destruct (Nat.eqb (sev_req e) r) eqn:Ee.
  - apply Nat.eqb_eq in Ee. cbn [fold_left]. apply IH; auto using step_inv.
    subst r. apply step_rel; auto; [apply I1 | apply I2].
  - apply Nat.eqb_neq in Ee. apply IH; auto using step_inv.
    destruct (Nat.eq_dec (sev_req e) 0) as [E0|E0]; [now rewrite step_zero|].
    destruct (step_ok e c1 E0 (proj1 I1)) as [_ F Ob _].
    destruct R as [S [O _]]. split; [|split; [congruence | discriminate]].
    eapply sim_trans; [apply sim_sym, F; auto | exact S].
Qed.
End Sched.

(** * The theorems *)
Definition all_scoped (progs : list (list instr * nat)) : Prop :=
  forall k pg, nth_error progs k = Some pg -> scoped_list (S k) false (fst pg) = true.

Lemma init_inv : forall sb progs, all_scoped progs -> inv sb (init_world progs).
Proof.
  intros sb progs H; split; [|reflexivity].
  intros r Hr. destruct r as [|k]; [contradiction|]. unfold init_world, get_req; cbn.
  destruct (nth_error progs k) as [pg|] eqn:E.
  - constructor; cbn; auto; try (now apply (H k pg E)); try (intros ? ? []).
  - constructor; cbn; auto; try (intros ? ? []).
Qed.

Lemma rel_refl : forall sb r c, rel sb r false c c.
Proof. intros; split; [apply sim_refl | split; [reflexivity | discriminate]]. Qed.

(** every ambient read made by request r's code sees an owner of r — or none, once r's own root
    has been dropped — whatever else was polled in between *)
Theorem scoped_isolation : forall sb progs s r e,
  all_scoped progs -> r <> 0 ->
  In e (q_log (get_req r (c_w (run_sched sb s (init_world progs))))) ->
  ev_owner e = r \/ ev_owner e = 0.
Proof.
  intros sb progs s r e H Hr Hin.
  destruct (run_inv sb s _ (init_inv sb progs H)) as [G _].
  exact (proj1 (Forall_forall _ _) (ok_log _ _ _ (G r Hr)) e Hin).
Qed.

(** projection of the interleaved run on request r = the run of r alone: r's log (every
    context value and arena item its probes saw), owners, contexts, handles, tasks, cleanup log
    and arena entries are those of the schedule that keeps r's events only *)
Theorem solo_equivalence : forall sb progs s r,
  all_scoped progs -> r <> 0 ->
  sim sb r (c_w (run_sched sb s (init_world progs))) (c_w (run_sched sb (only r s) (init_world progs))).
Proof.
  intros sb progs s r H Hr.
  apply (run_rel sb r s _ _ Hr (init_inv sb progs H) (init_inv sb progs H) (rel_refl sb r _)).
Qed.

(** in the solo run the other requests do not exist at all: they are still as initialised *)
Lemma run_frame : forall sb r s c, inv sb c -> Forall (fun e => sev_req e = r) s ->
  forall r', r' <> r -> sim sb r' (c_w c) (c_w (run_sched sb s c)).
Proof.
  intros sb r s; induction s as [|e s IH]; intros c I F r' Hr'; cbn; [apply sim_refl|].
  inversion F as [|? ? He Fs]; subst.
  eapply sim_trans; [|apply IH; auto using step_inv].
  destruct (Nat.eq_dec (sev_req e) 0) as [E0|E0]; [rewrite step_zero; auto; apply sim_refl|].
  destruct (step_ok sb e c E0 (proj1 I)) as [_ Fr _ _]. apply Fr. auto.
Qed.

Lemma only_all : forall r s, Forall (fun e => sev_req e = r) (only r s).
Proof.
  intros r s; unfold only; apply Forall_forall; intros e He.
  apply filter_In in He as [_ He]. now apply Nat.eqb_eq.
Qed.

Theorem solo_is_alone : forall sb progs s r r',
  all_scoped progs -> r' <> r ->
  get_req r' (c_w (run_sched sb (only r s) (init_world progs))) = get_req r' (c_w (init_world progs)).
Proof.
  intros sb progs s r r' H Hr.
  destruct (run_frame sb r (only r s) _ (init_inv sb progs H) (only_all r s) r' Hr) as [A _]. now rewrite A.
Qed.

(** dropping the root owner of r disposes nothing of r' <> r, in any reachable state *)
Theorem drop_frame : forall sb progs s r r',
  all_scoped progs -> r <> 0 -> r' <> r ->
  let c := run_sched sb s (init_world progs) in
  sim sb r' (c_w c) (c_w (drop_req sb r c)).
Proof.
  intros sb progs s r r' H Hr Hr' c.
  destruct (run_inv sb s _ (init_inv sb progs H)) as [G _].
  exact (p_frame _ _ _ _ _ (drop_ok sb r Hr c G) r' Hr').
Qed.

(** ** the discipline is necessary: a bare task reads another request's context *)
Definition bare_progs : list (list instr * nat) :=
  [([IWith (1, 0) [IAct (AProvide 0 101); ISpawn WBare [IAwait 0; IAct (AProbe 7 1 None)]]], 1);
   ([IWith (2, 0) [IAct (AProvide 0 102)]], 0)].
Definition bare_sched : list sev := [SStart 1; SPoll 1 0; SStart 2; SPoll 2 0; SFire 1 0; SPoll 1 1].

Lemma bare_not_scoped : ~ all_scoped bare_progs.
Proof. intro H. specialize (H 0 _ eq_refl). cbn in H. discriminate. Qed.

Lemma bare_leaks : forall sb,
  In (7, 1, 2, 102%Z, (-1)%Z, (-9)%Z)
     (q_log (get_req 1 (c_w (run_sched sb bare_sched (init_world bare_progs))))).
Proof. intros [|]; vm_compute; auto. Qed.

(** a task polled without its wrapper observes the owner and the context value of request 2
    from inside request 1 (global and sandboxed arenas alike) *)
Theorem unscoped_counterexample : forall sb, exists progs s e,
  ~ all_scoped progs /\
  In e (q_log (get_req 1 (c_w (run_sched sb s (init_world progs))))) /\
  ev_owner e = 2 /\ e = (7, 1, 2, 102%Z, (-1)%Z, (-9)%Z).
Proof.
  intro sb. exists bare_progs, bare_sched, (7, 1, 2, 102%Z, (-1)%Z, (-9)%Z).
  split; [exact bare_not_scoped | split; [apply bare_leaks | split; reflexivity]].
Qed.

(** ... while the same task behind its wrapper does not (hypotheses of the theorems satisfiable
    by a program with a real interleaving) *)
Definition wrapped_progs : list (list instr * nat) :=
  [([IWith (1, 0) [IAct (AProvide 0 101); ISpawn WCapture [IAwait 0; IAct (AProbe 7 1 None)]]], 1);
   ([IWith (2, 0) [IAct (AProvide 0 102)]], 0)].
Example wrapped_scoped : all_scoped wrapped_progs.
Proof. intros [|[|k]] pg E; cbn in E; [inversion E; subst; reflexivity | inversion E; subst; reflexivity | destruct k; discriminate]. Qed.
Example wrapped_sees_own : forall sb,
  q_log (get_req 1 (c_w (run_sched sb bare_sched (init_world wrapped_progs))))
  = [(7, 1, 1, 101%Z, (-1)%Z, (-9)%Z)].
Proof. intros [|]; vm_compute; reflexivity. Qed.

(** * The programs of the harness grammar follow the discipline *)
Section ViewInd.
  Variable P : view -> Prop.
  Hypothesis Htext : P VText.
  Hypothesis Hleaf : forall p, P (VLeaf p).
  Hypothesis Hdyn : forall p, P (VDyn p).
  Hypothesis Hel : forall c, P c -> P (VEl c).
  Hypothesis Hseq : forall cs, Forall P cs -> P (VSeq cs).
  Hypothesis Hprov : forall v c, P c -> P (VProvide v c).
  Hypothesis Hsusp : forall g p c, P c -> P (VSuspend g p c).
  Hypothesis Hsuspense : forall fb c, P fb -> P c -> P (VSuspense fb c).
  Hypothesis Hres : forall k g p1 p2 p3 c, P c -> P (VResource k g p1 p2 p3 c).
  Hypothesis Hclean : forall id c, P c -> P (VCleanup id c).
  Hypothesis Halloc : forall s c, P c -> P (VAlloc s c).
  Hypothesis Hitem : forall p s, P (VItem p s).
  Hypothesis Hdynl : forall p, P (VDynL p).
  Fixpoint view_ind2 (v : view) : P v :=
    match v with
    | VText => Htext
    | VLeaf p => Hleaf p
    | VDyn p => Hdyn p
    | VEl c => Hel c (view_ind2 c)
    | VSeq cs => Hseq cs ((fix go (l : list view) : Forall P l :=
                             match l with [] => Forall_nil P | x :: t => Forall_cons x (view_ind2 x) (go t) end) cs)
    | VProvide v c => Hprov v c (view_ind2 c)
    | VSuspend g p c => Hsusp g p c (view_ind2 c)
    | VSuspense fb c => Hsuspense fb c (view_ind2 fb) (view_ind2 c)
    | VResource k g p1 p2 p3 c => Hres k g p1 p2 p3 c (view_ind2 c)
    | VCleanup id c => Hclean id c (view_ind2 c)
    | VAlloc s c => Halloc s c (view_ind2 c)
    | VItem p s => Hitem p s
    | VDynL p => Hdynl p
    end.
End ViewInd.

Lemma scoped_list_app : forall me ins a b,
  scoped_list me ins (a ++ b) = scoped_list me ins a && scoped_list me ins b.
Proof.
  intros me ins a b; induction a as [|i a IH]; cbn [app scoped_list]; [reflexivity|].
  now rewrite IH, andb_assoc.
Qed.

Lemma compile_scoped : forall r v, scoped_list r true (compile r v) = true.
Proof.
  intros r. apply view_ind2; intros; cbn [compile].
  - reflexivity.
  - reflexivity.
  - reflexivity.
  - assumption.
  - induction H as [|x l Hx Hl IH]; cbn [flat_map]; [reflexivity|]. now rewrite scoped_list_app, Hx, IH.
  - cbn [scoped_list]. rewrite scoped_IChild. cbn [scoped_list scoped andb]. now rewrite H.
  - cbn [scoped_list]. rewrite scoped_IObs. cbn [scoped_list]. rewrite scoped_IScoped.
    cbn [scoped_list scoped andb]. now rewrite H.
  - cbn [scoped_list]. rewrite scoped_IChild, scoped_list_app, H, H0. reflexivity.
  - destruct k; cbn [scoped_list].
    + rewrite scoped_IChild, scoped_IObs. cbn [scoped_list]. rewrite scoped_ISpawn, scoped_IScoped.
      cbn [scoped_list scoped andb]. now rewrite H.
    + rewrite scoped_ISpawn, scoped_IObs. cbn [scoped_list]. rewrite scoped_IScoped.
      cbn [scoped_list scoped andb]. now rewrite H.
  - cbn [scoped_list scoped andb]. assumption.
  - cbn [scoped_list scoped andb]. assumption.
  - reflexivity.
  - reflexivity.
Qed.

Lemma main_prog_scoped : forall r v, scoped_list r false (main_prog r v) = true.
Proof.
  intros r v. unfold main_prog. cbn [scoped_list]. rewrite scoped_IWith. cbn [fst scoped_list scoped negb andb].
  rewrite Nat.eqb_refl, scoped_list_app, compile_scoped. cbn [scoped_list andb].
  rewrite scoped_IObs. cbn [scoped_list]. rewrite scoped_IScoped. reflexivity.
Qed.

Lemma nth_mapi_from : forall A B (f : nat -> A -> B) l i k y,
  nth_error (mapi_from i f l) k = Some y -> exists x, nth_error l k = Some x /\ y = f (i + k) x.
Proof.
  intros A B f l; induction l as [|x l IH]; intros i k y H; destruct k; cbn in H; try discriminate.
  - inversion H; subst. exists x; split; [reflexivity | now rewrite Nat.add_0_r].
  - apply IH in H as [x' [E ->]]. exists x'; split; [exact E | f_equal; lia].
Qed.

(** the hypothesis of the theorems holds for every case the harness can be given *)
Theorem harness_progs_scoped : forall views, all_scoped (harness_progs views).
Proof.
  intros views k pg E. unfold harness_progs in E.
  apply nth_mapi_from in E as [v [_ ->]]. cbn [fst]. apply main_prog_scoped.
Qed.

(** * The coarse actions executed by [run_C20] are schedules *)
Lemma run_sched_app : forall sb s1 s2 c, run_sched sb (s1 ++ s2) c = run_sched sb s2 (run_sched sb s1 c).
Proof. intros; unfold run_sched; apply fold_left_app. Qed.

Lemma poll_range_sched : forall sb r n from c,
  poll_range sb r n from c = run_sched sb (map (SPoll r) (seq from n)) c.
Proof. intros sb r n; induction n as [|n IH]; intros from c; cbn; [reflexivity | apply IH]. Qed.

Lemma Forall_map_req : forall (f : nat -> sev) r l, (forall x, sev_req (f x) = r) ->
  Forall (fun e => sev_req e = r) (map f l).
Proof. intros f r l H; apply Forall_forall; intros e He. apply in_map_iff in He as [x [<- _]]. apply H. Qed.

Lemma run_req_sched : forall sb r k c, exists s,
  run_req sb k r c = run_sched sb s c /\ Forall (fun e => sev_req e = r) s.
Proof.
  intros sb r k; induction k as [|k IH]; intro c; cbn [run_req].
  - exists []; split; [reflexivity | constructor].
  - destruct (IH (poll_round sb r c)) as [s [E F]].
    exists (map (SPoll r) (seq 0 (length (q_tasks (get_req r (c_w c))))) ++ s). split.
    + rewrite run_sched_app, E. unfold poll_round. now rewrite poll_range_sched.
    + apply Forall_app; split; [apply Forall_map_req; reflexivity | exact F].
Qed.

Lemma fire_all_sched : forall sb r n c, q_started (get_req r (c_w c)) = true ->
  fire_all r n c = run_sched sb (map (SFire r) (seq 0 n)) c /\
  q_started (get_req r (c_w (fire_all r n c))) = true.
Proof.
  intros sb r n c Hs; induction n as [|n [IH1 IH2]]; [split; [reflexivity | exact Hs]|].
  cbn [fire_all]. rewrite seq_S, map_app, run_sched_app, <- IH1. cbn [map run_sched fold_left step Nat.add].
  rewrite IH2. split; [reflexivity|]. unfold upd_req; cbn [c_w with_w]. rewrite get_set_same. cbn. exact IH2.
Qed.

Lemma apply_coarse_sched : forall sb a c, coarse_req a <> 0 -> exists s,
  apply_coarse sb a c = run_sched sb s c /\ Forall (fun e => sev_req e = coarse_req a) s.
Proof.
  intros sb [r|r g|r|r|r] c Hr; cbn [apply_coarse coarse_req] in *.
  - destruct (q_started (get_req r (c_w c))); [exists []; split; [reflexivity | constructor]|].
    exists [SStart r; SPoll r 0]; split; [reflexivity | repeat constructor].
  - destruct (q_started (get_req r (c_w c))) eqn:Es; cbn [andb]; [|exists []; split; [reflexivity | constructor]].
    destruct (Nat.ltb g (q_ngates (get_req r (c_w c))) && negb (existsb (Nat.eqb g) (q_fired (get_req r (c_w c))))).
    + exists [SFire r g]; split; [cbn; now rewrite Es | repeat constructor].
    + exists []; split; [reflexivity | constructor].
  - destruct (q_started (get_req r (c_w c)) && negb (q_dropped (get_req r (c_w c)))).
    + apply run_req_sched.
    + exists []; split; [reflexivity | constructor].
  - destruct (q_started (get_req r (c_w c))) eqn:Es; cbn [andb]; [|exists []; split; [reflexivity | constructor]].
    destruct (negb (q_dropped (get_req r (c_w c)))); [|exists []; split; [reflexivity | constructor]].
    destruct (fire_all_sched sb r (q_ngates (get_req r (c_w c))) c Es) as [E1 E2].
    set (c1 := fire_all r (q_ngates (get_req r (c_w c))) c) in *.
    set (c2 := upd_req r (add_fired FINAL_GATE) c1).
    destruct (run_req_sched sb r (rounds_for r c2) c2) as [s2 [E3 F3]].
    exists (map (SFire r) (seq 0 (q_ngates (get_req r (c_w c)))) ++ [SFire r FINAL_GATE] ++ s2). split.
    + rewrite !run_sched_app, <- E1. cbn [run_sched fold_left step]. fold c1. rewrite E2. exact E3.
    + apply Forall_app; split; [apply Forall_map_req; reflexivity|].
      apply Forall_app; split; [repeat constructor | exact F3].
  - destruct (q_started (get_req r (c_w c))); [exists []; split; [reflexivity | constructor]|].
    exists [SStart r]; split; [reflexivity | repeat constructor].
Qed.

Definition run_actions (sb : bool) (acts : list coarse) (c : cfg) : cfg :=
  fold_left (fun c a => apply_coarse sb a c) acts c.

Lemma run_actions_sched : forall sb acts c, Forall (fun a => coarse_req a <> 0) acts ->
  exists s, run_actions sb acts c = run_sched sb s c.
Proof.
  intros sb acts; induction acts as [|a acts IH]; intros c F; cbn [run_actions fold_left].
  - exists []; reflexivity.
  - inversion F as [|? ? Ha Fa]; subst.
    destruct (apply_coarse_sched sb a c Ha) as [s1 [E1 _]].
    destruct (IH (apply_coarse sb a c) Fa) as [s2 E2].
    exists (s1 ++ s2). unfold run_actions in *. now rewrite run_sched_app, <- E1, E2.
Qed.

(** what [run_C20] computes for a harness case is an instance of the theorems: every probe it
    logs for request r saw an owner of r *)
Theorem harness_run_isolated : forall sb views acts r e,
  Forall (fun a => coarse_req a <> 0) acts -> r <> 0 ->
  In e (q_log (get_req r (c_w (run_actions sb acts (init_world (harness_progs views)))))) ->
  ev_owner e = r \/ ev_owner e = 0.
Proof.
  intros sb views acts r e F Hr Hin.
  destruct (run_actions_sched sb acts (init_world (harness_progs views)) F) as [s E].
  rewrite E in Hin. eapply scoped_isolation; eauto. apply harness_progs_scoped.
Qed.

From LV Require Import Base.Sexp Reactive.AmbientRun.

Lemma fold_pair_fst : forall (A B X : Type) (f : A -> X -> A) (g : A * B -> X -> B) l a b,
  fst (fold_left (fun st x => (f (fst st) x, g st x)) l (a, b)) = fold_left f l a.
Proof. intros A B X f g l; induction l as [|x l IH]; intros a b; cbn [fold_left fst]; [reflexivity | apply IH]. Qed.

Lemma run_coarse_fst : forall sb views acts,
  fst (run_coarse sb views acts) = run_actions sb acts (init_world (harness_progs views)).
Proof.
  intros sb views acts. unfold run_coarse, run_actions.
  apply (fold_pair_fst cfg (list sexp) coarse (fun c a => apply_coarse sb a c)
           (fun st a => snd st ++ [amb_view sb (length views) (fst st)])).
Qed.

(** * Two variants of the code that break the frame (witnesses, by computation) *)
(** (a) cleaning an owner up by removing its nodes from the arena that is *current* on the
    thread instead of the owner's own arena: dropping request 1 while request 2's arena is
    selected deletes request 2's item at the colliding key, although it lives under a nested
    owner of request 2 *)
Definition drop_req_ambient_arena (r : rid) (c : cfg) : cfg :=
  let w := c_w c in
  let q := get_req r w in
  let nodes := flat_map o_nodes (q_owners q) in
  match cur_arena true c with
  | Some a => mkCfg (set_store (fold_left (fun s h => store_del (a, h) s) nodes (w_store w)) w) (c_amb c)
  | None => c
  end.

Definition nested_progs : list (list instr * nat) :=
  [([IWith (1, 0) [IChild [IAct (AAlloc 1 11)]]], 0);
   ([IWith (2, 0) [IChild [IAct (AAlloc 1 22)]]], 0)].
Definition nested_sched : list sev := [SStart 1; SPoll 1 0; SStart 2; SPoll 2 0].

Lemma nested_scoped : all_scoped nested_progs.
Proof.
  intros [|[|k]] pg E; cbn in E; [inversion E; subst; reflexivity | inversion E; subst; reflexivity
                                  | destruct k; discriminate].
Qed.

Theorem ambient_arena_drop_breaks_frame :
  let c := run_sched true nested_sched (init_world nested_progs) in
  store_get (2, (0, 0)) (w_store (c_w c)) = Some 22%Z /\
  store_get (2, (0, 0)) (w_store (c_w (drop_req_ambient_arena 1 c))) = None /\
  store_get (2, (0, 0)) (w_store (c_w (drop_req true 1 c))) = Some 22%Z.
Proof. vm_compute. repeat split. Qed.

(** (b) a Sandboxed task that holds its arena weakly and re-selects it only while it is alive:
    a plain spawned task of request 1 that outlives request 1's owner then reads request 2's
    item through its own handle; as coded (strong reference, always re-selected) it reads
    nothing *)
Definition poll_task_weak (r : rid) (t : nat) (c : cfg) : cfg :=
  match nth_error (q_tasks (get_req r (c_w c))) t with
  | None => c
  | Some tk =>
      let c1 := match t_sb tk with
                | Some (Some a) =>
                    if q_dropped (get_req a (c_w c)) then c
                    else with_amb c (mkAmb (a_owner (c_amb c)) (a_obs (c_amb c)) (Some a))
                | _ => c
                end in
      let (c2, rest) := exec_list true r (t_prog tk) c1 in
      upd_req r (upd_tasks (set_nth t (mkTask (t_sb tk) rest))) c2
  end.

Definition late_progs : list (list instr * nat) :=
  [([IWith (1, 0) [IAct (AAlloc 1 11); ISpawn WBare [IAwait 0; IAct (AProbe 9 8 (Some 1))]]; IDropRoot], 1);
   ([IWith (2, 0) [IAct (AAlloc 1 22)]], 0)].
(** request 1 finishes (root dropped), request 2 is polled, then request 1's future completes *)
Definition late_sched : list sev := [SStart 1; SPoll 1 0; SStart 2; SPoll 2 0; SFire 1 0].

Theorem weak_sandbox_leaks :
  let c := run_sched true late_sched (init_world late_progs) in
  q_log (get_req 1 (c_w (poll_task_weak 1 1 c))) = [(9, 8, 2, (-1)%Z, (-1)%Z, 22%Z)] /\
  q_log (get_req 1 (c_w (poll_task true 1 1 c))) = [(9, 8, 2, (-1)%Z, (-1)%Z, (-1)%Z)].
Proof. vm_compute. split; reflexivity. Qed.

(** (c) the server-function handler of the integrations as it was coded before the repair of
    F-C20-b: the owner of such a request was `Owner::new()`, i.e. a *child of whichever owner is
    ambient* on the handling thread, not a root.  Next to a page request whose root is ambient,
    the body of the server function (though inside `owner.with(ScopedFuture ..)`) observes the
    page request's owner and root context, and dropping the page's root runs the cleanup the
    server function registered.  With a root of its own ([start], the repaired code) it sees
    its own owner and nothing of request 1. *)
Definition start_child (sb : bool) (r : rid) (c : cfg) : cfg :=
  let q := get_req r (c_w c) in
  mkCfg (set_req r (mkReq (q_prog q) (q_ngates q) true false [] [] 
                          [mkTask (if sb then Some (a_arena (c_amb c)) else None) (q_prog q)] [] 0 [] [])
                 (c_w c))
        (c_amb c).

Definition sfn_progs : list (list instr * nat) :=
  [([IWith (1, 0) [IAct (AProvide 0 101)]], 0);
   ([IChild [IScoped WCapture [IAct (AOnCleanup 7); IAct (AProbe 1 10 None)]]], 0)].

Theorem server_fn_child_owner_leaks : forall sb,
  let c0 := run_sched sb [SStart 1; SPoll 1 0] (init_world sfn_progs) in
  q_log (get_req 2 (c_w (poll_task sb 2 0 (start_child sb 2 c0)))) = [(1, 10, 1, 101%Z, (-1)%Z, (-9)%Z)] /\
  q_clog (get_req 1 (c_w (drop_req sb 1 (poll_task sb 2 0 (start_child sb 2 c0))))) = [(7%Z, 1)] /\
  q_log (get_req 2 (c_w (poll_task sb 2 0 (start sb 2 c0)))) = [(1, 10, 2, (-1)%Z, (-1)%Z, (-9)%Z)] /\
  q_clog (get_req 1 (c_w (drop_req sb 1 (poll_task sb 2 0 (start sb 2 c0))))) = [].
Proof. intros [|]; vm_compute; repeat split. Qed.
