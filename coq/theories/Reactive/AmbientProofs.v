(** C20 — proofs about the ambient-state model (Reactive/Ambient.v).

    Main results (all for arbitrary interleavings [list sev] of any number of requests, with
    global or sandboxed arenas):
      scoped_isolation   every probe of request r sees an owner of r (or none once r's own root
                         is gone) — never an owner of another request, never an orphan
      solo_equivalence   the whole component of r (log, owners+contexts, slots, tasks, cleanups,
                         its arena items) after the interleaved run = after the run that keeps
                         r's events only
      drop_frame         dropping r's root changes nothing of r' <> r
      unscoped_counterexample   a bare (unwrapped) task does read another request's context
    under the discipline hypothesis [scoped]: every step that depends on the ambient state sits
    inside a wrapper (ScopedFuture / Owner::with / OwnedView) holding an owner of the task's own
    request. *)
From Coq Require Import List ZArith Bool Arith Lia.
From LV Require Import Reactive.Ambient.
Import ListNotations.

(** * The discipline *)
Section Scoped.
Variable me : rid.
Fixpoint scoped (inside : bool) (i : instr) {struct i} : bool :=
  let scoped_list :=
    fix scoped_list (ins : bool) (l : list instr) {struct l} : bool :=
      match l with
      | [] => true
      | i :: l' => scoped ins i && scoped_list ins l'
      end in
  match i with
  | IAct (AFire _) => true
  | IAct _ => inside
  | IAwait _ => true
  | IChild b => inside && scoped_list true b
  | IWith o b => Nat.eqb (fst o) me && scoped_list true b
  | IObs _ b => scoped_list inside b
  | IScoped WCapture b => inside && scoped_list true b
  | IScoped (WCaptured o _) b => Nat.eqb (fst o) me && scoped_list true b
  | IScoped WBare b => scoped_list inside b
  | ISpawn WCapture b => inside && scoped_list true b
  | ISpawn (WCaptured o _) b => inside && Nat.eqb (fst o) me && scoped_list true b
  | ISpawn WBare _ => false
  | IDropRoot => negb inside
  end.

Fixpoint scoped_list (ins : bool) (l : list instr) {struct l} : bool :=
  match l with
  | [] => true
  | i :: l' => scoped ins i && scoped_list ins l'
  end.
End Scoped.

(** induction principle for the nested type *)
Section InstrInd.
  Variable P : instr -> Prop.
  Variable Q : list instr -> Prop.
  Hypothesis Hnil : Q [].
  Hypothesis Hcons : forall i l, P i -> Q l -> Q (i :: l).
  Hypothesis Hact : forall a, P (IAct a).
  Hypothesis Hawait : forall g, P (IAwait g).
  Hypothesis Hchild : forall b, Q b -> P (IChild b).
  Hypothesis Hwith : forall o b, Q b -> P (IWith o b).
  Hypothesis Hobs : forall s b, Q b -> P (IObs s b).
  Hypothesis Hscoped : forall w b, Q b -> P (IScoped w b).
  Hypothesis Hspawn : forall w b, Q b -> P (ISpawn w b).
  Hypothesis Hdrop : P IDropRoot.

  Fixpoint instr_ind2 (i : instr) : P i :=
    let lst := fix lst (l : list instr) : Q l :=
      match l with [] => Hnil | i :: l' => Hcons i l' (instr_ind2 i) (lst l') end in
    match i with
    | IAct a => Hact a
    | IAwait g => Hawait g
    | IChild b => Hchild b (lst b)
    | IWith o b => Hwith o b (lst b)
    | IObs s b => Hobs s b (lst b)
    | IScoped w b => Hscoped w b (lst b)
    | ISpawn w b => Hspawn w b (lst b)
    | IDropRoot => Hdrop
    end.

  Lemma instr_list_ind2 : forall l, Q l.
  Proof. induction l as [|i l IH]; [exact Hnil | apply Hcons; [apply instr_ind2 | exact IH]]. Qed.
End InstrInd.

(** * Request table and store: basic facts *)
Lemma get_set_same : forall r q w, get_req r (set_req r q w) = q.
Proof. intros; unfold get_req, set_req; cbn. now rewrite Nat.eqb_refl. Qed.
Lemma get_set_other : forall r r' q w, r' <> r -> get_req r' (set_req r q w) = get_req r' w.
Proof.
  intros r r' q w H; unfold get_req, set_req; cbn.
  destruct (Nat.eqb r' r) eqn:E; [apply Nat.eqb_eq in E; contradiction | reflexivity].
Qed.

Lemma get_set_store : forall r s w, get_req r (set_store s w) = get_req r w.
Proof. reflexivity. Qed.

Lemma key_eqb_refl : forall k, key_eqb k k = true.
Proof. intros [a [x y]]; unfold key_eqb; cbn; now rewrite !Nat.eqb_refl. Qed.
Lemma key_eqb_eq : forall a b, key_eqb a b = true -> a = b.
Proof.
  intros [a [x y]] [b [u v]]; unfold key_eqb; cbn; intro H.
  apply andb_prop in H as [H H3]; apply andb_prop in H as [H1 H2].
  apply Nat.eqb_eq in H1, H2, H3; subst; reflexivity.
Qed.
Lemma key_eqb_sym : forall a b, key_eqb a b = key_eqb b a.
Proof.
  intros [a [x y]] [b [u v]]; unfold key_eqb; cbn.
  now rewrite (Nat.eqb_sym a b), (Nat.eqb_sym x u), (Nat.eqb_sym y v).
Qed.

Lemma store_get_del : forall k k' s,
  store_get k (store_del k' s) = if key_eqb k k' then None else store_get k s.
Proof.
  intros k k' s; unfold store_del; induction s as [|[k0 v] s IH]; cbn [filter store_get fst].
  - now destruct (key_eqb k k').
  - destruct (key_eqb k' k0) eqn:E0; cbn [negb store_get].
    + apply key_eqb_eq in E0; subst k0. rewrite IH. destruct (key_eqb k k') eqn:E; reflexivity.
    + rewrite IH. destruct (key_eqb k k0) eqn:E1; [|reflexivity].
      apply key_eqb_eq in E1; subst k0. rewrite key_eqb_sym, E0. reflexivity.
Qed.

Lemma store_get_del_arena : forall k a s,
  store_get k (store_del_arena a s) = if Nat.eqb a (fst k) then None else store_get k s.
Proof.
  intros k a s; unfold store_del_arena; induction s as [|[k0 v] s IH]; cbn [filter store_get fst].
  - now destruct (Nat.eqb a (fst k)).
  - destruct (Nat.eqb a (fst k0)) eqn:E0; cbn [negb store_get].
    + rewrite IH. destruct (key_eqb k k0) eqn:E1; [|reflexivity].
      apply key_eqb_eq in E1; subst k0. now rewrite E0.
    + rewrite IH. destruct (key_eqb k k0) eqn:E1; [|reflexivity].
      apply key_eqb_eq in E1; subst k0. now rewrite E0.
Qed.

Lemma store_get_fold_del : forall a k nodes s,
  store_get k (fold_left (fun s h => store_del (a, h) s) nodes s) =
  if existsb (fun h => key_eqb k (a, h)) nodes then None else store_get k s.
Proof.
  intros a k nodes; induction nodes as [|h t IH]; intro s; cbn; [reflexivity|].
  rewrite IH, store_get_del. destruct (key_eqb k (a, h)); cbn; [|reflexivity].
  now destruct (existsb _ t).
Qed.

(** * Components and the similarity of two worlds on one request *)
(** which store entries are request r's: its own arena (sandboxed), or the keys it named *)
Definition belongs (sb : bool) (r : rid) (k : nat * handle) : bool :=
  if sb then Nat.eqb (fst k) r else Nat.eqb (fst k) 0 && Nat.eqb (fst (snd k)) r.

Definition sim (sb : bool) (r : rid) (w1 w2 : world) : Prop :=
  get_req r w1 = get_req r w2 /\
  forall k, belongs sb r k = true -> store_get k (w_store w1) = store_get k (w_store w2).

Lemma sim_refl : forall sb r w, sim sb r w w.
Proof. split; auto. Qed.
Lemma sim_trans : forall sb r w1 w2 w3, sim sb r w1 w2 -> sim sb r w2 w3 -> sim sb r w1 w3.
Proof. intros sb r w1 w2 w3 [A B] [C D]; split; [congruence | intros k Hk; rewrite B, D; auto]. Qed.
Lemma sim_sym : forall sb r w1 w2, sim sb r w1 w2 -> sim sb r w2 w1.
Proof. intros sb r w1 w2 [A B]; split; [congruence | intros k Hk; rewrite B; auto]. Qed.

(** * Invariant *)
Definition ev_owner (e : event) : nat := match e with (_, _, o, _, _, _) => o end.
Definition hns (sb : bool) (r : rid) : nat := if sb then 0 else r.

Record req_ok (sb : bool) (r : rid) (q : reqst) : Prop := {
  ok_prog : scoped_list r false (q_prog q) = true;
  ok_tasks : Forall (fun t => scoped_list r false (t_prog t) = true) (q_tasks q);
  ok_log : Forall (fun e => ev_owner e = r \/ ev_owner e = 0) (q_log q);
  ok_slots : forall s h, In (s, h) (q_slots q) -> fst h = hns sb r;
  ok_nodes : forall o h, In o (q_owners q) -> In h (o_nodes o) -> fst h = hns sb r
}.

Definition good (sb : bool) (w : world) : Prop := forall r, r <> 0 -> req_ok sb r (get_req r w).

(** the ambient state inside a wrapper of request [me] *)
Definition amb_in (sb : bool) (me : rid) (c : cfg) : Prop :=
  (exists o, a_owner (c_amb c) = Some o /\ fst o = me) /\
  (sb = true -> a_arena (c_amb c) = Some me).

(** * Unfolding [exec] *)
Section Unfold.
  Variables (sb : bool) (me : rid).
  Lemma exec_IChild : forall b c,
    exec sb me (IChild b) c =
    let c1 := fst (new_child c) in
    let o := snd (new_child c) in
    let r := exec_list sb me b (enter_owner sb o c1) in
    block (IWith o) (leave_owner (a_owner (c_amb c1)) (fst r), snd r).
  Proof. reflexivity. Qed.
  Lemma exec_IWith : forall o b c,
    exec sb me (IWith o b) c =
    let r := exec_list sb me b (enter_owner sb o c) in
    block (IWith o) (leave_owner (a_owner (c_amb c)) (fst r), snd r).
  Proof. reflexivity. Qed.
  Lemma exec_IObs : forall s b c,
    exec sb me (IObs s b) c =
    let r := exec_list sb me b (set_obs (Some s) c) in
    block (IObs s) (set_obs (a_obs (c_amb c)) (fst r), snd r).
  Proof. reflexivity. Qed.
  Lemma exec_IScoped : forall w b c,
    exec sb me (IScoped w b) c =
    match resolve_wrap w c with
    | WCaptured o obs =>
        let r := exec_list sb me b (set_obs obs (enter_owner sb o c)) in
        block (IScoped (WCaptured o obs))
              (set_obs (a_obs (c_amb c)) (leave_owner (a_owner (c_amb c)) (fst r)), snd r)
    | _ => block (IScoped WBare) (exec_list sb me b c)
    end.
  Proof. reflexivity. Qed.
  Lemma exec_list_cons : forall i l c,
    exec_list sb me (i :: l) c =
    match exec sb me i c with
    | (c', None) => exec_list sb me l c'
    | (c', Some i') => (c', i' :: l)
    end.
  Proof. reflexivity. Qed.

  Lemma scoped_IChild : forall ins b, scoped me ins (IChild b) = ins && scoped_list me true b.
  Proof. reflexivity. Qed.
  Lemma scoped_IWith : forall ins o b, scoped me ins (IWith o b) = Nat.eqb (fst o) me && scoped_list me true b.
  Proof. reflexivity. Qed.
  Lemma scoped_IObs : forall ins s b, scoped me ins (IObs s b) = scoped_list me ins b.
  Proof. reflexivity. Qed.
  Lemma scoped_IScoped : forall ins w b,
    scoped me ins (IScoped w b) =
    match w with
    | WCapture => ins && scoped_list me true b
    | WCaptured o _ => Nat.eqb (fst o) me && scoped_list me true b
    | WBare => scoped_list me ins b
    end.
  Proof. intros ins [| |] b; reflexivity. Qed.
  Lemma scoped_ISpawn : forall ins w b,
    scoped me ins (ISpawn w b) =
    match w with
    | WCapture => ins && scoped_list me true b
    | WCaptured o _ => ins && Nat.eqb (fst o) me && scoped_list me true b
    | WBare => false
    end.
  Proof. intros ins [| |] b; reflexivity. Qed.
End Unfold.

(** * List helpers *)
Lemma In_set_nth : forall A (l : list A) n x y, In x (set_nth n y l) -> In x l \/ x = y.
Proof.
  induction l as [|a l IH]; intros n x y H.
  - destruct n; cbn in H; destruct H.
  - destruct n; cbn in H.
    + destruct H as [H|H]; [right; auto | left; right; auto].
    + destruct H as [H|H]; [left; left; auto|]. apply IH in H. destruct H; [left; right; auto | right; auto].
Qed.

Lemma In_upd_owner : forall i g os o',
  In o' (upd_owner i g os) -> In o' os \/ exists o0, In o0 os /\ o' = g o0.
Proof.
  intros i g os o' H; unfold upd_owner in H.
  destruct (nth_error os i) as [o0|] eqn:E; [|tauto].
  apply In_set_nth in H as [H|H]; [tauto|].
  right; exists o0; split; [eapply nth_error_In; eauto | auto].
Qed.

Lemma Forall_set_nth : forall A (P : A -> Prop) l n y, Forall P l -> P y -> Forall P (set_nth n y l).
Proof.
  intros A P l n y Hl Hy; apply Forall_forall; intros x Hx.
  apply In_set_nth in Hx as [Hx|Hx]; [eapply Forall_forall; eauto | subst; auto].
Qed.

Lemma cur_owner_some : forall c o, cur_owner c = Some o -> a_owner (c_amb c) = Some o.
Proof.
  intros c o; unfold cur_owner. destruct (a_owner (c_amb c)) as [o'|]; [|discriminate].
  destruct (owner_live (c_w c) o'); [congruence | discriminate].
Qed.
Lemma write_owner_some : forall c o, write_owner c = Some o -> a_owner (c_amb c) = Some o.
Proof.
  intros c o; unfold write_owner. destruct (cur_owner c) as [o'|] eqn:E; [|discriminate].
  destruct (Nat.eqb (fst o') 0); [discriminate|]. intro H; inversion H; subst. now apply cur_owner_some.
Qed.

(** * One-run lemma: a poll of a scoped program touches only its own request *)
Section ExecOk.
Variable sb : bool.
Variable me : rid.
Hypothesis me_nz : me <> 0.

Definition frame (w w' : world) : Prop := forall r, r <> me -> sim sb r w w'.

Record post (inside : bool) (c c' : cfg) : Prop := mkPost {
  p_good : good sb (c_w c');
  p_frame : frame (c_w c) (c_w c');
  p_obs : a_obs (c_amb c') = a_obs (c_amb c);
  p_in : inside = true -> amb_in sb me c ->
         a_owner (c_amb c') = a_owner (c_amb c) /\ amb_in sb me c'
}.

Lemma post_refl : forall ins c, good sb (c_w c) -> post ins c c.
Proof. intros; constructor; auto. intros r _; apply sim_refl. Qed.

Lemma post_trans : forall ins c c1 c2, post ins c c1 -> post ins c1 c2 -> post ins c c2.
Proof.
  intros ins c c1 c2 [G1 F1 O1 I1] [G2 F2 O2 I2]; constructor; auto.
  - intros r Hr; eapply sim_trans; [apply F1 | apply F2]; auto.
  - congruence.
  - intros Hi Ha. destruct (I1 Hi Ha) as [E1 A1]. destruct (I2 Hi A1) as [E2 A2]. split; [congruence | auto].
Qed.

(** a step that leaves the world alone *)
Lemma post_amb : forall ins c c',
  good sb (c_w c) -> w_reqs (c_w c') = w_reqs (c_w c) -> w_store (c_w c') = w_store (c_w c) ->
  a_obs (c_amb c') = a_obs (c_amb c) ->
  (ins = true -> amb_in sb me c -> a_owner (c_amb c') = a_owner (c_amb c) /\ amb_in sb me c') ->
  post ins c c'.
Proof.
  intros ins c c' G W S O I; constructor; auto.
  - intros r Hr. unfold get_req. rewrite W. now apply G.
  - intros r _; split; [unfold get_req; now rewrite W | intros k _; now rewrite S].
Qed.

Lemma post_upd_me : forall ins c f,
  good sb (c_w c) -> req_ok sb me (f (get_req me (c_w c))) -> post ins c (upd_req me f c).
Proof.
  intros ins c f G H; constructor; cbn.
  - intros r Hr. destruct (Nat.eq_dec r me) as [->|Hne].
    + now rewrite get_set_same.
    + rewrite get_set_other by auto. now apply G.
  - intros r Hr; split; [now rewrite get_set_other by auto | reflexivity].
  - reflexivity.
  - intros _ A; split; [reflexivity | exact A].
Qed.

Lemma post_store : forall ins c s',
  good sb (c_w c) ->
  (forall r k, r <> me -> belongs sb r k = true -> store_get k s' = store_get k (w_store (c_w c))) ->
  post ins c (with_w c (set_store s' (c_w c))).
Proof.
  intros ins c s' G H; constructor; cbn.
  - exact G.
  - intros r Hr; split; [reflexivity | intros k Hk; cbn; symmetry; eapply H; eauto].
  - reflexivity.
  - intros _ A; split; [reflexivity | exact A].
Qed.

(** updaters preserve [req_ok] *)
Lemma ok_add_log : forall q e, req_ok sb me q -> (ev_owner e = me \/ ev_owner e = 0) -> req_ok sb me (add_log e q).
Proof.
  intros q e [A B C D E] He; constructor; cbn; auto.
  apply Forall_app; split; auto.
Qed.
Lemma ok_add_fired : forall q g, req_ok sb me q -> req_ok sb me (add_fired g q).
Proof. intros q g [A B C D E]; constructor; cbn; auto. Qed.
Lemma ok_bump : forall q, req_ok sb me q -> req_ok sb me (bump_cnt q).
Proof. intros q [A B C D E]; constructor; cbn; auto. Qed.
Lemma ok_add_slot : forall q s h, req_ok sb me q -> fst h = hns sb me -> req_ok sb me (add_slot s h q).
Proof.
  intros q s h [A B C D E] Hh; constructor; cbn; auto.
  intros s' h' [H|H]; [inversion H; subst; auto | eauto].
Qed.
Lemma ok_add_task : forall q t, req_ok sb me q -> scoped_list me false (t_prog t) = true ->
  req_ok sb me (upd_tasks (fun ts => ts ++ [t]) q).
Proof.
  intros q t [A B C D E] Ht; constructor; cbn; auto.
  apply Forall_app; split; auto.
Qed.
Lemma ok_set_task : forall q n t, req_ok sb me q -> scoped_list me false (t_prog t) = true ->
  req_ok sb me (upd_tasks (set_nth n t) q).
Proof. intros q n t [A B C D E] Ht; constructor; cbn; auto. now apply Forall_set_nth. Qed.
Lemma ok_upd_owner : forall q i g, req_ok sb me q ->
  (forall o h, In h (o_nodes (g o)) -> In h (o_nodes o) \/ fst h = hns sb me) ->
  req_ok sb me (upd_owners (upd_owner i g) q).
Proof.
  intros q i g [A B C D E] Hg; constructor; cbn; auto.
  intros o h Ho Hh. apply In_upd_owner in Ho as [Ho|[o0 [Ho0 ->]]]; [eauto|].
  apply Hg in Hh as [Hh|Hh]; eauto.
Qed.
Lemma ok_new_owner : forall q p, req_ok sb me q ->
  req_ok sb me (upd_owners (fun os => os ++ [mkOwner p [] [] []]) q).
Proof.
  intros q p [A B C D E]; constructor; cbn; auto.
  intros o h Ho Hh. apply in_app_or in Ho as [Ho|[<-|[]]]; [eauto | destruct Hh].
Qed.

Lemma amb_in_owner : forall c o, amb_in sb me c -> a_owner (c_amb c) = Some o -> fst o = me.
Proof. intros c o [[o' [E1 E2]] _] E; congruence. Qed.

Lemma probe_owner : forall c, amb_in sb me c -> read_owner_req c = me \/ read_owner_req c = 0.
Proof.
  intros c A; unfold read_owner_req. destruct (cur_owner c) as [o|] eqn:E; [|auto].
  apply cur_owner_some in E. rewrite (amb_in_owner _ _ A E).
  destruct (Nat.eqb me 0) eqn:E0; [apply Nat.eqb_eq in E0; contradiction | auto].
Qed.

Lemma do_act_ok : forall a c,
  good sb (c_w c) -> amb_in sb me c -> post true c (do_act sb me a c).
Proof.
  intros a c G A. assert (Gme := G me me_nz).
  destruct a as [p kind slot|k v|slot v|id|g]; cbn [do_act].
  - apply post_upd_me; auto. apply ok_add_log; auto. cbn. now apply probe_owner.
  - destruct (write_owner c) as [o|] eqn:E; [|now apply post_refl].
    apply write_owner_some in E. rewrite (amb_in_owner _ _ A E).
    apply post_upd_me; auto. apply ok_upd_owner; auto.
  - unfold alloc_place.
    assert (Hplace : (if sb then match cur_arena sb c with Some a => Some (a, a) | None => None end
                      else Some (0, me)) = None \/
                     (if sb then match cur_arena sb c with Some a => Some (a, a) | None => None end
                      else Some (0, me)) = Some (if sb then me else 0, me)).
    { destruct sb eqn:Esb; [|auto]. unfold cur_arena. destruct A as [_ Ha]. rewrite (Ha eq_refl).
      destruct (q_dropped (get_req me (c_w c))); auto. }
    destruct Hplace as [-> | ->].
    { apply post_amb; auto. }
    set (h := (if sb then 0 else me, q_cnt (get_req me (c_w c)))).
    assert (Hh : fst h = hns sb me) by (unfold h, hns; now destruct sb).
    set (c1 := upd_req me bump_cnt c).
    assert (P1 : post true c c1) by (apply post_upd_me; auto; now apply ok_bump).
    set (c2 := with_w c1 (set_store (((if sb then me else 0, h), v) :: w_store (c_w c1)) (c_w c1))).
    assert (P2 : post true c1 c2).
    { apply post_store; [apply P1|]. intros r k Hr Hk. cbn [store_get].
      destruct (key_eqb k (if sb then me else 0, h)) eqn:Ek; [|reflexivity].
      apply key_eqb_eq in Ek; subst k. exfalso. unfold belongs in Hk. destruct sb; cbn in Hk.
      - apply Nat.eqb_eq in Hk. congruence.
      - apply Nat.eqb_eq in Hk. congruence. }
    set (c3 := upd_req me (add_slot slot h) c2).
    assert (P3 : post true c2 c3).
    { apply post_upd_me; [apply P2|]. apply ok_add_slot; auto. apply P2; auto. }
    assert (P03 : post true c c3) by (eapply post_trans; [eapply post_trans|]; eauto).
    change (post true c match write_owner c3 with
                        | Some o => upd_req (fst o) (upd_owners (upd_owner (snd o)
                              (fun ow => mkOwner (o_parent ow) (o_ctx ow) (h :: o_nodes ow) (o_cleanups ow)))) c3
                        | None => c3
                        end).
    destruct (write_owner c3) as [o|] eqn:E; [|exact P03].
    apply write_owner_some in E.
    assert (A3 : amb_in sb me c3) by (apply P03; auto).
    rewrite (amb_in_owner _ _ A3 E).
    eapply post_trans; [exact P03|]. apply post_upd_me; [apply P03|].
    apply ok_upd_owner; [apply P03; auto|]. cbn. intros o0 h0 [<-|H]; auto.
  - destruct (write_owner c) as [o|] eqn:E; [|now apply post_refl].
    apply write_owner_some in E. rewrite (amb_in_owner _ _ A E).
    apply post_upd_me; auto. apply ok_upd_owner; auto.
  - apply post_upd_me; auto. now apply ok_add_fired.
Qed.

Lemma new_child_ok : forall c,
  good sb (c_w c) -> amb_in sb me c ->
  post true c (fst (new_child c)) /\ fst (snd (new_child c)) = me.
Proof.
  intros c G A. unfold new_child. destruct A as [[o [Eo Ho]] Ha]. rewrite Eo, Ho. cbn [fst snd].
  split; [|reflexivity].
  apply post_upd_me; auto. apply ok_new_owner. now apply G.
Qed.

Lemma existsb_false : forall A (f : A -> bool) l, (forall x, In x l -> f x = false) -> existsb f l = false.
Proof.
  intros A f l H; induction l as [|a l IH]; cbn; [reflexivity|].
  rewrite (H a (or_introl eq_refl)), IH; [reflexivity | intros x Hx; apply H; now right].
Qed.

Lemma drop_ok : forall c, good sb (c_w c) -> post false c (drop_req sb me c).
Proof.
  intros c G. unfold drop_req.
  destruct (q_dropped (get_req me (c_w c))) eqn:Ed; [now apply post_refl|].
  assert (Gme := G me me_nz).
  constructor; cbn [c_w c_amb].
  - intros r Hr. rewrite get_set_store. destruct (Nat.eq_dec r me) as [->|Hne].
    + rewrite get_set_same. destruct Gme as [A B C D E]; constructor; cbn; auto.
    + rewrite get_set_other by auto. now apply G.
  - intros r Hr; split; [rewrite get_set_store; now rewrite get_set_other by auto|].
    intros k Hk. cbn [w_store set_store].
    assert (Hfold : store_get k (fold_left (fun s h => store_del (if sb then me else 0, h) s)
                                  (flat_map o_nodes (q_owners (get_req me (c_w c)))) (w_store (c_w c)))
                    = store_get k (w_store (c_w c))).
    { rewrite store_get_fold_del. rewrite existsb_false; [reflexivity|].
      intros h Hh. cbv beta. destruct (key_eqb k (if sb then me else 0, h)) eqn:Ek; [|exact Ek].
      apply key_eqb_eq in Ek; subst k. exfalso.
      apply in_flat_map in Hh as [o [Ho Hh]].
      assert (Hns := ok_nodes _ _ _ Gme o h Ho Hh).
      unfold belongs, hns in *. destruct sb; cbn in Hk.
      - apply Nat.eqb_eq in Hk. congruence.
      - apply Nat.eqb_eq in Hk. congruence. }
    destruct sb eqn:Esb.
    + rewrite store_get_del_arena. unfold belongs in Hk. apply Nat.eqb_eq in Hk.
      destruct (Nat.eqb me (fst k)) eqn:E; [apply Nat.eqb_eq in E; congruence|]. symmetry; exact Hfold.
    + symmetry; exact Hfold.
  - destruct (a_owner (c_amb c)) as [o|]; [|reflexivity].
    destruct (Nat.eqb (fst o) me && Nat.eqb (snd o) 0); reflexivity.
  - discriminate.
Qed.

(** ** the induction *)
Definition exec_ok_i (i : instr) : Prop :=
  forall ins c, good sb (c_w c) -> scoped me ins i = true -> (ins = true -> amb_in sb me c) ->
    post ins c (fst (exec sb me i c)) /\
    match snd (exec sb me i c) with Some i' => scoped me ins i' = true | None => True end.
Definition exec_ok_l (l : list instr) : Prop :=
  forall ins c, good sb (c_w c) -> scoped_list me ins l = true -> (ins = true -> amb_in sb me c) ->
    post ins c (fst (exec_list sb me l c)) /\ scoped_list me ins (snd (exec_list sb me l c)) = true.

Lemma block_ok : forall mk ins c c' rest (P : Prop),
  (rest <> [] -> scoped me ins (mk rest) = true) ->
  post ins c c' ->
  post ins c (fst (block mk (c', rest))) /\
  match snd (block mk (c', rest)) with Some i' => scoped me ins i' = true | None => True end.
Proof.
  intros mk ins c c' rest _ Hs Hp. unfold block; cbn [fst snd].
  destruct rest as [|x rest]; cbn [fst snd]; split; auto. apply Hs; discriminate.
Qed.

(** entering a wrapper that holds an owner of [me] *)
Lemma enter_amb_in : forall o c, fst o = me -> amb_in sb me (enter_owner sb o c).
Proof.
  intros o c Ho; split; cbn.
  - exists o; auto.
  - intros ->. now rewrite Ho.
Qed.

Lemma scoped_body_ok : forall ins o obs b c saved_o saved_s mk,
  exec_ok_l b ->
  good sb (c_w c) -> fst o = me -> scoped_list me true b = true ->
  saved_o = a_owner (c_amb c) -> saved_s = a_obs (c_amb c) ->
  (ins = true -> amb_in sb me c) ->
  (forall rest, scoped_list me true rest = true -> scoped me ins (mk rest) = true) ->
  let r := exec_list sb me b (set_obs obs (enter_owner sb o c)) in
  post ins c (fst (block mk (set_obs saved_s (leave_owner saved_o (fst r)), snd r))) /\
  match snd (block mk (set_obs saved_s (leave_owner saved_o (fst r)), snd r)) with
  | Some i' => scoped me ins i' = true | None => True end.
Proof.
  intros ins o obs b c saved_o saved_s mk IH G Ho Hb Eo Es Hin Hmk r.
  set (c0 := set_obs obs (enter_owner sb o c)).
  assert (A0 : amb_in sb me c0).
  { destruct (enter_amb_in o c Ho) as [X Y]; split; cbn; auto. }
  destruct (IH true c0 G Hb (fun _ => A0)) as [[G1 F1 O1 I1] S1]. fold r in G1, F1, O1, I1, S1.
  destruct (I1 eq_refl A0) as [E1 A1].
  apply block_ok; [exact True | intros _; now apply Hmk |].
  constructor; cbn.
  - exact G1.
  - exact F1.
  - now subst.
  - intros _ A. split; [now subst|].
    destruct A1 as [_ Ar]. destruct A as [Ao _]. split; cbn; [now subst | exact Ar].
Qed.

Lemma exec_ok_all : (forall i, exec_ok_i i) /\ (forall l, exec_ok_l l).
Proof.
  assert (H : forall i, exec_ok_i i).
  { apply (instr_ind2 exec_ok_i exec_ok_l).
    - (* nil *) intros ins c G _ _. split; [now apply post_refl | reflexivity].
    - (* cons *) intros i l IHi IHl ins c G Hs Hin.
      cbn [scoped_list] in Hs. apply andb_prop in Hs as [Hs1 Hs2].
      destruct (IHi ins c G Hs1 Hin) as [P1 K1]. rewrite exec_list_cons.
      destruct (exec sb me i c) as [c' [i'|]] eqn:E; cbn [fst snd] in *.
      + split; [exact P1 | cbn [scoped_list]; now rewrite K1, Hs2].
      + assert (Hin' : ins = true -> amb_in sb me c').
        { intro Hi. apply P1; auto. }
        destruct (IHl ins c' (p_good _ _ _ P1) Hs2 Hin') as [P2 K2].
        split; [eapply post_trans; eauto | exact K2].
    - (* IAct *) intros a ins c G Hs Hin. cbn [exec fst snd]. split; [|exact I].
      destruct a as [p kind slot|k v|slot v|id|g]; cbn [scoped] in Hs;
        try (subst ins; apply do_act_ok; auto; fail).
      cbn [do_act]. apply post_upd_me; auto. apply ok_add_fired. now apply G.
    - (* IAwait *) intros g ins c G Hs Hin. cbn [exec].
      destruct (fired me g c); cbn [fst snd]; split; auto using post_refl.
    - (* IChild *) intros b IH ins c G Hs Hin. rewrite scoped_IChild in Hs.
      apply andb_prop in Hs as [-> Hb]. specialize (Hin eq_refl).
      rewrite exec_IChild. cbv zeta.
      destruct (new_child_ok c G Hin) as [P1 Ho].
      set (c1 := fst (new_child c)) in *. set (o := snd (new_child c)) in *.
      assert (A1 : amb_in sb me c1) by (apply P1; auto).
      assert (E1 : a_owner (c_amb c1) = a_owner (c_amb c)) by (apply P1; auto).
      pose proof (scoped_body_ok true o (a_obs (c_amb c1)) b c1 (a_owner (c_amb c1)) (a_obs (c_amb c1))
                    (IWith o) IH (p_good _ _ _ P1) Ho Hb eq_refl eq_refl (fun _ => A1)) as Hbody.
      assert (Hmk : forall rest, scoped_list me true rest = true -> scoped me true (IWith o rest) = true).
      { intros rest Hr. rewrite scoped_IWith, Hr, Ho, Nat.eqb_refl. reflexivity. }
      specialize (Hbody Hmk). cbv zeta in Hbody.
      assert (Eobs : set_obs (a_obs (c_amb c1)) (enter_owner sb o c1) = enter_owner sb o c1).
      { unfold set_obs, enter_owner, with_amb; cbn. reflexivity. }
      rewrite Eobs in Hbody.
      assert (Eleave : forall x, set_obs (a_obs (c_amb c1)) (leave_owner (a_owner (c_amb c1)) x)
                                 = leave_owner (a_owner (c_amb c1)) x
                                 \/ True) by (intros; right; exact I).
      clear Eleave.
      (* the body's post-state keeps the observer, so set_obs is the identity on it *)
      destruct Hbody as [Pb Kb].
      set (r := exec_list sb me b (enter_owner sb o c1)) in *.
      assert (Er : set_obs (a_obs (c_amb c1)) (leave_owner (a_owner (c_amb c1)) (fst r))
                   = leave_owner (a_owner (c_amb c1)) (fst r)).
      { destruct (IH true (enter_owner sb o c1) (p_good _ _ _ P1) Hb
                    (fun _ => enter_amb_in o c1 Ho)) as [[_ _ Ob _] _]. fold r in Ob.
        unfold set_obs, leave_owner, with_amb; cbn in *. now rewrite Ob. }
      rewrite Er in Pb, Kb.
      split; [eapply post_trans; eauto | exact Kb].
    - (* IWith *) intros o b IH ins c G Hs Hin. rewrite scoped_IWith in Hs.
      apply andb_prop in Hs as [Ho Hb]. apply Nat.eqb_eq in Ho.
      rewrite exec_IWith. cbv zeta.
      pose proof (scoped_body_ok ins o (a_obs (c_amb c)) b c (a_owner (c_amb c)) (a_obs (c_amb c))
                    (IWith o) IH G Ho Hb eq_refl eq_refl Hin) as Hbody.
      assert (Hmk : forall rest, scoped_list me true rest = true -> scoped me ins (IWith o rest) = true).
      { intros rest Hr. rewrite scoped_IWith, Hr, Ho, Nat.eqb_refl. reflexivity. }
      specialize (Hbody Hmk). cbv zeta in Hbody.
      assert (Eobs : set_obs (a_obs (c_amb c)) (enter_owner sb o c) = enter_owner sb o c) by reflexivity.
      rewrite Eobs in Hbody.
      set (r := exec_list sb me b (enter_owner sb o c)) in *.
      assert (Er : set_obs (a_obs (c_amb c)) (leave_owner (a_owner (c_amb c)) (fst r))
                   = leave_owner (a_owner (c_amb c)) (fst r)).
      { destruct (IH true (enter_owner sb o c) G Hb (fun _ => enter_amb_in o c Ho)) as [[_ _ Ob _] _].
        fold r in Ob. unfold set_obs, leave_owner, with_amb; cbn in *. now rewrite Ob. }
      rewrite Er in Hbody. exact Hbody.
    - (* IObs *) intros s b IH ins c G Hs Hin. rewrite scoped_IObs in Hs.
      rewrite exec_IObs. cbv zeta.
      set (c0 := set_obs (Some s) c).
      assert (Hin0 : ins = true -> amb_in sb me c0) by (intro Hi; apply Hin in Hi; exact Hi).
      destruct (IH ins c0 G Hs Hin0) as [[G1 F1 O1 I1] S1].
      set (r := exec_list sb me b c0) in *.
      apply block_ok; [exact True | intros _; now rewrite scoped_IObs |].
      constructor; cbn; auto.
      all: try (intros Hi A; destruct (I1 Hi (Hin0 Hi)) as [E1 A1]; split; [exact E1 | exact A1]).
    - (* IScoped *) intros w b IH ins c G Hs Hin. rewrite scoped_IScoped in Hs.
      rewrite exec_IScoped.
      destruct w as [|o obs|]; cbn [resolve_wrap].
      + apply andb_prop in Hs as [-> Hb]. specialize (Hin eq_refl).
        destruct Hin as [[o [Eo Ho]] Ha].
        replace (match a_owner (c_amb c) with Some o0 => o0 | None => orphan end) with o by (now rewrite Eo).
        cbv zeta.
        apply (scoped_body_ok true o (a_obs (c_amb c)) b c (a_owner (c_amb c)) (a_obs (c_amb c))
                 (IScoped (WCaptured o (a_obs (c_amb c)))) IH G Ho Hb eq_refl eq_refl).
        * intros _. split; [exists o; auto | exact Ha].
        * intros rest Hr. rewrite scoped_IScoped, Hr, Ho, Nat.eqb_refl. reflexivity.
      + apply andb_prop in Hs as [Ho Hb]. apply Nat.eqb_eq in Ho. cbv zeta.
        apply (scoped_body_ok ins o obs b c (a_owner (c_amb c)) (a_obs (c_amb c))
                 (IScoped (WCaptured o obs)) IH G Ho Hb eq_refl eq_refl Hin).
        intros rest Hr. rewrite scoped_IScoped, Hr, Ho, Nat.eqb_refl. reflexivity.
      + destruct (IH ins c G Hs Hin) as [P1 S1].
        destruct (exec_list sb me b c) as [c' rest] eqn:E; cbn [fst snd] in *.
        apply block_ok; [exact True | intros _; now rewrite scoped_IScoped | exact P1].
    - (* ISpawn *) intros w b IH ins c G Hs Hin. rewrite scoped_ISpawn in Hs.
      cbn [exec fst snd]. split; [|exact I].
      apply post_upd_me; auto. apply ok_add_task; [now apply G|]. cbn [t_prog scoped_list].
      rewrite scoped_IScoped, andb_true_r.
      destruct w as [|o obs|]; cbn [resolve_wrap].
      * apply andb_prop in Hs as [-> Hb]. destruct (Hin eq_refl) as [[o [Eo Ho]] _].
        rewrite Eo, Ho, Nat.eqb_refl, Hb. reflexivity.
      * apply andb_prop in Hs as [Hs Hb]. apply andb_prop in Hs as [_ Ho]. now rewrite Ho, Hb.
      * discriminate.
    - (* IDropRoot *) intros ins c G Hs Hin. cbn [scoped] in Hs.
      destruct ins; [discriminate|]. cbn [exec fst snd]. split; [now apply drop_ok | exact I]. }
  split; [exact H|]. induction l as [|i l IHl].
  - intros ins c G _ _. split; [now apply post_refl | reflexivity].
  - pose proof (H i) as IHi. intros ins c G Hs Hin.
    cbn [scoped_list] in Hs. apply andb_prop in Hs as [Hs1 Hs2].
    destruct (IHi ins c G Hs1 Hin) as [P1 K1]. rewrite exec_list_cons.
    destruct (exec sb me i c) as [c' [i'|]] eqn:E; cbn [fst snd] in *.
    + split; [exact P1 | cbn [scoped_list]; now rewrite K1, Hs2].
    + assert (Hin' : ins = true -> amb_in sb me c') by (intro Hi; apply P1; auto).
      destruct (IHl ins c' (p_good _ _ _ P1) Hs2 Hin') as [P2 K2].
      split; [eapply post_trans; eauto | exact K2].
Qed.
End ExecOk.

(** * Two-run lemma: what a poll does to its own request depends on that request only *)
Section ExecRel.
Variable sb : bool.
Variable me : rid.
Hypothesis me_nz : me <> 0.

(** two configurations that agree on request [me] (and, inside a wrapper, on the ambient owner) *)
Definition rel (ins : bool) (c1 c2 : cfg) : Prop :=
  sim sb me (c_w c1) (c_w c2) /\
  a_obs (c_amb c1) = a_obs (c_amb c2) /\
  (ins = true -> a_owner (c_amb c1) = a_owner (c_amb c2) /\ amb_in sb me c1 /\ amb_in sb me c2).

Lemma sim_upd : forall w1 w2 f, sim sb me w1 w2 ->
  sim sb me (set_req me (f (get_req me w1)) w1) (set_req me (f (get_req me w2)) w2).
Proof.
  intros w1 w2 f [A B]; split; [now rewrite !get_set_same, A | exact B].
Qed.

Lemma rel_upd : forall ins c1 c2 f, rel ins c1 c2 -> rel ins (upd_req me f c1) (upd_req me f c2).
Proof.
  intros ins c1 c2 f [S [O I]]; split; [|split].
  - unfold upd_req; cbn [c_w with_w]. now apply sim_upd.
  - exact O.
  - intro Hi. destruct (I Hi) as [E [A1 A2]]. split; [exact E | split; [exact A1 | exact A2]].
Qed.

Lemma rel_store_cons : forall ins c1 c2 k v, rel ins c1 c2 ->
  rel ins (with_w c1 (set_store ((k, v) :: w_store (c_w c1)) (c_w c1)))
          (with_w c2 (set_store ((k, v) :: w_store (c_w c2)) (c_w c2))).
Proof.
  intros ins c1 c2 k v [[A B] [O I]]; split; [|split].
  - split; [exact A|]. intros k' Hk'; cbn. destruct (key_eqb k' k); [reflexivity | now apply B].
  - exact O.
  - intro Hi. destruct (I Hi) as [E [A1 A2]]. split; [exact E | split; [exact A1 | exact A2]].
Qed.

Lemma rel_cur_owner : forall c1 c2, rel true c1 c2 -> cur_owner c1 = cur_owner c2.
Proof.
  intros c1 c2 [[A _] [_ I]]. destruct (I eq_refl) as [E [A1 _]].
  unfold cur_owner. rewrite <- E. destruct (a_owner (c_amb c1)) as [o|] eqn:Eo; [|reflexivity].
  assert (Ho : fst o = me) by (eapply amb_in_owner; eauto).
  unfold owner_live. now rewrite Ho, A.
Qed.

Lemma rel_owner_get : forall c1 c2 o, rel true c1 c2 -> cur_owner c1 = Some o -> fst o = me.
Proof.
  intros c1 c2 o [_ [_ I]] E. destruct (I eq_refl) as [_ [A1 _]].
  eapply amb_in_owner; eauto. now apply cur_owner_some.
Qed.

Lemma rel_read_ctx : forall c1 c2 k, rel true c1 c2 -> read_ctx c1 k = read_ctx c2 k.
Proof.
  intros c1 c2 k R. unfold read_ctx. rewrite <- (rel_cur_owner _ _ R).
  destruct (cur_owner c1) as [o|] eqn:E; [|reflexivity].
  rewrite (rel_owner_get _ _ _ R E). destruct R as [[A _] _]. now rewrite A.
Qed.

Lemma rel_owner_req : forall c1 c2, rel true c1 c2 -> read_owner_req c1 = read_owner_req c2.
Proof. intros c1 c2 R. unfold read_owner_req. now rewrite (rel_cur_owner _ _ R). Qed.

Lemma rel_write_owner : forall c1 c2, rel true c1 c2 -> write_owner c1 = write_owner c2.
Proof. intros c1 c2 R. unfold write_owner. now rewrite (rel_cur_owner _ _ R). Qed.

Lemma rel_cur_arena : forall c1 c2, rel true c1 c2 -> cur_arena sb c1 = cur_arena sb c2.
Proof.
  intros c1 c2 [[A _] [_ I]]. destruct (I eq_refl) as [_ [[_ A1] [_ A2]]].
  unfold cur_arena. destruct sb; [|reflexivity].
  rewrite (A1 eq_refl), (A2 eq_refl), A. reflexivity.
Qed.

Lemma cur_arena_in : forall c a, amb_in sb me c -> cur_arena sb c = Some a -> a = if sb then me else 0.
Proof.
  intros c a [_ A] H. unfold cur_arena in H. destruct sb.
  - rewrite (A eq_refl) in H. destruct (q_dropped (get_req me (c_w c))); congruence.
  - congruence.
Qed.

Lemma alloc_place_in : forall c, amb_in sb me c ->
  alloc_place sb me c = None \/ alloc_place sb me c = Some (if sb then me else 0, me).
Proof.
  intros c [_ A]. unfold alloc_place, cur_arena. destruct sb; [|auto].
  rewrite (A eq_refl). destruct (q_dropped (get_req me (c_w c))); auto.
Qed.

Lemma rel_read_item : forall c1 c2 s, good sb (c_w c1) -> rel true c1 c2 ->
  read_item sb me c1 s = read_item sb me c2 s.
Proof.
  intros c1 c2 s G R. unfold read_item.
  pose proof R as [[A B] [_ I]]. destruct (I eq_refl) as [_ [A1 A2]].
  rewrite <- A. destruct (assoc_nat s (q_slots (get_req me (c_w c1)))) as [h|] eqn:Es; [|reflexivity].
  unfold read_handle. rewrite <- (rel_cur_arena _ _ R).
  destruct (cur_arena sb c1) as [a|] eqn:Ea; [|reflexivity].
  apply (cur_arena_in _ _ A1) in Ea. subst a.
  assert (Hh : fst h = hns sb me).
  { eapply (ok_slots _ _ _ (G me me_nz) s). clear - Es.
    induction (q_slots (get_req me (c_w c1))) as [|[s' h'] l IH]; cbn in Es; [discriminate|].
    destruct (Nat.eqb s s') eqn:E; [apply Nat.eqb_eq in E; inversion Es; subst; now left | right; auto]. }
  rewrite B; [reflexivity|]. unfold belongs, hns in *. destruct sb; cbn.
  - apply Nat.eqb_refl.
  - rewrite Hh. apply Nat.eqb_refl.
Qed.

Lemma rel_world_only : forall ins c1 c2 c1' c2',
  rel ins c1 c2 -> c_amb c1' = c_amb c1 -> c_amb c2' = c_amb c2 ->
  sim sb me (c_w c1') (c_w c2') -> rel ins c1' c2'.
Proof.
  intros ins c1 c2 c1' c2' [_ [O I]] E1 E2 S; split; [exact S|split].
  - now rewrite E1, E2.
  - intro Hi. destruct (I Hi) as [E [[X1 Y1] [X2 Y2]]]. rewrite E1, E2.
    split; [exact E|]. unfold amb_in. rewrite E1, E2. split; split; auto.
Qed.

Lemma do_act_rel : forall a c1 c2,
  good sb (c_w c1) -> rel true c1 c2 ->
  sim sb me (c_w (do_act sb me a c1)) (c_w (do_act sb me a c2)).
Proof.
  intros a c1 c2 G R.
  destruct a as [p kind slot|k v|slot v|id|g]; cbn [do_act].
  - rewrite (rel_owner_req _ _ R), !(rel_read_ctx _ _ _ R).
    replace (match slot with Some s => read_item sb me c1 s | None => (-9)%Z end)
      with (match slot with Some s => read_item sb me c2 s | None => (-9)%Z end)
      by (destruct slot; [symmetry; now apply rel_read_item | reflexivity]).
    apply (rel_upd true c1 c2 _ R).
  - rewrite <- (rel_write_owner _ _ R). destruct (write_owner c1) as [o|] eqn:E; [|apply R].
    assert (Ho : fst o = me).
    { unfold write_owner in E. destruct (cur_owner c1) as [o'|] eqn:E'; [|discriminate].
      destruct (Nat.eqb (fst o') 0); [discriminate|]. inversion E; subst. eapply rel_owner_get; eauto. }
    rewrite Ho. apply (rel_upd true c1 c2 _ R).
  - pose proof R as [[A B] [_ I]]. destruct (I eq_refl) as [_ [A1 A2]].
    replace (alloc_place sb me c2) with (alloc_place sb me c1)
      by (unfold alloc_place; now rewrite (rel_cur_arena _ _ R)).
    destruct (alloc_place_in c1 A1) as [-> | ->].
    { split; [exact A | exact B]. }
    rewrite <- A.
    set (h := (if sb then 0 else me, q_cnt (get_req me (c_w c1)))).
    pose proof (rel_upd true c1 c2 bump_cnt R) as R1.
    pose proof (rel_store_cons true _ _ (if sb then me else 0, h) v R1) as R2.
    pose proof (rel_upd true _ _ (add_slot slot h) R2) as R3.
    match type of R3 with rel true ?x ?y => set (c31 := x) in *; set (c32 := y) in * end.
    change (sim sb me
      (c_w match write_owner c31 with
           | Some o => upd_req (fst o) (upd_owners (upd_owner (snd o)
                 (fun ow => mkOwner (o_parent ow) (o_ctx ow) (h :: o_nodes ow) (o_cleanups ow)))) c31
           | None => c31 end)
      (c_w match write_owner c32 with
           | Some o => upd_req (fst o) (upd_owners (upd_owner (snd o)
                 (fun ow => mkOwner (o_parent ow) (o_ctx ow) (h :: o_nodes ow) (o_cleanups ow)))) c32
           | None => c32 end)).
    rewrite <- (rel_write_owner _ _ R3). destruct (write_owner c31) as [o|] eqn:E; [|apply R3].
    assert (Ho : fst o = me).
    { unfold write_owner in E. destruct (cur_owner c31) as [o'|] eqn:E'; [|discriminate].
      destruct (Nat.eqb (fst o') 0); [discriminate|]. inversion E; subst. eapply rel_owner_get; eauto. }
    rewrite Ho. apply (rel_upd true c31 c32 _ R3).
  - rewrite <- (rel_write_owner _ _ R). destruct (write_owner c1) as [o|] eqn:E; [|apply R].
    assert (Ho : fst o = me).
    { unfold write_owner in E. destruct (cur_owner c1) as [o'|] eqn:E'; [|discriminate].
      destruct (Nat.eqb (fst o') 0); [discriminate|]. inversion E; subst. eapply rel_owner_get; eauto. }
    rewrite Ho. apply (rel_upd true c1 c2 _ R).
  - apply (rel_upd true c1 c2 _ R).
Qed.

Lemma fst_block : forall mk c rest, fst (block mk (c, rest)) = c.
Proof. intros; unfold block; cbn [fst snd]. now destruct rest. Qed.
Lemma snd_block : forall mk c c' rest, snd (block mk (c, rest)) = snd (block mk (c', rest)).
Proof. intros; unfold block; cbn [fst snd]. now destruct rest. Qed.

(** from similarity of the worlds after a step to [rel] of the configurations, using what the
    one-run lemma says about the ambient state of each side *)
Lemma rel_post : forall ins c1 c2 c1' c2',
  rel ins c1 c2 -> post sb me ins c1 c1' -> post sb me ins c2 c2' ->
  sim sb me (c_w c1') (c_w c2') -> rel ins c1' c2'.
Proof.
  intros ins c1 c2 c1' c2' [_ [O I]] [_ _ O1 I1] [_ _ O2 I2] S; split; [exact S | split].
  - congruence.
  - intro Hi. destruct (I Hi) as [E [A1 A2]].
    destruct (I1 Hi A1) as [E1 A1']. destruct (I2 Hi A2) as [E2 A2'].
    split; [congruence | split; assumption].
Qed.

Lemma new_child_rel : forall c1 c2, rel true c1 c2 ->
  snd (new_child c1) = snd (new_child c2) /\
  sim sb me (c_w (fst (new_child c1))) (c_w (fst (new_child c2))).
Proof.
  intros c1 c2 R. pose proof R as [[A B] [_ I]]. destruct (I eq_refl) as [E [[[o [Eo Ho]] _] _]].
  unfold new_child. rewrite <- (rel_cur_owner _ _ R), <- E, Eo, Ho. cbn [fst snd].
  split; [now rewrite A|]. apply (rel_upd true c1 c2 _ R).
Qed.

Lemma drop_rel : forall c1 c2, sim sb me (c_w c1) (c_w c2) ->
  sim sb me (c_w (drop_req sb me c1)) (c_w (drop_req sb me c2)).
Proof.
  intros c1 c2 [A B]. unfold drop_req. rewrite <- A.
  destruct (q_dropped (get_req me (c_w c1))); [split; assumption|].
  cbn [c_w]. split.
  - rewrite !get_set_store, !get_set_same. reflexivity.
  - intros k Hk. cbn [w_store set_store].
    destruct sb.
    + rewrite !store_get_del_arena. destruct (Nat.eqb me (fst k)); [reflexivity|].
      rewrite !store_get_fold_del. destruct (existsb _ _); [reflexivity | now apply B].
    + rewrite !store_get_fold_del. destruct (existsb _ _); [reflexivity | now apply B].
Qed.

Definition exec_rel_i (i : instr) : Prop :=
  forall ins c1 c2, good sb (c_w c1) -> good sb (c_w c2) -> scoped me ins i = true -> rel ins c1 c2 ->
    snd (exec sb me i c1) = snd (exec sb me i c2) /\
    rel ins (fst (exec sb me i c1)) (fst (exec sb me i c2)).
Definition exec_rel_l (l : list instr) : Prop :=
  forall ins c1 c2, good sb (c_w c1) -> good sb (c_w c2) -> scoped_list me ins l = true -> rel ins c1 c2 ->
    snd (exec_list sb me l c1) = snd (exec_list sb me l c2) /\
    rel ins (fst (exec_list sb me l c1)) (fst (exec_list sb me l c2)).

Lemma rel_amb : forall ins c1 c2, rel ins c1 c2 -> ins = true -> amb_in sb me c1 /\ amb_in sb me c2.
Proof. intros ins c1 c2 [_ [_ I]] Hi. destruct (I Hi) as [_ [A1 A2]]. auto. Qed.

Lemma wrap_rel : forall ins o obs b c1 c2 so1 so2 ss mk,
  exec_rel_l b -> good sb (c_w c1) -> good sb (c_w c2) -> fst o = me -> scoped_list me true b = true ->
  rel ins c1 c2 -> so1 = a_owner (c_amb c1) -> so2 = a_owner (c_amb c2) ->
  let r1 := exec_list sb me b (set_obs obs (enter_owner sb o c1)) in
  let r2 := exec_list sb me b (set_obs obs (enter_owner sb o c2)) in
  snd (block mk (set_obs ss (leave_owner so1 (fst r1)), snd r1)) =
  snd (block mk (set_obs ss (leave_owner so2 (fst r2)), snd r2)) /\
  rel ins (fst (block mk (set_obs ss (leave_owner so1 (fst r1)), snd r1)))
          (fst (block mk (set_obs ss (leave_owner so2 (fst r2)), snd r2))).
Proof.
  intros ins o obs b c1 c2 so1 so2 ss mk IH G1 G2 Ho Hb R E1 E2 r1 r2.
  assert (R0 : rel true (set_obs obs (enter_owner sb o c1)) (set_obs obs (enter_owner sb o c2))).
  { destruct R as [S [O I]]. split; [exact S | split; [reflexivity|]]. intros _.
    split; [reflexivity|]. split; split; cbn; try (exists o; auto); intros ->; now rewrite Ho. }
  destruct (IH true (set_obs obs (enter_owner sb o c1)) (set_obs obs (enter_owner sb o c2)) G1 G2 Hb R0) as [K Rr].
  fold r1 r2 in K, Rr.
  rewrite !fst_block. split.
  - rewrite K. apply snd_block.
  - destruct Rr as [S [O I]]. destruct (I eq_refl) as [_ [[_ Ar1] [_ Ar2]]].
    split; [exact S | split; [reflexivity|]]. intro Hi.
    destruct R as [_ [_ Ic]]. destruct (Ic Hi) as [Ec [[X1 _] [X2 _]]].
    cbn. subst so1 so2. split; [exact Ec|]. split; split; cbn; auto.
Qed.

Lemma exec_rel_all : (forall i, exec_rel_i i) /\ (forall l, exec_rel_l l).
Proof.
  destruct (exec_ok_all sb me me_nz) as [OKi OKl].
  assert (Hcons : forall i l, exec_rel_i i -> exec_rel_l l -> exec_rel_l (i :: l)).
  { intros i l IHi IHl ins c1 c2 G1 G2 Hs R.
    cbn [scoped_list] in Hs. apply andb_prop in Hs as [Hs1 Hs2].
    destruct (IHi ins c1 c2 G1 G2 Hs1 R) as [K Rr].
    destruct (OKi i ins c1 G1 Hs1 (fun Hi => proj1 (rel_amb _ _ _ R Hi))) as [P1 _].
    destruct (OKi i ins c2 G2 Hs1 (fun Hi => proj2 (rel_amb _ _ _ R Hi))) as [P2 _].
    rewrite !exec_list_cons.
    destruct (exec sb me i c1) as [c1' k1] eqn:E1. destruct (exec sb me i c2) as [c2' k2] eqn:E2.
    cbn [fst snd] in *. subst k2. destruct k1 as [i'|]; cbn [fst snd].
    - split; [reflexivity | exact Rr].
    - apply IHl; auto; [apply P1 | apply P2]. }
  assert (H : forall i, exec_rel_i i).
  { apply (instr_ind2 exec_rel_i exec_rel_l).
    - intros ins c1 c2 _ _ _ R. split; [reflexivity | exact R].
    - exact Hcons.
    - (* IAct *) intros a ins c1 c2 G1 G2 Hs R. cbn [exec fst snd]. split; [reflexivity|].
      destruct a as [p kind slot|k v|slot v|id|g]; cbn [scoped] in Hs;
        try (subst ins; eapply rel_post; [exact R | apply do_act_ok; auto; apply (rel_amb _ _ _ R eq_refl)
                                          | apply do_act_ok; auto; apply (rel_amb _ _ _ R eq_refl)
                                          | now apply do_act_rel]; fail).
      cbn [do_act]. now apply rel_upd.
    - (* IAwait *) intros g ins c1 c2 G1 G2 Hs R. cbn [exec].
      replace (fired me g c2) with (fired me g c1) by (unfold fired; destruct R as [[A _] _]; now rewrite A).
      destruct (fired me g c1); cbn [fst snd]; split; auto.
    - (* IChild *) intros b IH ins c1 c2 G1 G2 Hs R. rewrite scoped_IChild in Hs.
      apply andb_prop in Hs as [-> Hb].
      destruct (rel_amb _ _ _ R eq_refl) as [A1 A2].
      destruct (new_child_ok sb me me_nz c1 G1 A1) as [P1 Ho1].
      destruct (new_child_ok sb me me_nz c2 G2 A2) as [P2 Ho2].
      destruct (new_child_rel c1 c2 R) as [Eo S].
      assert (R1 : rel true (fst (new_child c1)) (fst (new_child c2))) by (eapply rel_post; eauto).
      rewrite !exec_IChild. cbv zeta. rewrite <- Eo.
      set (o := snd (new_child c1)) in *. set (d1 := fst (new_child c1)) in *. set (d2 := fst (new_child c2)) in *.
      pose proof (wrap_rel true o (a_obs (c_amb d1)) b d1 d2 (a_owner (c_amb d1)) (a_owner (c_amb d2))
                    (a_obs (c_amb d1)) (IWith o) IH (p_good _ _ _ _ _ P1) (p_good _ _ _ _ _ P2) Ho1 Hb R1
                    eq_refl eq_refl) as W. cbv zeta in W.
      assert (Eobs : a_obs (c_amb d2) = a_obs (c_amb d1)) by (symmetry; apply R1).
      assert (X1 : set_obs (a_obs (c_amb d1)) (enter_owner sb o d1) = enter_owner sb o d1) by reflexivity.
      assert (X2 : set_obs (a_obs (c_amb d1)) (enter_owner sb o d2) = enter_owner sb o d2).
      { rewrite <- Eobs. reflexivity. }
      rewrite X1, X2 in W.
      set (r1 := exec_list sb me b (enter_owner sb o d1)) in *.
      set (r2 := exec_list sb me b (enter_owner sb o d2)) in *.
      assert (Y1 : set_obs (a_obs (c_amb d1)) (leave_owner (a_owner (c_amb d1)) (fst r1))
                   = leave_owner (a_owner (c_amb d1)) (fst r1)).
      { destruct (OKl b true (enter_owner sb o d1) (p_good _ _ _ _ _ P1) Hb
                    (fun _ => enter_amb_in sb me o d1 Ho1)) as [[_ _ Ob _] _]. fold r1 in Ob.
        unfold set_obs, leave_owner, with_amb; cbn in *. now rewrite Ob. }
      assert (Y2 : set_obs (a_obs (c_amb d1)) (leave_owner (a_owner (c_amb d2)) (fst r2))
                   = leave_owner (a_owner (c_amb d2)) (fst r2)).
      { destruct (OKl b true (enter_owner sb o d2) (p_good _ _ _ _ _ P2) Hb
                    (fun _ => enter_amb_in sb me o d2 Ho1)) as [[_ _ Ob _] _]. fold r2 in Ob.
        unfold set_obs, leave_owner, with_amb; cbn in *. now rewrite Ob, Eobs. }
      rewrite Y1, Y2 in W. exact W.
    - (* IWith *) intros o b IH ins c1 c2 G1 G2 Hs R. rewrite scoped_IWith in Hs.
      apply andb_prop in Hs as [Ho Hb]. apply Nat.eqb_eq in Ho.
      rewrite !exec_IWith. cbv zeta.
      pose proof (wrap_rel ins o (a_obs (c_amb c1)) b c1 c2 (a_owner (c_amb c1)) (a_owner (c_amb c2))
                    (a_obs (c_amb c1)) (IWith o) IH G1 G2 Ho Hb R eq_refl eq_refl) as W. cbv zeta in W.
      assert (Eobs : a_obs (c_amb c2) = a_obs (c_amb c1)) by (symmetry; apply R).
      assert (X1 : set_obs (a_obs (c_amb c1)) (enter_owner sb o c1) = enter_owner sb o c1) by reflexivity.
      assert (X2 : set_obs (a_obs (c_amb c1)) (enter_owner sb o c2) = enter_owner sb o c2).
      { rewrite <- Eobs. reflexivity. }
      rewrite X1, X2 in W.
      set (r1 := exec_list sb me b (enter_owner sb o c1)) in *.
      set (r2 := exec_list sb me b (enter_owner sb o c2)) in *.
      assert (Y1 : set_obs (a_obs (c_amb c1)) (leave_owner (a_owner (c_amb c1)) (fst r1))
                   = leave_owner (a_owner (c_amb c1)) (fst r1)).
      { destruct (OKl b true (enter_owner sb o c1) G1 Hb
                    (fun _ => enter_amb_in sb me o c1 Ho)) as [[_ _ Ob _] _]. fold r1 in Ob.
        unfold set_obs, leave_owner, with_amb; cbn in *. now rewrite Ob. }
      assert (Y2 : set_obs (a_obs (c_amb c1)) (leave_owner (a_owner (c_amb c2)) (fst r2))
                   = leave_owner (a_owner (c_amb c2)) (fst r2)).
      { destruct (OKl b true (enter_owner sb o c2) G2 Hb
                    (fun _ => enter_amb_in sb me o c2 Ho)) as [[_ _ Ob _] _]. fold r2 in Ob.
        unfold set_obs, leave_owner, with_amb; cbn in *. now rewrite Ob, Eobs. }
      rewrite Y1, Y2 in W. exact W.
    - (* IObs *) intros s b IH ins c1 c2 G1 G2 Hs R. rewrite scoped_IObs in Hs.
      rewrite !exec_IObs. cbv zeta.
      assert (R0 : rel ins (set_obs (Some s) c1) (set_obs (Some s) c2)).
      { destruct R as [S [O I]]. split; [exact S | split; [reflexivity|]]. intro Hi.
        destruct (I Hi) as [E [[X1 Y1] [X2 Y2]]]. split; [exact E|]. split; split; cbn; auto. }
      destruct (IH ins (set_obs (Some s) c1) (set_obs (Some s) c2) G1 G2 Hs R0) as [K Rr].
      set (r1 := exec_list sb me b (set_obs (Some s) c1)) in *.
      set (r2 := exec_list sb me b (set_obs (Some s) c2)) in *.
      rewrite !fst_block. split; [rewrite K; apply snd_block|].
      destruct Rr as [S [O I]]. split; [exact S | split; [cbn; apply R|]]. intro Hi.
      destruct (I Hi) as [E [[X1 Y1] [X2 Y2]]]. split; [exact E|]. split; split; cbn; auto.
    - (* IScoped *) intros w b IH ins c1 c2 G1 G2 Hs R. rewrite scoped_IScoped in Hs.
      rewrite !exec_IScoped.
      assert (Eobs : a_obs (c_amb c2) = a_obs (c_amb c1)) by (symmetry; apply R).
      destruct w as [|o obs|]; cbn [resolve_wrap].
      + apply andb_prop in Hs as [-> Hb].
        destruct R as [S [O I]]. destruct (I eq_refl) as [E [[[o [Eo Ho]] Y1] A2]].
        rewrite <- E, Eo, Eobs. cbv zeta.
        assert (R' : rel true c1 c2) by (split; [exact S | split; [exact O | exact I]]).
        pose proof (wrap_rel true o (a_obs (c_amb c1)) b c1 c2 (Some o) (Some o) (a_obs (c_amb c1))
                      (IScoped (WCaptured o (a_obs (c_amb c1)))) IH G1 G2 Ho Hb R') as W.
        apply W; [now rewrite Eo | now rewrite <- E, Eo].
      + apply andb_prop in Hs as [Ho Hb]. apply Nat.eqb_eq in Ho. cbv zeta. rewrite Eobs.
        apply (wrap_rel ins o obs b c1 c2 (a_owner (c_amb c1)) (a_owner (c_amb c2)) (a_obs (c_amb c1))
                 (IScoped (WCaptured o obs)) IH G1 G2 Ho Hb R eq_refl eq_refl).
      + destruct (IH ins c1 c2 G1 G2 Hs R) as [K Rr].
        destruct (exec_list sb me b c1) as [c1' k1]. destruct (exec_list sb me b c2) as [c2' k2].
        cbn [fst snd] in *. subst k2. rewrite !fst_block. split; [apply snd_block | exact Rr].
    - (* ISpawn *) intros w b IH ins c1 c2 G1 G2 Hs R. rewrite scoped_ISpawn in Hs.
      assert (Hi : ins = true) by (destruct w; [apply andb_prop in Hs as [? _]; auto
                                               | apply andb_prop in Hs as [Hs _]; apply andb_prop in Hs as [? _]; auto
                                               | discriminate]).
      subst ins. cbn [exec fst snd]. split; [reflexivity|].
      pose proof R as [_ [O I]]. destruct (I eq_refl) as [E [[_ Y1] [_ Y2]]].
      replace (resolve_wrap w c2) with (resolve_wrap w c1)
        by (destruct w; cbn [resolve_wrap]; [now rewrite E, O | reflexivity | reflexivity]).
      replace (if sb then Some (a_arena (c_amb c2)) else None) with (if sb then Some (a_arena (c_amb c1)) else None : option (option nat))
        by (clear - Y1 Y2; destruct sb; [now rewrite (Y1 eq_refl), (Y2 eq_refl) | reflexivity]).
      now apply rel_upd.
    - (* IDropRoot *) intros ins c1 c2 G1 G2 Hs R. cbn [scoped] in Hs.
      destruct ins; [discriminate|]. cbn [exec fst snd]. split; [reflexivity|].
      eapply rel_post; [exact R | now apply drop_ok | now apply drop_ok | apply drop_rel, R]. }
  split; [exact H|]. induction l as [|i l IHl].
  - intros ins c1 c2 _ _ _ R. split; [reflexivity | exact R].
  - apply Hcons; auto.
Qed.
End ExecRel.
