(** C19 — lock layer proofs: a lock-order discipline excludes deadlock for every number of
    threads and every schedule; the guard scopes of the current code satisfy it; the scopes
    before the fixes deadlock (witness schedules). *)
From Coq Require Import List Bool Arith Lia.
From LV Require Import Reactive.Locks.
Import ListNotations.

Lemma updl_length s i x : length (updl s i x) = length s.
Proof. revert i; induction s as [|h t IH]; intros [|i]; cbn; auto. Qed.

Lemma In_updl s i x y : In y (updl s i x) -> y = x \/ In y s.
Proof.
  revert i; induction s as [|h t IH]; intros [|i]; cbn; auto.
  - intros [H|H]; auto.
  - intros [H|H]; auto. destruct (IH _ H); auto.
Qed.

Section Discipline.
Variable rank : nat -> nat.
Variable B : nat.
Hypothesis rank_bounded : forall l, rank l <= B.

Definition LInv (s : list lthr) : Prop :=
  forall x, In x s -> disciplined rank (l_held x) (l_todo x) = true.

Lemma LInv_init traces :
  (forall tr, In tr traces -> disciplined rank [] tr = true) -> LInv (linit traces).
Proof.
  intros H x Hx. apply in_map_iff in Hx as (tr & <- & Hin). cbn. auto.
Qed.

Lemma LInv_step s t : LInv s -> LInv (lstep1 t s).
Proof.
  intros HI. unfold lstep1. destruct (nth_error s t) as [x|] eqn:Hx; auto.
  assert (Hin : In x s) by (eapply nth_error_In; eauto).
  pose proof (HI _ Hin) as D.
  destruct (l_todo x) as [|e r] eqn:Ht; auto.
  destruct e as [m l|l|].
  - destruct (can_acq s m l); auto. intros y Hy. apply In_updl in Hy as [->|Hy]; auto.
    cbn in *. apply andb_true_iff in D as [_ D]. exact D.
  - intros y Hy. apply In_updl in Hy as [->|Hy]; auto.
  - intros y Hy. apply In_updl in Hy as [->|Hy]; auto.
Qed.

Lemma LInv_run sched : forall s, LInv s -> LInv (lrun1 s sched).
Proof. induction sched as [|t r IH]; intros s H; cbn; auto. apply IH, LInv_step, H. Qed.

(** the lock a blocked thread waits for *)
Definition want (x : lthr) : option nat :=
  match l_todo x with Acq _ l :: _ => Some l | _ => None end.

Lemma blocked_has_holder s x :
  LInv s -> (forall z, In z s -> l_enabled s z = false) ->
  In x s -> l_finished x = false ->
  exists l, want x = Some l /\
            exists y l', In y s /\ l_finished y = false /\ want y = Some l' /\ rank l < rank l'.
Proof.
  intros HI Hdead Hin Hf. pose proof (Hdead _ Hin) as He.
  unfold l_finished in Hf. unfold l_enabled in He. unfold want.
  destruct (l_todo x) as [|[m l|l|] r] eqn:Ht; try discriminate.
  exists l; split; auto.
  unfold can_acq in He.
  assert (Hex : existsb (fun y => existsb (conflicts m l) (l_held y)) s = true).
  { clear - He. induction s as [|y s IH]; cbn in *; [discriminate|].
    destruct (existsb (conflicts m l) (l_held y)); cbn in *; auto. }
  apply existsb_exists in Hex as (y & Hy & Hc).
  apply existsb_exists in Hc as (h & Hh & Hc).
  unfold conflicts in Hc. apply andb_true_iff in Hc as [Hl _]. apply Nat.eqb_eq in Hl.
  pose proof (HI _ Hy) as D. pose proof (Hdead _ Hy) as Hey. unfold l_enabled in Hey.
  destruct (l_todo y) as [|e r'] eqn:Hty.
  - (* a finished thread holds nothing *)
    cbn in D. destruct (l_held y); [destruct Hh|discriminate].
  - destruct e as [m' l'|l'|]; try discriminate.
    exists y, l'. unfold l_finished. rewrite Hty. repeat split; auto.
    cbn in D. apply andb_true_iff in D as [D _].
    rewrite forallb_forall in D. specialize (D _ Hh). apply Nat.ltb_lt in D. congruence.
Qed.

Lemma no_chain s :
  LInv s -> (forall z, In z s -> l_enabled s z = false) ->
  forall n x l, In x s -> l_finished x = false -> want x = Some l -> B - rank l <= n -> False.
Proof.
  intros HI Hdead. induction n as [|n IH]; intros x l Hin Hf Hw Hn.
  - destruct (blocked_has_holder s x HI Hdead Hin Hf) as (l0 & Hw0 & y & l' & Hy & Hfy & Hwy & Hlt).
    rewrite Hw in Hw0. injection Hw0 as <-. pose proof (rank_bounded l'). lia.
  - destruct (blocked_has_holder s x HI Hdead Hin Hf) as (l0 & Hw0 & y & l' & Hy & Hfy & Hwy & Hlt).
    rewrite Hw in Hw0. injection Hw0 as <-.
    apply (IH y l' Hy Hfy Hwy). pose proof (rank_bounded l'). lia.
Qed.

Lemma LInv_not_deadlocked s : LInv s -> deadlocked s = false.
Proof.
  intros HI. destruct (deadlocked s) eqn:Hd; auto. exfalso.
  unfold deadlocked in Hd. apply andb_true_iff in Hd as [Hex Hall].
  apply existsb_exists in Hex as (x & Hin & Hf). apply negb_true_iff in Hf.
  assert (Hdead : forall z, In z s -> l_enabled s z = false).
  { intros z Hz. rewrite forallb_forall in Hall. specialize (Hall _ Hz).
    apply negb_true_iff in Hall. exact Hall. }
  destruct (blocked_has_holder s x HI Hdead Hin Hf) as (l & Hw & _).
  eapply (no_chain s HI Hdead (B - rank l)); eauto.
Qed.

(** a lock order (every acquisition ranked strictly above everything the thread holds)
    excludes deadlock and self-deadlock: for any number of threads and every schedule *)
Theorem lock_order_no_deadlock :
  forall (traces : list (list ev)) (sched : list nat),
    (forall tr, In tr traces -> disciplined rank [] tr = true) ->
    deadlocked (lrun1 (linit traces) sched) = false.
Proof.
  intros traces sched H. apply LInv_not_deadlocked, LInv_run, LInv_init, H.
Qed.

End Discipline.

(* ------------------------------------------------------------------------------------ *)
(** * the current code *)

Lemma disciplined_app rank h a b :
  disciplined rank h a = true -> disciplined rank [] b = true -> disciplined rank h (a ++ b) = true.
Proof.
  revert h; induction a as [|e a IH]; intros h Ha Hb; cbn in *.
  - destruct h; [auto|discriminate].
  - destruct e as [m l|l|]; auto.
    apply andb_true_iff in Ha as [A1 A2]. rewrite A1. cbn. auto.
Qed.

Lemma disciplined_concat rank ops :
  (forall o, In o ops -> disciplined rank [] o = true) -> disciplined rank [] (concat ops) = true.
Proof.
  induction ops as [|o r IH]; intros H; cbn; auto.
  apply disciplined_app; [apply H; left; auto|apply IH; intros; apply H; right; auto].
Qed.

(** every operation of the table respects the order "subscriber's lock before its sources'
    locks, reactivity before value" (checked by computation on the hand-mirrored traces) *)
Lemma head_ops_disciplined : forallb (disciplined rank_head []) head_ops = true.
Proof. vm_compute. reflexivity. Qed.

Lemma rank_head_bounded : forall l, Nat.min l 11 <= 11.
Proof. intros; lia. Qed.

(** threads that execute any sequences of operations of the current code never deadlock *)
Theorem head_lock_order_acyclic :
  forall (progs : list (list (list ev))) (sched : list nat),
    (forall p o, In p progs -> In o p -> In o head_ops) ->
    deadlocked (lrun1 (linit (map (@concat ev) progs)) sched) = false.
Proof.
  intros progs sched H.
  apply (lock_order_no_deadlock (fun l => Nat.min (rank_head l) 11) 11 rank_head_bounded).
  intros tr Htr. apply in_map_iff in Htr as (p & <- & Hp).
  assert (T : forall o, In o head_ops ->
                disciplined (fun l => Nat.min (rank_head l) 11) [] o = true).
  { apply forallb_forall. vm_compute. reflexivity. }
  apply disciplined_concat. intros o Ho. apply T. eapply H; eauto.
Qed.

(** hypotheses satisfiable / non-trivial: a writer, a completer, the effect re-running and an
    awaiter, interleaved *)
Example head_no_deadlock_nontrivial :
  let progs := [[s_set; s_set]; [d_complete]; [e_rerun; e_rerun]; [d_await; m2_update]] in
  (forall p o, In p progs -> In o p -> In o head_ops)
  /\ length (concat (map (@concat ev) progs)) = 258.
Proof.
  split; [|vm_compute; reflexivity].
  intros p o Hp Ho. cbn in Hp.
  repeat (destruct Hp as [<-|Hp]; [cbn in Ho; repeat (destruct Ho as [<-|Ho]; [vm_compute; tauto|]); destruct Ho|]).
  destruct Hp.
Qed.

(** ** before the fixes *)

(** F-C19-c: `notify_subs` marked the subscribers under `inner.read()` while the effect,
    re-running on another thread, unsubscribes under its own lock: lock-order inversion.
    Thread 0 = effect (scenario 5), thread 1 = completer. *)
Example notify_subs_prefix_deadlocks :
  exists sched, deadlocked (lrun1 (linit [e_rerun_sd; d_complete_prefix]) sched) = true.
Proof.
  exists (repeat 0 7 ++ repeat 1 8). vm_compute. reflexivity.
Qed.

(** F-C02-b: an ImmediateEffect reacting inside `mark_check` under the memo's
    `reactivity.read()` takes `reactivity.write()` on the same thread: self-deadlock with a
    single thread; after the memo commit the same operation completes *)
Example memo_immediate_prefix_self_deadlock :
  deadlocked (lrun1 (linit [s_set_immediate_prefix]) (repeat 0 40)) = true
  /\ deadlocked (lrun1 (linit [s_set_immediate_head]) (repeat 0 40)) = false
  /\ map l_finished (lrun1 (linit [s_set_immediate_head]) (repeat 0 40)) = [true].
Proof. vm_compute. repeat split; reflexivity. Qed.

(** the same inversion between two memos on two threads (m marks m2 under its read lock, m2
    recomputing unsubscribes from m under its own write lock), gone in HEAD *)
Example memo_prefix_cross_thread_deadlock :
  exists sched, deadlocked (lrun1 (linit [s_set_prefix; m2_update]) sched) = true.
Proof.
  exists (repeat 1 7 ++ repeat 0 7). vm_compute. reflexivity.
Qed.

(** one site of the memo fix reverted (`mark_subscribers_check` walks the subscribers under
    `reactivity.read()`): the writer of s and the effect re-running on another thread deadlock *)
Example memo_mark_prefix_cross_thread_deadlock :
  exists sched, deadlocked (lrun1 (linit [e_rerun_mt; s_set_me_prefix]) sched) = true.
Proof. exists (repeat 0 4 ++ repeat 1 9 ++ [0; 1; 1]). vm_compute. reflexivity. Qed.
