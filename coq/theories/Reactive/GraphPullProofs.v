(** Pull phase, part 7: MemoInner::update_if_necessary and the read of a memo meet their
    specifications, and so does every level of the index-bounded recursion [lvl]. *)
From Coq Require Import List ZArith Bool Arith Lia.
From LV Require Import Reactive.Graph Reactive.GraphLemmas Reactive.GraphReplay Reactive.GraphInvariant
                       Reactive.GraphMarkProofs Reactive.GraphPullBase Reactive.GraphPullSteps
                       Reactive.GraphPullDefs Reactive.GraphPullEval Reactive.GraphPullRead
                       Reactive.GraphPullMemo.
Import ListNotations.
Close Scope Z_scope.
Open Scope nat_scope.

Section P.
Variable p : prog.
Hypothesis wfp : wf_prog p.
Notation memob := (memob p).
Notation dead := (dead p).
Notation GoneSame := (GoneSame p).
Notation effb := (effb p).
Notation sigb := (sigb p).
Notation WF := (WF p).
Notation Inv := (Inv p).
Notation Rest := (Rest p).
Notation cur := (cur p).
Notation PullRel := (PullRel p).
Notation USpec := (USpec p).
Notation RSpec := (RSpec p).
Notation FinRel := (FinRel p).

(* ---------------------------------------------------------------- PullRel conversions *)
Lemma PullRel_pop i stk s s' :
  PullRel i (i :: stk) (Some i) s s' ->
  (memob i = true -> st (getn s i) <> Clean) ->
  PullRel (S i) stk None s s'.
Proof.
  intros A Hn. split; try apply A.
  - intros k Hm Hk Hc. apply (pr_stable _ _ _ _ _ _ A k Hm); auto.
    intros [<-|H]; auto. apply (Hn Hm Hc).
  - intros y Hy _. apply (pr_above _ _ _ _ _ _ A y); [lia|]. intros E. inversion E. lia.
  - intros y Hy. apply (pr_above2 _ _ _ _ _ _ A y). lia.
Qed.

Lemma FinRel_PullRel i stk s s' :
  FinRel i s s' -> (memob i = true -> st (getn s i) <> Clean) -> PullRel (S i) stk None s s'.
Proof.
  intros F Hn. split.
  - apply F.
  - intros k. apply (fr_same _ _ _ _ F k).
  - intros k Hm Hk Hc. assert (Hki : k <> i) by (intros ->; apply (Hn Hm Hc)).
    destruct (fr_same _ _ _ _ F k) as (_&Hr&Hs&_). destruct (fr_other _ _ _ _ F k Hki) as (Hca&_).
    split; [apply (fr_stable _ _ _ _ F k Hm Hki Hc)|]. auto.
  - intros y Hy _. destruct (fr_same _ _ _ _ F y) as (_&Hr&Hs&_). auto.
  - intros y Hy. destruct (fr_same _ _ _ _ F y) as (_&_&_&Hsu&_).
    destruct (fr_other _ _ _ _ F y ltac:(lia)) as (Hca&Hle). auto.
  - intros k. destruct (fr_same _ _ _ _ F k) as (_&_&_&_&?&?&?&?&?&?). repeat split; assumption.
  - apply F.
Qed.

(* ---------------------------------------------------------------- update_if_necessary *)
Lemma changed_of_eq cm old v :
  match cm with
  | CAlways => true
  | CNe => match old with Some o => negb (Z.eqb o v) | None => true end
  | CPar => match old with Some o => negb (Bool.eqb (Z.even o) (Z.even v)) | None => true end
  end = changed_of cm old v.
Proof. reflexivity. Qed.

Lemma memo_update_spec i cm e U R :
  decl_of p i = DMemo cm e -> USpec i U -> RSpec i R ->
  forall c s stk s' ch,
    Inv stk i s -> ctx_ok stk c -> ~ In i stk -> (forall k, In k stk -> i < k) ->
    (forall k, In k stk -> In i (srcs (getn s k)) ->
               In i (tracked_of (rlog (getn s k))) \/ obs_of c = Some k) ->
    dead s i = false ->
    memo_update p U R c i cm e s = (s', ch) ->
    Inv stk i s' /\ PullRel (S i) stk None s s' /\ subs (getn s' i) = subs (getn s i) /\
    st (getn s' i) = Clean /\ cache (getn s' i) <> None /\
    (ch = true -> forall k, In i (tracked_of (rlog (getn s' k))) -> since (getn s' k) <> []).
Proof.
  intros Hd HU HR c s stk s' ch I C Hni Hgt Hpend Hgi Hmu.
  assert (Hm : memob i = true) by (unfold GraphInvariant.memob; rewrite Hd; auto).
  assert (Hil : i < length p).
  { apply (decl_in_range p). intros tk iv; rewrite Hd; discriminate. }
  assert (Hok : expr_ok p i false e).
  { pose proof (wfp i Hil) as H. rewrite Hd in H. exact H. }
  assert (W : WF s) by apply I.
  destruct (inv_rest _ _ _ _ I i Hni) as (HL1 & Hunc & _ & Hrcl & Hrwr).
  unfold uncached_ok, GraphInvariant.needs_clean, GraphInvariant.will_run in Hunc, Hrcl, Hrwr.
  rewrite Hd in Hunc, Hrcl, Hrwr. cbn [needs_clean_n will_run_n] in Hrcl, Hrwr.
  destruct Hunc as [Hunc _].
  unfold memo_update in Hmu.
  (* the decision *)
  set (dec := match st (getn s i) with
              | Clean => (s, false)
              | Dirty => (s, true)
              | Check => any_src U c i (srcs (getn s i)) s
              end) in Hmu.
  assert (Hdec : exists sa need, dec = (sa, need) /\
            Inv stk i sa /\ PullRel i stk None s sa /\
            (need = false -> st (getn sa i) <> Dirty /\ cache (getn s i) <> None /\
               forall x v, In (x, v, true) (rlog (getn sa i)) -> memob x = true -> dead sa x = false ->
                           st (getn sa x) = Clean) /\
            (need = true -> st (getn s i) <> Clean /\
               (cache (getn sa i) = None \/ since (getn sa i) <> []))).
  { unfold dec. destruct (st (getn s i)) eqn:Est.
    - assert (Hcn : cache (getn s i) <> None).
      { intros E. destruct (Hunc E). congruence. }
      exists s, false. split; auto. split; auto. split; [apply PullRel_refl|]. split; [|discriminate].
      intros _. split; [congruence|]. split; auto.
      intros x v Hx Hmx Hgx. eapply Hrcl; eauto.
    - assert (Hcn : cache (getn s i) <> None).
      { intros E. destruct (Hunc E). congruence. }
      destruct (any_src U c i (srcs (getn s i)) s) as [sa need] eqn:Ea.
      destruct (any_src_spec p i U HU (srcs (getn s i)) c s stk sa need) as (Ia & Pa & Hn & Hy); auto.
      { intros x Hx. eapply wf_srclt; eauto. }
      { congruence. }
      destruct (pr_above _ _ _ _ _ _ Pa i (le_n i)) as (Hr & _); [discriminate|].
      exists sa, need. split; auto. split; auto. split; auto. split.
      + intros Hf. destruct (Hn Hf) as [Hnd Hall]. split; auto. split; auto.
        intros x v Hx Hmx Hgx. rewrite Hr in Hx. apply Hall; auto. rewrite HL1. apply in_tracked_of. eauto.
      + intros Ht. split; [congruence|]. right.
        destruct (pr_above2 _ _ _ _ _ _ Pa i (le_n i)) as (Hca & _).
        destruct (Hy Ht) as [Hds|(x & Hx1 & Hx2)].
        * destruct (inv_rest _ _ _ _ Ia i Hni) as (_&_&_&_&Hw).
          apply Hw. unfold GraphInvariant.will_run. rewrite Hd. cbn [will_run_n]. split; auto. congruence.
        * apply Hx2. rewrite Hr, <- HL1. exact Hx1.
    - exists s, true. split; auto. split; auto. split; [apply PullRel_refl|]. split; [discriminate|].
      intros _. split; [discriminate|].
      destruct (cache (getn s i)) eqn:Ec; auto. right. apply Hrwr. split; auto. discriminate. }
  destruct Hdec as (sa & need & Edec & Ia & Pa & Hkeep & Hrun). rewrite Edec in Hmu.
  destruct (pr_above2 _ _ _ _ _ _ Pa i (le_n i)) as (Hcaa & Hlea & Hsua).
  destruct need.
  - (* ---- the body runs *)
    destruct (Hrun eq_refl) as (Hnc & Hcause).
    assert (Hnca : st (getn sa i) <> Clean).
    { intros Hc. apply Hnc. apply st_le_clean. rewrite <- Hc. exact Hlea. }
    set (old := cache (getn sa i)) in *.
    set (fr := match old with None => true | Some _ => false end) in *.
    assert (Hfrc : fr = true \/ since (getn sa i) <> []).
    { unfold fr. destruct Hcause as [->|?]; auto. }
    assert (Hne : effb i = true -> edirty (getn sa i) = false).
    { intros He. unfold GraphInvariant.effb in He. rewrite Hd in He. discriminate. }
    destruct (memo_begin p stk i fr sa (Inv_InvBut p i stk i sa Ia) (inv_queue _ _ _ _ Ia i) Hni Hgt Hil (fun _ => Hnca) Hne Hfrc)
      as (Ic & L1c & Pc & Hsuc & Hcac & Hstc & Hfrm & _).
    set (sc := begin_run fr i (clear_sources i sa)) in *.
    destruct (eval p R false (Some i, true) e sc) as [se v] eqn:Eev.
    assert (Cc : ctx_ok (i :: stk) (Some i, true)) by (unfold ctx_ok; cbn; eauto).
    assert (Hdp : forall x, occurs x e -> CtxDep p (Some i, true) x).
    { intros x Hx w Hw. cbn in Hw. inversion Hw; subst w. apply dep_one. unfold dep1. rewrite Hd. exact Hx. }
    destruct (eval_spec p i R HR e (Some i, true) sc (i :: stk) i se v Hok Hdp (le_n i) Ic Cc L1c Eev)
      as (Ie & L1e & Pe & Ge). cbn [fst] in Pe. unfold TopOK in L1e. cbn [fst] in L1e.
    destruct (pr_above2 _ _ _ _ _ _ Pe i (le_n i)) as (Hcae & Hlee & Hsue).
    assert (Hnce : memob i = true -> st (getn sc i) <> Clean) by (intros _; rewrite Hstc; auto).
    assert (Hrep : replay_body p i e (rlog (getn se i)) = Some v).
    { destruct (Ge i eq_refl) as (D & HD & HQ). unfold L1 in L1c.
      assert (Hrc : rlog (getn sc i) = []).
      { destruct (inv_frame _ _ _ _ Ic i (or_introl eq_refl)) as (_&_&F3&_).
        (* the log of a body that is about to run is empty *)
        unfold sc. rewrite begin_run_getn, Nat.eqb_refl.
        assert (Hlt : Nat.ltb i (nlen (clear_sources i sa)) = true).
        { apply Nat.ltb_lt. rewrite (clear_nlen p i sa (inv_wf _ _ _ _ Ia)).
          rewrite (wf_len p sa (inv_wf _ _ _ _ Ia)). exact Hil. }
        rewrite Hlt. reflexivity. }
      rewrite HD, Hrc. cbn [app]. unfold replay_body. cbn [snd] in HQ.
      specialize (HQ []). rewrite app_nil_r in HQ. rewrite HQ. reflexivity. }
    assert (Hold : cache (getn se i) = old) by (rewrite Hcae, Hcac; reflexivity).
    (* facts about the frames and the subscribers of i, carried from the entry state *)
    assert (Hfr_log : forall k, In k stk -> rlog (getn se k) = rlog (getn s k)).
    { intros k Hk. pose proof (Hgt k Hk) as Hik.
      destruct (pr_above _ _ _ _ _ _ Pe k ltac:(lia)) as (Hr1 & _). { intros E; inversion E; lia. }
      destruct (Hfrm k Hk) as (Hr2 & _).
      destruct (pr_above _ _ _ _ _ _ Pa k ltac:(lia)) as (Hr3 & _). { discriminate. }
      congruence. }
    assert (Hnl : forall k, In k stk -> ~ In i (tracked_of (rlog (getn se k)))).
    { intros k Hk Hin. rewrite (Hfr_log k Hk) in Hin. apply in_tracked_of in Hin as (w & Hw).
      apply Hnc. destruct (inv_frame _ _ _ _ I k Hk) as (_&F2&_). eapply F2; eauto. }
    assert (Hroots : forall x, In x (subs (getn se i)) -> memob x = true -> st (getn se x) <> Clean).
    { intros x Hx Hmx Hc. rewrite Hsue, Hsuc, Hsua in Hx.
      assert (Hix : i < x) by (eapply wf_sub_gt; eauto).
      assert (Us : UpClosed p s) by (eapply Inv_UpClosed; eauto).
      apply (Us i x Hm Hnc Hx Hmx).
      apply st_le_clean. rewrite <- Hc.
      destruct (pr_above2 _ _ _ _ _ _ Pa x ltac:(lia)) as (_ & L1' & _).
      destruct (pr_above2 _ _ _ _ _ _ Pc x ltac:(lia)) as (_ & L2' & _).
      destruct (pr_above2 _ _ _ _ _ _ Pe x ltac:(lia)) as (_ & L3' & _).
      eapply st_le_trans; [exact L1'|]. eapply st_le_trans; [exact L2'|exact L3']. }
    assert (Hobs : forall o, obs_of c = Some o -> In o stk).
    { intros o Ho. apply (ctx_ok_obs stk c o C Ho). }
    assert (Hpe : forall k, In k stk -> obs_is c k = false -> ~ In k (subs (getn se i))).
    { intros k Hk Hsk Hin. rewrite Hsue, Hsuc, Hsua in Hin.
      assert (Hsrc : In i (srcs (getn s k))) by (eapply wf_sub_src; eauto).
      destruct (Hpend k Hk Hsrc) as [Hlog|Ho].
      - apply in_tracked_of in Hlog as (w & Hw). apply Hnc.
        destruct (inv_frame _ _ _ _ I k Hk) as (_&F2&_). eapply F2; eauto.
      - unfold obs_is in Hsk. rewrite Ho in Hsk. rewrite Nat.eqb_refl in Hsk. discriminate. }
    destruct (memo_finish p stk i cm e c v se Ie L1e Hd Hrep Hm Hni Hnl Hroots Hobs Hpe) as (If & Ff & Hstf & Hcaf & Hcsf).
    cbv zeta in If, Ff, Hstf, Hcaf, Hcsf.
    rewrite changed_of_eq in Hmu. rewrite <- Hold in Hmu.
    set (sfin := if changed_of cm (cache (getn se i)) v
                 then fold_left (fun s0 k => if obs_is c k then s0 else mark_dirty p k s0)
                        (subs (getn (updn i (fun n => set_st (set_cache n (Some v)) Clean) (emit (EvEnd i v) se)) i))
                        (add_cause i (updn i (fun n => set_st (set_cache n (Some v)) Clean) (emit (EvEnd i v) se)))
                 else updn i (fun n => set_st (set_cache n (Some v)) Clean) (emit (EvEnd i v) se)) in *.
    assert (Es' : s' = sfin /\ ch = changed_of cm (cache (getn se i)) v).
    { unfold sfin. destruct (changed_of cm (cache (getn se i)) v); inversion Hmu; auto. }
    destruct Es' as [-> ->].
    assert (Hnc_e : memob i = true -> st (getn se i) <> Clean).
    { intros _. destruct (inv_frame _ _ _ _ Ie i (or_introl eq_refl)) as (_&_&_&_&_&F6&_). auto. }
    split; auto. split; [|split; [|split; [|split]]].
    + eapply PullRel_trans; [eapply PullRel_weaken; [|exact Pa]; lia|].
      eapply PullRel_trans; [exact Pc|].
      eapply PullRel_trans; [apply PullRel_pop; [exact Pe|exact Hnce]|].
      apply FinRel_PullRel; auto.
    + destruct (fr_same _ _ _ _ Ff i) as (_&_&_&Hsuf&_). congruence.
    + exact Hstf.
    + rewrite Hcaf. discriminate.
    + exact Hcsf.
  - (* ---- nothing changed *)
    destruct (Hkeep eq_refl) as (Hnd & Hcn & Hall).
    inversion Hmu; subst s' ch. clear Hmu.
    assert (Hcna : cache (getn sa i) <> None) by (rewrite Hcaa; exact Hcn).
    destruct (memo_keep p stk i sa Ia Hm Hni Hnd Hcna Hall) as (Ik & Pk & Hsuk & Hstk & Hcak).
    split; auto. split; [|split; [|split; [|split]]]; auto.
    + eapply PullRel_trans; [eapply PullRel_weaken; [|exact Pa]; lia|exact Pk].
    + congruence.
    + discriminate.
Qed.

(* ---------------------------------------------------------------- update of node i, as seen by callers *)
Lemma frames_above stk t i s : Inv stk t s -> i < t ->
  ~ In i stk /\ (forall k, In k stk -> i < k).
Proof.
  intros I Hit. split.
  - intros Hin. pose proof (frame_ge p stk t s i I Hin). lia.
  - intros k Hk. pose proof (frame_ge p stk t s k I Hk). lia.
Qed.

Lemma Inv_restore stk t i s s' :
  Inv stk t s -> i < t -> Inv stk i s' -> PullRel (S i) stk None s s' -> Inv stk t s'.
Proof.
  intros I Hit I' P. destruct (frames_above stk t i s I Hit) as (_ & Hgt).
  apply (Inv_raise p stk t i s' I').
  - intros k x Hk Hx. destruct (pr_above _ _ _ _ _ _ P k) as (Hr & Hs).
    { pose proof (Hgt k Hk). lia. } { discriminate. }
    rewrite Hs in Hx. rewrite Hr. destruct (inv_frame _ _ _ _ I k Hk) as (_&_&F3&_). apply F3; auto.
  - intros k Hk. apply (frame_ge p stk t s k I Hk).
Qed.

Lemma node_update_spec i U R : USpec i U -> RSpec i R ->
  forall c s stk t s' ch,
    i < t -> Inv stk t s -> ctx_ok stk c ->
    node_update p U R c i s = (s', ch) ->
    Inv stk t s' /\ PullRel (S i) stk None s s' /\
    subs (getn s' i) = subs (getn s i) /\
    (memob i = true -> dead s i = false -> st (getn s' i) = Clean /\ cache (getn s' i) <> None) /\
    (ch = true -> forall k, In i (tracked_of (rlog (getn s' k))) -> since (getn s' k) <> []).
Proof.
  intros HU HR c s stk t s' ch Hit I C Hn. unfold node_update in Hn.
  destruct (decl_of p i) eqn:Hd;
    try (inversion Hn; subst; split; auto; split; [apply PullRel_refl|]; split; auto;
         split; [unfold GraphInvariant.memob; rewrite Hd; discriminate|discriminate]).
  assert (Hgi : dead s i = sgone (getn s i)) by (apply dead_src; unfold GraphInvariant.effb; rewrite Hd; reflexivity).
  destruct (sgone (getn s i)) eqn:Hgi0.
  { inversion Hn; subst. split; auto. split; [apply PullRel_refl|]. split; auto.
    split; [intros _ E; congruence|discriminate]. }
  destruct (frames_above stk t i s I Hit) as (Hni & Hgt).
  assert (Hpend : forall k, In k stk -> In i (srcs (getn s k)) ->
                  In i (tracked_of (rlog (getn s k))) \/ obs_of c = Some k).
  { intros k Hk Hin. destruct (inv_frame _ _ _ _ I k Hk) as (_&_&F3&_).
    destruct (F3 i Hin); auto. lia. }
  destruct (memo_update_spec i c0 e U R Hd HU HR c s stk s' ch (Inv_lower p stk t i s ltac:(lia) I) C Hni Hgt Hpend Hgi Hn)
    as (I' & P' & Hsu & Hst & Hca & Hcs).
  split; [eapply Inv_restore; eauto|]. split; auto.
Qed.

(* ---------------------------------------------------------------- read of a memo *)
Lemma read_memo U R i cm e : decl_of p i = DMemo cm e -> USpec i U -> RSpec i R ->
  forall m c s stk t s' v, i < t -> CtxDep p c i -> Inv stk t s -> ctx_ok stk c -> TopOK c s ->
  node_read p U R m c i s = (s', v) ->
  Inv stk t s' /\ TopOK c s' /\ PullRel (S i) stk (fst c) s s' /\
  (memob i = true -> dead s i = false -> st (getn s' i) = Clean /\ cache (getn s' i) = Some v) /\
  (sigb i = true -> dead s i = false -> v = sval (getn s' i)) /\
  Growth c s s' (fun D => forall rest, rlvl p (S i) m (snd c) i (D ++ rest) = Some (v, rest)).
Proof.
  intros Hd HU HR m c s stk t s' v Hit Hcd I C T Hr. unfold node_read in Hr. rewrite Hd in Hr.
  assert (Hm : memob i = true) by (unfold GraphInvariant.memob; rewrite Hd; auto).
  assert (Hwr : forall w, fst c = Some w -> w < nlen s /\ i < w).
  { intros w Hw. pose proof (who_on_stack stk c w C Hw) as Hin.
    destruct (inv_frame _ _ _ _ I w Hin) as (_&_&_&F4&F5&_). rewrite (wf_len p s (inv_wf _ _ _ _ I)).
    split; [exact F5|lia]. }
  assert (Hlv : forall x t0 rest, Bool.eqb t0 (m && snd c) = true ->
            rlvl p (S i) m (snd c) i ((i, x, t0) :: rest) = Some (x, rest)).
  { intros x t0 rest Ht. cbn [rlvl]. rewrite Nat.eqb_refl, Hd. rewrite ?Nat.eqb_refl. cbn [andb]. rewrite Ht. reflexivity. }
  assert (Hns : sigb i = false) by (unfold GraphInvariant.sigb; rewrite Hd; auto).
  assert (Eg : dead s i = sgone (getn s i)) by (apply dead_src; unfold GraphInvariant.effb; rewrite Hd; reflexivity).
  destruct (sgone (getn s i)) eqn:Eg0.
  { inversion Hr; subst s' v. clear Hr.
    destruct (read_gone p i m c s stk t Hlv Eg Hit Hcd I C T) as (I2 & T2 & P2 & G2).
    split; auto. split; auto. split; auto. split; [intros _ E; congruence|]. split; [intros _ E; congruence|exact G2]. }
  destruct (frames_above stk t i s I Hit) as (Hni & Hgt).
  destruct (m && snd c) eqn:Et.
  - (* tracked *)
    apply andb_prop in Et as [-> Hs].
    destruct (obs_of_tracked c stk C Hs) as (o & Hw & Ho).
    destruct (Inv_track p stk t c o i s I C Ho T Hit (Hcd o Hw) Eg) as (I1 & Hp & P1 & Hsro & Hrl & _).
    set (s1 := track c i s) in *.
    destruct (memo_update p U R c i cm e s1) as [s2 ch] eqn:Emu.
    inversion Hr; subst s' v. clear Hr.
    assert (Hpend : forall k, In k stk -> In i (srcs (getn s1 k)) ->
                    In i (tracked_of (rlog (getn s1 k))) \/ obs_of c = Some k).
    { intros k Hk Hin0. destruct (Nat.eq_dec k o) as [->|Hko]; auto.
      rewrite Hsro in Hin0 by auto. rewrite Hrl.
      destruct (inv_frame _ _ _ _ I k Hk) as (_&_&F3&_). destruct (F3 i Hin0); auto. lia. }
    assert (Eg1 : dead s1 i = false) by (rewrite (PullRel_GoneSame p _ _ _ _ _ P1 i); exact Eg).
    destruct (memo_update_spec i cm e U R Hd HU HR c s1 stk s2 ch I1 C Hni Hgt Hpend Eg1 Emu)
      as (I2 & P2 & _ & Hst2 & Hca2 & _).
    destruct (ctx_ok_obs stk c o C Ho) as [_ Hin].
    assert (Hio : i < o) by (apply Hgt; auto).
    destruct (pr_above _ _ _ _ _ _ P2 o ltac:(lia)) as (Hro2 & Hso2). { discriminate. }
    destruct (Inv_log_tracked p stk t c o i (cache_val (getn s2 i)) s2 I2 C Hw) as (I3 & T3 & P3); auto.
    + intros k x Hk Hko Hx. pose proof (Hgt k Hk).
      destruct (pr_above _ _ _ _ _ _ P2 k ltac:(lia)) as (Hr2 & Hs2). { discriminate. }
      rewrite Hs2, Hsro in Hx by auto. rewrite Hr2, Hrl.
      destruct (inv_frame _ _ _ _ I k Hk) as (_&_&F3&_). apply F3; auto.
    + intros k Hk. apply (frame_ge p stk t s k I Hk).
    + rewrite Hso2, Hro2. exact Hp.
    + intros _. unfold GraphInvariant.cur. rewrite Hd. reflexivity.
    + split; auto. split; auto. split.
      { rewrite Hw. eapply PullRel_trans; [exact P1|]. eapply PullRel_trans; [apply PullRel_addex; exact P2|exact P3]. }
      split.
      { intros _ _. destruct (log_read_other_fields c i (cache_val (getn s2 i)) true true s2 i) as (_&_&->&->&_).
        split; auto. unfold cache_val. destruct (cache (getn s2 i)); [reflexivity|congruence]. }
      split; [intros; congruence|].
      intros w Hw0. destruct (Hwr w Hw0) as (Hwl & Hiw).
      exists [(i, cache_val (getn s2 i), true)]. split; [|intros rest; apply Hlv; reflexivity].
      rewrite log_read_rlog_who; auto.
      * destruct (pr_above _ _ _ _ _ _ P2 w ltac:(lia)) as (Hr2 & _); [discriminate|]. rewrite Hr2, Hrl. reflexivity.
      * rewrite (pr_len _ _ _ _ _ _ P2), (pr_len _ _ _ _ _ _ P1). exact Hwl.
  - (* untracked *)
    assert (Hs1 : (if m then track c i s else s) = s).
    { destruct m; auto. cbn in Et. apply track_none. apply obs_of_untracked; auto. }
    rewrite Hs1 in Hr.
    destruct (memo_update p U R c i cm e s) as [s2 ch] eqn:Emu.
    inversion Hr; subst s' v. clear Hr.
    assert (Hpend : forall k, In k stk -> In i (srcs (getn s k)) ->
                    In i (tracked_of (rlog (getn s k))) \/ obs_of c = Some k).
    { intros k Hk Hin0. destruct (inv_frame _ _ _ _ I k Hk) as (_&_&F3&_).
      destruct (F3 i Hin0); auto. lia. }
    destruct (memo_update_spec i cm e U R Hd HU HR c s stk s2 ch (Inv_lower p stk t i s ltac:(lia) I) C Hni Hgt Hpend Eg Emu)
      as (I2 & P2 & _ & Hst2 & Hca2 & _).
    assert (I2' : Inv stk t s2) by (eapply Inv_restore; eauto).
    assert (T2 : TopOK c s2).
    { unfold TopOK in *. destruct (fst c) as [w|] eqn:Hw; auto.
      assert (Hwin : In w stk). { unfold ctx_ok in C. rewrite Hw in C. destruct C as [tl ->]. left; auto. }
      pose proof (Hgt w Hwin).
      destruct (pr_above _ _ _ _ _ _ P2 w ltac:(lia)) as (Hr2 & Hs2). { discriminate. }
      unfold L1 in *. rewrite Hs2, Hr2. exact T. }
    destruct (Inv_log_untracked p stk t c i (cache_val (getn s2 i)) true s2 I2' C T2) as (I3 & T3 & P3).
    split; auto. split; auto. split.
    { eapply PullRel_trans; [apply PullRel_addex; exact P2|exact P3]. }
    split.
    { intros _ _. destruct (log_read_other_fields c i (cache_val (getn s2 i)) false true s2 i) as (_&_&->&->&_).
      split; auto. unfold cache_val. destruct (cache (getn s2 i)); [reflexivity|congruence]. }
    split; [intros; congruence|].
    intros w Hw0. destruct (Hwr w Hw0) as (Hwl & Hiw).
    exists [(i, cache_val (getn s2 i), false)]. split; [|intros rest; apply Hlv; reflexivity].
    rewrite log_read_rlog_who; auto.
    + destruct (pr_above _ _ _ _ _ _ P2 w ltac:(lia)) as (Hr2 & _); [discriminate|]. rewrite Hr2. reflexivity.
    + rewrite (pr_len _ _ _ _ _ _ P2). exact Hwl.
Qed.

(* ---------------------------------------------------------------- every level *)
Theorem lvl_spec : forall n, USpec n (fst (lvl p n)) /\ RSpec n (snd (lvl p n)).
Proof.
  induction n as [|n [IHU IHR]].
  - split; intros c; intros; lia.
  - cbn [lvl]. split.
    + intros c j s stk t s' ch Hj Hjt I C HU. cbn [fst] in HU.
      destruct (Nat.eqb_spec j n) as [->|Hjn].
      * apply (node_update_spec n _ _ IHU IHR c s stk t s' ch Hjt I C HU).
      * apply (IHU c j s stk t s' ch ltac:(lia) Hjt I C HU).
    + intros m c j s stk t s' v Hj Hjt He Hcd I C T HR. cbn [snd] in HR.
      destruct (Nat.eqb_spec j n) as [->|Hjn].
      * destruct (decl_of p n) eqn:Hd.
        -- apply (read_sig p _ _ n take init Hd m c s stk t s' v Hjt Hcd I C T HR).
        -- apply (read_memo _ _ n c0 e Hd IHU IHR m c s stk t s' v Hjt Hcd I C T HR).
        -- apply (read_der p wfp _ _ n e Hd IHR m c s stk t s' v Hjt Hcd I C T HR).
        -- unfold GraphInvariant.effb in He. rewrite Hd in He. discriminate.
      * destruct (IHR m c j s stk t s' v ltac:(lia) Hjt He Hcd I C T HR) as (A1 & A2 & A3 & A4 & A5 & A6).
        split; auto. split; auto. split; auto. split; auto. split; auto.
        intros w Hw. destruct (A6 w Hw) as (D & HD & HQ). exists D. split; auto.
        intros rest. cbn [rlvl]. destruct (Nat.eqb_spec j n); [congruence|]. apply HQ.
Qed.

End P.
