(** C08 for the OTHER exit of a scope: the last strong reference to an owner goes away
    (Drop for OwnerInner: a dropped Owner handle, the last ArcMemo handle, an effect task ending)
    — [drop_owner], i.e. the [JDrop] job of the release cascade.  Same guarantees as for
    [cleanup]: the whole subtree is emptied, and descendants' cleanups run before their
    ancestors'.  Both follow from the job-generic lemmas [exec_order] / [exec_closure]. *)
From Coq Require Import List ZArith Bool Arith Lia.
From LV Require Import Reactive.RxUtil Reactive.Owner Reactive.OwnerProofs.
Import ListNotations.

Section DropTheorems.
  Variable c : core.
  Variable o : nat.
  Hypothesis W : wfs c.
  Hypothesis He : err c = false.
  Hypothesis Ho : alive c o = true.
  Let c' := drop_owner o c.

  Lemma drop_gone_root : gone_at c' o.
  Proof.
    unfold c', drop_owner, fuel_of. set (f := 2 * length (owners c) + 1).
    replace (2 * length (owners c) + 2) with (S f) by lia. cbn [exec].
    unfold alive in Ho. destruct (nth_error (owners c) o) as [ow|] eqn:Hq; [|discriminate].
    rewrite Ho.
    eapply mono_gone_at.
    2: { exists (clear_owner true ow). split; [|repeat split].
         instantiate (1 := upd_owner o (clear_owner true) c).
         unfold upd_owner. cbn. rewrite nth_error_upd_same, Hq. reflexivity. }
    eapply mono_trans; [apply (mono_fold (fun ch c => exec f (JCleanup ch) c)); intros; apply exec_mono|].
    eapply mono_trans; [apply mono_add_log|].
    apply (mono_fold (fun k c => exec f (JRemove k) c)); intros; apply exec_mono.
  Qed.

  Theorem drop_subtree_released : forall p ow, sub c o p -> nth_error (owners c) p = Some ow ->
    gone_at c' p /\ forall k, In k (o_nodes ow) -> get c' k = None.
  Proof.
    intros p ow Hs Hp.
    assert (Hne : err c' = false) by (apply drop_no_err; auto).
    assert (C : closure c c') by (apply exec_closure; exact Hne).
    assert (M : mono c c') by apply exec_mono.
    assert (G : gone_at c' p) by (eapply closure_sub; eauto using drop_gone_root).
    split; [exact G|]. destruct G as (b & Hb & Hg). exact (proj2 (C p ow b Hp Hb Hg)).
  Qed.
End DropTheorems.

Theorem drop_descendants_first : forall c o, wfs c -> nd c -> err c = false -> alive c o = true ->
  forall l, clog (drop_owner o c) = l ++ clog c ->
  forall p a q r ar cid1 cid2,
    sub c o p -> nth_error (owners c) p = Some a -> In cid2 (o_cleanups a) ->
    In q (o_children a) -> alive c q = true -> sub c q r ->
    nth_error (owners c) r = Some ar -> In cid1 (o_cleanups ar) ->
    logged_before cid1 cid2 (cids l).
Proof.
  intros c o W Hnd He Ho l E p a q r ar cid1 cid2 Hs Hp H2 Hq Hal Hsr Hr H1.
  assert (Hne : err (drop_owner o c) = false) by (apply drop_no_err; auto).
  apply (exec_order (fuel_of c) (JDrop o) c W Hnd Hne l E p a q r ar cid1 cid2); auto.
  exact (proj1 (drop_subtree_released c o W He Ho p a Hs Hp)).
Qed.

(** for every reachable state *)
Theorem r_drop_descendants_first : forall b ops,
  err (final_core b ops) = false ->
  forall o, alive (final_core b ops) o = true ->
  forall l, clog (drop_owner o (final_core b ops)) = l ++ clog (final_core b ops) ->
  forall p a q r ar cid1 cid2,
    sub (final_core b ops) o p -> nth_error (owners (final_core b ops)) p = Some a ->
    In cid2 (o_cleanups a) -> In q (o_children a) -> alive (final_core b ops) q = true ->
    sub (final_core b ops) q r -> nth_error (owners (final_core b ops)) r = Some ar ->
    In cid1 (o_cleanups ar) ->
    logged_before cid1 cid2 (cids l).
Proof.
  intros b ops He o Ho. apply drop_descendants_first; auto.
  - exact (r_wfs b ops).
  - exact (r_nd b ops).
Qed.

Theorem r_drop_subtree_released : forall b ops,
  err (final_core b ops) = false ->
  forall o, alive (final_core b ops) o = true ->
  forall p ow, sub (final_core b ops) o p -> nth_error (owners (final_core b ops)) p = Some ow ->
  gone_at (drop_owner o (final_core b ops)) p /\
  forall k, In k (o_nodes ow) -> get (drop_owner o (final_core b ops)) k = None.
Proof.
  intros b ops He o Ho p ow Hs Hp.
  exact (drop_subtree_released _ o (r_wfs b ops) He Ho p ow Hs Hp).
Qed.
