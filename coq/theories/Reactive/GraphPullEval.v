(** Pull phase, part 4: moving the invariant across the small steps of a read (emit, log,
    track, lowering / raising the bound), and the specification of [eval] for any reader that
    meets [RSpec]. *)
From Coq Require Import List ZArith Bool Arith Lia.
From LV Require Import Reactive.Graph Reactive.GraphLemmas Reactive.GraphReplay Reactive.GraphInvariant
                       Reactive.GraphMarkProofs Reactive.GraphPullBase Reactive.GraphPullSteps
                       Reactive.GraphPullDefs.
Import ListNotations.
Close Scope Z_scope.
Open Scope nat_scope.

Section P.
Variable p : prog.
Notation memob := (memob p).
Notation dead := (dead p).
Notation GoneSame := (GoneSame p).
Notation effb := (effb p).
Notation sigb := (sigb p).
Notation WF := (WF p).
Notation Inv := (Inv p).
Notation Lcur := (Lcur p).
Notation Lclean := (Lclean p).
Notation Rest := (Rest p).
Notation Frame := (Frame p).
Notation cur := (cur p).
Notation PullRel := (PullRel p).
Notation RSpec := (RSpec p).
Notation USpec := (USpec p).
Notation queue_ok := (queue_ok p).

(* ---------------------------------------------------------------- general transfer *)
Lemma WF_getn_eq s s' :
  nlen s' = nlen s -> (forall i, getn s' i = getn s i) -> WF s -> WF s'.
Proof.
  intros Hl He W. apply (WF_same_edges p s s'); auto; intros i; [rewrite He; auto|apply dead_node; auto].
Qed.

Lemma queue_transfer s s' :
  ready s' = ready s -> (forall e, qview_eq (getn s e) (getn s' e)) ->
  (forall e, queue_ok s e) -> forall e, queue_ok s' e.
Proof.
  intros Hr Hq Q e. unfold GraphInvariant.queue_ok in *. rewrite Hr.
  eapply queue_ok_qview; eauto.
Qed.

(* all nodes off the stack keep their view, values and Clean marks are kept, the frames are
   given *)
Lemma Inv_transfer stk t t0 s s' :
  WF s' -> err s' = false -> nocause s' = 0 -> ready s' = ready s ->
  (forall i, ~ In i stk -> nview_eq (getn s i) (getn s' i)) ->
  (forall e, qview_eq (getn s e) (getn s' e)) ->
  (forall j, cur s' j = cur s j) -> GoneSame s s' ->
  (forall j, memob j = true -> st (getn s j) = Clean -> st (getn s' j) = Clean) ->
  (forall k, In k stk -> Frame t s' k) ->
  Inv stk t0 s -> Inv stk t s'.
Proof.
  intros W' E' N' Hr V Q Hc Hg Hcl F I. split; auto.
  - intros i Hi. apply (Rest_ext p s s' i (V i Hi)); auto. apply I; auto.
  - apply (queue_transfer s s' Hr Q). apply I.
Qed.

Lemma Inv_views stk t s s' :
  WF s' -> err s' = false -> nocause s' = 0 -> ready s' = ready s ->
  (forall i, nview_eq (getn s i) (getn s' i)) ->
  Inv stk t s -> Inv stk t s'.
Proof.
  intros W' E' N' Hr V I.
  assert (Hcur : forall j, cur s' j = cur s j) by (intros j; apply cur_view; apply V).
  assert (Hst : forall j, st (getn s' j) = st (getn s j)) by (intros j; apply V).
  assert (Hgs : GoneSame s s') by (intros j; apply dead_view; apply V).
  apply (Inv_transfer stk t t s s'); auto.
  - intros e. apply nview_qview. apply V.
  - intros j _ Hc. rewrite Hst; auto.
  - intros k Hk. assert (Hed : edirty (getn s' k) = edirty (getn s k)) by apply V.
    apply (Frame_ext p t s s' k); try apply V; auto.
    + intros _. rewrite Hst; auto.
    + intros _. rewrite Hed; auto.
    + intros j v _ _ Hc. rewrite Hst; auto.
    + apply I; auto.
Qed.

Lemma Inv_emit stk t e s : Inv stk t s -> Inv stk t (emit e s).
Proof.
  intros I. apply (Inv_views stk t s (emit e s)); auto; try apply I.
  - eapply WF_getn_eq; [| |apply I]; auto.
  - intros i. apply nview_eq_refl.
Qed.

Lemma PullRel_emit b stk ex e s : PullRel b stk ex s (emit e s).
Proof. split; intros; rewrite ?getn_emit; auto using st_le_refl; intuition auto using st_le_refl. Qed.

Lemma Inv_lower stk t t' s : t' <= t -> Inv stk t s -> Inv stk t' s.
Proof.
  intros Ht I. split; try apply I.
  intros k Hk. destruct (inv_frame _ _ _ _ I k Hk) as (F1&F2&F3&F4&F5&F6&F7).
  split; [exact F1|]. split; [exact F2|].
  split; [intros x Hx; destruct (F3 x Hx); [left; auto|right; lia]|].
  split; [lia|]. split; [exact F5|]. split; [exact F6|exact F7].
Qed.

Lemma Inv_raise stk t t' s :
  Inv stk t' s ->
  (forall k x, In k stk -> In x (srcs (getn s k)) -> In x (tracked_of (rlog (getn s k))) \/ t <= x) ->
  (forall k, In k stk -> t <= k) ->
  Inv stk t s.
Proof.
  intros I H1 H2. split; try apply I.
  intros k Hk. destruct (inv_frame _ _ _ _ I k Hk) as (F1&F2&F3&F4&F5&F6&F7).
  split; [exact F1|]. split; [exact F2|]. split; [intros x; apply H1; auto|].
  split; [apply H2; auto|]. split; [exact F5|]. split; [exact F6|exact F7].
Qed.

(* ---------------------------------------------------------------- log_read *)
Lemma log_read_getn c j v t il s k :
  getn (log_read c j v t il s) k =
  match fst c with
  | Some o => if il && Nat.eqb o k && Nat.ltb o (nlen s)
              then set_rlog (getn s k) (rlog (getn s k) ++ [(j, v, t)]) else getn s k
  | None => getn s k
  end.
Proof.
  unfold log_read. destruct (fst c) as [o|]; auto. destruct il; cbn [andb]; auto.
  rewrite getn_updn. rewrite getn_emit, nlen_emit.
  destruct (Nat.eqb_spec o k) as [->|]; cbn [andb]; auto.
Qed.

Lemma log_read_misc c j v t il s :
  let s' := log_read c j v t il s in
  nlen s' = nlen s /\ err s' = err s /\ ready s' = ready s /\ halted s' = halted s /\ nocause s' = nocause s.
Proof.
  cbv zeta. unfold log_read. destruct (fst c); [destruct il|]; unfold nlen; cbn;
    rewrite ?list_upd_length; auto.
Qed.

Lemma log_read_other_fields c j v t il s k :
  let n := getn s k in let n' := getn (log_read c j v t il s) k in
  sval n' = sval n /\ subs n' = subs n /\ st n' = st n /\ cache n' = cache n /\ srcs n' = srcs n /\
  since n' = since n /\ edirty n' = edirty n /\ eflag n' = eflag n /\ ereg n' = ereg n /\
  efirst n' = efirst n /\ epaused n' = epaused n /\ ealive n' = ealive n /\ edone n' = edone n /\
  emissed n' = emissed n /\ epoll n' = epoll n.
Proof.
  cbv zeta. rewrite log_read_getn. destruct (fst c); [|intuition].
  destruct (_ && _ && _); nsimpl; intuition.
Qed.

Lemma WF_log_read c j v t il s : WF s -> WF (log_read c j v t il s).
Proof.
  intros W. apply (WF_same_edges p s (log_read c j v t il s)); auto.
  - apply (proj1 (log_read_misc c j v t il s)).
  - intros i. destruct (log_read_other_fields c j v t il s i) as (_&H1&_&_&H2&_). auto.
  - intros i. apply dead_view. destruct (log_read_other_fields c j v t il s i) as (_&_&_&_&_&_&_&_&_&_&_&_&H&_). exact H.
Qed.

(* the only thing a log entry changes: the log of the running body *)
Lemma log_read_rlog c j v t il s k :
  rlog (getn (log_read c j v t il s) k) = rlog (getn s k) \/
  (fst c = Some k /\ rlog (getn (log_read c j v t il s) k) = rlog (getn s k) ++ [(j, v, t)]).
Proof.
  rewrite log_read_getn. destruct (fst c) as [o|]; auto.
  destruct (il && Nat.eqb o k && Nat.ltb o (nlen s)) eqn:E; auto.
  right. apply andb_prop in E as [E _]. apply andb_prop in E as [_ E]. apply Nat.eqb_eq in E. subst.
  nsimpl. auto.
Qed.

Lemma log_read_rlog_who c j v t s w :
  fst c = Some w -> w < nlen s ->
  rlog (getn (log_read c j v t true s) w) = rlog (getn s w) ++ [(j, v, t)].
Proof.
  intros Hw Hl. rewrite log_read_getn, Hw. cbn [andb]. rewrite Nat.eqb_refl.
  apply Nat.ltb_lt in Hl. rewrite Hl. reflexivity.
Qed.

Lemma who_on_stack stk c w : ctx_ok stk c -> fst c = Some w -> In w stk.
Proof. unfold ctx_ok. intros C Hw. rewrite Hw in C. destruct C as [tl ->]. left; auto. Qed.

Lemma log_read_nview stk c j v t il s i :
  ctx_ok stk c -> ~ In i stk -> nview_eq (getn s i) (getn (log_read c j v t il s) i).
Proof.
  intros C Hi. destruct (log_read_other_fields c j v t il s i) as (?&?&?&?&?&?&?&?&?&?&?&?&?&?&?).
  unfold nview_eq. repeat split; auto.
  destruct (log_read_rlog c j v t il s i) as [?|[Hc _]]; auto.
  exfalso. apply Hi. eapply who_on_stack; eauto.
Qed.

Lemma log_read_qview c j v t il s e : qview_eq (getn s e) (getn (log_read c j v t il s) e).
Proof.
  destruct (log_read_other_fields c j v t il s e) as (?&?&?&?&?&?&?&?&?&?&?&?&?&?&?).
  unfold qview_eq. repeat split; auto.
Qed.

Lemma log_read_PullRel stk b c j v t il s :
  ctx_ok stk c -> PullRel b stk (fst c) s (log_read c j v t il s).
Proof.
  intros C. set (s' := log_read c j v t il s).
  assert (Hf := fun k => log_read_other_fields c j v t il s k). cbv zeta in Hf. fold s' in Hf.
  split.
  - apply log_read_misc.
  - intros i. apply Hf.
  - intros i Hm Hi Hc. destruct (Hf i) as (_&_&->&->&->&_). split; auto. split; auto. split; auto.
    destruct (log_read_rlog c j v t il s i) as [?|[Hc' _]]; auto.
    exfalso. apply Hi. eapply who_on_stack; eauto.
  - intros y Hy He. destruct (Hf y) as (_&_&_&_&->&_). split; auto.
    destruct (log_read_rlog c j v t il s y) as [?|[Hc' _]]; auto. congruence.
  - intros y Hy. destruct (Hf y) as (_&->&->&->&_). split; auto. split; auto using st_le_refl.
  - intros i. destruct (Hf i) as (_&_&_&_&_&_&_&_&_&?&?&?&?&?&?). repeat split; auto.
  - apply log_read_misc.
Qed.

(* a log entry that is not tracked, or not kept in the ghost log, changes no clause *)
Lemma Inv_log_untracked stk t c j v il s :
  Inv stk t s -> ctx_ok stk c -> TopOK c s ->
  let s' := log_read c j v false il s in
  Inv stk t s' /\ TopOK c s' /\ PullRel (S j) stk (fst c) s s'.
Proof.
  intros I C T. cbv zeta.
  set (s' := log_read c j v false il s).
  assert (Hf := fun k => log_read_other_fields c j v false il s k). cbv zeta in Hf. fold s' in Hf.
  assert (Hr := fun k => log_read_rlog c j v false il s k). fold s' in Hr.
  assert (Htr : forall k, tracked_of (rlog (getn s' k)) = tracked_of (rlog (getn s k))).
  { intros k. destruct (Hr k) as [->|[_ ->]]; auto. rewrite tracked_of_app. cbn. apply app_nil_r. }
  assert (Hin : forall k x w, In (x, w, true) (rlog (getn s' k)) -> In (x, w, true) (rlog (getn s k))).
  { intros k x w. destruct (Hr k) as [->|[_ ->]]; auto. rewrite in_app_iff. intros [H|[H|[]]]; auto.
    discriminate. }
  assert (Hcur : forall x, cur s' x = cur s x) by (intros x; apply cur_view; apply Hf).
  assert (Hst : forall x, st (getn s' x) = st (getn s x)) by (intros x; apply Hf).
  assert (Hsr : forall x, srcs (getn s' x) = srcs (getn s x)) by (intros x; apply Hf).
  assert (Hgs : GoneSame s s') by (intros x; apply dead_view; apply Hf).
  destruct (log_read_misc c j v false il s) as (Ml & Me & Mr & Mh & Mn). fold s' in Ml, Me, Mr, Mh, Mn.
  split; [|split].
  - apply (Inv_transfer stk t t s s'); auto.
    + apply WF_log_read. apply I.
    + rewrite Me. apply I.
    + rewrite Mn. apply I.
    + intros i Hi. apply (log_read_nview stk); auto.
    + intros e. apply log_read_qview.
    + intros x _ Hc. rewrite Hst; auto.
    + intros k Hk. destruct (inv_frame _ _ _ _ I k Hk) as (F1&F2&F3&F4&F5&F6&F7).
      split; [intros x w Hx Hg; rewrite Hcur; rewrite (Hgs x) in Hg; apply (F1 x w); auto|].
      split; [intros x w Hx Hm Hg; rewrite Hst; rewrite (Hgs x) in Hg; apply (F2 x w); auto|].
      split; [intros x; rewrite Hsr, Htr; auto|]. split; [exact F4|]. split; [exact F5|].
      split; [intros Hm; rewrite Hst; auto|].
      intros He. destruct (Hf k) as (_&_&_&_&_&_&->&_). auto.
  - unfold TopOK in *. destruct (fst c) as [w|]; auto. unfold L1 in *.
    rewrite Hsr, Htr. auto.
  - apply log_read_PullRel; auto.
Qed.

(* ---------------------------------------------------------------- a tracked read: track ... log *)
Lemma Inv_track stk t c o j s :
  Inv stk t s -> ctx_ok stk c -> obs_of c = Some o -> TopOK c s -> j < t -> dep p o j ->
  dead s j = false ->
  let s1 := track c j s in
  Inv stk j s1 /\
  srcs (getn s1 o) = tracked_of (rlog (getn s1 o)) ++ [j] /\
  PullRel (S j) stk (Some o) s s1 /\
  (forall k, k <> o -> srcs (getn s1 k) = srcs (getn s k)) /\
  (forall k, rlog (getn s1 k) = rlog (getn s k)) /\
  subs (getn s1 j) = subscribe (subs (getn s j)) o.
Proof.
  intros I C Ho T Hjt Hdep Hlive. cbv zeta.
  destruct (ctx_ok_obs stk c o C Ho) as [Hw Hin].
  destruct (inv_frame _ _ _ _ I o Hin) as (_&_&_&Hto&Hol&_).
  assert (Hlt : j < o) by lia.
  assert (Hor : o < nlen s) by (rewrite (wf_len p s (inv_wf _ _ _ _ I)); auto).
  set (s1 := track c j s).
  assert (Hrest := fun k => track_rest c o j s Ho Hlt Hor k). cbv zeta in Hrest. fold s1 in Hrest.
  assert (Hsv : forall k, sval (getn s1 k) = sval (getn s k)) by (intros k; apply Hrest).
  assert (Hst : forall k, st (getn s1 k) = st (getn s k)) by (intros k; apply Hrest).
  assert (Hca : forall k, cache (getn s1 k) = cache (getn s k)) by (intros k; apply Hrest).
  assert (Hrl : forall k, rlog (getn s1 k) = rlog (getn s k)) by (intros k; apply Hrest).
  assert (Hsr := fun k => track_srcs c o j s Ho Hlt Hor k). fold s1 in Hsr.
  assert (Hsu := fun k => track_subs c o j s Ho Hlt Hor k). fold s1 in Hsu.
  assert (Hsro : forall k, k <> o -> srcs (getn s1 k) = srcs (getn s k)).
  { intros k Hk. rewrite Hsr. destruct (Nat.eqb_spec k o); congruence. }
  assert (Hcur : forall x, cur s1 x = cur s x) by (intros x; apply cur_view; auto).
  assert (Hgs : GoneSame s s1) by (intros x; apply dead_view; apply Hrest).
  assert (Hno : forall i, ~ In i stk -> i <> o) by (intros i Hi ->; auto).
  destruct (track_misc c o j s Ho) as (Me & Mr & _ & Mn & Mh). fold s1 in Me, Mr, Mn, Mh.
  split; [|split; [|split; [|split; [|split]]]]; auto.
  - apply (Inv_transfer stk j t s s1); auto.
    + apply (WF_track p c o j s Ho Hlt Hor Hdep Hlive). apply I.
    + rewrite Me. apply I.
    + rewrite Mn. apply I.
    + intros i Hi. specialize (Hrest i). unfold nview_eq. rewrite (Hsro i (Hno i Hi)). intuition.
    + intros e. specialize (Hrest e). unfold qview_eq. intuition.
    + intros x _ Hc. rewrite Hst; auto.
    + intros k Hk. destruct (inv_frame _ _ _ _ I k Hk) as (F1&F2&F3&F4&F5&F6&F7).
      split; [intros x w Hx Hg; rewrite Hcur; rewrite Hrl in Hx; rewrite (Hgs x) in Hg; apply (F1 x w); auto|].
      split; [intros x w Hx Hm Hg; rewrite Hst; rewrite Hrl in Hx; rewrite (Hgs x) in Hg; apply (F2 x w); auto|].
      split; [|split; [lia|split; [auto|split; [intros Hm; rewrite Hst; auto|
                 intros He; destruct (Hrest k) as (_&_&_&_&_&->&_); auto]]]].
      intros x. rewrite Hrl, Hsr. destruct (Nat.eqb_spec k o) as [->|Hko].
      * rewrite in_app_iff. intros [Hx|[<-|[]]]; [|right; lia].
        destruct (F3 x Hx); auto. right; lia.
      * intros Hx. destruct (F3 x Hx); auto. right; lia.
  - rewrite Hrl, Hsr, Nat.eqb_refl. unfold TopOK in T. rewrite Hw in T. unfold L1 in T. rewrite T. reflexivity.
  - split.
    + apply (track_nlen c o j s Ho).
    + auto.
    + intros i Hm Hi Hc. rewrite Hst, Hca, Hrl, (Hsro i (Hno i Hi)). auto.
    + intros y Hy He. split; [apply Hrl|]. apply Hsro. intros ->. apply He; reflexivity.
    + intros y Hy. rewrite Hca, Hst, Hsu. split; auto. split; auto using st_le_refl.
      destruct (Nat.eqb_spec y j); auto. lia.
    + intros i. specialize (Hrest i). intuition.
    + exact Mh.
  - rewrite Hsu, Nat.eqb_refl. reflexivity.
Qed.

(* a tracked read of a disposed source: recorded as a dead source, no subscriber edge *)
Lemma Inv_track_dead stk t c o j s :
  Inv stk t s -> ctx_ok stk c -> obs_of c = Some o -> TopOK c s -> j < t -> dep p o j ->
  dead s j = true ->
  let s1 := track_dead c j s in
  Inv stk j s1 /\
  srcs (getn s1 o) = tracked_of (rlog (getn s1 o)) ++ [j] /\
  PullRel (S j) stk (Some o) s s1 /\
  (forall k, k <> o -> srcs (getn s1 k) = srcs (getn s k)) /\
  (forall k, rlog (getn s1 k) = rlog (getn s k)).
Proof.
  intros I C Ho T Hjt Hdep Hdead. cbv zeta.
  destruct (ctx_ok_obs stk c o C Ho) as [Hw Hin].
  destruct (inv_frame _ _ _ _ I o Hin) as (_&_&_&Hto&Hol&_).
  assert (Hlt : j < o) by lia.
  assert (Hor : o < nlen s) by (rewrite (wf_len p s (inv_wf _ _ _ _ I)); auto).
  set (s1 := track_dead c j s).
  assert (Hrest := fun k => track_dead_rest c o j s Ho Hor k). cbv zeta in Hrest. fold s1 in Hrest.
  assert (Hsv : forall k, sval (getn s1 k) = sval (getn s k)) by (intros k; apply Hrest).
  assert (Hst : forall k, st (getn s1 k) = st (getn s k)) by (intros k; apply Hrest).
  assert (Hca : forall k, cache (getn s1 k) = cache (getn s k)) by (intros k; apply Hrest).
  assert (Hrl : forall k, rlog (getn s1 k) = rlog (getn s k)) by (intros k; apply Hrest).
  assert (Hsu : forall k, subs (getn s1 k) = subs (getn s k)) by (intros k; apply Hrest).
  assert (Hsr := fun k => track_dead_srcs c o j s Ho Hor k). fold s1 in Hsr.
  assert (Hsro : forall k, k <> o -> srcs (getn s1 k) = srcs (getn s k)).
  { intros k Hk. rewrite Hsr. destruct (Nat.eqb_spec k o); congruence. }
  assert (Hcur : forall x, cur s1 x = cur s x) by (intros x; apply cur_view; auto).
  assert (Hgs : GoneSame s s1) by (intros x; apply dead_view; apply Hrest).
  assert (Hno : forall i, ~ In i stk -> i <> o) by (intros i Hi ->; auto).
  destruct (track_dead_misc c o j s Ho) as (Me & Mr & _ & Mn & Mh). fold s1 in Me, Mr, Mn, Mh.
  split; [|split; [|split; [|split]]]; auto.
  - apply (Inv_transfer stk j t s s1); auto.
    + apply (WF_track_dead p c o j s Ho Hlt Hor Hdep Hdead). apply I.
    + rewrite Me. apply I.
    + rewrite Mn. apply I.
    + intros i Hi. specialize (Hrest i). unfold nview_eq. rewrite (Hsro i (Hno i Hi)). intuition.
    + intros e. specialize (Hrest e). unfold qview_eq. intuition.
    + intros x _ Hc. rewrite Hst; auto.
    + intros k Hk. destruct (inv_frame _ _ _ _ I k Hk) as (F1&F2&F3&F4&F5&F6&F7).
      split; [intros x w Hx Hg; rewrite Hcur; rewrite Hrl in Hx; rewrite (Hgs x) in Hg; apply (F1 x w); auto|].
      split; [intros x w Hx Hm Hg; rewrite Hst; rewrite Hrl in Hx; rewrite (Hgs x) in Hg; apply (F2 x w); auto|].
      split; [|split; [lia|split; [auto|split; [intros Hm; rewrite Hst; auto|
                 intros He; destruct (Hrest k) as (_&_&_&_&_&->&_); auto]]]].
      intros x. rewrite Hrl, Hsr. destruct (Nat.eqb_spec k o) as [->|Hko].
      * rewrite in_app_iff. intros [Hx|[<-|[]]]; [|right; lia].
        destruct (F3 x Hx); auto. right; lia.
      * intros Hx. destruct (F3 x Hx); auto. right; lia.
  - rewrite Hrl, Hsr, Nat.eqb_refl. unfold TopOK in T. rewrite Hw in T. unfold L1 in T. rewrite T. reflexivity.
  - split.
    + apply (track_dead_nlen c o j s Ho).
    + auto.
    + intros i Hm Hi Hc. rewrite Hst, Hca, Hrl, (Hsro i (Hno i Hi)). auto.
    + intros y Hy He. split; [apply Hrl|]. apply Hsro. intros ->. apply He; reflexivity.
    + intros y Hy. rewrite Hca, Hst, Hsu. split; auto. split; auto using st_le_refl.
    + intros i. specialize (Hrest i). intuition.
    + exact Mh.
Qed.

(* the log entry of a tracked read completes the pending source *)
Lemma Inv_log_tracked stk t c o j v s :
  Inv stk j s -> ctx_ok stk c -> fst c = Some o ->
  (forall k x, In k stk -> k <> o -> In x (srcs (getn s k)) ->
               In x (tracked_of (rlog (getn s k))) \/ t <= x) ->
  (forall k, In k stk -> t <= k) ->
  srcs (getn s o) = tracked_of (rlog (getn s o)) ++ [j] ->
  (dead s j = false -> cur s j = v) ->
  (memob j = true -> dead s j = false -> st (getn s j) = Clean) ->
  let s' := log_read c j v true true s in
  Inv stk t s' /\ TopOK c s' /\ PullRel (S j) stk (Some o) s s'.
Proof.
  intros I C Hw Hsrc Hge Hpend Hv Hcl. cbv zeta.
  assert (Hin : In o stk) by (eapply who_on_stack; eauto).
  set (s' := log_read c j v true true s).
  destruct (inv_frame _ _ _ _ I o Hin) as (_&_&_&_&Hol&_).
  assert (Hor : o < nlen s) by (rewrite (wf_len p s (inv_wf _ _ _ _ I)); auto).
  assert (Hf := fun k => log_read_other_fields c j v true true s k). cbv zeta in Hf. fold s' in Hf.
  assert (Hro : rlog (getn s' o) = rlog (getn s o) ++ [(j, v, true)]).
  { unfold s'. rewrite log_read_getn, Hw. cbn [andb]. rewrite Nat.eqb_refl.
    apply Nat.ltb_lt in Hor. rewrite Hor. reflexivity. }
  assert (Hrk : forall k, k <> o -> rlog (getn s' k) = rlog (getn s k)).
  { intros k Hk. unfold s'. rewrite log_read_getn, Hw. cbn [andb].
    destruct (Nat.eqb_spec o k); [congruence|]. reflexivity. }
  assert (Hcur : forall x, cur s' x = cur s x) by (intros x; apply cur_view; apply Hf).
  assert (Hst : forall k, st (getn s' k) = st (getn s k)) by (intros k; apply Hf).
  assert (Hsr : forall k, srcs (getn s' k) = srcs (getn s k)) by (intros k; apply Hf).
  assert (Hgs : GoneSame s s') by (intros x; apply dead_view; apply Hf).
  assert (HL1o : srcs (getn s' o) = tracked_of (rlog (getn s' o))).
  { rewrite Hsr, Hro, tracked_of_app, Hpend. reflexivity. }
  destruct (log_read_misc c j v true true s) as (Ml & Me & Mr & Mh & Mn). fold s' in Ml, Me, Mr, Mh, Mn.
  split; [|split].
  - apply (Inv_transfer stk t j s s'); auto.
    + apply WF_log_read. apply I.
    + rewrite Me. apply I.
    + rewrite Mn. apply I.
    + intros i Hi. apply (log_read_nview stk); auto.
    + intros e. apply log_read_qview.
    + intros x _ Hc. rewrite Hst; auto.
    + intros k Hk. destruct (inv_frame _ _ _ _ I k Hk) as (F1&F2&F3&F4&F5&F6&F7).
      assert (Hedk : edirty (getn s' k) = edirty (getn s k)) by (destruct (Hf k) as (_&_&_&_&_&_&->&_); auto).
      destruct (Nat.eq_dec k o) as [->|Hko].
      * split.
        { intros x w Hx Hg. rewrite Hcur. rewrite (Hgs x) in Hg. rewrite Hro, in_app_iff in Hx. destruct Hx as [Hx|[Hx|[]]].
          - apply (F1 x w); auto.
          - inversion Hx; subst. apply eqv_eq. auto. }
        split.
        { intros x w Hx Hm Hg. rewrite Hst. rewrite (Hgs x) in Hg. rewrite Hro, in_app_iff in Hx. destruct Hx as [Hx|[Hx|[]]].
          - apply (F2 x w); auto.
          - inversion Hx; subst. auto. }
        split; [intros x Hx; left; rewrite <- HL1o; exact Hx|].
        split; [auto|]. split; [auto|]. split; [intros Hm; rewrite Hst; auto|].
        intros He. rewrite Hedk. auto.
      * split; [intros x w Hx Hg; rewrite Hcur; rewrite Hrk in Hx by auto; rewrite (Hgs x) in Hg; apply (F1 x w); auto|].
        split; [intros x w Hx Hm Hg; rewrite Hst; rewrite Hrk in Hx by auto; rewrite (Hgs x) in Hg; apply (F2 x w); auto|].
        split; [intros x Hx; rewrite Hsr in Hx; rewrite Hrk by auto; apply Hsrc; auto|].
        split; [auto|]. split; [auto|]. split; [intros Hm; rewrite Hst; auto|].
        intros He. rewrite Hedk. auto.
  - unfold TopOK. rewrite Hw. exact HL1o.
  - rewrite <- Hw. apply log_read_PullRel; auto.
Qed.

(* ---------------------------------------------------------------- eval, for a pure body *)
Lemma Growth_refl c s (P : list lentry -> Prop) : P [] -> Growth c s s P.
Proof. intros H w _. exists []. rewrite app_nil_r. auto. Qed.

Lemma eval_spec i R : RSpec i R ->
  forall e c s stk t s' v,
    expr_ok p i false e -> (forall x, occurs x e -> CtxDep p c x) ->
    i <= t -> Inv stk t s -> ctx_ok stk c -> TopOK c s ->
    eval p R false c e s = (s', v) ->
    Inv stk t s' /\ TopOK c s' /\ PullRel i stk (fst c) s s' /\
    Growth c s s' (fun D => forall rest, rexpr (rlvl p i) (snd c) e (D ++ rest) = Some (v, rest)).
Proof.
  intros HR e. induction e as [z|j|j|a IHa|a IHa b IHb|a IHa b IHb|g IHg a IHa b IHb|w a IHa];
    intros c s stk t s' v Hok Hdp Hit I C T Hev; cbn [eval] in Hev; cbn [expr_ok] in Hok; cbn [occurs] in Hdp.
  - inversion Hev; subst. split; auto. split; auto. split; [apply PullRel_refl|].
    apply Growth_refl. intros rest. reflexivity.
  - destruct Hok as [Hj He].
    destruct (HR true c j s stk t s' v Hj ltac:(lia) He (Hdp j eq_refl) I C T Hev) as (I' & T' & P' & _ & _ & G').
    split; auto. split; auto. split; [eapply PullRel_weaken; [|exact P']; lia|]. exact G'.
  - destruct Hok as [Hj He].
    destruct (HR false c j s stk t s' v Hj ltac:(lia) He (Hdp j eq_refl) I C T Hev) as (I' & T' & P' & _ & _ & G').
    split; auto. split; auto. split; [eapply PullRel_weaken; [|exact P']; lia|]. exact G'.
  - apply (IHa (fst c, false) s stk t s' v Hok Hdp Hit I (ctx_ok_untr stk c C) T Hev).
  - destruct Hok as [Ha Hb].
    destruct (eval p R false c a s) as [s1 x] eqn:E1.
    destruct (eval p R false c b s1) as [s2 y] eqn:E2. inversion Hev; subst.
    destruct (IHa c s stk t s1 x Ha (fun z Hz => Hdp z (or_introl Hz)) Hit I C T E1) as (I1 & T1 & P1 & G1).
    destruct (IHb c s1 stk t s' y Hb (fun z Hz => Hdp z (or_intror Hz)) Hit I1 C T1 E2) as (I2 & T2 & P2 & G2).
    split; auto. split; auto. split; [eapply PullRel_trans; eauto|].
    intros w0 Hw. destruct (G1 w0 Hw) as (D1 & R1 & Q1). destruct (G2 w0 Hw) as (D2 & R2 & Q2).
    exists (D1 ++ D2). split; [rewrite R2, R1, app_assoc; reflexivity|].
    intros rest. cbn [rexpr]. rewrite <- app_assoc, Q1, Q2. reflexivity.
  - destruct Hok as [Ha Hb].
    destruct (eval p R false c a s) as [s1 x] eqn:E1.
    destruct (eval p R false c b s1) as [s2 y] eqn:E2. inversion Hev; subst.
    destruct (IHa c s stk t s1 x Ha (fun z Hz => Hdp z (or_introl Hz)) Hit I C T E1) as (I1 & T1 & P1 & G1).
    destruct (IHb c s1 stk t s' y Hb (fun z Hz => Hdp z (or_intror Hz)) Hit I1 C T1 E2) as (I2 & T2 & P2 & G2).
    split; auto. split; auto. split; [eapply PullRel_trans; eauto|].
    intros w0 Hw. destruct (G1 w0 Hw) as (D1 & R1 & Q1). destruct (G2 w0 Hw) as (D2 & R2 & Q2).
    exists (D1 ++ D2). split; [rewrite R2, R1, app_assoc; reflexivity|].
    intros rest. cbn [rexpr]. rewrite <- app_assoc, Q1, Q2. reflexivity.
  - destruct Hok as (Hg & Ha & Hb).
    destruct (eval p R false c g s) as [s1 x] eqn:E1.
    destruct (IHg c s stk t s1 x Hg (fun z Hz => Hdp z (or_introl Hz)) Hit I C T E1) as (I1 & T1 & P1 & G1).
    destruct (Z.eqb x 0) eqn:Ex.
    + destruct (IHb c s1 stk t s' v Hb (fun z Hz => Hdp z (or_intror (or_intror Hz))) Hit I1 C T1 Hev) as (I2 & T2 & P2 & G2).
      split; auto. split; auto. split; [eapply PullRel_trans; eauto|].
      intros w0 Hw. destruct (G1 w0 Hw) as (D1 & R1 & Q1). destruct (G2 w0 Hw) as (D2 & R2 & Q2).
      exists (D1 ++ D2). split; [rewrite R2, R1, app_assoc; reflexivity|].
      intros rest. cbn [rexpr]. rewrite <- app_assoc, Q1, Ex, Q2. reflexivity.
    + destruct (IHa c s1 stk t s' v Ha (fun z Hz => Hdp z (or_intror (or_introl Hz))) Hit I1 C T1 Hev) as (I2 & T2 & P2 & G2).
      split; auto. split; auto. split; [eapply PullRel_trans; eauto|].
      intros w0 Hw. destruct (G1 w0 Hw) as (D1 & R1 & Q1). destruct (G2 w0 Hw) as (D2 & R2 & Q2).
      exists (D1 ++ D2). split; [rewrite R2, R1, app_assoc; reflexivity|].
      intros rest. cbn [rexpr]. rewrite <- app_assoc, Q1, Ex, Q2. reflexivity.
  - destruct Hok as (Hf & _). discriminate.
Qed.

End P.
