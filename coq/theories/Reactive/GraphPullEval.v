(** Pull phase, part 4: moving the invariant across the small steps of a read (emit, log,
    track, lowering / raising the bound), and the specification of [eval] for any reader that
    meets [RSpec]. *)
From Coq Require Import List ZArith Bool Arith Lia.
From LV Require Import Reactive.Graph Reactive.GraphLemmas Reactive.GraphInvariant
                       Reactive.GraphMarkProofs Reactive.GraphPullBase Reactive.GraphPullSteps
                       Reactive.GraphPullDefs.
Import ListNotations.
Close Scope Z_scope.
Open Scope nat_scope.

Section P.
Variable p : prog.
Notation memob := (memob p).
Notation effb := (effb p).
Notation sigb := (sigb p).
Notation WF := (WF p).
Notation Inv := (Inv p).
Notation InvW := (InvW p).
Notation Lcur := (Lcur p).
Notation Lclean := (Lclean p).
Notation MemoOKc := (MemoOKc p).
Notation MemoOKv := (MemoOKv p).
Notation cur := (cur p).
Notation PullRel := (PullRel p).
Notation RSpec := (RSpec p).
Notation USpec := (USpec p).

(* ---------------------------------------------------------------- same views *)
Lemma WF_getn_eq s s' :
  nlen s' = nlen s -> (forall i, getn s' i = getn s i) -> WF s -> WF s'.
Proof.
  intros Hl He W. apply (WF_same_edges p s s'); auto. intros i. rewrite He. auto.
Qed.

Lemma Inv_views stk t s s' :
  WF s' -> err s' = false ->
  (forall i, view_eq (getn s i) (getn s' i)) ->
  Inv stk t s -> Inv stk t s'.
Proof.
  intros W' E' V [I Iv].
  assert (Vs : forall i, sval (getn s' i) = sval (getn s i)) by (intros i; apply V).
  assert (Vst : forall i, st (getn s' i) = st (getn s i)) by (intros i; apply V).
  assert (Vc : forall i, cache (getn s' i) = cache (getn s i)) by (intros i; apply V).
  assert (Vr : forall i, rlog (getn s' i) = rlog (getn s i)) by (intros i; apply V).
  assert (Vsr : forall i, srcs (getn s' i) = srcs (getn s i)) by (intros i; apply V).
  assert (Vcur : forall j, cur s' j = cur s j) by (intros j; apply cur_view; auto).
  split; [split|].
  - exact W'.
  - exact E'.
  - intros i Hi. eapply L1_ext; eauto. apply I; auto.
  - intros i Hm Hi. eapply MemoOKc_ext; eauto; [|apply I; auto].
    intros j v _ _ Hc. rewrite Vst; auto.
  - intros k Hk. eapply Lcur_ext; eauto. apply I; auto.
  - intros k Hk. eapply Lclean_ext; eauto; [|apply I; auto].
    intros j v _ _ Hc. rewrite Vst; auto.
  - intros k x Hk. rewrite Vsr, Vr. apply I; auto.
  - apply I.
  - apply I.
  - intros k Hk Hm. rewrite Vst. eapply inv_run_nc; eauto.
  - intros i Hm Hi. eapply MemoOKv_ext; eauto.
Qed.

Lemma Inv_emit stk t e s : Inv stk t s -> Inv stk t (emit e s).
Proof.
  intros I. eapply Inv_views; eauto.
  - eapply WF_getn_eq; [| |apply I]; auto.
  - apply I.
  - intros i. apply view_eq_refl.
Qed.

Lemma PullRel_emit b stk ex e s : PullRel b stk ex s (emit e s).
Proof. split; intros; rewrite ?getn_emit; auto using st_le_refl; intuition auto using st_le_refl. Qed.

Lemma Inv_lower stk t t' s : t' <= t -> Inv stk t s -> Inv stk t' s.
Proof.
  intros Ht [I Iv]. split; auto. destruct I. split; auto.
  - intros k x Hk Hx. destruct (inv_run_src k x Hk Hx); auto. right; lia.
  - intros k Hk. specialize (inv_run_ge k Hk). lia.
Qed.

Lemma Inv_raise stk t t' s :
  Inv stk t' s ->
  (forall k x, In k stk -> In x (srcs (getn s k)) -> In x (tracked_of (rlog (getn s k))) \/ t <= x) ->
  (forall k, In k stk -> t <= k) ->
  Inv stk t s.
Proof. intros [I Iv] H1 H2. split; auto. destruct I. split; auto. Qed.

(* ---------------------------------------------------------------- log_read *)
Lemma log_read_getn c j v t il s k :
  getn (log_read c j v t il s) k =
  match fst c with
  | Some o => if il && Nat.eqb o k && Nat.ltb o (nlen s)
              then set_rlog (getn s k) (rlog (getn s k) ++ [(j, v, t)]) else getn s k
  | None => getn s k
  end.
Proof.
  unfold log_read. destruct (fst c) as [o|]; auto. destruct il; cbn [andb]; auto.
  rewrite getn_updn. rewrite getn_emit, nlen_emit.
  destruct (Nat.eqb_spec o k) as [->|]; cbn [andb]; auto.
Qed.

Lemma log_read_misc c j v t il s :
  let s' := log_read c j v t il s in
  nlen s' = nlen s /\ err s' = err s /\ ready s' = ready s /\ halted s' = halted s /\ nocause s' = nocause s.
Proof.
  cbv zeta. unfold log_read. destruct (fst c); [destruct il|]; unfold nlen; cbn;
    rewrite ?list_upd_length; auto.
Qed.

Lemma log_read_other_fields c j v t il s k :
  let n := getn s k in let n' := getn (log_read c j v t il s) k in
  sval n' = sval n /\ subs n' = subs n /\ st n' = st n /\ cache n' = cache n /\ srcs n' = srcs n /\
  since n' = since n /\ edirty n' = edirty n /\ eflag n' = eflag n /\ ereg n' = ereg n /\
  efirst n' = efirst n /\ epaused n' = epaused n /\ ealive n' = ealive n /\ edone n' = edone n /\
  emissed n' = emissed n.
Proof.
  cbv zeta. rewrite log_read_getn. destruct (fst c); [|intuition].
  destruct (_ && _ && _); nsimpl; intuition.
Qed.

Lemma WF_log_read c j v t il s : WF s -> WF (log_read c j v t il s).
Proof.
  intros W. apply (WF_same_edges p s (log_read c j v t il s)); auto.
  - apply (proj1 (log_read_misc c j v t il s)).
  - intros i. destruct (log_read_other_fields c j v t il s i) as (_&H1&_&_&H2&_). auto.
Qed.

(* a log entry that is not tracked, or not kept in the ghost log, changes no clause *)
Lemma Inv_log_untracked stk t c j v il s :
  Inv stk t s -> ctx_ok stk c -> TopOK c s ->
  let s' := log_read c j v false il s in
  Inv stk t s' /\ TopOK c s' /\ PullRel (S j) stk (fst c) s s'.
Proof.
  intros I C T. cbv zeta.
  set (s' := log_read c j v false il s).
  assert (Hf : forall k, sval (getn s' k) = sval (getn s k) /\ st (getn s' k) = st (getn s k) /\
                         cache (getn s' k) = cache (getn s k) /\ srcs (getn s' k) = srcs (getn s k) /\
                         subs (getn s' k) = subs (getn s k)).
  { intros k. destruct (log_read_other_fields c j v false il s k) as (?&?&?&?&?&_). intuition. }
  assert (Hr : forall k, rlog (getn s' k) = rlog (getn s k) \/
                         (fst c = Some k /\ rlog (getn s' k) = rlog (getn s k) ++ [(j, v, false)])).
  { intros k. unfold s'. rewrite log_read_getn. destruct (fst c) as [o|]; auto.
    destruct (il && Nat.eqb o k && Nat.ltb o (nlen s)) eqn:E; auto.
    right. apply andb_prop in E as [E _]. apply andb_prop in E as [_ E]. apply Nat.eqb_eq in E. subst.
    nsimpl. auto. }
  assert (Htr : forall k, tracked_of (rlog (getn s' k)) = tracked_of (rlog (getn s k))).
  { intros k. destruct (Hr k) as [->|[_ ->]]; auto. rewrite tracked_of_app. cbn. apply app_nil_r. }
  assert (Hin : forall k x w, In (x, w, true) (rlog (getn s' k)) -> In (x, w, true) (rlog (getn s k))).
  { intros k x w. destruct (Hr k) as [->|[_ ->]]; auto. rewrite in_app_iff. intros [H|[H|[]]]; auto.
    discriminate. }
  assert (Hcur : forall x, cur s' x = cur s x) by (intros x; apply cur_view; apply Hf).
  destruct I as [I Iv].
  split; [|split].
  - split; [split|].
    + apply WF_log_read. apply I.
    + unfold s'. rewrite (proj1 (proj2 (log_read_misc c j v false il s))). apply I.
    + intros i Hi. unfold L1. destruct (Hf i) as (_&_&_&->&_). rewrite Htr. apply I; auto.
    + intros i Hm Hi. pose proof (inv_memo_c _ _ _ _ I i Hm Hi) as HM.
      assert (Hri : rlog (getn s' i) = rlog (getn s i)).
      { destruct (Hr i) as [?|[Hc _]]; auto. exfalso. apply Hi.
        unfold ctx_ok in C. rewrite Hc in C. destruct C as [tl ->]. left; auto. }
      apply (MemoOKc_ext p s s' i (proj1 (proj2 (Hf i))) (proj1 (proj2 (proj2 (Hf i)))) Hri); [|exact HM].
      intros x w _ _ Hc. destruct (Hf x) as (_&->&_). auto.
    + intros k Hk x w Hx. rewrite Hcur. eapply inv_run_cur; eauto.
    + intros k Hk x w Hx Hm. destruct (Hf x) as (_&->&_). eapply inv_run_clean; eauto.
    + intros k x Hk. destruct (Hf k) as (_&_&_&->&_). rewrite Htr. apply I; auto.
    + apply I.
    + apply I.
    + intros k Hk Hm. destruct (Hf k) as (_&->&_). eapply inv_run_nc; eauto.
    + intros i Hm Hi.
      assert (Hri : rlog (getn s' i) = rlog (getn s i)).
      { destruct (Hr i) as [?|[Hc _]]; auto. exfalso. apply Hi.
        unfold ctx_ok in C. rewrite Hc in C. destruct C as [tl ->]. left; auto. }
      apply (MemoOKv_ext p s s' i (proj1 (proj2 (Hf i))) (proj1 (proj2 (proj2 (Hf i)))) Hri); [|apply Iv; auto].
      intros x w _. apply Hcur.
  - unfold TopOK in *. destruct (fst c) as [w|]; auto. unfold L1 in *.
    destruct (Hf w) as (_&_&_&->&_). rewrite Htr. auto.
  - split.
    + apply log_read_misc.
    + intros i. apply Hf.
    + intros i Hm Hi Hc. destruct (Hf i) as (_&->&->&->&_). split; auto. split; auto. split; auto.
      destruct (Hr i) as [?|[Hc' _]]; auto. exfalso. apply Hi.
      unfold ctx_ok in C. rewrite Hc' in C. destruct C as [tl ->]. left; auto.
    + intros y Hy He. destruct (Hf y) as (_&_&_&->&_). split; auto.
      destruct (Hr y) as [?|[Hc' _]]; auto. congruence.
    + intros y Hy. destruct (Hf y) as (_&->&->&_&->). split; auto. split; auto using st_le_refl.
    + intros i. destruct (log_read_other_fields c j v false il s i) as (_&_&_&_&_&_&_&_&_&?&?&?&?&?).
      intuition.
    + apply log_read_misc.
Qed.

(* ---------------------------------------------------------------- a tracked read: track ... log *)
Lemma Inv_track stk t c o j s :
  Inv stk t s -> ctx_ok stk c -> obs_of c = Some o -> TopOK c s -> j < t ->
  let s1 := track c j s in
  Inv stk j s1 /\
  srcs (getn s1 o) = tracked_of (rlog (getn s1 o)) ++ [j] /\
  PullRel (S j) stk (Some o) s s1 /\
  (forall k, k <> o -> srcs (getn s1 k) = srcs (getn s k)) /\
  (forall k, rlog (getn s1 k) = rlog (getn s k)) /\
  subs (getn s1 j) = subscribe (subs (getn s j)) o.
Proof.
  intros I C Ho T Hjt. cbv zeta.
  destruct (ctx_ok_obs stk c o C Ho) as [Hw Hin].
  destruct I as [I Iv].
  assert (Hto : t <= o) by (eapply inv_run_ge; eauto).
  assert (Hlt : j < o) by lia.
  assert (Hor : o < nlen s).
  { rewrite (wf_len p s (inv_wf _ _ _ _ I)). eapply inv_run_range; eauto. }
  set (s1 := track c j s).
  assert (Hrest := fun k => track_rest c o j s Ho Hlt Hor k). cbv zeta in Hrest. fold s1 in Hrest.
  assert (Hsv : forall k, sval (getn s1 k) = sval (getn s k)) by (intros k; apply Hrest).
  assert (Hst : forall k, st (getn s1 k) = st (getn s k)) by (intros k; apply Hrest).
  assert (Hca : forall k, cache (getn s1 k) = cache (getn s k)) by (intros k; apply Hrest).
  assert (Hrl : forall k, rlog (getn s1 k) = rlog (getn s k)) by (intros k; apply Hrest).
  assert (Hsr := fun k => track_srcs c o j s Ho Hlt Hor k). fold s1 in Hsr.
  assert (Hsu := fun k => track_subs c o j s Ho Hlt Hor k). fold s1 in Hsu.
  assert (Hsro : forall k, k <> o -> srcs (getn s1 k) = srcs (getn s k)).
  { intros k Hk. rewrite Hsr. destruct (Nat.eqb_spec k o); congruence. }
  assert (Hcur : forall x, cur s1 x = cur s x) by (intros x; apply cur_view; auto).
  assert (Hno : forall i, ~ In i stk -> i <> o) by (intros i Hi ->; auto).
  split; [|split; [|split; [|split; [|split]]]]; auto.
  - split; [split|].
    + apply (WF_track p c o j s Ho Hlt Hor). apply I.
    + unfold s1. rewrite (proj1 (track_misc c o j s Ho)). apply I.
    + intros i Hi. apply (L1_ext s s1 i (Hrl i) (Hsro i (Hno i Hi))). apply I; auto.
    + intros i Hm Hi. apply (MemoOKc_ext p s s1 i (Hst i) (Hca i) (Hrl i)); [|apply I; auto].
      intros x w _ _ Hc. rewrite Hst; auto.
    + intros k Hk. apply (Lcur_ext p s s1 k (Hrl k)); [|apply I; auto]. intros x w _; apply Hcur.
    + intros k Hk. apply (Lclean_ext p s s1 k (Hrl k)); [|apply I; auto].
      intros x w _ _ Hc. rewrite Hst; auto.
    + intros k x Hk. rewrite Hrl, Hsr. destruct (Nat.eqb_spec k o) as [->|Hko].
      * rewrite in_app_iff. intros [Hx|[<-|[]]]; [|right; lia].
        destruct (inv_run_src _ _ _ _ I o x Hk Hx); auto. right; lia.
      * intros Hx. destruct (inv_run_src _ _ _ _ I k x Hk Hx); auto. right; lia.
    + intros k Hk. pose proof (inv_run_ge _ _ _ _ I k Hk). lia.
    + apply I.
    + intros k Hk Hm. rewrite Hst. eapply inv_run_nc; eauto.
    + intros i Hm Hi. apply (MemoOKv_ext p s s1 i (Hst i) (Hca i) (Hrl i)); [|apply Iv; auto].
      intros x w _; apply Hcur.
  - rewrite Hrl, Hsr, Nat.eqb_refl. unfold TopOK in T. rewrite Hw in T. unfold L1 in T. rewrite T. reflexivity.
  - split.
    + apply (track_nlen c o j s Ho).
    + auto.
    + intros i Hm Hi Hc. rewrite Hst, Hca, Hrl, (Hsro i (Hno i Hi)). auto.
    + intros y Hy He. split; [apply Hrl|]. apply Hsro. intros ->. apply He; reflexivity.
    + intros y Hy. rewrite Hca, Hst, Hsu. split; auto. split; auto using st_le_refl.
      destruct (Nat.eqb_spec y j); auto. lia.
    + intros i. specialize (Hrest i). intuition.
    + apply (track_misc c o j s Ho).
  - rewrite Hsu, Nat.eqb_refl. reflexivity.
Qed.

(* the log entry of a tracked read completes the pending source *)
Lemma Inv_log_tracked stk t c o j v s :
  Inv stk j s -> fst c = Some o -> In o stk ->
  (forall k x, In k stk -> k <> o -> In x (srcs (getn s k)) ->
               In x (tracked_of (rlog (getn s k))) \/ t <= x) ->
  (forall k, In k stk -> t <= k) ->
  srcs (getn s o) = tracked_of (rlog (getn s o)) ++ [j] ->
  cur s j = v -> (memob j = true -> st (getn s j) = Clean) ->
  let s' := log_read c j v true true s in
  Inv stk t s' /\ TopOK c s' /\ PullRel (S j) stk (Some o) s s'.
Proof.
  intros [I Iv] Hw Hin Hsrc Hge Hpend Hv Hcl. cbv zeta.
  set (s' := log_read c j v true true s).
  assert (Hor : o < nlen s).
  { rewrite (wf_len p s (inv_wf _ _ _ _ I)). eapply inv_run_range; eauto. }
  assert (Hf : forall k, sval (getn s' k) = sval (getn s k) /\ st (getn s' k) = st (getn s k) /\
                         cache (getn s' k) = cache (getn s k) /\ srcs (getn s' k) = srcs (getn s k) /\
                         subs (getn s' k) = subs (getn s k)).
  { intros k. destruct (log_read_other_fields c j v true true s k) as (?&?&?&?&?&_). intuition. }
  assert (Hro : rlog (getn s' o) = rlog (getn s o) ++ [(j, v, true)]).
  { unfold s'. rewrite log_read_getn, Hw. cbn [andb]. rewrite Nat.eqb_refl.
    apply Nat.ltb_lt in Hor. rewrite Hor. reflexivity. }
  assert (Hrk : forall k, k <> o -> rlog (getn s' k) = rlog (getn s k)).
  { intros k Hk. unfold s'. rewrite log_read_getn, Hw. cbn [andb].
    destruct (Nat.eqb_spec o k); [congruence|]. reflexivity. }
  assert (Hcur : forall x, cur s' x = cur s x) by (intros x; apply cur_view; apply Hf).
  assert (Hno : forall i, ~ In i stk -> i <> o) by (intros i Hi ->; auto).
  assert (Hsto : forall k, st (getn s' k) = st (getn s k)) by (intros k; apply Hf).
  assert (Hca : forall k, cache (getn s' k) = cache (getn s k)) by (intros k; apply Hf).
  assert (Hsr : forall k, srcs (getn s' k) = srcs (getn s k)) by (intros k; apply Hf).
  assert (HL1o : srcs (getn s' o) = tracked_of (rlog (getn s' o))).
  { rewrite Hsr, Hro, tracked_of_app, Hpend. reflexivity. }
  split; [|split].
  - split; [split|].
    + apply WF_log_read. apply I.
    + unfold s'. rewrite (proj1 (proj2 (log_read_misc c j v true true s))). apply I.
    + intros i Hi. apply (L1_ext s s' i (Hrk i (Hno i Hi)) (Hsr i)). apply I; auto.
    + intros i Hm Hi. apply (MemoOKc_ext p s s' i (Hsto i) (Hca i) (Hrk i (Hno i Hi))); [|apply I; auto].
      intros x w _ _ Hc. rewrite Hsto; auto.
    + intros k Hk x w Hx. rewrite Hcur. destruct (Nat.eq_dec k o) as [->|Hko].
      * rewrite Hro, in_app_iff in Hx. destruct Hx as [Hx|[Hx|[]]].
        -- eapply inv_run_cur; eauto.
        -- inversion Hx; subst. reflexivity.
      * rewrite Hrk in Hx by auto. eapply inv_run_cur; eauto.
    + intros k Hk x w Hx Hm. rewrite Hsto. destruct (Nat.eq_dec k o) as [->|Hko].
      * rewrite Hro, in_app_iff in Hx. destruct Hx as [Hx|[Hx|[]]].
        -- eapply inv_run_clean; eauto.
        -- inversion Hx; subst. auto.
      * rewrite Hrk in Hx by auto. eapply inv_run_clean; eauto.
    + intros k x Hk Hx. destruct (Nat.eq_dec k o) as [->|Hko].
      * left. rewrite <- HL1o. exact Hx.
      * rewrite Hsr in Hx. rewrite Hrk by auto. apply Hsrc; auto.
    + exact Hge.
    + apply I.
    + intros k Hk Hm. rewrite Hsto. eapply inv_run_nc; eauto.
    + intros i Hm Hi. apply (MemoOKv_ext p s s' i (Hsto i) (Hca i) (Hrk i (Hno i Hi))); [|apply Iv; auto].
      intros x w _; apply Hcur.
  - unfold TopOK. rewrite Hw. exact HL1o.
  - split.
    + apply (proj1 (log_read_misc c j v true true s)).
    + intros i. apply Hf.
    + intros i Hm Hi Hc. rewrite Hsto, Hca, Hsr, (Hrk i (Hno i Hi)). auto.
    + intros y Hy He. split; [|apply Hsr]. apply Hrk. intros ->. apply He; congruence.
    + intros y Hy. destruct (Hf y) as (_&->&->&_&->). split; auto. split; auto using st_le_refl.
    + intros i. destruct (log_read_other_fields c j v true true s i) as (_&_&_&_&_&_&_&_&_&?&?&?&?&?).
      intuition.
    + apply (log_read_misc c j v true true s).
Qed.

(* ---------------------------------------------------------------- eval, for a pure body *)
Lemma eval_spec i R : RSpec i R ->
  forall e c s stk t s' v,
    expr_ok p i false e -> i <= t -> Inv stk t s -> ctx_ok stk c -> TopOK c s ->
    eval p R false c e s = (s', v) ->
    Inv stk t s' /\ TopOK c s' /\ PullRel i stk (fst c) s s'.
Proof.
  intros HR e. induction e as [z|j|j|a IHa|a IHa b IHb|a IHa b IHb|g IHg a IHa b IHb|w a IHa];
    intros c s stk t s' v Hok Hit I C T Hev; cbn [eval] in Hev; cbn [expr_ok] in Hok.
  - inversion Hev; subst. split; auto. split; auto. apply PullRel_refl.
  - destruct Hok as [Hj He].
    destruct (HR true c j s stk t s' v Hj ltac:(lia) He I C T Hev) as (I' & T' & P' & _).
    split; auto. split; auto. eapply PullRel_weaken; [|exact P']. lia.
  - destruct Hok as [Hj He].
    destruct (HR false c j s stk t s' v Hj ltac:(lia) He I C T Hev) as (I' & T' & P' & _).
    split; auto. split; auto. eapply PullRel_weaken; [|exact P']. lia.
  - apply (IHa (fst c, false) s stk t s' v Hok Hit I (ctx_ok_untr stk c C) T Hev).
  - destruct Hok as [Ha Hb].
    destruct (eval p R false c a s) as [s1 x] eqn:E1.
    destruct (eval p R false c b s1) as [s2 y] eqn:E2. inversion Hev; subst.
    destruct (IHa c s stk t s1 x Ha Hit I C T E1) as (I1 & T1 & P1).
    destruct (IHb c s1 stk t s' y Hb Hit I1 C T1 E2) as (I2 & T2 & P2).
    split; auto. split; auto. eapply PullRel_trans; eauto.
  - destruct Hok as [Ha Hb].
    destruct (eval p R false c a s) as [s1 x] eqn:E1.
    destruct (eval p R false c b s1) as [s2 y] eqn:E2. inversion Hev; subst.
    destruct (IHa c s stk t s1 x Ha Hit I C T E1) as (I1 & T1 & P1).
    destruct (IHb c s1 stk t s' y Hb Hit I1 C T1 E2) as (I2 & T2 & P2).
    split; auto. split; auto. eapply PullRel_trans; eauto.
  - destruct Hok as (Hg & Ha & Hb).
    destruct (eval p R false c g s) as [s1 x] eqn:E1.
    destruct (IHg c s stk t s1 x Hg Hit I C T E1) as (I1 & T1 & P1).
    destruct (Z.eqb x 0).
    + destruct (IHb c s1 stk t s' v Hb Hit I1 C T1 Hev) as (I2 & T2 & P2).
      split; auto. split; auto. eapply PullRel_trans; eauto.
    + destruct (IHa c s1 stk t s' v Ha Hit I1 C T1 Hev) as (I2 & T2 & P2).
      split; auto. split; auto. eapply PullRel_trans; eauto.
  - destruct Hok as (Hf & _). discriminate.
Qed.

End P.
