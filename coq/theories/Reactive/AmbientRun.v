(** Executable entry point of the C20 model for the correspondence check.

    case = (obs sandboxed ooo pipeline fine (view ...) (action ...))
    Only cases with obs = 0 and fine = 0 are compared with the implementation: the model's
    answer is the abstract trace
      ((ambient-before-each-action ...) ((events cleanups) per request))
    which must not depend on `ooo` / `pipeline` (streaming mode, hand-written or real from_app). *)
From Coq Require Import List ZArith Bool Arith.
From LV Require Import Base.Sexp Reactive.Ambient.
Import ListNotations.

Fixpoint dec_view (s : sexp) : view :=
  match s with
  | Lst (Num op :: args) =>
      match Z.to_nat op, args with
      | 1, [Num p] => VLeaf (Z.to_nat p)
      | 2, [Num p] => VDyn (Z.to_nat p)
      | 3, [c] => VEl (dec_view c)
      | 4, cs => VSeq (map dec_view cs)
      | 5, [Num v; c] => VProvide v (dec_view c)
      | 6, [Num g; Num p; c] => VSuspend (Z.to_nat g) (Z.to_nat p) (dec_view c)
      | 7, [fb; c] => VSuspense (dec_view fb) (dec_view c)
      | 8, [Num kind; Num g; Num p1; Num p2; Num p3; c] =>
          VResource (Z.to_nat kind) (Z.to_nat g) (Z.to_nat p1) (Z.to_nat p2) (Z.to_nat p3) (dec_view c)
      | 9, [Num id; c] => VCleanup id (dec_view c)
      | 10, [Num slot; c] => VAlloc (Z.to_nat slot) (dec_view c)
      | 11, [Num p; Num slot] => VItem (Z.to_nat p) (Z.to_nat slot)
      | 12, [Num p] => VDynL (Z.to_nat p)
      (* constructs added by the anchor coverage audit, expressed with the existing views:
         a context-API leaf (expect_context / with_context / update_context walk the owners
         exactly like use_context) observes what a leaf observes; a <For> row, a component
         calling Owner::new() and <Transition> run their children under a fresh child of the
         ambient owner, which is what VSuspense with an empty fallback compiles to (IChild);
         Unsuspend is a closure called when the view is rendered, like VDynL *)
      | 14, [Num p; Num _] => VLeaf (Z.to_nat p)
      | 17, [Num _; Num _; Num _; c] => VSuspense VText (dec_view c)
      | 19, [Num _; Num n; c] => VSeq (repeat (VSuspense VText (dec_view c)) (Z.to_nat n))
      | 20, [fb; c] => VSuspense (dec_view fb) (dec_view c)
      | 21, [Num p] => VDynL (Z.to_nat p)
      | _, _ => VText
      end
  | _ => VText
  end.

(** same filtering as the harness: kind 0..4, request 1..n *)
Definition dec_action (n : nat) (s : sexp) : list coarse :=
  let k := as_Z (nth_s 0 s) in
  let r := as_Z (nth_s 1 s) in
  let g := Z.to_nat (as_Z (nth_s 2 s)) in
  if (r <? 1)%Z || (Z.of_nat n <? r)%Z then [] else
  let r := Z.to_nat r in
  match k with
  | 0%Z => [CStart r]
  | 1%Z => [CFire r g]
  | 2%Z => [CRun r]
  | 3%Z => [CFinish r]
  | 4%Z => [CCreate r]
  | _ => []
  end.

Definition drain (n : nat) : list coarse := flat_map (fun r => [CStart r; CFinish r]) (seq 1 n).

(** lexicographic order on integer tuples, as Rust's derived Ord *)
Fixpoint zs_ltb (a b : list Z) : bool :=
  match a, b with
  | [], [] => false
  | [], _ => true
  | _, [] => false
  | x :: a, y :: b => if (x <? y)%Z then true else if (y <? x)%Z then false else zs_ltb a b
  end.
Fixpoint zs_eqb (a b : list Z) : bool :=
  match a, b with
  | [], [] => true
  | x :: a, y :: b => (x =? y)%Z && zs_eqb a b
  | _, _ => false
  end.
Fixpoint insert_sorted (x : list Z) (l : list (list Z)) : list (list Z) :=
  match l with
  | [] => [x]
  | y :: t => if zs_ltb y x then y :: insert_sorted x t else x :: l
  end.
Definition sort_zs (l : list (list Z)) : list (list Z) := fold_right insert_sorted [] l.
Fixpoint dedup_adj (l : list (list Z)) : list (list Z) :=
  match l with
  | x :: ((y :: _) as t) => if zs_eqb x y then dedup_adj t else x :: dedup_adj t
  | _ => l
  end.

Definition event_zs (e : event) : list Z :=
  match e with (p, kind, o, t0, t1, item) => [Z.of_nat p; Z.of_nat kind; Z.of_nat o; t0; t1; item] end.

Definition s_events (q : reqst) : sexp :=
  Lst (map sZs (dedup_adj (sort_zs (map event_zs (q_log q))))).
Definition s_cleanups (q : reqst) : sexp :=
  Lst (map sZs (sort_zs (map (fun c => [fst c; Z.of_nat (snd c)]) (q_clog q)))).

(** what unwrapped code on the server thread sees between two actions *)
Definition amb_view (sb : bool) (n : nat) (c : cfg) : sexp :=
  Lst (snat (read_owner_req c) :: Num (read_ctx c 0)
       :: map (fun r => Num (match assoc_nat CANARY_SLOT (q_slots (get_req r (c_w c))) with
                             | Some h => read_handle sb c h
                             | None => (-3)%Z      (* r not created, or its first poll has not happened *)
                             end))
              (seq 1 n)).

Definition run_coarse (sb : bool) (views : list view) (acts : list coarse) : cfg * list sexp :=
  let n := length views in
  let c0 := init_world (harness_progs views) in
  fold_left (fun st a => (apply_coarse sb a (fst st), snd st ++ [amb_view sb n (fst st)])) acts (c0, []).

Definition run_C20 (c : sexp) : sexp :=
  let obs := as_Z (nth_s 0 c) in
  let sb := as_bool (nth_s 1 c) in
  let fine := as_Z (nth_s 4 c) in
  if negb (obs =? 0)%Z || negb (fine =? 0)%Z then Lst [] else
  let views := map dec_view (as_list (nth_s 5 c)) in
  let n := length views in
  let acts := flat_map (dec_action n) (as_list (nth_s 6 c)) ++ drain n in
  let r := run_coarse sb views acts in
  let cf := fst r in
  Lst [Lst (snd r ++ [amb_view sb n cf]);
       Lst (map (fun r => let q := get_req r (c_w cf) in Lst [s_events q; s_cleanups q]) (seq 1 n))].
