(** C19 — lock layer: lock acquisition event traces of the reactive graph operations and the
    machine that executes them on several threads.  No proofs in this file (LocksProofs.v).

    The traces are HAND-MIRRORED from the guard scopes of the Rust code (which `RwLock` is
    taken read/write in which scope, and what is called while the guard is alive):
    computed/inner.rs (memo), effect/inner.rs + graph/sets.rs (`clear_sources` holds the
    subscriber's own lock while it unsubscribes from each source), signal/subscriber_traits.rs,
    signal/guards.rs, computed/async_derived/{arc_async_derived,inner,future_impls}.rs.
    They are tied to the code only by reading and by the hangs the harness watchdog would
    observe. *)
From Coq Require Import List Bool Arith.
Import ListNotations.

Inductive mode := R | W.
Inductive ev := Acq (m : mode) (l : nat) | Rel (l : nat) | Yld.

Record lthr := mkL { l_todo : list ev; l_held : list (nat * mode) }.

Definition mode_conflict (a b : mode) : bool := match a, b with R, R => false | _, _ => true end.
Definition conflicts (m : mode) (l : nat) (h : nat * mode) : bool :=
  (fst h =? l) && mode_conflict m (snd h).

(** a thread can acquire when no thread (itself included: std RwLock is not re-entrant)
    holds the lock in a conflicting mode *)
Definition can_acq (s : list lthr) (m : mode) (l : nat) : bool :=
  forallb (fun x => negb (existsb (conflicts m l) (l_held x))) s.

Fixpoint remove_lock (l : nat) (h : list (nat * mode)) : list (nat * mode) :=
  match h with
  | [] => []
  | x :: r => if fst x =? l then r else x :: remove_lock l r
  end.

Fixpoint updl (s : list lthr) (i : nat) (x : lthr) : list lthr :=
  match s, i with
  | [], _ => []
  | _ :: t, O => x :: t
  | h :: t, S j => h :: updl t j x
  end.

(** fine-grained semantics: one slot = one event of thread t, if it can be executed *)
Definition lstep1 (t : nat) (s : list lthr) : list lthr :=
  match nth_error s t with
  | None => s
  | Some x =>
      match l_todo x with
      | [] => s
      | Acq m l :: r => if can_acq s m l then updl s t (mkL r ((l, m) :: l_held x)) else s
      | Rel l :: r => updl s t (mkL r (remove_lock l (l_held x)))
      | Yld :: r => updl s t (mkL r (l_held x))
      end
  end.

Definition lrun1 (s : list lthr) (sched : list nat) : list lthr :=
  fold_left (fun s t => lstep1 t s) sched s.

Definition linit (traces : list (list ev)) : list lthr := map (fun tr => mkL tr []) traces.

Definition l_enabled (s : list lthr) (x : lthr) : bool :=
  match l_todo x with
  | [] => false
  | Acq m l :: _ => can_acq s m l
  | _ => true
  end.
Definition l_finished (x : lthr) : bool := match l_todo x with [] => true | _ => false end.

(** deadlock: somebody is unfinished and nobody can move *)
Definition deadlocked (s : list lthr) : bool :=
  existsb (fun x => negb (l_finished x)) s && forallb (fun x => negb (l_enabled s x)) s.

(** the lock-order discipline: every acquisition is of a lock ranked strictly above every lock
    currently held by the thread; a finished thread holds nothing *)
Fixpoint disciplined (rank : nat -> nat) (held : list (nat * mode)) (todo : list ev) : bool :=
  match todo with
  | [] => match held with [] => true | _ => false end
  | Acq m l :: r =>
      forallb (fun h => rank (fst h) <? rank l) held && disciplined rank ((l, m) :: held) r
  | Rel l :: r => disciplined rank (remove_lock l held) r
  | Yld :: r => disciplined rank held r
  end.

(** coarse semantics used for the correspondence with the harness: one slot = thread t runs to
    its next yield point (consumed) or until it blocks; blocked threads continue by
    themselves as soon as they can (quiescence) *)
Fixpoint run_segment (fuel : nat) (t : nat) (s : list lthr) : list lthr * bool (* blocked *) :=
  match fuel with
  | O => (s, false)
  | S f =>
      match nth_error s t with
      | None => (s, false)
      | Some x =>
          match l_todo x with
          | [] => (s, false)
          | Yld :: r => (updl s t (mkL r (l_held x)), false)
          | Acq m l :: _ => if can_acq s m l then run_segment f t (lstep1 t s) else (s, true)
          | Rel _ :: _ => run_segment f t (lstep1 t s)
          end
      end
  end.

Definition seg_fuel (s : list lthr) : nat := S (fold_right (fun x n => length (l_todo x) + n) 0 s).

(** [inflight]: threads that blocked in the middle of a segment *)
Fixpoint resume_all (fuel : nat) (inflight : list nat) (s : list lthr) : list lthr * list nat :=
  match fuel with
  | O => (s, inflight)
  | S f =>
      let fix go (todo acc : list nat) (s : list lthr) (progress : bool) :=
        match todo with
        | [] => (s, rev acc, progress)
        | u :: rest =>
            let '(s1, b) := run_segment (seg_fuel s) u s in
            if b then go rest (u :: acc) s1 progress else go rest acc s1 true
        end in
      let '(s1, infl, progress) := go inflight [] s false in
      if progress then resume_all f infl s1 else (s1, infl)
  end.

Definition lstep_coarse (t : nat) (st : list lthr * list nat) : list lthr * list nat :=
  let '(s, infl) := st in
  if existsb (Nat.eqb t) infl then resume_all (S (length infl)) infl s
  else
    let '(s1, b) := run_segment (seg_fuel s) t s in
    resume_all (S (S (length infl))) (if b then infl ++ [t] else infl) s1.

Definition lrun_coarse (s : list lthr) (sched : list nat) : list lthr * list nat :=
  fold_left (fun st t => lstep_coarse t st) sched (s, []).

(* ------------------------------------------------------------------------------------ *)
(** * Trace table for a concrete graph

    signal s --> memo m --> memo m2 --> effect e ;   s --> e ;   async derived d --> e
    and an awaiter of d.   Locks: *)
Definition E_INNER := 0.    (* Arc<RwLock<EffectInner>> *)
Definition M2_REACT := 1.   (* MemoInner.reactivity of m2 *)
Definition M2_VALUE := 2.
Definition M_REACT := 3.
Definition M_VALUE := 4.
Definition D_INNER := 5.    (* Arc<RwLock<ArcAsyncDerivedInner>> *)
Definition D_VALUE := 6.    (* async_lock::RwLock of the value *)
Definition D_WAKERS := 7.
Definition S_SUBS := 8.     (* Arc<RwLock<SubscriberSet>> of the signal *)
Definition S_VALUE := 9.
Definition T_SUBS := 10.    (* a second signal t, read by the effect *)
Definition T_VALUE := 11.

(** documented order of computed/inner.rs ("value must always be acquired after the
    reactivity lock"), extended: a subscriber's lock before the locks of its sources *)
Definition rank_head (l : nat) : nat := l.

Definition hold (m : mode) (l : nat) (body : list ev) : list ev := Acq m l :: body ++ [Rel l].
Definition touch (m : mode) (l : nat) : list ev := [Acq m l; Rel l].

(** effect e: mark_check / mark_dirty = inner.write() { dirty; observer.notify() } *)
Definition e_mark : list ev := touch W E_INNER.

(** memo m2, HEAD (commit "fix: memos notify their subscribers without holding the reactivity
    lock"): mark_dirty = write state; mark_subscribers_check = clone under read, release, notify *)
Definition m2_mark : list ev := touch W M2_REACT ++ touch R M2_REACT ++ e_mark.
Definition m_mark : list ev := touch W M_REACT ++ touch R M_REACT ++ m2_mark.
(** before that commit: subscribers were notified under reactivity.read() *)
Definition m2_mark_prefix : list ev := touch W M2_REACT ++ hold R M2_REACT e_mark.
Definition m_mark_prefix : list ev := touch W M_REACT ++ hold R M_REACT m2_mark_prefix.

(** signal s: set = value.write() {..}; then mark_subscribers_check: clone under read, release,
    mark_dirty each subscriber (m, e) *)
Definition s_set : list ev := touch W S_VALUE ++ touch R S_SUBS ++ m_mark ++ e_mark.
Definition s_set_prefix : list ev := touch W S_VALUE ++ touch R S_SUBS ++ m_mark_prefix ++ e_mark.

(** tracked read of the signal by subscriber with lock [sub]:
    add_subscriber (s.subs.write), add_source (sub.write), value.read *)
Definition s_get (sub : nat) : list ev := touch W S_SUBS ++ touch W sub ++ touch R S_VALUE.

(** memo m, update_if_necessary when Dirty: read state; take value; clone any_subscriber;
    clear_sources = reactivity.write() { s.remove_subscriber }; run fun (reads s);
    reactivity.write() { value.write() }; notify subscribers after releasing *)
Definition m_update : list ev :=
  touch R M_REACT ++ touch W M_VALUE ++ touch R M_REACT
  ++ hold W M_REACT (touch W S_SUBS)
  ++ s_get M_REACT
  ++ hold W M_REACT (touch W M_VALUE)
  ++ m2_mark.
Definition m_read (sub : nat) : list ev :=
  touch W M_REACT ++ touch W sub ++ m_update ++ touch R M_VALUE.
Definition m2_update : list ev :=
  touch R M2_REACT ++ touch W M2_VALUE ++ touch R M2_REACT
  ++ hold W M2_REACT (touch W M_REACT)
  ++ m_read M2_REACT
  ++ hold W M2_REACT (touch W M2_VALUE)
  ++ e_mark.
Definition m2_read (sub : nat) : list ev :=
  touch W M2_REACT ++ touch W sub ++ m2_update ++ touch R M2_VALUE.

(** sync read of the async derived d by the effect *)
Definition d_get (sub : nat) : list ev := touch W D_INNER ++ touch W sub ++ touch R D_VALUE.

(** effect e re-run: update_if_necessary (inner.write()), clear_sources = inner.write() {
    remove_subscriber on each source: "sources:remove_sub" before each }, then the function *)
Definition e_rerun : list ev :=
  touch W E_INNER
  ++ hold W E_INNER ([Yld] ++ touch W S_SUBS ++ [Yld] ++ touch W M2_REACT ++ [Yld] ++ touch W D_INNER)
  ++ s_get E_INNER ++ m2_read E_INNER ++ d_get E_INNER.

(** completer of d, HEAD (commit "fix: async derived values notify their subscribers without
    holding their inner lock"): version read; value.write(); notify_subs: state; clone
    subscribers; "ad:mark_sub"; e.mark_dirty; "ad:before_drain"; wakers.write() { wake };
    state *)
Definition d_complete : list ev :=
  touch R D_INNER ++ touch W D_VALUE ++ touch W D_INNER ++ touch R D_INNER
  ++ [Yld] ++ e_mark ++ [Yld] ++ touch W D_WAKERS ++ touch W D_INNER.
Definition d_complete_prefix : list ev :=
  touch R D_INNER ++ touch W D_VALUE ++ touch W D_INNER
  ++ hold R D_INNER ([Yld] ++ e_mark) ++ [Yld] ++ touch W D_WAKERS ++ touch W D_INNER.

(** awaiter of d: value.read_arc() polled, wakers.write() { re-check; push } under the guard *)
Definition d_await : list ev := hold R D_VALUE (touch W D_WAKERS).

(** the two threads of harness scenario 5 (effect reads s and d only) *)
Definition e_rerun_sd : list ev :=
  touch W E_INNER
  ++ hold W E_INNER ([Yld] ++ touch W S_SUBS ++ [Yld] ++ touch W D_INNER)
  ++ s_get E_INNER ++ d_get E_INNER.

(** harness scenario 11: signal s --> memo m --> effect e, e also reads signal t.
    Writer: s.set = value.write(); clone subscribers; m.mark_dirty = reactivity.write() ·
    "memo:marked_dirty" · mark_subscribers_check (HEAD: clone under read, release) ·
    "effect:mark_check" (entry of the subscriber callback) · e.mark_check *)
Definition s_set_me : list ev :=
  touch W S_VALUE ++ touch R S_SUBS ++ touch W M_REACT ++ [Yld] ++ touch R M_REACT ++ [Yld] ++ e_mark.
(** the same with the subscribers walked under reactivity.read() (one site of the memo fix reverted) *)
Definition s_set_me_prefix : list ev :=
  touch W S_VALUE ++ touch R S_SUBS ++ touch W M_REACT ++ [Yld] ++ hold R M_REACT ([Yld] ++ e_mark).
(** m pulled by the effect (m's only source is s, its only subscriber e) *)
Definition m_update_e : list ev :=
  touch R M_REACT ++ touch W M_VALUE ++ touch R M_REACT
  ++ hold W M_REACT (touch W S_SUBS)
  ++ s_get M_REACT
  ++ hold W M_REACT (touch W M_VALUE).
Definition t_get (sub : nat) : list ev := touch W T_SUBS ++ touch W sub ++ touch R T_VALUE.
(** effect re-run: clear_sources holds the effect's lock while unsubscribing from m and t
    ("sources:remove_sub" before each), then the function reads m and t *)
Definition e_rerun_mt : list ev :=
  touch W E_INNER
  ++ hold W E_INNER ([Yld] ++ touch W M_REACT ++ [Yld] ++ touch W T_SUBS)
  ++ touch W M_REACT ++ touch W E_INNER ++ m_update_e ++ touch R M_VALUE
  ++ t_get E_INNER.

Definition head_ops : list (list ev) :=
  [e_mark; m2_mark; m_mark; s_set; m_update; m2_update; m_read E_INNER; m2_read E_INNER;
   e_rerun; e_rerun_sd; d_complete; d_await; s_get E_INNER; d_get E_INNER;
   s_set_me; m_update_e; e_rerun_mt; t_get E_INNER].

(** F-C02-b (before the memo commit): an ImmediateEffect subscribed to m reacts inside
    mark_check on the same thread: it re-runs, i.e. unsubscribes from m under its own lock *)
Definition immediate_rerun : list ev :=
  touch W E_INNER ++ hold W E_INNER (touch W M_REACT).
Definition s_set_immediate_prefix : list ev :=
  touch W S_VALUE ++ touch R S_SUBS ++ touch W M_REACT ++ hold R M_REACT immediate_rerun.
Definition s_set_immediate_head : list ev :=
  touch W S_VALUE ++ touch R S_SUBS ++ touch W M_REACT ++ touch R M_REACT ++ immediate_rerun.
