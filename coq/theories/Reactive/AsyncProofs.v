(** Proofs about the async derived model (C10). [gc c] : the repaired code. *)
From Coq Require Import List ZArith Bool Arith Lia.
From LV Require Import Reactive.RxUtil Reactive.Async.
Import ListNotations.

(** reduce projections of setter applications, nothing else *)
Ltac sf := cbn [sigs refetch_n seen st_dirty flag woken rx_reg polled version value loading wakers task init_fut first_run futs manual cap d_set d_dirty d_first d_woken d_reg d_sub d_seen dlog awaiters legit notified aw_sus susp_reg susp_held set_sigs set_refetch_n set_seen set_st_dirty set_flag set_woken set_rx_reg set_polled set_version set_value set_loading set_wakers set_task set_init_fut set_first_run set_futs set_manual set_cap set_d_set set_d_dirty set_d_first set_d_woken set_d_reg set_d_sub set_d_seen set_dlog set_awaiters set_legit set_notified set_aw_sus set_susp_reg set_susp_held].
Ltac sf_in H := cbn [sigs refetch_n seen st_dirty flag woken rx_reg polled version value loading wakers task init_fut first_run futs manual cap d_set d_dirty d_first d_woken d_reg d_sub d_seen dlog awaiters legit notified aw_sus susp_reg susp_held set_sigs set_refetch_n set_seen set_st_dirty set_flag set_woken set_rx_reg set_polled set_version set_value set_loading set_wakers set_task set_init_fut set_first_run set_futs set_manual set_cap set_d_set set_d_dirty set_d_first set_d_woken set_d_reg set_d_sub set_d_seen set_dlog set_awaiters set_legit set_notified set_aw_sus set_susp_reg set_susp_held] in H.

Definition gc (c : cfg) : Prop := hidden c = true /\ own_only c = true /\ drop_stale c = true.

(** * the inputs the fetcher reads, as a function of the memo values *)
Definition iv (c : cfg) (l : list Z) : Z * Z :=
  if once c then (7, 7)%Z else
  match shape c with
  | O => (0, 0)%Z
  | 1%nat => (nth 0 l 0, nth 1 l 0)%Z
  | 2%nat => (nth 0 l 0, nth 1 l 0)%Z
  | _ => (nth 1 l 0, 0)%Z
  end.
(** what [cap] must be while the node is not dirty *)
Definition capof (c : cfg) (s : node) : Z * Z :=
  match shape c with O => inputs c s | _ => iv c (seen s) end.

Lemma inputs_sigs c s x : sigs x = sigs s -> inputs c x = inputs c s.
Proof. intros E. unfold inputs, m3_of, m2_of, sg. rewrite E. reflexivity. Qed.

Lemma capof_eq c s x : sigs x = sigs s -> seen x = seen s -> capof c x = capof c s.
Proof. intros E1 E2. unfold capof. rewrite (inputs_sigs c s x E1), E2. reflexivity. Qed.

Lemma inputs_iv c s : shape c <> 0%nat -> inputs c s = iv c (curvals c s).
Proof.
  unfold inputs, iv, curvals. destruct (once c); [reflexivity|].
  destruct (shape c) as [|[|[|n]]]; intros H; try reflexivity. congruence.
Qed.

(** * the invariant *)
Record INV (c : cfg) (e : bool) (s : node) : Prop := {
  i_ser : forall f v, task s = TFetch f v -> v = version s;
  i_parked : loading s = false -> wakers s = [];
  i_prov : forall v, value s = Some v -> In v (legit s);
  i_len : length (seen s) = length (curvals c s);
  i_A : forall f v, task s = TFetch f v ->
        first_run s = false /\
        exists fu, nth_error (futs s) f = Some fu /\ f_alive fu = true /\ f_res fu = fetchf c (cap s);
  i_B : task s = TIdle -> first_run s = false -> manual s = false ->
        value s = Some (fetchf c (cap s));
  i_C : task s = TIdle -> first_run s = false -> loading s = false;
  i_D : st_dirty s = false -> cap s = capof c s;
  (* [e]: off while the node's task has taken the flag and not yet acted on it *)
  i_E : e = true -> st_dirty s = true \/ first_run s = true \/ seen s <> curvals c s -> flag s = true;
  i_init : forall i, init_fut s = Some i ->
           first_run s = true /\
           exists fu, nth_error (futs s) i = Some fu /\ f_alive fu = true /\ f_res fu = fetchf c (cap s);
  (* Suspense task handles are only held while a load is in flight *)
  i_sus : task s = TIdle -> susp_held s = 0%nat
}.

(** the part about waking the task, which does not hold inside the task's own loop *)
Record WK (s : node) : Prop := {
  w_F1 : task s = TIdle -> woken s = true \/ rx_reg s = true;
  w_F2 : task s = TIdle -> flag s = true -> woken s = true;
  w_G : forall f v fu, task s = TFetch f v -> nth_error (futs s) f = Some fu -> f_done fu = true ->
        woken s = true
}.

(** * list helpers *)
Lemma upd_const_same {A} (l : list A) k x d : nth k l d = x -> upd k (fun _ => x) l = l.
Proof.
  revert k. induction l as [|y l IH]; intros [|k] H; cbn in *; try reflexivity.
  - congruence.
  - f_equal. apply IH. exact H.
Qed.

Lemma nth_upd_same {A} (l : list A) k x d : (k < length l)%nat -> nth k (upd k (fun _ => x) l) d = x.
Proof.
  revert k. induction l as [|y l IH]; intros [|k] H; cbn in *; try lia; auto. apply IH. lia.
Qed.

Lemma nth_upd_other {A} (l : list A) k j x d : j <> k -> nth j (upd k (fun _ => x) l) d = nth j l d.
Proof.
  revert k j. induction l as [|y l IH]; intros [|k] [|j] H; cbn in *; try reflexivity; try congruence.
  apply IH. congruence.
Qed.

Lemma nth_ext_eq {A} (l1 l2 : list A) d : length l1 = length l2 ->
  (forall k, (k < length l1)%nat -> nth k l1 d = nth k l2 d) -> l1 = l2.
Proof.
  revert l2. induction l1 as [|x l1 IH]; intros [|y l2] Hl H; cbn in *; try lia; [reflexivity|].
  f_equal; [exact (H 0%nat ltac:(lia))|]. apply IH; [lia|]. intros k Hk. exact (H (S k) ltac:(lia)).
Qed.

(** * notifications *)
Lemma inv_notify c e s : INV c e s -> INV c e (n_notify s).
Proof.
  intros I. destruct I. unfold n_notify. sf.
  destruct (rx_reg s); constructor; sf; auto.
Qed.

Lemma wk_notify s : WK s -> WK (n_notify s).
Proof.
  intros [F1 F2 G]. unfold n_notify. sf. destruct (rx_reg s) eqn:Hr; constructor; sf; auto.
  all: try (intros f v fu Ht Hn Hd; eauto).
  - intros Ht. destruct (F1 Ht) as [H|H]; [left; exact H|discriminate].
  - intros Ht _. destruct (F1 Ht) as [H|H]; [exact H|discriminate].
Qed.

Lemma inv_mark_dirty c e s : INV c e s -> INV c e (n_mark_dirty s).
Proof.
  intros I. destruct I. unfold n_mark_dirty, n_notify. sf.
  destruct (rx_reg s); constructor; sf; auto; discriminate.
Qed.

Lemma flag_mark_dirty s : flag (n_mark_dirty s) = true /\ st_dirty (n_mark_dirty s) = true.
Proof. unfold n_mark_dirty, n_notify. sf. destruct (rx_reg s); sf; auto. Qed.

Lemma wk_mark_dirty s : WK s -> WK (n_mark_dirty s).
Proof.
  intros W. unfold n_mark_dirty. apply wk_notify. destruct W. constructor; sf; auto.
Qed.
(** [x] agrees with [s] on every field the invariant reads, except [seen] (same length),
    [st_dirty], the flag and the wake-up bits *)
Record agree (s x : node) : Prop := {
  ag_sigs : sigs x = sigs s;
  ag_refetch_n : refetch_n x = refetch_n s;
  ag_version : version x = version s;
  ag_value : value x = value s;
  ag_loading : loading x = loading s;
  ag_wakers : wakers x = wakers s;
  ag_task : task x = task s;
  ag_init_fut : init_fut x = init_fut s;
  ag_first_run : first_run x = first_run s;
  ag_futs : futs x = futs s;
  ag_manual : manual x = manual s;
  ag_cap : cap x = cap s;
  ag_legit : legit x = legit s;
  ag_len : length (seen x) = length (seen s);
  ag_susp_held : susp_held x = susp_held s
}.

Lemma agree_curvals c s x : agree s x -> curvals c x = curvals c s.
Proof.
  intros A. unfold curvals, m3_of, m2_of, sg. rewrite (ag_sigs _ _ A), (ag_refetch_n _ _ A). reflexivity.
Qed.

Lemma agree_refl s : agree s s.
Proof. constructor; reflexivity. Qed.
Lemma agree_trans a b c0 : agree a b -> agree b c0 -> agree a c0.
Proof. intros [] []. constructor; congruence. Qed.

(** the invariant transfers along [agree], once its two clauses about [seen] / [st_dirty] / [flag]
    are re-established *)
Lemma inv_transfer c e s x : INV c e s -> agree s x ->
  (st_dirty x = false -> cap x = capof c x) ->
  (e = true -> st_dirty x = true \/ first_run x = true \/ seen x <> curvals c x -> flag x = true) ->
  INV c e x.
Proof.
  intros I A HD HE. pose proof (agree_curvals c s x A) as Ec. destruct I, A.
  constructor; auto.
  - intros f v. rewrite ag_task0, ag_version0. eauto.
  - rewrite ag_loading0, ag_wakers0. eauto.
  - intros v. rewrite ag_value0, ag_legit0. eauto.
  - rewrite Ec. congruence.
  - intros f v. rewrite ag_task0, ag_first_run0, ag_futs0, ag_cap0. eauto.
  - rewrite ag_task0, ag_first_run0, ag_manual0, ag_value0, ag_cap0. eauto.
  - rewrite ag_task0, ag_first_run0, ag_loading0. eauto.
  - intros i. rewrite ag_init_fut0, ag_first_run0, ag_futs0, ag_cap0. eauto.
  - rewrite ag_task0, ag_susp_held0. eauto.
Qed.

Lemma agree_notify s : agree s (n_notify s).
Proof. unfold n_notify. sf. destruct (rx_reg s); constructor; reflexivity. Qed.
Lemma agree_set_seen s l : length l = length (seen s) -> agree s (set_seen l s).
Proof. intros H. constructor; sf; auto. Qed.
Lemma agree_mark_dirty s : agree s (n_mark_dirty s).
Proof. unfold n_mark_dirty, n_notify. sf. destruct (rx_reg s); constructor; reflexivity. Qed.

Lemma inv_agree_dirty c e s x : INV c e s -> agree s x -> INV c e (n_mark_dirty x).
Proof.
  intros I A. apply (inv_transfer c e s); auto.
  - eapply agree_trans; [exact A|apply agree_mark_dirty].
  - rewrite (proj2 (flag_mark_dirty x)). discriminate.
  - intros _ _. exact (proj1 (flag_mark_dirty x)).
Qed.

(** * pulling sources *)
Lemma set_seen_same s : set_seen (seen s) s = s.
Proof. destruct s; reflexivity. Qed.

Lemma wk_set_seen s l : WK s -> WK (set_seen l s).
Proof. intros [F1 F2 G]. constructor; sf; auto. Qed.

Definition fresh (c : cfg) (s : node) (k : nat) : Prop :=
  nth k (seen s) 0%Z = nth k (curvals c s) 0%Z.

(** one pull, with the node marked when the value changed *)
Definition rmark (c : cfg) (k : nat) (s : node) : bool * node :=
  let '(ch, s') := refresh c k s in (ch, if ch then n_mark_dirty s' else s').

Lemma rmark_spec c e k s : INV c e s -> (k < length (seen s))%nat ->
  let ch := fst (rmark c k s) in let s' := snd (rmark c k s) in
  INV c e s' /\ (WK s -> WK s') /\ agree s s' /\ fresh c s' k /\
  (forall j, fresh c s j -> fresh c s' j) /\
  (ch = true -> st_dirty s' = true) /\
  (ch = false -> seen s' = seen s /\ st_dirty s' = st_dirty s) /\
  (st_dirty s = true -> st_dirty s' = true).
Proof.
  intros I Hk. unfold rmark, refresh.
  set (new := nth k (curvals c s) 0%Z).
  set (ch := negb (new =? nth k (seen s) 0)%Z).
  set (s1 := set_seen (upd k (fun _ => new) (seen s)) s).
  set (s2 := match shape c, k with 2%nat, 1%nat => if ch then n_mark_check s1 else s1 | _, _ => s1 end).
  cbn [fst snd].
  assert (Hl1 : length (upd k (fun _ => new) (seen s)) = length (seen s)) by apply length_upd.
  assert (A1 : agree s s1) by (apply agree_set_seen; exact Hl1).
  assert (A2 : agree s s2).
  { unfold s2. destruct (shape c) as [|[|[|n]]]; try exact A1. destruct k as [|[|k]]; try exact A1.
    destruct ch; [|exact A1]. eapply agree_trans; [exact A1|apply agree_notify]. }
  assert (Hseen2 : seen s2 = upd k (fun _ => new) (seen s)).
  { unfold s2. destruct (shape c) as [|[|[|n]]]; try reflexivity. destruct k as [|[|k]]; try reflexivity.
    destruct ch; [|reflexivity]. unfold n_mark_check, n_notify. destruct (rx_reg (set_flag true s1)); reflexivity. }
  assert (Hd2 : st_dirty s2 = st_dirty s).
  { unfold s2. destruct (shape c) as [|[|[|n]]]; try reflexivity. destruct k as [|[|k]]; try reflexivity.
    destruct ch; [|reflexivity]. unfold n_mark_check, n_notify. destruct (rx_reg (set_flag true s1)); reflexivity. }
  assert (W2 : WK s -> WK s2).
  { intros W. unfold s2. assert (W1 : WK s1) by (apply wk_set_seen; exact W).
    destruct (shape c) as [|[|[|n]]]; try exact W1. destruct k as [|[|k]]; try exact W1.
    destruct ch; [|exact W1]. apply wk_notify. exact W1. }
  assert (Hc2 : curvals c s2 = curvals c s) by (apply agree_curvals; exact A2).
  assert (Hfresh_k : forall x, seen x = upd k (fun _ => new) (seen s) -> curvals c x = curvals c s -> fresh c x k).
  { intros x Hx Hcx. unfold fresh. rewrite Hx, Hcx. apply nth_upd_same. exact Hk. }
  assert (Hfresh_j : forall x j, seen x = upd k (fun _ => new) (seen s) -> curvals c x = curvals c s ->
            fresh c s j -> fresh c x j).
  { intros x j Hx Hcx Hj. destruct (Nat.eq_dec j k) as [->|Hne]; [apply Hfresh_k; auto|].
    unfold fresh in *. rewrite Hx, Hcx, nth_upd_other by exact Hne. exact Hj. }
  destruct ch eqn:Hch.
  - (* changed: marked dirty *)
    assert (A3 : agree s (n_mark_dirty s2)) by (eapply agree_trans; [exact A2|apply agree_mark_dirty]).
    assert (Hs3 : seen (n_mark_dirty s2) = upd k (fun _ => new) (seen s)).
    { rewrite <- Hseen2. unfold n_mark_dirty, n_notify. sf. destruct (rx_reg s2); reflexivity. }
    assert (Hc3 : curvals c (n_mark_dirty s2) = curvals c s) by (apply agree_curvals; exact A3).
    split; [eapply inv_agree_dirty; eauto|]. split; [intros W; apply wk_mark_dirty, W2, W|].
    split; [exact A3|]. split; [apply Hfresh_k; auto|]. split; [intros j; apply Hfresh_j; auto|].
    split; [intros _; exact (proj2 (flag_mark_dirty s2))|]. split; [discriminate|].
    intros _. exact (proj2 (flag_mark_dirty s2)).
  - (* unchanged: the cache is what it was *)
    assert (Hnew : nth k (seen s) 0%Z = new).
    { unfold ch in Hch. apply negb_false_iff, Z.eqb_eq in Hch. congruence. }
    assert (Hsame : upd k (fun _ => new) (seen s) = seen s) by (eapply upd_const_same; exact Hnew).
    assert (Es2 : s2 = s).
    { unfold s2, s1. rewrite Hsame, set_seen_same.
      destruct (shape c) as [|[|[|n]]]; try reflexivity. destruct k as [|[|k]]; reflexivity. }
    rewrite Es2. split; [exact I|]. split; [auto|]. split; [apply agree_refl|].
    split; [unfold fresh; fold new; congruence|]. split; [auto|]. split; [discriminate|].
    split; auto.
Qed.

Lemma check_src_true c j s :
  check_src c true j s =
  rmark c j (fold_left (fun s k => snd (rmark c k s)) (pulls c j) s).
Proof.
  unfold check_src, rmark.
  assert (H : forall l s0,
    fold_left (fun s k => let '(ch, s') := refresh c k s in if ch && true then n_mark_dirty s' else s') l s0 =
    fold_left (fun s k => snd (let '(ch, s') := refresh c k s in (ch, if ch then n_mark_dirty s' else s'))) l s0).
  { induction l as [|k l IH]; intros s0; cbn [fold_left]; [reflexivity|]. rewrite IH. f_equal.
    destruct (refresh c k s0) as [ch s']. cbn. rewrite andb_true_r. reflexivity. }
  rewrite H. destruct (refresh c j _) as [ch s']. rewrite andb_true_r. reflexivity.
Qed.

Lemma curvals_len c s :
  length (curvals c s) = (if once c then 0 else match shape c with O => 0 | _ => 2 end)%nat.
Proof. unfold curvals. destruct (once c); [reflexivity|]. destruct (shape c) as [|[|[|n]]]; reflexivity. Qed.

Lemma pulls_lt c j k s : In k (pulls c j) -> (k < length (curvals c s))%nat.
Proof.
  unfold pulls. rewrite curvals_len. destruct (once c); [intros []|].
  destruct (shape c) as [|[|[|n]]]; try (intros []).
  destruct j; [|intros []]. intros [<-|[]]. lia.
Qed.

(** the facts carried through a sequence of pulls *)
Record pulled (c : cfg) (e : bool) (s s' : node) : Prop := {
  pu_inv : INV c e s';
  pu_wk : WK s -> WK s';
  pu_agree : agree s s';
  pu_fresh : forall j, fresh c s j -> fresh c s' j;
  pu_dirty : st_dirty s = true -> st_dirty s' = true;
  pu_clean : st_dirty s' = false -> seen s' = seen s /\ st_dirty s = false
}.

Lemma pulled_refl c e s : INV c e s -> pulled c e s s.
Proof. intros I. constructor; auto using agree_refl. Qed.

Lemma pulled_trans c e a b d : pulled c e a b -> pulled c e b d -> pulled c e a d.
Proof.
  intros [] []. constructor; auto.
  - eapply agree_trans; eauto.
  - intros H. destruct (pu_clean1 H) as (E1 & D1). destruct (pu_clean0 D1) as (E0 & D0). split; congruence.
Qed.

Lemma pulled_rmark c e k s : INV c e s -> (k < length (seen s))%nat ->
  pulled c e s (snd (rmark c k s)) /\ fresh c (snd (rmark c k s)) k /\
  (fst (rmark c k s) = true -> st_dirty (snd (rmark c k s)) = true).
Proof.
  intros I Hk. destruct (rmark_spec c e k s I Hk) as (I' & W' & A & Fk & Fj & Ht & Hf & Hd).
  split; [|split; auto]. constructor; auto.
  intros Hc. destruct (fst (rmark c k s)) eqn:E; [rewrite (Ht eq_refl) in Hc; discriminate|].
  destruct (Hf eq_refl) as (Es & Ed). split; congruence.
Qed.

Lemma agree_len_seen s s' : agree s s' -> length (seen s') = length (seen s).
Proof. intros A. exact (ag_len _ _ A). Qed.

Lemma pulled_fold c e ks : forall s, INV c e s -> (forall k, In k ks -> (k < length (seen s))%nat) ->
  let s' := fold_left (fun s k => snd (rmark c k s)) ks s in
  pulled c e s s' /\ forall k, In k ks -> fresh c s' k.
Proof.
  induction ks as [|k ks IH]; intros s I Hks; cbn [fold_left]; [split; [apply pulled_refl; auto|intros ? []]|].
  destruct (pulled_rmark c e k s I (Hks k (or_introl eq_refl))) as (P1 & F1 & _).
  set (s1 := snd (rmark c k s)) in *.
  assert (Hks1 : forall k', In k' ks -> (k' < length (seen s1))%nat).
  { intros k' Hin. rewrite (agree_len_seen _ _ (pu_agree _ _ _ _ P1)). apply Hks. right. exact Hin. }
  destruct (IH s1 (pu_inv _ _ _ _ P1) Hks1) as (P2 & F2).
  split; [eapply pulled_trans; eauto|].
  intros k' [<-|Hin]; [apply (pu_fresh _ _ _ _ P2); exact F1|apply F2; exact Hin].
Qed.

Lemma check_src_spec c e j s : INV c e s -> (j < length (seen s))%nat ->
  let r := check_src c true j s in
  pulled c e s (snd r) /\ fresh c (snd r) j /\ (fst r = true -> st_dirty (snd r) = true).
Proof.
  intros I Hj. rewrite check_src_true.
  assert (Hp : forall k, In k (pulls c j) -> (k < length (seen s))%nat).
  { intros k Hk. rewrite (i_len c e s I). eapply pulls_lt; eauto. }
  destruct (pulled_fold c e (pulls c j) s I Hp) as (P1 & _).
  set (s1 := fold_left (fun s k => snd (rmark c k s)) (pulls c j) s) in *.
  assert (Hj1 : (j < length (seen s1))%nat) by (rewrite (agree_len_seen _ _ (pu_agree _ _ _ _ P1)); exact Hj).
  destruct (pulled_rmark c e j s1 (pu_inv _ _ _ _ P1) Hj1) as (P2 & F2 & D2).
  split; [eapply pulled_trans; eauto|]. split; auto.
Qed.

Lemma check_all_spec c e js : forall s, INV c e s -> (forall j, In j js -> (j < length (seen s))%nat) ->
  let r := check_all c true js s in
  pulled c e s (snd r) /\
  (fst r = false -> forall j, In j js -> fresh c (snd r) j) /\
  (fst r = true -> st_dirty (snd r) = true).
Proof.
  induction js as [|j js IH]; intros s I Hjs; cbn [check_all].
  { cbn. split; [apply pulled_refl; auto|]. split; [intros _ ? []|discriminate]. }
  destruct (check_src_spec c e j s I (Hjs j (or_introl eq_refl))) as (P1 & F1 & D1).
  destruct (check_src c true j s) as [ch s1]. cbn [fst snd] in *.
  destruct ch.
  - cbn [fst snd]. split; [exact P1|]. split; [discriminate|auto].
  - assert (Hjs1 : forall j', In j' js -> (j' < length (seen s1))%nat).
    { intros j' Hin. rewrite (agree_len_seen _ _ (pu_agree _ _ _ _ P1)). apply Hjs. right. exact Hin. }
    destruct (IH s1 (pu_inv _ _ _ _ P1) Hjs1) as (P2 & F2 & D2).
    split; [eapply pulled_trans; eauto|]. split; [|exact D2].
    intros Hf j' [<-|Hin]; [apply (pu_fresh _ _ _ _ P2); exact F1|apply F2; auto].
Qed.

(** * update_if_necessary *)
Lemma wk_set_dirty s b : WK s -> WK (set_st_dirty b s).
Proof. intros [F1 F2 G]. constructor; sf; auto. Qed.

Lemma agree_set_dirty s b : agree s (set_st_dirty b s).
Proof. constructor; reflexivity. Qed.

Lemma seq_lt n j : In j (seq 0 n) -> (j < n)%nat.
Proof. intros H. apply in_seq in H. lia. Qed.

(** a subscriber asks whether the node changed: nothing is consumed *)
Lemma n_update_other c e s : gc c -> INV c e s ->
  INV c e (snd (n_update c false s)) /\ (WK s -> WK (snd (n_update c false s))) /\
  agree s (snd (n_update c false s)).
Proof.
  intros (Hh & Ho & _) I. unfold n_update. rewrite Hh, Ho. cbn [orb negb andb].
  destruct (st_dirty s); cbn [snd]; [auto using agree_refl|].
  assert (Hjs : forall j, In j (seq 0 (length (curvals c s))) -> (j < length (seen s))%nat).
  { intros j Hj. rewrite (i_len c e s I). apply seq_lt. exact Hj. }
  destruct (check_all_spec c e _ s I Hjs) as (P & _ & _).
  destruct (check_all c true (seq 0 (length (curvals c s))) s) as [any s1]. cbn [fst snd] in *.
  rewrite andb_false_r. cbn [snd]. destruct P. auto.
Qed.

(** the node's own task asks: the dirty state is consumed *)
Lemma n_update_own c e s : gc c -> INV c e s ->
  let u := fst (n_update c true s) in let s' := snd (n_update c true s) in
  agree s s' /\ (WK s -> WK s') /\ st_dirty s' = false /\
  (u = false -> INV c e s' /\ seen s' = curvals c s' /\ seen s' = seen s).
Proof.
  intros (Hh & Ho & _) I. unfold n_update. rewrite Hh, Ho. cbn [orb negb andb].
  destruct (st_dirty s) eqn:Hd; cbn [fst snd].
  { split; [apply agree_set_dirty|]. split; [apply wk_set_dirty|]. split; [reflexivity|discriminate]. }
  assert (Hjs : forall j, In j (seq 0 (length (curvals c s))) -> (j < length (seen s))%nat).
  { intros j Hj. rewrite (i_len c e s I). apply seq_lt. exact Hj. }
  destruct (check_all_spec c e _ s I Hjs) as (P & Ffalse & Ftrue).
  destruct (check_all c true (seq 0 (length (curvals c s))) s) as [any s1]. cbn [fst snd] in *.
  destruct P as [I1 W1 A1 Fr1 D1 C1].
  destruct (st_dirty s1) eqn:Hd1; cbn [andb fst snd].
  - rewrite orb_true_r. split; [eapply agree_trans; [exact A1|apply agree_set_dirty]|].
    split; [intros W; apply wk_set_dirty, W1, W|]. split; [reflexivity|discriminate].
  - rewrite orb_false_r. split; [exact A1|]. split; [exact W1|]. split; [exact Hd1|].
    intros Hany. destruct (C1 eq_refl) as (Es & _). split; [exact I1|]. split; [|exact Es].
    assert (Hc : curvals c s1 = curvals c s) by (apply agree_curvals; exact A1).
    apply (nth_ext_eq _ _ 0%Z).
    + rewrite (i_len c e s1 I1). reflexivity.
    + intros k Hk. apply (Ffalse Hany). apply in_seq. rewrite (agree_len_seen _ _ A1), (i_len c e s I) in Hk. lia.
Qed.

(** * the fetcher reads its sources *)
Lemma refresh_basic c k s : (k < length (seen s))%nat ->
  let s' := snd (refresh c k s) in
  agree s s' /\ (WK s -> WK s') /\ fresh c s' k /\ (forall j, fresh c s j -> fresh c s' j) /\
  st_dirty s' = st_dirty s.
Proof.
  intros Hk. unfold refresh. cbn [snd].
  set (new := nth k (curvals c s) 0%Z).
  set (ch := negb (new =? nth k (seen s) 0)%Z).
  set (s1 := set_seen (upd k (fun _ => new) (seen s)) s).
  assert (Hl1 : length (upd k (fun _ => new) (seen s)) = length (seen s)) by apply length_upd.
  assert (A1 : agree s s1) by (apply agree_set_seen; exact Hl1).
  assert (Hall : forall x, (x = s1 \/ x = n_mark_check s1) ->
            agree s x /\ (WK s -> WK x) /\ seen x = upd k (fun _ => new) (seen s) /\ st_dirty x = st_dirty s).
  { intros x [->| ->].
    - split; [exact A1|]. split; [apply wk_set_seen|]. split; reflexivity.
    - split; [eapply agree_trans; [exact A1|apply agree_notify]|].
      split; [intros W; apply wk_notify, wk_set_seen, W|].
      unfold n_mark_check, n_notify. destruct (rx_reg (set_flag true s1)); split; reflexivity. }
  assert (Hx : exists x, (x = s1 \/ x = n_mark_check s1) /\
            x = match shape c, k with 2%nat, 1%nat => if ch then n_mark_check s1 else s1 | _, _ => s1 end).
  { eexists. split; [|reflexivity].
    destruct (shape c) as [|[|[|n]]]; auto. destruct k as [|[|k]]; auto. destruct ch; auto. }
  destruct Hx as (x & Hx & <-). destruct (Hall x Hx) as (A & Wk & Hs & Hd).
  assert (Hc : curvals c x = curvals c s) by (apply agree_curvals; exact A).
  split; [exact A|]. split; [exact Wk|].
  assert (Fk : fresh c x k) by (unfold fresh; rewrite Hs, Hc; apply nth_upd_same; exact Hk).
  split; [exact Fk|]. split; [|exact Hd].
  intros j Hj. destruct (Nat.eq_dec j k) as [->|Hne]; [exact Fk|].
  unfold fresh in *. rewrite Hs, Hc, nth_upd_other by exact Hne. exact Hj.
Qed.

Lemma check_src_false c j s :
  snd (check_src c false j s) =
  snd (refresh c j (fold_left (fun s k => snd (refresh c k s)) (pulls c j) s)).
Proof.
  unfold check_src.
  assert (H : forall l s0,
    fold_left (fun s k => let '(ch, s') := refresh c k s in if ch && false then n_mark_dirty s' else s') l s0 =
    fold_left (fun s k => snd (refresh c k s)) l s0).
  { induction l as [|k l IH]; intros s0; cbn [fold_left]; [reflexivity|]. rewrite IH. f_equal.
    destruct (refresh c k s0) as [ch s']. cbn. rewrite andb_false_r. reflexivity. }
  rewrite H. destruct (refresh c j _) as [ch s']. rewrite andb_false_r. reflexivity.
Qed.

(** reading every source leaves the caches equal to the current values, and nothing else
    the invariant cares about changes *)
Record readr (c : cfg) (s s' : node) : Prop := {
  rr_agree : agree s s';
  rr_wk : WK s -> WK s';
  rr_fresh : forall j, fresh c s j -> fresh c s' j;
  rr_dirty : st_dirty s' = st_dirty s
}.
Lemma readr_refl c s : readr c s s.
Proof. constructor; auto using agree_refl. Qed.
Lemma readr_trans c a b d : readr c a b -> readr c b d -> readr c a d.
Proof. intros [] []. constructor; auto; [eapply agree_trans; eauto|congruence]. Qed.

Lemma readr_refresh c k s : (k < length (seen s))%nat ->
  readr c s (snd (refresh c k s)) /\ fresh c (snd (refresh c k s)) k.
Proof.
  intros Hk. destruct (refresh_basic c k s Hk) as (A & W & Fk & Fj & D). split; [constructor; auto|auto].
Qed.

Lemma readr_fold c ks : forall s, (forall k, In k ks -> (k < length (seen s))%nat) ->
  let s' := fold_left (fun s k => snd (refresh c k s)) ks s in
  readr c s s' /\ forall k, In k ks -> fresh c s' k.
Proof.
  induction ks as [|k ks IH]; intros s Hks; cbn [fold_left]; [split; [apply readr_refl|intros ? []]|].
  destruct (readr_refresh c k s (Hks k (or_introl eq_refl))) as (R1 & F1).
  set (s1 := snd (refresh c k s)) in *.
  assert (Hks1 : forall k', In k' ks -> (k' < length (seen s1))%nat).
  { intros k' Hin. rewrite (agree_len_seen _ _ (rr_agree _ _ _ R1)). apply Hks. right. exact Hin. }
  destruct (IH s1 Hks1) as (R2 & F2). split; [eapply readr_trans; eauto|].
  intros k' [<-|Hin]; [apply (rr_fresh _ _ _ R2); exact F1|apply F2; exact Hin].
Qed.

Lemma read_all_spec c s : length (seen s) = length (curvals c s) ->
  readr c s (read_all c s) /\ seen (read_all c s) = curvals c (read_all c s).
Proof.
  intros Hlen. unfold read_all.
  assert (H : forall js s0, length (seen s0) = length (curvals c s0) ->
            (forall j, In j js -> (j < length (seen s0))%nat) ->
            let s' := fold_left (fun s j => snd (check_src c false j s)) js s0 in
            readr c s0 s' /\ forall j, In j js -> fresh c s' j).
  { induction js as [|j js IH]; intros s0 Hl0 Hjs; cbn [fold_left]; [split; [apply readr_refl|intros ? []]|].
    rewrite check_src_false.
    assert (Hp : forall k, In k (pulls c j) -> (k < length (seen s0))%nat).
    { intros k Hk. rewrite Hl0. eapply pulls_lt; eauto. }
    destruct (readr_fold c (pulls c j) s0 Hp) as (R1 & _).
    set (s1 := fold_left (fun s k => snd (refresh c k s)) (pulls c j) s0) in *.
    assert (Hj1 : (j < length (seen s1))%nat).
    { rewrite (agree_len_seen _ _ (rr_agree _ _ _ R1)). apply Hjs. left. reflexivity. }
    destruct (readr_refresh c j s1 Hj1) as (R2 & F2).
    set (s2 := snd (refresh c j s1)) in *.
    assert (R12 : readr c s0 s2) by (eapply readr_trans; eauto).
    assert (Hl2 : length (seen s2) = length (curvals c s2)).
    { rewrite (agree_len_seen _ _ (rr_agree _ _ _ R12)), (agree_curvals c _ _ (rr_agree _ _ _ R12)). exact Hl0. }
    assert (Hjs2 : forall j', In j' js -> (j' < length (seen s2))%nat).
    { intros j' Hin. rewrite (agree_len_seen _ _ (rr_agree _ _ _ R12)). apply Hjs. right. exact Hin. }
    destruct (IH s2 Hl2 Hjs2) as (R3 & F3). split; [eapply readr_trans; eauto|].
    intros j' [<-|Hin]; [apply (rr_fresh _ _ _ R3); exact F2|apply F3; exact Hin]. }
  assert (Hjs : forall j, In j (seq 0 (length (curvals c s))) -> (j < length (seen s))%nat).
  { intros j Hj. rewrite Hlen. apply seq_lt. exact Hj. }
  destruct (H _ s Hlen Hjs) as (R & F). split; [exact R|].
  set (s' := fold_left _ _ s) in *.
  assert (Hc : curvals c s' = curvals c s) by (apply agree_curvals, R).
  apply (nth_ext_eq _ _ 0%Z).
  - rewrite (agree_len_seen _ _ (rr_agree _ _ _ R)), Hc. exact Hlen.
  - intros k Hk. apply F. apply in_seq. rewrite (agree_len_seen _ _ (rr_agree _ _ _ R)), Hlen in Hk. lia.
Qed.

(** * the task loop *)
Lemma inv_weaken c s : INV c true s -> INV c false s.
Proof. intros []. constructor; auto; discriminate. Qed.


Lemma notify_subs_fields s :
  let x := notify_subs s in
  sigs x = sigs s /\ refetch_n x = refetch_n s /\ seen x = seen s /\ st_dirty x = st_dirty s /\
  flag x = flag s /\ woken x = woken s /\ rx_reg x = rx_reg s /\ version x = version s /\
  value x = value s /\ loading x = false /\ wakers x = [] /\ task x = task s /\
  init_fut x = init_fut s /\ first_run x = first_run s /\ futs x = futs s /\ manual x = manual s /\
  cap x = cap s /\ legit x = legit s /\ susp_held x = susp_held s.
Proof.
  unfold notify_subs, d_mark_dirty, d_notify. sf.
  destruct (d_sub s); sf; [destruct (d_reg s); sf|]; repeat split; reflexivity.
Qed.

(** [notify_subs] after the stored value (and what the invariant reads) was set to [nv] etc. *)
Lemma inv_notify_subs c e s : INV c e s -> INV c e (notify_subs s).
Proof.
  intros I.
  destruct (notify_subs_fields s) as (E1 & E2 & E3 & E4 & E5 & E6 & E7 & E8 & E9 & E10 & E11 & E12 & E13 & E14 & E15 & E16 & E17 & E18 & E19).
  assert (Ec : curvals c (notify_subs s) = curvals c s)
    by (unfold curvals, m3_of, m2_of, sg; rewrite E1, E2; reflexivity).
  destruct I. constructor.
  - intros f v. rewrite E12, E8. eauto.
  - intros _. exact E11.
  - intros v. rewrite E9, E18. eauto.
  - rewrite Ec, E3. auto.
  - intros f v. rewrite E12, E14, E15, E17. eauto.
  - rewrite E12, E14, E16, E9, E17. eauto.
  - intros _ _. exact E10.
  - rewrite E4, E17. intros Hd. rewrite (i_D0 Hd). symmetry. apply capof_eq; auto.
  - rewrite E4, E14, E3, E5, Ec. eauto.
  - intros i. rewrite E13, E14, E15, E17. eauto.
  - rewrite E12, E19. eauto.
Qed.

(** a completed fetch is stored and the task goes back to waiting *)
Lemma inv_store c e s f v fu : INV c e s -> task s = TFetch f v ->
  nth_error (futs s) f = Some fu -> susp_held s = 0%nat ->
  INV c e (set_task TIdle (store (f_res fu) s)).
Proof.
  intros I Ht Hf Hs0. destruct (i_A c e s I f v Ht) as (Hfr & fu' & Hf' & Hal & Hres).
  rewrite Hf in Hf'. inversion Hf'; subst fu'.
  unfold store.
  set (s1 := set_legit (f_res fu :: legit s) (set_manual false (set_value (Some (f_res fu)) s))).
  assert (I1 : INV c e s1).
  { destruct I. constructor; unfold s1; cbn [task version loading wakers value legit seen futs first_run manual cap st_dirty flag init_fut susp_held set_legit set_manual set_value]; auto.
    - intros v0 Hv. inversion Hv. left. reflexivity.
    - rewrite Ht. discriminate. }
  pose proof (inv_notify_subs c e s1 I1) as Ix.
  destruct (notify_subs_fields s1) as (E1 & E2 & E3 & E4 & E5 & E6 & E7 & E8 & E9 & E10 & E11 & E12 & E13 & E14 & E15 & E16 & E17 & E18 & E19).
  assert (Hv1 : value s1 = Some (f_res fu)) by reflexivity.
  assert (Hc1 : cap s1 = cap s) by reflexivity.
  assert (Hh1 : susp_held s1 = 0%nat) by exact Hs0.
  set (x := notify_subs s1) in *. clearbody x. clearbody s1.
  destruct Ix. constructor; sf; auto.
  - discriminate.
  - discriminate.
  - intros _ _ _. rewrite E9, E17, Hv1, Hc1, Hres. reflexivity.
  - intros _. congruence.
Qed.

Lemma wk_woken s : WK (set_woken true s).
Proof. constructor; intros; try left; reflexivity. Qed.

(** starting a fetch with a newly created future *)
Definition started (fid : nat) (s : node) : node :=
  let v := S (version s) in
  set_task (TFetch fid v) (set_version v (set_loading true (set_first_run false s))).

Lemma inv_start_create c s :
  (forall v, value s = Some v -> In v (legit s)) ->
  length (seen s) = length (curvals c s) -> st_dirty s = false -> init_fut s = None ->
  INV c true (started (fst (create_fut c s)) (snd (create_fut c s))).
Proof.
  intros Hprov Hlen Hd Hinit. unfold create_fut. cbn [fst snd].
  destruct (read_all_spec c s Hlen) as (R & Hseen).
  set (r := read_all c s) in *. clearbody r.
  destruct R as [A _ _ Hdr].
  assert (Hcr : curvals c r = curvals c s) by (apply agree_curvals; exact A).
  set (fu := mkFut (fetchf c (inputs c r)) false true).
  assert (Ecx : forall y, sigs y = sigs r -> refetch_n y = refetch_n r -> curvals c y = curvals c r).
  { intros y E1 E2. unfold curvals, m3_of, m2_of, sg. rewrite E1, E2. reflexivity. }
  unfold started.
  constructor; sf.
  - intros f v Ht. inversion Ht. reflexivity.
  - discriminate.
  - rewrite (ag_value _ _ A), (ag_legit _ _ A). exact Hprov.
  - erewrite Ecx by reflexivity. rewrite Hseen. reflexivity.
  - intros f v Ht. inversion Ht; subst. split; [reflexivity|]. exists fu.
    rewrite nth_error_app2, Nat.sub_diag by lia. auto.
  - discriminate.
  - discriminate.
  - intros _. unfold capof. destruct (shape c) eqn:Hs.
    + apply inputs_sigs. reflexivity.
    + sf. rewrite Hseen. apply inputs_iv. congruence.
  - intros _ [H|[H|H]].
    + rewrite Hdr, Hd in H. discriminate.
    + discriminate.
    + exfalso. apply H. erewrite Ecx by reflexivity. exact Hseen.
  - rewrite (ag_init_fut _ _ A), Hinit. discriminate.
  - discriminate.
Qed.

Lemma inv_start_init c s i : INV c false s -> task s = TIdle -> init_fut s = Some i ->
  st_dirty s = false -> seen s = curvals c s ->
  INV c true (started i (set_init_fut None s)).
Proof.
  intros I Ht Hi Hd Hseen. destruct (i_init c false s I i Hi) as (Hfr & fu & Hf & Hal & Hres).
  destruct I. constructor; unfold started; sf; auto.
  - intros f v H. inversion H. reflexivity.
  - discriminate.
  - intros f v H. inversion H; subst. split; [reflexivity|]. exists fu. auto.
  - discriminate.
  - discriminate.
  - intros _ [H|[H|H]]; [congruence|discriminate|contradiction].
  - discriminate.
Qed.

Lemma wk_started fid s : WK (started fid s) <->
  (forall fu, nth_error (futs s) fid = Some fu -> f_done fu = true -> woken s = true).
Proof.
  unfold started. split.
  - intros [_ _ G] fu Hn Hd. exact (G fid (S (version s)) fu eq_refl Hn Hd).
  - intros H. constructor; sf; try discriminate. intros f v fu Ht Hn Hd. inversion Ht; subst. eauto.
Qed.

Lemma inv_set_woken c e s b : INV c e s -> INV c e (set_woken b s).
Proof. intros []. constructor; sf; auto. Qed.
Lemma inv_susp_held c e s : INV c e s -> INV c e (set_susp_held 0%nat s).
Proof. intros []. constructor; sf; auto. Qed.
Lemma inv_set_rx c e s b : INV c e s -> INV c e (set_rx_reg b s).
Proof. intros []. constructor; sf; auto. Qed.
Lemma inv_set_flag_off c e s b : INV c e s -> INV c false (set_flag b s).
Proof. intros []. constructor; sf; auto. discriminate. Qed.
Lemma inv_strengthen c s : INV c false s -> st_dirty s = false -> first_run s = false ->
  seen s = curvals c s -> INV c true s.
Proof.
  intros [] H1 H2 H3. constructor; auto. intros _ [H|[H|H]]; [congruence|congruence|contradiction].
Qed.

Lemma inv_started_susp c e fid s a b : INV c e (started fid s) ->
  INV c e (set_task (TFetch fid (S (version s)))
             (set_version (S (version s)) (set_loading true (set_first_run false
                (set_susp_held a (set_susp_reg b s)))))).
Proof. unfold started. intros []. constructor; sf; auto; discriminate. Qed.

Lemma n_loop_inv c fuel : gc c -> forall s, INV c true s ->
  INV c true (n_loop c fuel s) /\ WK (n_loop c fuel s).
Proof.
  intros G. induction fuel as [|f IH]; intros s I; cbn [n_loop].
  { split; [apply inv_set_woken; exact I|apply wk_woken]. }
  destruct (task s) as [|fid v] eqn:Ht.
  - (* waiting on the channel *)
    set (s1 := set_rx_reg true s).
    assert (I1 : INV c true s1) by (apply inv_set_rx; exact I).
    change (flag s1) with (flag s). destruct (flag s) eqn:Hfl.
    2: { split; [exact I1|]. constructor; unfold s1; sf; auto; try (rewrite Ht; discriminate). congruence. }
    set (s2 := set_flag false s1).
    assert (I2 : INV c false s2) by (apply (inv_set_flag_off c true); exact I1).
    destruct (n_update_own c false s2 G I2) as (A3 & _ & Hd3 & Hu).
    destruct (n_update c true s2) as [u s3]. cbn [fst snd] in *.
    assert (Ht3 : task s3 = TIdle) by (rewrite (ag_task _ _ A3); exact Ht).
    assert (Hprov3 : forall v, value s3 = Some v -> In v (legit s3)).
    { intros v. rewrite (ag_value _ _ A3), (ag_legit _ _ A3). exact (i_prov c false s2 I2 v). }
    assert (Hlen3 : length (seen s3) = length (curvals c s3)).
    { rewrite (agree_len_seen _ _ A3), (agree_curvals c _ _ A3). exact (i_len c false s2 I2). }
    destruct u.
    + (* a source changed: the initial future, if still there, is stale *)
      cbn [orb andb]. destruct G as (_ & _ & Gd). rewrite Gd.
      set (sd := match init_fut s3 with
                 | Some i => set_init_fut None (set_futs (upd i (fun fu => mkFut (f_res fu) (f_done fu) false) (futs s3)) s3)
                 | None => s3 end).
      assert (Hsd : init_fut sd = None /\ value sd = value s3 /\ legit sd = legit s3 /\ seen sd = seen s3 /\
                    st_dirty sd = st_dirty s3 /\ curvals c sd = curvals c s3).
      { unfold sd. destruct (init_fut s3) eqn:Hi; sf; repeat split; auto. }
      destruct Hsd as (Hi & Hv & Hl & Hs & Hdd & Hc).
      rewrite Hi.
      pose proof (inv_start_create c sd) as Hst.
      destruct (create_fut c sd) as [fid s4]. cbn [fst snd] in Hst.
      apply IH. apply inv_started_susp. apply Hst; try congruence.
      intros v. rewrite Hv, Hl. apply Hprov3.
    + destruct (Hu eq_refl) as (I3 & Hs3 & _). cbn [orb andb].
      destruct (first_run s3) eqn:Hfr.
      * destruct (init_fut s3) as [i|] eqn:Hi.
        -- apply IH. apply (inv_started_susp c true i (set_init_fut None s3)). apply (inv_start_init c s3 i I3 Ht3 Hi Hd3 Hs3).
        -- pose proof (inv_start_create c s3 Hprov3 Hlen3 Hd3 Hi) as Hst.
           destruct (create_fut c s3) as [fid s4]. cbn [fst snd] in Hst. apply IH. apply inv_started_susp. exact Hst.
      * apply IH. apply inv_strengthen; auto.
  - (* awaiting the fetch *)
    destruct (nth_error (futs s) fid) as [fu|] eqn:Hf.
    2: { split; [exact I|]. constructor; try (rewrite Ht; discriminate).
         intros f0 v0 fu0 Ht0 Hn0. rewrite Ht in Ht0. inversion Ht0; subst. congruence. }
    destruct (f_done fu) eqn:Hdone.
    2: { split; [exact I|]. constructor; try (rewrite Ht; discriminate).
         intros f0 v0 fu0 Ht0 Hn0 Hd0. rewrite Ht in Ht0. inversion Ht0; subst.
         rewrite Hf in Hn0. inversion Hn0; subst. congruence. }
    change (version (set_susp_held 0%nat s)) with (version s).
    rewrite <- (i_ser c true s I fid v Ht), Nat.eqb_refl.
    apply IH. apply (inv_store c true (set_susp_held 0%nat s) fid v fu); [apply inv_susp_held; exact I|exact Ht|exact Hf|reflexivity].
Qed.

(** * steps that only touch the dependent's / awaiters' fields *)
Record same_core (s x : node) : Prop := {
  sc_agree : agree s x;
  sc_seen : seen x = seen s;
  sc_dirty : st_dirty x = st_dirty s;
  sc_flag : flag x = flag s;
  sc_woken : woken x = woken s;
  sc_rx : rx_reg x = rx_reg s
}.

Lemma same_core_refl s : same_core s s.
Proof. constructor; auto using agree_refl. Qed.
Lemma same_core_trans a b d : same_core a b -> same_core b d -> same_core a d.
Proof. intros [] []. constructor; try congruence. eapply agree_trans; eauto. Qed.

Lemma inv_same_core c e s x : same_core s x -> INV c e s -> INV c e x.
Proof.
  intros [A Hs Hd Hf Hw Hr] I. apply (inv_transfer c e s); auto.
  - intros H. rewrite Hd in H. rewrite (ag_cap _ _ A), (i_D c e s I H). symmetry.
    apply capof_eq; [exact (ag_sigs _ _ A)|exact Hs].
  - intros He. rewrite Hd, (ag_first_run _ _ A), Hs, (agree_curvals c _ _ A), Hf. exact (i_E c e s I He).
Qed.

Lemma wk_same_core s x : same_core s x -> WK s -> WK x.
Proof.
  intros [A Hs Hd Hf Hw Hr] [F1 F2 G]. constructor.
  - rewrite (ag_task _ _ A), Hw, Hr. exact F1.
  - rewrite (ag_task _ _ A), Hf, Hw. exact F2.
  - intros f v fu. rewrite (ag_task _ _ A), (ag_futs _ _ A), Hw. apply G.
Qed.

Ltac sc_tac := constructor; [constructor; reflexivity|reflexivity..].

Lemma sc_d_notify s : same_core s (d_notify s).
Proof. unfold d_notify. sf. destruct (d_reg s); sc_tac. Qed.
Lemma sc_d_mark_dirty s : same_core s (d_mark_dirty s).
Proof. unfold d_mark_dirty. eapply same_core_trans; [|apply sc_d_notify]. sc_tac. Qed.

Lemma sc_d_body c s : same_core s (d_body c s).
Proof. unfold d_body. destruct (dep c =? 2)%nat; sc_tac. Qed.

(** the dependent's check asks the node; the rest only touches the dependent *)
Lemma d_update_ok c s : gc c -> INV c true s -> WK s ->
  INV c true (snd (d_update c s)) /\ WK (snd (d_update c s)).
Proof.
  intros G I W. unfold d_update.
  destruct (d_dirty s).
  { cbn [snd]. split; [eapply inv_same_core; [|exact I]|eapply wk_same_core; [|exact W]]; sc_tac. }
  destruct (negb (d_sub s)); [auto|].
  destruct (n_update_other c true s G I) as (I1 & W1 & _). specialize (W1 W).
  destruct (n_update c false s) as [a s1]. cbn [snd] in *.
  assert (H : forall (b : bool) (x : node), same_core s1 x ->
            INV c true (snd (b || d_dirty x, set_d_dirty false x)) /\ WK (snd (b || d_dirty x, set_d_dirty false x))).
  { intros b x Sx. cbn [snd].
    assert (S2 : same_core s1 (set_d_dirty false x)) by (eapply same_core_trans; [exact Sx|sc_tac]).
    split; [eapply inv_same_core; eauto|eapply wk_same_core; eauto]. }
  destruct a; [apply H, same_core_refl|].
  destruct (dep c =? 2)%nat; [|apply H, same_core_refl].
  destruct (negb (sg s1 2 / 2 =? d_seen s1)%Z); apply H.
  - eapply same_core_trans; [|apply sc_d_mark_dirty]. sc_tac.
  - sc_tac.
Qed.

Lemma d_loop_ok c fuel : gc c -> forall s, INV c true s -> WK s ->
  INV c true (d_loop c fuel s) /\ WK (d_loop c fuel s).
Proof.
  intros G. induction fuel as [|f IH]; intros s I W; cbn [d_loop]; [auto|].
  assert (S1 : same_core s (set_d_reg true s)) by sc_tac.
  change (d_set (set_d_reg true s)) with (d_set s). destruct (d_set s).
  2: { split; [eapply inv_same_core; eauto|eapply wk_same_core; eauto]. }
  set (s2 := set_d_set false (set_d_reg true s)).
  assert (S2 : same_core s s2) by sc_tac.
  destruct (d_update_ok c s2 G (inv_same_core _ _ _ _ S2 I) (wk_same_core _ _ S2 W)) as (I3 & W3).
  destruct (d_update c s2) as [u s3]. cbn [snd] in *.
  apply IH.
  - destruct (u || d_first s3); [|exact I3].
    eapply inv_same_core; [|exact I3]. eapply same_core_trans; [|apply sc_d_body]. sc_tac.
  - destruct (u || d_first s3); [|exact W3].
    eapply wk_same_core; [|exact W3]. eapply same_core_trans; [|apply sc_d_body]. sc_tac.
Qed.

Lemma d_poll_ok c s : gc c -> INV c true s -> WK s -> INV c true (d_poll c s) /\ WK (d_poll c s).
Proof.
  intros G I W. unfold d_poll. destruct (d_woken s); [|auto].
  assert (S1 : same_core s (set_d_woken false s)) by sc_tac.
  apply d_loop_ok; [exact G|eapply inv_same_core; eauto|eapply wk_same_core; eauto].
Qed.

(** * the node's task *)
Lemma n_poll_ok c s : gc c -> INV c true s -> WK s -> INV c true (n_poll c s) /\ WK (n_poll c s).
Proof.
  intros G I W. unfold n_poll. destruct (woken s); [|auto].
  apply n_loop_inv; [exact G|].
  assert (I1 : INV c true (set_woken false s)) by (apply inv_set_woken; exact I).
  change (polled (set_woken false s)) with (polled s). destruct (polled s); [exact I1|].
  assert (I2 : INV c true (set_polled true (set_woken false s))).
  { destruct I1. constructor; sf; auto. }
  change (st_dirty (set_polled true (set_woken false s))) with (st_dirty s).
  destruct (st_dirty s); [|exact I2].
  change (init_fut (set_polled true (set_woken false s))) with (init_fut s).
  destruct (init_fut s) as [i|] eqn:Hi; [|exact I2].
  (* the initial future is thrown away *)
  destruct (i_init c true s I i Hi) as (Hfr & _).
  assert (Ht : task s = TIdle).
  { destruct (task s) as [|f v] eqn:Ht; [reflexivity|].
    destruct (i_A c true s I f v Ht) as (Hfr' & _). congruence. }
  destruct I2. constructor; sf; auto.
  - intros f v H. rewrite Ht in H. discriminate.
  - discriminate.
Qed.

(** * events *)
(** like [agree], but the inputs may have changed *)
Record agree2 (s x : node) : Prop := {
  a2_version : version x = version s; a2_value : value x = value s;
  a2_loading : loading x = loading s; a2_wakers : wakers x = wakers s;
  a2_task : task x = task s; a2_init_fut : init_fut x = init_fut s;
  a2_first_run : first_run x = first_run s; a2_futs : futs x = futs s;
  a2_manual : manual x = manual s; a2_cap : cap x = cap s; a2_legit : legit x = legit s;
  a2_susp_held : susp_held x = susp_held s
}.

Lemma inv_transfer2 c e s x : INV c e s -> agree2 s x ->
  length (seen x) = length (curvals c x) ->
  (st_dirty x = false -> cap x = capof c x) ->
  (e = true -> st_dirty x = true \/ first_run x = true \/ seen x <> curvals c x -> flag x = true) ->
  INV c e x.
Proof.
  intros I A HL HD HE. destruct I, A. constructor; auto.
  - intros f v. rewrite a2_task0, a2_version0. eauto.
  - rewrite a2_loading0, a2_wakers0. eauto.
  - intros v. rewrite a2_value0, a2_legit0. eauto.
  - intros f v. rewrite a2_task0, a2_first_run0, a2_futs0, a2_cap0. eauto.
  - rewrite a2_task0, a2_first_run0, a2_manual0, a2_value0, a2_cap0. eauto.
  - rewrite a2_task0, a2_first_run0, a2_loading0. eauto.
  - intros i. rewrite a2_init_fut0, a2_first_run0, a2_futs0, a2_cap0. eauto.
  - rewrite a2_task0, a2_susp_held0. eauto.
Qed.

Definition tracked (c : cfg) (i : nat) : bool :=
  if once c then false else
  match shape c, i with
  | O, O | O, 1%nat | 1%nat, O | 1%nat, 1%nat | 2%nat, O | S (S (S _)), O => true
  | _, _ => false
  end.

Lemma sg_upd_other s l i j v : j <> i -> sigs l = upd i (fun _ => v) (sigs s) -> sg l j = sg s j.
Proof. intros H E. unfold sg. rewrite E. apply nth_upd_other. exact H. Qed.

Lemma untracked_same c s x i v : tracked c i = false -> sigs x = upd i (fun _ => v) (sigs s) ->
  refetch_n x = refetch_n s -> curvals c x = curvals c s /\ inputs c x = inputs c s.
Proof.
  intros Ht Es Er.
  assert (H0 : i <> 0%nat -> sg x 0 = sg s 0) by (intros H; apply (sg_upd_other s x i 0 v); [lia|exact Es]).
  assert (H1 : i <> 1%nat -> sg x 1 = sg s 1) by (intros H; apply (sg_upd_other s x i 1 v); [lia|exact Es]).
  unfold tracked in Ht. unfold curvals, inputs, m3_of, m2_of.
  destruct (once c);
  destruct (shape c) as [|[|[|n]]]; destruct i as [|[|i]]; try discriminate;
    try (rewrite H0 by lia); try (rewrite H1 by lia); rewrite ?Er; auto.
Qed.

Lemma write_ok c s i v : INV c true s -> WK s ->
  INV c true (write_marks c i (set_sigs (upd i (fun _ => v) (sigs s)) s)) /\
  WK (write_marks c i (set_sigs (upd i (fun _ => v) (sigs s)) s)).
Proof.
  intros I W. set (s1 := set_sigs (upd i (fun _ => v) (sigs s)) s).
  assert (A1 : agree2 s s1) by (constructor; reflexivity).
  assert (W1 : WK s1) by (destruct W; constructor; auto).
  assert (Hl1 : length (seen s1) = length (curvals c s1)).
  { rewrite curvals_len. change (seen s1) with (seen s). rewrite (i_len c true s I), curvals_len. reflexivity. }
  unfold write_marks.
  set (s2 := if once c then s1 else
             match shape c, i with
             | O, O | O, 1%nat => n_mark_dirty s1
             | 1%nat, O | 1%nat, 1%nat => n_mark_check s1
             | 2%nat, O => n_mark_check s1
             | S (S (S _)), O => n_mark_check s1
             | _, _ => s1 end).
  assert (H2 : INV c true s2 /\ WK s2).
  { destruct (tracked c i) eqn:Htr.
    - (* a tracked signal: the node is told *)
      assert (Hcases : (shape c = 0%nat /\ s2 = n_mark_dirty s1) \/ (shape c <> 0%nat /\ s2 = n_mark_check s1)).
      { unfold tracked in Htr. unfold s2. destruct (once c); [discriminate|].
        destruct (shape c) as [|[|[|n]]]; destruct i as [|[|i]]; try discriminate; auto. }
      destruct Hcases as [(Hs & ->)|(Hs & ->)].
      + split; [|apply wk_mark_dirty; exact W1].
        apply (inv_transfer2 c true s).
        * exact I.
        * destruct A1. unfold n_mark_dirty, n_notify. sf. destruct (rx_reg s1); constructor; auto.
        * unfold n_mark_dirty, n_notify. sf. destruct (rx_reg s1); exact Hl1.
        * rewrite (proj2 (flag_mark_dirty s1)). discriminate.
        * intros _ _. exact (proj1 (flag_mark_dirty s1)).
      + split; [|apply wk_notify; exact W1].
        assert (Hf : flag (n_mark_check s1) = true /\ st_dirty (n_mark_check s1) = st_dirty s /\
                     seen (n_mark_check s1) = seen s /\ cap (n_mark_check s1) = cap s).
        { unfold n_mark_check, n_notify. sf. destruct (rx_reg s1); sf; auto. }
        destruct Hf as (Hf1 & Hf2 & Hf3 & Hf4).
        apply (inv_transfer2 c true s).
        * exact I.
        * destruct A1. unfold n_mark_check, n_notify. sf. destruct (rx_reg s1); constructor; auto.
        * unfold n_mark_check, n_notify. sf. destruct (rx_reg s1); exact Hl1.
        * rewrite Hf2, Hf4. intros Hd. rewrite (i_D c true s I Hd). unfold capof.
          destruct (shape c); [congruence|]. rewrite Hf3. reflexivity.
        * intros _ _. exact Hf1.
    - (* an input the node does not read *)
      assert (Es2 : s2 = s1).
      { unfold tracked in Htr. unfold s2. destruct (once c); [reflexivity|].
        destruct (shape c) as [|[|[|n]]]; destruct i as [|[|i]]; try discriminate; reflexivity. }
      rewrite Es2. split; [|exact W1].
      destruct (untracked_same c s s1 i v Htr eq_refl eq_refl) as (Hc & Hi).
      apply (inv_transfer2 c true s); auto.
      + change (st_dirty s1) with (st_dirty s). change (cap s1) with (cap s).
        intros Hd. rewrite (i_D c true s I Hd). unfold capof. rewrite Hi. reflexivity.
      + change (st_dirty s1) with (st_dirty s). change (first_run s1) with (first_run s).
        change (seen s1) with (seen s). change (flag s1) with (flag s). rewrite Hc.
        exact (i_E c true s I). }
  destruct H2 as (I2 & W2).
  destruct ((dep c =? 2)%nat && (i =? 2)%nat && d_sub s2); [|auto].
  split; [eapply inv_same_core; [apply sc_d_notify|exact I2]|eapply wk_same_core; [apply sc_d_notify|exact W2]].
Qed.

Lemma refetch_ok c s : INV c true s -> WK s ->
  INV c true (step c s Refetch) /\ WK (step c s Refetch).
Proof.
  intros I W. cbn [step]. set (s1 := set_refetch_n (refetch_n s + 1) s).
  assert (A1 : agree2 s s1) by (constructor; reflexivity).
  assert (W1 : WK s1) by (destruct W; constructor; auto).
  assert (Hl1 : length (seen s1) = length (curvals c s1)).
  { rewrite curvals_len. change (seen s1) with (seen s). rewrite (i_len c true s I), curvals_len. reflexivity. }
  assert (Hi : inputs c s1 = inputs c s) by reflexivity.
  (* when the refetch counter is not among the memo sources, the counter is invisible *)
  assert (Isame : curvals c s1 = curvals c s -> INV c true s1).
  { intros Hc. apply (inv_transfer2 c true s); auto.
    - change (st_dirty s1) with (st_dirty s). change (cap s1) with (cap s). intros Hd.
      rewrite (i_D c true s I Hd). unfold capof. rewrite Hi. reflexivity.
    - change (st_dirty s1) with (st_dirty s). change (first_run s1) with (first_run s).
      change (seen s1) with (seen s). change (flag s1) with (flag s). rewrite Hc. exact (i_E c true s I). }
  destruct (once c) eqn:Ho.
  { split; [apply Isame; unfold curvals; rewrite Ho; reflexivity|exact W1]. }
  destruct (shape c) as [|[|[|n]]] eqn:Hs.
  - assert (I1 : INV c true s1) by (apply Isame; unfold curvals; rewrite Ho, Hs; reflexivity).
    destruct (rf_tracks c); [split; [apply inv_mark_dirty; exact I1|apply wk_mark_dirty; exact W1]|auto].
  - split; [apply Isame; unfold curvals; rewrite Ho, Hs; reflexivity|exact W1].
  - split; [apply Isame; unfold curvals, m3_of, m2_of, sg; rewrite Ho, Hs; reflexivity|exact W1].
  - (* resource-like: the refetch counter is part of the tracked memo *)
    split; [|apply wk_notify; exact W1].
    assert (Hf : flag (n_mark_check s1) = true /\ st_dirty (n_mark_check s1) = st_dirty s /\
                 seen (n_mark_check s1) = seen s /\ cap (n_mark_check s1) = cap s).
    { unfold n_mark_check, n_notify. sf. destruct (rx_reg s1); sf; auto. }
    destruct Hf as (Hf1 & Hf2 & Hf3 & Hf4).
    apply (inv_transfer2 c true s).
    + exact I.
    + destruct A1. unfold n_mark_check, n_notify. sf. destruct (rx_reg s1); constructor; auto.
    + unfold n_mark_check, n_notify. sf. destruct (rx_reg s1); exact Hl1.
    + rewrite Hf2, Hf4. intros Hd. rewrite (i_D c true s I Hd). unfold capof. rewrite Hs, Hf3. reflexivity.
    + intros _ _. exact Hf1.
Qed.

Lemma wk_notify_subs s : WK s -> WK (notify_subs s).
Proof.
  intros [F1 F2 G].
  destruct (notify_subs_fields s) as (E1 & E2 & E3 & E4 & E5 & E6 & E7 & E8 & E9 & E10 & E11 & E12 & E13 & E14 & E15 & E16 & E17 & E18 & E19).
  constructor.
  - rewrite E12, E6, E7. exact F1.
  - rewrite E12, E5, E6. exact F2.
  - intros f v fu. rewrite E12, E15, E6. apply G.
Qed.

Lemma manual_ok c s v : INV c true s -> WK s ->
  INV c true (step c s (ManualSet v)) /\ WK (step c s (ManualSet v)).
Proof.
  intros I W. cbn [step].
  set (s1 := set_legit (v :: legit s) (set_manual true (set_value (Some v) s))).
  assert (I1 : INV c true s1).
  { destruct I. constructor; unfold s1; sf; auto.
    - intros v0 Hv. inversion Hv. left. reflexivity.
    - discriminate. }
  split; [apply inv_notify_subs; exact I1|apply wk_notify_subs]. destruct W. constructor; auto.
Qed.

Lemma notify_ok c s : INV c true s -> WK s ->
  INV c true (step c s Notify) /\ WK (step c s Notify).
Proof. intros I W. cbn [step]. split; [apply inv_notify_subs; exact I|apply wk_notify_subs; exact W]. Qed.

Lemma complete_ok c s f : INV c true s -> WK s ->
  INV c true (complete f s) /\ WK (complete f s).
Proof.
  intros I W. unfold complete. destruct (nth_error (futs s) f) as [fu|] eqn:Hf; [|auto].
  destruct (f_done fu || negb (f_alive fu)); [auto|].
  set (s1 := set_futs (upd f (fun fu => mkFut (f_res fu) true (f_alive fu)) (futs s)) s).
  assert (Hnth : forall g fg, nth_error (futs s1) g = Some fg ->
            exists fg0, nth_error (futs s) g = Some fg0 /\ f_res fg = f_res fg0 /\ f_alive fg = f_alive fg0 /\
                        (g <> f -> fg = fg0)).
  { intros g fg Hg. unfold s1 in Hg. cbn in Hg. rewrite nth_error_upd in Hg.
    destruct (Nat.eqb_spec g f) as [->|Hne].
    - rewrite Hf in Hg. cbn in Hg. inversion Hg; subst. exists fu. repeat split; auto. congruence.
    - exists fg. auto. }
  assert (Hnth' : forall g fg0, nth_error (futs s) g = Some fg0 ->
            exists fg, nth_error (futs s1) g = Some fg /\ f_res fg = f_res fg0 /\ f_alive fg = f_alive fg0).
  { intros g fg0 Hg. unfold s1. cbn. rewrite nth_error_upd. destruct (g =? f)%nat; rewrite Hg; cbn; eauto. }
  assert (I1 : INV c true s1).
  { destruct I. constructor; unfold s1; sf; auto.
    - intros g v Ht. destruct (i_A0 g v Ht) as (Hfr & fg0 & Hg0 & Hal & Hres). split; [exact Hfr|].
      destruct (Hnth' g fg0 Hg0) as (fg & Hg & Er & Ea). exists fg. unfold s1 in Hg. cbn in Hg.
      repeat split; [exact Hg|congruence|congruence].
    - intros i Hi. destruct (i_init0 i Hi) as (Hfr & fg0 & Hg0 & Hal & Hres). split; [exact Hfr|].
      destruct (Hnth' i fg0 Hg0) as (fg & Hg & Er & Ea). exists fg. unfold s1 in Hg. cbn in Hg.
      repeat split; [exact Hg|congruence|congruence]. }
  destruct (task s) as [|g v] eqn:Ht.
  - change (task s1) with (task s). rewrite Ht. split; [exact I1|].
    destruct W. constructor; unfold s1; sf; auto. intros g v fg Hg. rewrite Ht in Hg. discriminate.
  - change (task s1) with (task s). rewrite Ht. destruct (Nat.eqb_spec g f) as [->|Hne].
    + split; [apply inv_set_woken; exact I1|apply wk_woken].
    + split; [exact I1|]. destruct W as [F1 F2 G]. constructor; unfold s1; sf; auto.
      intros g' v' fg Hg' Hn Hd. rewrite Ht in Hg'. inversion Hg'; subst g' v'.
      destruct (Hnth g fg Hn) as (fg0 & Hg0 & _ & _ & Hsame). rewrite (Hsame Hne) in Hd.
      exact (G g v fg0 Ht Hg0 Hd).
Qed.

Lemma awaiter_ok c s a : INV c true s -> WK s ->
  INV c true (poll_awaiter c a s) /\ WK (poll_awaiter c a s).
Proof.
  intros I W. unfold poll_awaiter. destruct (nth_error (awaiters s) a) as [[g w|v|]|]; auto.
  set (s1 := if nth a (aw_sus s) false && negb (once c) then set_susp_reg (S (susp_reg s)) s else s).
  assert (I1 : INV c true s1 /\ WK s1 /\ loading s1 = loading s).
  { unfold s1. destruct (nth a (aw_sus s) false && negb (once c)); [|auto].
    split; [destruct I; constructor; sf; auto|split; [destruct W; constructor; auto|reflexivity]]. }
  destruct I1 as (I1 & W1 & Hl). clearbody s1.
  destruct (loading s1) eqn:Hl1.
  - split; [|destruct W1; constructor; auto]. destruct I1. constructor; sf; auto. congruence.
  - split; [|destruct W1; constructor; auto]. destruct I1. constructor; sf; auto.
Qed.

Lemma poll_task_ok c t s : gc c -> INV c true s -> WK s ->
  INV c true (poll_task c t s) /\ WK (poll_task c t s).
Proof.
  intros G I W. unfold poll_task. destruct t as [|[|t]]; auto using n_poll_ok.
  destruct (0 <? dep c)%nat; auto using d_poll_ok.
Qed.

Lemma run_all_ok c fuel : gc c -> forall picks s, INV c true s -> WK s ->
  INV c true (run_all c fuel picks s) /\ WK (run_all c fuel picks s).
Proof.
  intros G. induction fuel as [|f IH]; intros picks s I W; cbn [run_all]; [auto|].
  destruct (ready c s); [auto|].
  destruct (poll_task_ok c (nth (Nat.modulo (hd 0%nat picks) (length (n :: l))) (n :: l) 0%nat) s G I W) as (I1 & W1).
  apply IH; auto.
Qed.

Lemma step_ok c s ev : gc c -> INV c true s -> WK s -> INV c true (step c s ev) /\ WK (step c s ev).
Proof.
  intros G I W. destruct ev.
  - apply write_ok; auto.
  - apply refetch_ok; auto.
  - apply manual_ok; auto.
  - apply notify_ok; auto.
  - apply complete_ok; auto.
  - apply poll_task_ok; auto.
  - apply run_all_ok; auto.
  - cbn [step]. split; [destruct I; constructor; sf; auto|destruct W; constructor; auto].
  - apply awaiter_ok; auto.
Qed.

(** * construction *)
Lemma init_ok c initial : INV c true (init c initial) /\ WK (init c initial).
Proof.
  destruct c as [sh dp h o d rt on ff].
  assert (Hnth : forall (x : fut), nth_error [x] 0 = Some x) by reflexivity.
  destruct on; destruct sh as [|[|[|n]]]; destruct initial as [v0|]; destruct dp as [|dp];
    (split; [constructor|constructor]); cbn; intros; try discriminate; try reflexivity; auto;
    try (match goal with H : Some _ = Some _ |- _ => inversion H; subst end);
    try (split; [reflexivity|eexists; split; [reflexivity|split; reflexivity]]);
    try (left; reflexivity); try (right; reflexivity); try tauto.
  all: match goal with H : TFetch _ _ = TFetch _ _ |- _ => inversion H; subst end; try reflexivity.
  all: split; [reflexivity|eexists; split; [reflexivity|split; reflexivity]].
Qed.

(** * theorems: for all histories (source writes, refetches, manual writes, completions in any
      order, task polls in any order, awaiters attached at any point) *)
Theorem reach c initial evs : gc c -> INV c true (run c initial evs) /\ WK (run c initial evs).
Proof.
  intros G. unfold run.
  assert (H : forall s, INV c true s /\ WK s -> INV c true (fold_left (step c) evs s) /\ WK (fold_left (step c) evs s)).
  { induction evs as [|ev evs IH]; intros s [I W]; cbn [fold_left]; [auto|].
    apply IH. apply step_ok; auto. }
  apply H, init_ok.
Qed.

(** fetches are serial: a fetch in flight is always the one of the current version, so the
    version test in the task loop never fails and an older fetch can never overwrite a newer one *)
Theorem fetches_are_serial : forall c initial evs, gc c ->
  forall f v, task (run c initial evs) = TFetch f v -> v = version (run c initial evs).
Proof. intros c initial evs G. exact (i_ser c true _ (proj1 (reach c initial evs G))). Qed.

(** all futures completed (or dropped) and the node's task not ready *)
Definition quiescent (s : node) : Prop :=
  woken s = false /\
  forall f fu, nth_error (futs s) f = Some fu -> f_done fu = true \/ f_alive fu = false.

Theorem quiescent_latest : forall c initial evs, gc c ->
  let s := run c initial evs in
  quiescent s ->
  loading s = false /\ (manual s = false -> value s = Some (fetchf c (inputs c s))).
Proof.
  intros c initial evs G s (Hw & Hq). destruct (reach c initial evs G) as (I & W). fold s in I, W.
  (* the task is not awaiting a fetch: that fetch would be complete, and the task woken *)
  assert (Ht : task s = TIdle).
  { destruct (task s) as [|f v] eqn:Ht; [reflexivity|]. exfalso.
    destruct (i_A c true s I f v Ht) as (_ & fu & Hf & Hal & _).
    destruct (Hq f fu Hf) as [Hd|Hd]; [|congruence].
    pose proof (w_G s W f v fu Ht Hf Hd). congruence. }
  (* no notification is pending, hence no unprocessed change *)
  assert (Hfl : flag s = false).
  { destruct (flag s) eqn:Hfl; [|reflexivity]. pose proof (w_F2 s W Ht Hfl). congruence. }
  assert (Hd : st_dirty s = false).
  { destruct (st_dirty s) eqn:E; [|reflexivity]. rewrite (i_E c true s I eq_refl (or_introl E)) in Hfl. discriminate. }
  assert (Hfr : first_run s = false).
  { destruct (first_run s) eqn:E; [|reflexivity].
    rewrite (i_E c true s I eq_refl (or_intror (or_introl E))) in Hfl. discriminate. }
  assert (Hs : seen s = curvals c s).
  { destruct (list_eq_dec Z.eq_dec (seen s) (curvals c s)) as [E|E]; [exact E|].
    rewrite (i_E c true s I eq_refl (or_intror (or_intror E))) in Hfl. discriminate. }
  split; [exact (i_C c true s I Ht Hfr)|].
  intros Hm. rewrite (i_B c true s I Ht Hfr Hm), (i_D c true s I Hd). f_equal. f_equal.
  unfold capof. destruct (shape c) eqn:Hsh; [reflexivity|]. rewrite Hs. symmetry. apply inputs_iv. congruence.
Qed.

(** awaiters: nobody stays parked once loading is off … *)
Theorem awaiters_resumed : forall c initial evs, gc c ->
  loading (run c initial evs) = false -> wakers (run c initial evs) = [].
Proof. intros c initial evs G. exact (i_parked c true _ (proj1 (reach c initial evs G))). Qed.

(** … because whenever loading goes off, every parked awaiter's waker is invoked *)
Definition pair_dec : forall x y : nat * nat, {x = y} + {x <> y}.
Proof. decide equality; apply Nat.eq_dec. Defined.

Lemma wake_fold ws : forall aws a g w, nth_error aws a = Some (APending g w) ->
  nth_error (fold_left (fun aws ag => upd (fst ag) (wake_awaiter (snd ag)) aws) ws aws) a =
  Some (APending g (w + count_occ pair_dec ws (a, g))).
Proof.
  induction ws as [|[a' g'] ws IH]; intros aws a g w Ha; cbn [fold_left count_occ fst snd].
  - rewrite Nat.add_0_r. exact Ha.
  - destruct (pair_dec (a', g') (a, g)) as [E|Hne].
    + inversion E; subst a' g'. rewrite (IH _ a g (S w)); [f_equal; f_equal; lia|].
      rewrite nth_error_upd_same, Ha. cbn. rewrite Nat.eqb_refl. reflexivity.
    + destruct (Nat.eq_dec a' a) as [->|Hna].
      * rewrite (IH _ a g w); [reflexivity|]. rewrite nth_error_upd_same, Ha. cbn.
        destruct (Nat.eqb_spec g g'); [subst; congruence|reflexivity].
      * rewrite (IH _ a g w); [reflexivity|]. rewrite nth_error_upd_other; auto.
Qed.

(** every awaiter parked with its latest waker has that waker invoked *)
Theorem parked_awaiters_woken : forall s a g w,
  In (a, g) (wakers s) -> nth_error (awaiters s) a = Some (APending g w) ->
  exists w', nth_error (awaiters (notify_subs s)) a = Some (APending g w') /\ (w < w')%nat.
Proof.
  intros s a g w Hin Ha. exists (w + count_occ pair_dec (wakers s) (a, g))%nat. split.
  - unfold notify_subs. sf.
    assert (E : forall x, awaiters x = awaiters s -> wakers x = wakers s ->
              nth_error (fold_left (fun aws ag => upd (fst ag) (wake_awaiter (snd ag)) aws) (wakers x) (awaiters x)) a =
              Some (APending g (w + count_occ pair_dec (wakers s) (a, g)))).
    { intros x E1 E2. rewrite E1, E2. apply wake_fold. exact Ha. }
    unfold d_mark_dirty, d_notify. destruct (d_sub s); sf; [destruct (d_reg s); sf|]; apply E; reflexivity.
  - apply (count_occ_In pair_dec) in Hin. lia.
Qed.

(** a synchronous read never returns a fabricated value *)
Theorem sync_read_is_previous_or_none : forall c initial evs, gc c ->
  forall v, value (run c initial evs) = Some v -> In v (legit (run c initial evs)).
Proof. intros c initial evs G. exact (i_prov c true _ (proj1 (reach c initial evs G))). Qed.

(** each transition is announced: storing a value (or a manual notify) marks the subscribed
    dependent dirty and sets its channel flag *)
Theorem dependents_notified_each_transition : forall s,
  d_sub s = true ->
  d_dirty (notify_subs s) = true /\ d_set (notify_subs s) = true /\
  (d_reg s = true \/ d_woken s = true -> d_woken (notify_subs s) = true) /\
  loading (notify_subs s) = false.
Proof.
  intros s Hs. unfold notify_subs, d_mark_dirty, d_notify. sf. rewrite Hs. sf.
  destruct (d_reg s) eqn:Hr; sf; repeat split; auto. intros [H|H]; [discriminate|exact H].
Qed.

(** * the code before the fixes violates [quiescent_latest]; examples *)
Definition ex_fetch (p : Z * Z) : Z := (fst p * 1000 + snd p)%Z.
Definition quiescentb (s : node) : bool :=
  negb (woken s) && forallb (fun fu => f_done fu || negb (f_alive fu)) (futs s).

(** F-C10: m2 changes, m3 (read first, depends on m2) does not: no refetch *)
Definition w1_cfg : cfg := mkCfg 2 0 false false false false false ex_fetch.
Definition w1_evs : list event := [RunAll []; Complete 0; RunAll []; WriteSig 0 1; RunAll []].
Example quiescent_latest_prefix_refuted :
  let s := run w1_cfg None w1_evs in
  quiescentb s = true /\ manual s = false /\ value s = Some 0%Z /\
  ex_fetch (inputs w1_cfg s) = 10%Z.
Proof. vm_compute. auto. Qed.

(** F-C10-b: the dependent, polled first, consumes the node's dirty state *)
Definition w2_cfg : cfg := mkCfg 0 2 true false false false false ex_fetch.
Definition w2_evs : list event :=
  [RunAll []; Complete 0; RunAll []; WriteSig 0 1; WriteSig 2 2; PollTask 1; PollTask 0; RunAll []].
Example quiescent_latest_steal_refuted :
  let s := run w2_cfg None w2_evs in
  quiescentb s = true /\ manual s = false /\ value s = Some 0%Z /\
  ex_fetch (inputs w2_cfg s) = 1000%Z.
Proof. vm_compute. auto. Qed.

(** F-C10-c: a memo source changes before the first poll; the stale initial future is awaited *)
Definition w3_cfg : cfg := mkCfg 1 0 true true false false false ex_fetch.
Definition w3_evs : list event := [WriteSig 1 1; RunAll []; Complete 0; RunAll []].
Example quiescent_latest_stale_initial_refuted :
  let s := run w3_cfg None w3_evs in
  quiescentb s = true /\ manual s = false /\ value s = Some 0%Z /\
  ex_fetch (inputs w3_cfg s) = 1%Z.
Proof. vm_compute. auto. Qed.

(** the same three histories on the repaired code settle on the latest inputs *)
Definition ok_cfg (sh dp : nat) : cfg := mkCfg sh dp true true true false false ex_fetch.
Example witnesses_fixed :
  value (run (ok_cfg 2 0) None (w1_evs ++ [Complete 1; RunAll []])) = Some 10%Z /\
  value (run (ok_cfg 0 2) None (w2_evs ++ [Complete 1; RunAll []])) = Some 1000%Z /\
  value (run (ok_cfg 1 0) None (w3_evs ++ [Complete 1; RunAll []])) = Some 1%Z.
Proof. vm_compute. auto. Qed.

(** non-vacuity: a quiescent state after overlapping changes, with a parked awaiter resumed *)
Example ex_quiescent :
  let s := run (ok_cfg 3 1) (Some 0%Z)
             [RunAll []; WriteSig 0 2; PollTask 0; Refetch; NewAwaiter true; PollAwaiter 0;
              Complete 1; RunAll []; Complete 2; RunAll [1%nat]; PollAwaiter 0] in
  quiescentb s = true /\ loading s = false /\ value s = Some 1000%Z /\
  awaiters s = [ADone 1000%Z] /\ dlog s = [Some 0%Z; Some 1000%Z; Some 1000%Z].
Proof. vm_compute. auto. Qed.

(** * where values come from *)
(** futures keep their result, completed ones stay completed; every new legitimate value is the
    result of a completed future *)
Record lstep (s s' : node) : Prop := {
  ls_futs : forall f fu, nth_error (futs s) f = Some fu ->
            exists fu', nth_error (futs s') f = Some fu' /\ f_res fu' = f_res fu /\
                        (f_done fu = true -> f_done fu' = true);
  ls_legit : forall v, In v (legit s') ->
             In v (legit s) \/ exists f fu, nth_error (futs s') f = Some fu /\ f_done fu = true /\ f_res fu = v
}.

Lemma lstep_same s x : futs x = futs s -> legit x = legit s -> lstep s x.
Proof. intros E1 E2. constructor; rewrite ?E1, ?E2; eauto. Qed.
Lemma lstep_refl s : lstep s s. Proof. apply lstep_same; reflexivity. Qed.
Lemma lstep_trans a b d : lstep a b -> lstep b d -> lstep a d.
Proof.
  intros [F1 L1] [F2 L2]. constructor.
  - intros f fu Hf. destruct (F1 f fu Hf) as (fu1 & H1 & R1 & D1). destruct (F2 f fu1 H1) as (fu2 & H2 & R2 & D2).
    exists fu2. repeat split; auto; congruence.
  - intros v Hv. destruct (L2 v Hv) as [H|H]; [|right; exact H].
    destruct (L1 v H) as [H'|(f & fu & Hf & Hd & Hr)]; [left; exact H'|]. right.
    destruct (F2 f fu Hf) as (fu2 & H2 & R2 & D2). exists f, fu2. repeat split; auto; congruence.
Qed.
Lemma lstep_agree s x : agree s x -> lstep s x.
Proof. intros A. apply lstep_same; [exact (ag_futs _ _ A)|exact (ag_legit _ _ A)]. Qed.

Lemma lstep_store s f fu : nth_error (futs s) f = Some fu -> f_done fu = true ->
  lstep s (set_task TIdle (store (f_res fu) s)).
Proof.
  intros Hf Hd. unfold store.
  set (s1 := set_legit (f_res fu :: legit s) (set_manual false (set_value (Some (f_res fu)) s))).
  destruct (notify_subs_fields s1) as (_ & _ & _ & _ & _ & _ & _ & _ & _ & _ & _ & _ & _ & _ & E15 & _ & _ & E18 & _).
  constructor; sf; rewrite ?E15, ?E18; unfold s1; sf; eauto.
  intros v [<-|Hv]; [right; eauto|left; exact Hv].
Qed.

Lemma lstep_create c s : lstep s (snd (create_fut c s)).
Proof.
  unfold create_fut. cbn [snd].
  assert (A : agree s (read_all c s)).
  { unfold read_all.
    assert (H : forall js s0, agree s s0 -> agree s (fold_left (fun s j => snd (check_src c false j s)) js s0)).
    { induction js as [|j js IH]; intros s0 A0; cbn [fold_left]; [exact A0|]. apply IH.
      eapply agree_trans; [exact A0|]. rewrite check_src_false.
      assert (Hf : forall ks s1, agree s0 s1 -> agree s0 (fold_left (fun s k => snd (refresh c k s)) ks s1)).
      { induction ks as [|k ks IHk]; intros s1 A1; cbn [fold_left]; [exact A1|]. apply IHk.
        eapply agree_trans; [exact A1|]. unfold refresh. cbn [snd].
        set (x := set_seen _ s1). assert (Ax : agree s1 x) by (apply agree_set_seen, length_upd).
        destruct (shape c) as [|[|[|n]]]; try exact Ax. destruct k as [|[|k]]; try exact Ax.
        destruct (negb _); [|exact Ax]. eapply agree_trans; [exact Ax|apply agree_notify]. }
      set (s1 := fold_left _ (pulls c j) s0). assert (A1 : agree s0 s1) by (apply Hf, agree_refl).
      eapply agree_trans; [exact A1|]. unfold refresh. cbn [snd].
      set (x := set_seen _ s1). assert (Ax : agree s1 x) by (apply agree_set_seen, length_upd).
      destruct (shape c) as [|[|[|n]]]; try exact Ax. destruct j as [|[|j]]; try exact Ax.
      destruct (negb _); [|exact Ax]. eapply agree_trans; [exact Ax|apply agree_notify]. }
    apply H, agree_refl. }
  set (r := read_all c s) in *. clearbody r.
  constructor; sf.
  - intros f fu Hf. rewrite <- (ag_futs _ _ A) in Hf. exists fu. repeat split; auto.
    rewrite nth_error_app1; [exact Hf|]. apply nth_error_Some. congruence.
  - intros v Hv. left. rewrite <- (ag_legit _ _ A). exact Hv.
Qed.

Lemma lstep_drop s i : lstep s (set_init_fut None (set_futs (upd i (fun fu => mkFut (f_res fu) (f_done fu) false) (futs s)) s)).
Proof.
  constructor; sf; [|auto].
  intros f fu Hf. rewrite nth_error_upd. destruct (f =? i)%nat; rewrite Hf; cbn; eauto.
Qed.

Lemma lstep_started fid s : lstep s (started fid s).
Proof. apply lstep_same; reflexivity. Qed.

Lemma n_loop_lstep c fuel : gc c -> forall s, INV c true s -> lstep s (n_loop c fuel s).
Proof.
  intros G. induction fuel as [|f IH]; intros s I; cbn [n_loop]; [apply lstep_same; reflexivity|].
  destruct (task s) as [|fid v] eqn:Ht.
  - set (s1 := set_rx_reg true s).
    assert (I1 : INV c true s1) by (apply inv_set_rx; exact I).
    change (flag s1) with (flag s). destruct (flag s) eqn:Hfl; [|apply lstep_same; reflexivity].
    set (s2 := set_flag false s1).
    assert (I2 : INV c false s2) by (apply (inv_set_flag_off c true); exact I1).
    assert (L02 : lstep s s2) by (apply lstep_same; reflexivity).
    destruct (n_update_own c false s2 G I2) as (A3 & _ & Hd3 & Hu).
    pose proof (n_loop_inv c f G) as Hinv.
    destruct (n_update c true s2) as [u s3]. cbn [fst snd] in *.
    assert (L03 : lstep s s3) by (eapply lstep_trans; [exact L02|apply lstep_agree; exact A3]).
    assert (Ht3 : task s3 = TIdle) by (rewrite (ag_task _ _ A3); exact Ht).
    assert (Hprov3 : forall v, value s3 = Some v -> In v (legit s3)).
    { intros v. rewrite (ag_value _ _ A3), (ag_legit _ _ A3). exact (i_prov c false s2 I2 v). }
    assert (Hlen3 : length (seen s3) = length (curvals c s3)).
    { rewrite (agree_len_seen _ _ A3), (agree_curvals c _ _ A3). exact (i_len c false s2 I2). }
    destruct u.
    + cbn [orb andb]. destruct G as (G1 & G2 & Gd). rewrite Gd.
      set (sd := match init_fut s3 with
                 | Some i => set_init_fut None (set_futs (upd i (fun fu => mkFut (f_res fu) (f_done fu) false) (futs s3)) s3)
                 | None => s3 end).
      assert (L3d : lstep s3 sd) by (unfold sd; destruct (init_fut s3); [apply lstep_drop|apply lstep_refl]).
      assert (Hsd : init_fut sd = None /\ value sd = value s3 /\ legit sd = legit s3 /\ seen sd = seen s3 /\
                    st_dirty sd = st_dirty s3 /\ curvals c sd = curvals c s3).
      { unfold sd. destruct (init_fut s3) eqn:Hi; sf; repeat split; auto. }
      destruct Hsd as (Hi & Hv & Hl & Hs & Hdd & Hc). rewrite Hi.
      pose proof (inv_start_create c sd) as Hst. pose proof (lstep_create c sd) as Lc.
      destruct (create_fut c sd) as [fid s4]. cbn [fst snd] in Hst, Lc.
      assert (I4 : INV c true (started fid s4)).
      { apply Hst; try congruence. intros v. rewrite Hv, Hl. apply Hprov3. }
      eapply lstep_trans; [exact L03|]. eapply lstep_trans; [exact L3d|]. eapply lstep_trans; [exact Lc|].
      eapply lstep_trans; [|apply IH; apply inv_started_susp; exact I4]. apply lstep_same; reflexivity.
    + destruct (Hu eq_refl) as (I3 & Hs3 & _). cbn [orb andb].
      assert (G' : gc c) by exact G.
      destruct (first_run s3) eqn:Hfr.
      * destruct (init_fut s3) as [i|] eqn:Hi.
        -- eapply lstep_trans; [exact L03|].
           eapply lstep_trans; [|apply IH; apply (inv_started_susp c true i (set_init_fut None s3));
                                  apply (inv_start_init c s3 i I3 Ht3 Hi Hd3 Hs3)].
           apply lstep_same; reflexivity.
        -- pose proof (inv_start_create c s3 Hprov3 Hlen3 Hd3 Hi) as Hst. pose proof (lstep_create c s3) as Lc.
           destruct (create_fut c s3) as [fid s4]. cbn [fst snd] in Hst, Lc.
           eapply lstep_trans; [exact L03|]. eapply lstep_trans; [exact Lc|].
           eapply lstep_trans; [|apply IH; apply inv_started_susp; exact Hst]. apply lstep_same; reflexivity.
      * eapply lstep_trans; [exact L03|]. apply IH. apply inv_strengthen; auto.
  - destruct (nth_error (futs s) fid) as [fu|] eqn:Hf; [|apply lstep_refl].
    destruct (f_done fu) eqn:Hdone; [|apply lstep_refl].
    change (version (set_susp_held 0%nat s)) with (version s).
    rewrite <- (i_ser c true s I fid v Ht), Nat.eqb_refl.
    eapply lstep_trans; [apply (lstep_same s (set_susp_held 0%nat s)); reflexivity|].
    eapply lstep_trans; [apply (lstep_store (set_susp_held 0%nat s) fid fu Hf Hdone)|]. apply IH.
    apply (inv_store c true (set_susp_held 0%nat s) fid v fu); [apply inv_susp_held; exact I|exact Ht|exact Hf|reflexivity].
Qed.

Lemma lstep_same_core s x : same_core s x -> lstep s x.
Proof. intros S. apply lstep_agree. exact (sc_agree _ _ S). Qed.

Lemma n_poll_lstep c s : gc c -> INV c true s -> lstep s (n_poll c s).
Proof.
  intros G I. unfold n_poll. destruct (woken s); [|apply lstep_refl].
  assert (I1 : INV c true (set_woken false s)) by (apply inv_set_woken; exact I).
  assert (L1 : lstep s (set_woken false s)) by (apply lstep_same; reflexivity).
  change (polled (set_woken false s)) with (polled s). destruct (polled s).
  { eapply lstep_trans; [exact L1|apply n_loop_lstep; auto]. }
  (* same case analysis as in [n_poll_ok] *)
  pose proof (n_poll_ok c s G I) as Hok. unfold n_poll in Hok.
  assert (I2 : INV c true (set_polled true (set_woken false s))).
  { destruct I1. constructor; sf; auto. }
  assert (L2 : lstep s (set_polled true (set_woken false s))) by (apply lstep_same; reflexivity).
  change (st_dirty (set_polled true (set_woken false s))) with (st_dirty s).
  destruct (st_dirty s). 2: { eapply lstep_trans; [exact L2|apply n_loop_lstep; auto]. }
  change (init_fut (set_polled true (set_woken false s))) with (init_fut s).
  destruct (init_fut s) as [i|] eqn:Hi. 2: { eapply lstep_trans; [exact L2|apply n_loop_lstep; auto]. }
  destruct (i_init c true s I i Hi) as (Hfr & _).
  assert (Ht : task s = TIdle).
  { destruct (task s) as [|f v] eqn:Ht; [reflexivity|].
    destruct (i_A c true s I f v Ht) as (Hfr' & _). congruence. }
  set (s3 := set_init_fut None (set_futs _ (set_polled true (set_woken false s)))).
  assert (I3 : INV c true s3).
  { destruct I2. constructor; unfold s3; sf; auto.
    - intros f v H. rewrite Ht in H. discriminate.
    - discriminate. }
  eapply lstep_trans; [exact L2|]. eapply lstep_trans; [apply lstep_drop|]. apply n_loop_lstep; auto.
Qed.

Lemma d_poll_lstep c s : gc c -> INV c true s -> WK s -> lstep s (d_poll c s).
Proof.
  intros G I W. unfold d_poll. destruct (d_woken s); [|apply lstep_refl].
  assert (H : forall fuel x, INV c true x -> WK x -> lstep x (d_loop c fuel x)).
  { induction fuel as [|f IH]; intros x Ix Wx; cbn [d_loop]; [apply lstep_refl|].
    assert (S1 : same_core x (set_d_reg true x)) by sc_tac.
    change (d_set (set_d_reg true x)) with (d_set x). destruct (d_set x); [|apply lstep_same_core, S1].
    set (x2 := set_d_set false (set_d_reg true x)).
    assert (S2 : same_core x x2) by sc_tac.
    assert (I2 : INV c true x2) by (eapply inv_same_core; eauto).
    assert (W2 : WK x2) by (eapply wk_same_core; eauto).
    destruct (d_update_ok c x2 G I2 W2) as (I3 & W3).
    assert (L23 : lstep x2 (snd (d_update c x2))).
    { unfold d_update. destruct (d_dirty x2); [apply lstep_same; reflexivity|].
      destruct (negb (d_sub x2)); [apply lstep_refl|].
      destruct (n_update_other c true x2 G I2) as (_ & _ & A).
      destruct (n_update c false x2) as [a y]. cbn [snd] in *.
      assert (Ly : lstep x2 y) by (apply lstep_agree; exact A).
      destruct a; [eapply lstep_trans; [exact Ly|apply lstep_same; reflexivity]|].
      destruct (dep c =? 2)%nat; [|eapply lstep_trans; [exact Ly|apply lstep_same; reflexivity]].
      destruct (negb _); cbn [snd]; (eapply lstep_trans; [exact Ly|]).
      - apply lstep_same; unfold d_mark_dirty, d_notify; sf; destruct (d_reg _); reflexivity.
      - apply lstep_same; reflexivity. }
    destruct (d_update c x2) as [u x3]. cbn [snd] in *.
    eapply lstep_trans; [apply lstep_same_core, S2|]. eapply lstep_trans; [exact L23|].
    destruct (u || d_first x3).
    - set (x4 := d_body c (set_d_first false x3)).
      assert (S4 : same_core x3 x4) by (eapply same_core_trans; [|apply sc_d_body]; sc_tac).
      eapply lstep_trans; [apply lstep_same_core, S4|].
      apply IH; [eapply inv_same_core; eauto|eapply wk_same_core; eauto].
    - apply IH; auto. }
  assert (S0 : same_core s (set_d_woken false s)) by sc_tac.
  eapply lstep_trans; [apply lstep_same_core, S0|].
  apply H; [eapply inv_same_core; eauto|eapply wk_same_core; eauto].
Qed.

Lemma complete_lstep f s : lstep s (complete f s).
Proof.
  unfold complete. destruct (nth_error (futs s) f) as [fu|] eqn:Hf; [|apply lstep_refl].
  destruct (f_done fu || negb (f_alive fu)); [apply lstep_refl|].
  set (s1 := set_futs (upd f (fun fu => mkFut (f_res fu) true (f_alive fu)) (futs s)) s).
  assert (L1 : lstep s s1).
  { constructor; unfold s1; sf; [|auto]. intros g fg Hg. rewrite nth_error_upd.
    destruct (g =? f)%nat; rewrite Hg; cbn; eauto. }
  destruct (task s1) as [|g v]; [exact L1|]. destruct (g =? f)%nat; [|exact L1].
  eapply lstep_trans; [exact L1|apply lstep_same; reflexivity].
Qed.

(** every step other than a manual write *)
Lemma step_lstep c s ev : gc c -> INV c true s -> WK s ->
  (forall v, ev <> ManualSet v) -> lstep s (step c s ev).
Proof.
  intros G I W Hnm. destruct ev as [i v| |v| |f|t|picks|sus|a]; cbn [step].
  - unfold write_marks. set (s1 := set_sigs _ s).
    assert (L1 : lstep s s1) by (apply lstep_same; reflexivity).
    set (s2 := match shape c, i with
               | O, O | O, 1%nat => n_mark_dirty s1 | 1%nat, O | 1%nat, 1%nat => n_mark_check s1
               | 2%nat, O => n_mark_check s1 | S (S (S _)), O => n_mark_check s1 | _, _ => s1 end).
    assert (L2 : lstep s1 s2).
    { unfold s2. destruct (shape c) as [|[|[|n]]]; destruct i as [|[|i]];
        try apply lstep_refl; try (apply lstep_agree, agree_mark_dirty); apply lstep_agree, agree_notify. }
    assert (L2' : lstep s1 (if once c then s1 else s2)) by (destruct (once c); [apply lstep_refl|exact L2]).
    eapply lstep_trans; [exact L1|]. eapply lstep_trans; [exact L2'|].
    destruct (_ && _ && _); [apply lstep_same_core, sc_d_notify|apply lstep_refl].
  - set (s1 := set_refetch_n _ s). assert (L1 : lstep s s1) by (apply lstep_same; reflexivity).
    destruct (once c); [exact L1|].
    destruct (shape c) as [|[|[|n]]]; try exact L1.
    + destruct (rf_tracks c); [|exact L1]. eapply lstep_trans; [exact L1|apply lstep_agree, agree_mark_dirty].
    + eapply lstep_trans; [exact L1|apply lstep_agree, agree_notify].
  - exfalso. exact (Hnm v eq_refl).
  - destruct (notify_subs_fields s) as (_ & _ & _ & _ & _ & _ & _ & _ & _ & _ & _ & _ & _ & _ & E15 & _ & _ & E18 & _).
    apply lstep_same; assumption.
  - apply complete_lstep.
  - unfold poll_task. destruct t as [|[|t]]; [apply n_poll_lstep; auto| |apply lstep_refl].
    destruct (0 <? dep c)%nat; [apply d_poll_lstep; auto|apply lstep_refl].
  - assert (H : forall fuel pk x, INV c true x -> WK x -> lstep x (run_all c fuel pk x)).
    { induction fuel as [|f IH]; intros pk x Ix Wx; cbn [run_all]; [apply lstep_refl|].
      destruct (ready c x) as [|r0 r]; [apply lstep_refl|].
      set (t := nth _ (r0 :: r) 0%nat).
      destruct (poll_task_ok c t x G Ix Wx) as (I1 & W1).
      eapply lstep_trans; [|apply IH; eauto].
      unfold poll_task. destruct t as [|[|t]]; [apply n_poll_lstep; auto| |apply lstep_refl].
      destruct (0 <? dep c)%nat; [apply d_poll_lstep; auto|apply lstep_refl]. }
    apply H; auto.
  - apply lstep_same; reflexivity.
  - unfold poll_awaiter. destruct (nth_error (awaiters s) a) as [[g w|v|]|]; try apply lstep_refl.
    destruct (nth a (aw_sus s) false && negb (once c)); sf; destruct (loading s); apply lstep_same; reflexivity.
Qed.

Lemma manual_legit c s v :
  futs (step c s (ManualSet v)) = futs s /\ legit (step c s (ManualSet v)) = v :: legit s.
Proof.
  cbn [step]. set (s1 := set_legit _ _).
  destruct (notify_subs_fields s1) as (_ & _ & _ & _ & _ & _ & _ & _ & _ & _ & _ & _ & _ & _ & E15 & _ & _ & E18 & _).
  rewrite E15, E18. split; reflexivity.
Qed.

Definition is_manual (ev : event) : option Z := match ev with ManualSet v => Some v | _ => None end.

Lemma step_futs_mono c s ev : gc c -> INV c true s -> WK s ->
  forall f fu, nth_error (futs s) f = Some fu ->
  exists fu1, nth_error (futs (step c s ev) ) f = Some fu1 /\ f_res fu1 = f_res fu /\
              (f_done fu = true -> f_done fu1 = true).
Proof.
  intros G I W f fu Hf. destruct (is_manual ev) as [x|] eqn:Hm.
  - destruct ev; try discriminate. rewrite (proj1 (manual_legit c s v)). eauto.
  - assert (Hnm : forall v, ev <> ManualSet v) by (intros v ->; discriminate).
    exact (ls_futs _ _ (step_lstep c s ev G I W Hnm) f fu Hf).
Qed.

Lemma step_legit c s ev : gc c -> INV c true s -> WK s ->
  forall v, In v (legit (step c s ev)) ->
  In v (legit s) \/ ev = ManualSet v \/
  exists f fu, nth_error (futs (step c s ev)) f = Some fu /\ f_done fu = true /\ f_res fu = v.
Proof.
  intros G I W v Hin. destruct (is_manual ev) as [x|] eqn:Hm.
  - destruct ev; try discriminate. rewrite (proj2 (manual_legit c s v0)) in Hin.
    destruct Hin as [<-|Hin]; auto.
  - assert (Hnm : forall v, ev <> ManualSet v) by (intros v' ->; discriminate).
    destruct (ls_legit _ _ (step_lstep c s ev G I W Hnm) v Hin) as [H|H]; auto.
Qed.

Lemma init_legit c initial :
  legit (init c initial) = if once c then [] else match initial with Some v => [v] | None => [] end.
Proof.
  destruct c as [sh dp h o d rt on ff].
  destruct on; destruct sh as [|[|[|n]]]; destruct initial as [v0|]; destruct dp as [|dp]; reflexivity.
Qed.

(** nothing fabricated: every value the node ever regards as legitimate — in particular every
    value a synchronous read returns — is the initial value, a manually written one, or the
    result of a fetch future that has completed *)
Theorem value_origin : forall c initial evs, gc c ->
  let s := run c initial evs in
  forall v, value s = Some v ->
  initial = Some v \/ In (ManualSet v) evs \/
  exists f fu, nth_error (futs s) f = Some fu /\ f_done fu = true /\ f_res fu = v.
Proof.
  intros c initial evs G s v Hv.
  assert (Hl : In v (legit s)) by (apply (sync_read_is_previous_or_none c initial evs G); exact Hv).
  clear Hv. unfold s, run in *.
  (* completed futures of an intermediate state persist to the end *)
  assert (Hmono : forall evs1 s1, INV c true s1 /\ WK s1 -> forall f fu, nth_error (futs s1) f = Some fu ->
            f_done fu = true -> exists fu', nth_error (futs (fold_left (step c) evs1 s1)) f = Some fu' /\
                                            f_done fu' = true /\ f_res fu' = f_res fu).
  { induction evs1 as [|e1 evs1 IH1]; intros s1 [I1 W1] f fu Hf Hd; cbn [fold_left]; [eauto|].
    assert (IW : INV c true (step c s1 e1) /\ WK (step c s1 e1)) by (apply step_ok; auto).
    destruct (step_futs_mono c s1 e1 G I1 W1 f fu Hf) as (fu1 & H1 & R1 & D1).
    destruct (IH1 _ IW f fu1 H1 (D1 Hd)) as (fu' & H' & D' & R'). exists fu'. repeat split; auto; congruence. }
  assert (H : forall evs0 s0, INV c true s0 /\ WK s0 ->
            forall v, In v (legit (fold_left (step c) evs0 s0)) ->
            In v (legit s0) \/ In (ManualSet v) evs0 \/
            exists f fu, nth_error (futs (fold_left (step c) evs0 s0)) f = Some fu /\ f_done fu = true /\ f_res fu = v).
  { induction evs0 as [|ev evs0 IH]; intros s0 [I0 W0] v0 Hin; cbn [fold_left] in *; [auto|].
    assert (IW1 : INV c true (step c s0 ev) /\ WK (step c s0 ev)) by (apply step_ok; auto).
    destruct (IH _ IW1 v0 Hin) as [H1|[H1|H1]]; [|right; left; right; exact H1|right; right; exact H1].
    destruct (step_legit c s0 ev G I0 W0 v0 H1) as [H2|[H2|(f & fu & Hf & Hd & Hr)]].
    - left. exact H2.
    - right. left. left. exact H2.
    - destruct (Hmono evs0 _ IW1 f fu Hf Hd) as (fu' & H' & D' & R'). right. right. exists f, fu'.
      repeat split; auto; congruence. }
  destruct (H evs (init c initial) (init_ok c initial) v Hl) as [H0|H0]; [|right; exact H0].
  left. rewrite init_legit in H0. destruct (once c); [destruct H0|].
  destruct initial as [v0|]; [|destruct H0].
  destruct H0 as [<-|[]]. reflexivity.
Qed.

(** * Suspense *)
(** a child of a Suspense boundary that awaits the value registers the boundary with the node
    on every poll, whether the value is loading or already resolved *)
Theorem suspense_registers : forall c s a g w,
  once c = false -> nth_error (awaiters s) a = Some (APending g w) -> nth a (aw_sus s) false = true ->
  susp_reg (poll_awaiter c a s) = S (susp_reg s).
Proof.
  intros c s a g w Ho Ha Hs. unfold poll_awaiter. rewrite Ha, Hs, Ho. cbn [andb negb].
  change (loading (set_susp_reg (S (susp_reg s)) s)) with (loading s). destruct (loading s); reflexivity.
Qed.

(** when the next load starts, every boundary registered since the previous one gets a pending
    task, which it keeps until that load's future has completed *)
Theorem suspense_told_of_load : forall fid s a b,
  let s' := set_task (TFetch fid (S (version s)))
              (set_version (S (version s)) (set_loading true (set_first_run false
                 (set_susp_held a (set_susp_reg b s))))) in
  susp_held s' = a /\ susp_reg s' = b.
Proof. intros. split; reflexivity. Qed.

(** no Suspense task is left pending once the node's task is back to waiting; in particular at
    every quiescent point *)
Theorem suspense_released : forall c initial evs, gc c ->
  let s := run c initial evs in
  quiescent s -> susp_held s = 0%nat.
Proof.
  intros c initial evs G s (Hw & Hq). destruct (reach c initial evs G) as (I & W). fold s in I, W.
  apply (i_sus c true s I).
  destruct (task s) as [|f v] eqn:Ht; [reflexivity|]. exfalso.
  destruct (i_A c true s I f v Ht) as (_ & fu & Hf & Hal & _).
  destruct (Hq f fu Hf) as [Hd|Hd]; [|congruence].
  pose proof (w_G s W f v fu Ht Hf Hd). congruence.
Qed.

(** the once-resource and a Suspense child that awaited an already resolved value *)
Example ex_once :
  let s := run (mkCfg 0 1 true true true false true ex_fetch) None
             [NewAwaiter false; PollAwaiter 0; PollAwaiter 0; PollTask 0; PollAwaiter 0; Complete 0; RunAll []] in
  value s = Some 7007%Z /\ loading s = false /\ awaiters s = [APending 3 1] /\ quiescentb s = true.
Proof. vm_compute. auto. Qed.

Example ex_suspense :
  let evs := [RunAll []; Complete 0; RunAll []; NewAwaiter true; PollAwaiter 0; WriteSig 0 1; RunAll []] in
  let s := run (ok_cfg 0 0) None evs in
  loading s = true /\ susp_held s = 1%nat /\
  susp_held (run (ok_cfg 0 0) None (evs ++ [Complete 1; RunAll []])) = 0%nat.
Proof. vm_compute. auto. Qed.
