(** Proofs about the action model (C17): for all event histories — hence all completion
    orders and all executor poll orders. *)
From Coq Require Import List ZArith Bool Arith Lia.
From LV Require Import Reactive.RxUtil Reactive.Action.
Import ListNotations.

(** * counting unfinished tasks *)
Definition undone (ts : list task) : nat := length (filter (fun t => negb (t_done t)) ts).

Lemma undone_snoc ts t : undone (ts ++ [t]) = undone ts + (if t_done t then 0 else 1).
Proof.
  unfold undone. rewrite filter_app, app_length. cbn. destruct (t_done t); reflexivity.
Qed.

Lemma undone_upd_same ts f : (forall t, t_done (f t) = t_done t) ->
  forall k, undone (upd k f ts) = undone ts.
Proof.
  intros H. unfold undone. induction ts as [|x ts IH]; intros [|k]; cbn; try reflexivity.
  - rewrite H. destruct (negb (t_done x)); reflexivity.
  - destruct (negb (t_done x)); cbn; rewrite IH; reflexivity.
Qed.

Lemma undone_finish ts : forall k t, nth_error ts k = Some t -> t_done t = false ->
  S (undone (upd k finish_task ts)) = undone ts.
Proof.
  unfold undone. induction ts as [|x ts IH]; intros [|k] t Hn Hd; cbn in *; try discriminate.
  - inversion Hn; subst. rewrite Hd. reflexivity.
  - destruct (negb (t_done x)); cbn; rewrite <- (IH k t Hn Hd); reflexivity.
Qed.

Lemma undone_pos ts k t : nth_error ts k = Some t -> t_done t = false -> 0 < undone ts.
Proof. intros Hn Hd. rewrite <- (undone_finish ts k t Hn Hd). lia. Qed.

Lemma undone_zero ts : undone ts = 0 -> forall k t, nth_error ts k = Some t -> t_done t = true.
Proof.
  intros Hz k t Hn. destruct (t_done t) eqn:Hd; [reflexivity|].
  pose proof (undone_pos ts k t Hn Hd). lia.
Qed.

Lemma undone_exists ts : 0 < undone ts -> exists k t, nth_error ts k = Some t /\ t_done t = false.
Proof.
  unfold undone. induction ts as [|x ts IH]; cbn; [lia|].
  destruct (t_done x) eqn:Hd; cbn.
  - intros H. destruct (IH H) as (k & t & Hn & Ht). exists (S k), t. auto.
  - intros _. exists 0, x. auto.
Qed.

(** * the ready list *)
Lemma ready_In s j :
  In j (ready s) <-> exists t, nth_error (tasks s) j = Some t /\ is_ready t = true.
Proof. apply idx_from_0_In. Qed.

Lemma idle_spec s :
  idle s = true <-> forall k t, nth_error (tasks s) k = Some t -> is_ready t = false.
Proof.
  unfold idle. split.
  - intros H k t Hn. destruct (is_ready t) eqn:Hr; [|reflexivity].
    assert (Hin : In k (ready s)) by (apply ready_In; eauto).
    destruct (ready s); [destruct Hin|discriminate].
  - intros H. destruct (ready s) as [|j r] eqn:E; [reflexivity|].
    assert (Hin : In j (ready s)) by (rewrite E; left; reflexivity).
    apply ready_In in Hin as (t & Hn & Hr). rewrite (H _ _ Hn) in Hr. discriminate.
Qed.

(** * what one poll does *)
Definition aborted_st (s : astate) (k : nat) : astate :=
  mkA (pred (in_flight s)) (input s) (value s) (version s) (dispatched s)
      (upd k finish_task (tasks s)) (wlog s).
Definition completed_st (s : astate) (k : nat) (r : Z) (latest : bool) : astate :=
  if latest
  then mkA (pred (in_flight s)) (input s) (Some r) (S (version s)) (dispatched s)
           (upd k finish_task (tasks s)) (Wrote k r :: wlog s)
  else mkA (pred (in_flight s)) (input s) (value s) (version s) (dispatched s)
           (upd k finish_task (tasks s)) (wlog s).

Inductive poll_case (b : bool) (k : nat) (c : bool) (s : astate) : astate -> Prop :=
| PNoop : (forall t, nth_error (tasks s) k = Some t -> t_done t = true \/ t_woken t = false) ->
    poll_case b k c s s
| PAbort t : nth_error (tasks s) k = Some t -> t_done t = false -> t_woken t = true ->
    t_handle t = Sent -> (b = true \/ t_result t = None \/ c = true) ->
    poll_case b k c s (finish_input (aborted_st s k))
| PComplete t r : nth_error (tasks s) k = Some t -> t_done t = false -> t_woken t = true ->
    t_result t = Some r -> (t_handle t <> Sent \/ (b = false /\ c = false)) ->
    poll_case b k c s (finish_input (completed_st s k r (dispatched s <=? t_curver t)))
| PPending t : nth_error (tasks s) k = Some t -> t_done t = false -> t_woken t = true ->
    t_result t = None -> t_handle t <> Sent ->
    poll_case b k c s (set_tasks s (upd k unwake (tasks s))).

Lemma poll_spec b k c s : poll_case b k c s (poll b k c s).
Proof.
  unfold poll. destruct (nth_error (tasks s) k) as [t|] eqn:Hn.
  2: { apply PNoop. intros t Ht. rewrite Hn in Ht. discriminate. }
  destruct (t_done t) eqn:Hd; cbn [orb].
  { apply PNoop. intros t' Ht. rewrite Hn in Ht. inversion Ht; subst. auto. }
  destruct (t_woken t) eqn:Hw; cbn [negb].
  2: { apply PNoop. intros t' Ht. rewrite Hn in Ht. inversion Ht; subst. auto. }
  unfold abort_ready.
  destruct (t_result t) as [r|] eqn:Hr; destruct (t_handle t) eqn:Hh; cbn [andb].
  - eapply (PComplete b k c s t r); eauto. left. congruence.
  - destruct b; cbn [orb].
    + eapply (PAbort true k c s t); eauto.
    + destruct c.
      * eapply (PAbort false k true s t); eauto.
      * eapply (PComplete false k false s t r); eauto.
  - eapply (PComplete b k c s t r); eauto. left. congruence.
  - eapply (PPending b k c s t); eauto. congruence.
  - eapply (PAbort b k c s t); eauto.
  - eapply (PPending b k c s t); eauto. congruence.
Qed.

(** * the invariant *)
Fixpoint nwrote (l : list wev) : nat :=
  match l with [] => 0 | Wrote _ _ :: r => S (nwrote r) | Cleared :: r => nwrote r end.
Definition last_value (l : list wev) : option Z :=
  match l with Wrote _ r :: _ => Some r | _ => None end.
Fixpoint wkeys (l : list wev) : list nat :=
  match l with [] => [] | Wrote k _ :: r => k :: wkeys r | Cleared :: r => wkeys r end.

Lemma wkeys_In l k : In k (wkeys l) <-> exists r, In (Wrote k r) l.
Proof.
  induction l as [|[k' r'|] l IH]; cbn.
  - split; [intros []|intros (r & [])].
  - rewrite IH. split.
    + intros [->|(r & H)]; eauto.
    + intros (r & [H|H]); [inversion H; auto|eauto].
  - rewrite IH. split; intros (r & H); exists r; [auto|destruct H as [H|H]; [discriminate|auto]].
Qed.

Record inv (s : astate) : Prop := {
  i_fl : in_flight s = undone (tasks s);
  i_quiet : forall k t, nth_error (tasks s) k = Some t -> t_done t = false -> t_woken t = false ->
            t_handle t <> Sent /\ t_result t = None;
  i_done : forall k t, nth_error (tasks s) k = Some t -> t_done t = true ->
           t_handle t = Sent \/ t_result t <> None;
  i_ver : version s = nwrote (wlog s);
  i_val : value s = last_value (wlog s);
  i_inp : in_flight s = 0 -> input s = None;
  i_disp : dispatched s = 0;
  i_log : forall k r, In (Wrote k r) (wlog s) ->
          exists t, nth_error (tasks s) k = Some t /\ t_done t = true /\ t_result t = Some r;
  i_nodup : NoDup (wkeys (wlog s));
  i_counted : forall k t, nth_error (tasks s) k = Some t -> t_done t = true -> t_handle t <> Sent ->
              exists r, t_result t = Some r /\ In (Wrote k r) (wlog s)
}.

Lemma inv_init : inv init.
Proof.
  assert (Hnil : forall k (t : task), nth_error (@nil task) k = Some t -> False)
    by (intros [|k] t H; discriminate).
  constructor; cbn; try reflexivity.
  - intros k t H. destruct (Hnil _ _ H).
  - intros k t H. destruct (Hnil _ _ H).
  - intros k r [].
  - apply NoDup_nil.
  - intros k t H. destruct (Hnil _ _ H).
Qed.

(** updating fields of one task without finishing it *)
Lemma inv_upd_task s k f :
  (forall t, t_done (f t) = t_done t) ->
  (forall t, t_done t = false -> t_woken (f t) = false ->
             t_woken t = false /\ t_handle (f t) = t_handle t /\ t_result (f t) = t_result t) ->
  (forall t, t_handle t = Sent -> t_handle (f t) = Sent) ->
  (forall t r, t_result t = Some r -> t_result (f t) = Some r) ->
  (forall t, t_handle (f t) <> Sent -> t_handle t <> Sent) ->
  inv s -> inv (set_tasks s (upd k f (tasks s))).
Proof.
  intros Hd Hq Hs Hr Hns I. destruct I.
  assert (Hnth : forall j t', nth_error (upd k f (tasks s)) j = Some t' ->
            (j <> k /\ nth_error (tasks s) j = Some t') \/
            (j = k /\ exists t, nth_error (tasks s) j = Some t /\ t' = f t)).
  { intros j t' H. rewrite nth_error_upd in H. destruct (Nat.eqb_spec j k) as [->|Hne].
    - right. split; [reflexivity|]. destruct (nth_error (tasks s) k) as [t|]; [|discriminate].
      exists t. inversion H. auto.
    - left. auto. }
  constructor; cbn [set_tasks in_flight input value version dispatched tasks wlog]; auto.
  - rewrite undone_upd_same; auto.
  - intros j t' Hn Hdn Hw. apply Hnth in Hn as [(_ & Hn)|(_ & t & Hn & ->)]; [eauto|].
    rewrite Hd in Hdn. destruct (Hq t Hdn Hw) as (Hw' & Hh & Hres).
    rewrite Hh, Hres. eauto.
  - intros j t' Hn Hdn. apply Hnth in Hn as [(_ & Hn)|(_ & t & Hn & ->)]; [eauto|].
    rewrite Hd in Hdn. destruct (i_done0 _ _ Hn Hdn) as [H|H]; [left; auto|].
    right. destruct (t_result t) as [r|] eqn:E; [|congruence]. rewrite (Hr t r E). discriminate.
  - intros j r Hin. destruct (i_log0 _ _ Hin) as (t & Hn & Hdn & Hres).
    destruct (Nat.eq_dec j k) as [->|Hne].
    + exists (f t). rewrite nth_error_upd_same, Hn. cbn. rewrite Hd. auto.
    + exists t. rewrite nth_error_upd_other by exact Hne. auto.
  - intros j t' Hn Hdn Hh. apply Hnth in Hn as [(_ & Hn)|(_ & t & Hn & ->)]; [eauto|].
    rewrite Hd in Hdn. destruct (i_counted0 _ _ Hn Hdn (Hns _ Hh)) as (r & Hres & Hin).
    exists r. auto.
Qed.

Lemma wake_done t : t_done (wake t) = t_done t.
Proof. unfold wake. destruct (t_done t) eqn:E; cbn; auto. Qed.

Lemma inv_set_handle s k h : inv s -> inv (set_tasks s (upd k (set_handle h) (tasks s))).
Proof.
  apply inv_upd_task; unfold set_handle, wake; intros t;
    destruct (t_handle t) eqn:Hh; cbn; try destruct (t_done t) eqn:Hd; cbn;
    try rewrite Hh; try rewrite Hd; intros; try discriminate; try congruence; auto.
Qed.

Lemma inv_set_result s k r : inv s -> inv (set_tasks s (upd k (set_result r) (tasks s))).
Proof.
  apply inv_upd_task; unfold set_result, wake; intros t;
    destruct (t_result t) eqn:Hh; cbn; try destruct (t_done t) eqn:Hd; cbn;
    try rewrite Hh; try rewrite Hd; intros; try discriminate; try congruence; auto.
Qed.

Lemma inv_dispatch s i : inv s -> inv (do_dispatch i s).
Proof.
  intros I. destruct I.
  assert (Hnth : forall j t', nth_error (tasks s ++ [mkTask true Held None false (dispatched s)]) j = Some t' ->
            nth_error (tasks s) j = Some t' \/ t' = mkTask true Held None false (dispatched s)).
  { intros j t' H. rewrite nth_error_snoc in H.
    destruct (j <? length (tasks s)); [auto|]. destruct (j =? length (tasks s)); [|discriminate].
    inversion H. auto. }
  constructor; cbn [do_dispatch in_flight input value version dispatched tasks wlog]; auto.
  - rewrite undone_snoc. cbn. lia.
  - intros j t' Hn Hd Hw. apply Hnth in Hn as [Hn| ->]; [eauto|discriminate].
  - intros j t' Hn Hd. apply Hnth in Hn as [Hn| ->]; [eauto|discriminate].
  - discriminate.
  - intros j r Hin. destruct (i_log0 _ _ Hin) as (t & Hn & H). exists t. split; [|exact H].
    rewrite nth_error_app1; [exact Hn|]. apply nth_error_Some. congruence.
  - intros j t' Hn Hd Hh. apply Hnth in Hn as [Hn| ->]; [eauto|discriminate].
Qed.

(** finishing task [k] (either branch) *)
Lemma inv_finish s k t inp val ver lg :
  inv s -> nth_error (tasks s) k = Some t -> t_done t = false -> t_woken t = true ->
  ver = nwrote lg -> val = last_value lg ->
  (* the log is the old one, or the old one plus this task's write *)
  (lg = wlog s /\ t_handle t = Sent \/ exists r, t_result t = Some r /\ lg = Wrote k r :: wlog s) ->
  inv (finish_input (mkA (pred (in_flight s)) inp val ver (dispatched s)
                         (upd k finish_task (tasks s)) lg)).
Proof.
  intros I Hn Hd Hw Hver Hval Hlg. destruct I.
  assert (Hfl : pred (in_flight s) = undone (upd k finish_task (tasks s))).
  { rewrite i_fl0, <- (undone_finish _ _ _ Hn Hd). reflexivity. }
  assert (Hnth : forall j t', nth_error (upd k finish_task (tasks s)) j = Some t' ->
            (j <> k /\ nth_error (tasks s) j = Some t') \/ (j = k /\ t' = finish_task t)).
  { intros j t' H. rewrite nth_error_upd in H. destruct (Nat.eqb_spec j k) as [->|Hne].
    - right. rewrite Hn in H. inversion H. auto.
    - left. auto. }
  assert (Hnew : forall r, ~ In (Wrote k r) (wlog s)).
  { intros r Hin. destruct (i_log0 _ _ Hin) as (t' & Hn' & Hd' & _). congruence. }
  assert (Hinlog : forall j r, In (Wrote j r) lg ->
            In (Wrote j r) (wlog s) \/ (j = k /\ t_result t = Some r)).
  { intros j r Hin. destruct Hlg as [(-> & _)|(r0 & Hr0 & ->)]; [auto|].
    destruct Hin as [Heq|Hin]; [|auto]. inversion Heq; subst. auto. }
  assert (Hsub : forall e, In e (wlog s) -> In e lg).
  { intros e Hin. destruct Hlg as [(-> & _)|(r0 & Hr0 & ->)]; [auto|right; auto]. }
  assert (Ibase : forall inp', (pred (in_flight s) = 0 -> inp' = None) ->
            inv (mkA (pred (in_flight s)) inp' val ver (dispatched s)
                     (upd k finish_task (tasks s)) lg)).
  { intros inp' Hinp. constructor; cbn [in_flight input value version dispatched tasks wlog]; auto.
    - intros j t' Hn' Hd' Hw'. apply Hnth in Hn' as [(_ & Hn')|(_ & ->)]; [eauto|discriminate].
    - intros j t' Hn' Hd'. apply Hnth in Hn' as [(_ & Hn')|(_ & ->)]; [eauto|].
      cbn. destruct Hlg as [(_ & Hs)|(r & Hr & _)]; [left; auto|right; congruence].
    - intros j r Hin. apply Hinlog in Hin as [Hin|(-> & Hr)].
      + destruct (i_log0 _ _ Hin) as (t' & Hn' & Hd' & Hr').
        assert (j <> k) by (intros ->; congruence).
        exists t'. rewrite nth_error_upd_other; auto.
      + exists (finish_task t). rewrite nth_error_upd_same, Hn. cbn. auto.
    - destruct Hlg as [(-> & _)|(r0 & Hr0 & ->)]; [auto|]. cbn. constructor; [|auto].
      intros Hin. apply wkeys_In in Hin as (r & Hin). exact (Hnew r Hin).
    - intros j t' Hn' Hd' Hh. apply Hnth in Hn' as [(_ & Hn')|(-> & ->)].
      + destruct (i_counted0 _ _ Hn' Hd' Hh) as (r & Hr & Hin). eauto.
      + cbn in Hh. destruct Hlg as [(_ & Hs)|(r & Hr & ->)]; [congruence|].
        exists r. cbn. auto. }
  unfold finish_input. cbn [in_flight input value version dispatched tasks wlog].
  destruct (Nat.eqb_spec (pred (in_flight s)) 0) as [Hz|Hnz].
  - apply Ibase. auto.
  - apply Ibase. intros; contradiction.
Qed.

Lemma inv_unwake s k t : inv s -> nth_error (tasks s) k = Some t -> t_done t = false ->
  t_result t = None -> t_handle t <> Sent -> inv (set_tasks s (upd k unwake (tasks s))).
Proof.
  intros I Hn Hd Hr Hh. destruct I.
  assert (Hnth : forall j t', nth_error (upd k unwake (tasks s)) j = Some t' ->
            (j <> k /\ nth_error (tasks s) j = Some t') \/ (j = k /\ t' = unwake t)).
  { intros j t' H. rewrite nth_error_upd in H. destruct (Nat.eqb_spec j k) as [->|Hne].
    - right. rewrite Hn in H. inversion H. auto.
    - left. auto. }
  constructor; cbn [set_tasks in_flight input value version dispatched tasks wlog]; auto.
  - rewrite undone_upd_same; auto.
  - intros j t' Hn' Hd' Hw'. apply Hnth in Hn' as [(_ & Hn')|(_ & ->)]; [eauto|]. cbn. auto.
  - intros j t' Hn' Hd'. apply Hnth in Hn' as [(_ & Hn')|(_ & ->)]; [eauto|]. cbn in Hd'. congruence.
  - intros j r Hin. destruct (i_log0 _ _ Hin) as (t' & Hn' & Hd' & Hr').
    assert (j <> k) by (intros ->; congruence). exists t'. rewrite nth_error_upd_other; auto.
  - intros j t' Hn' Hd' Hh'. apply Hnth in Hn' as [(_ & Hn')|(_ & ->)]; [eauto|]. cbn in Hd'. congruence.
Qed.

Lemma inv_poll b k c s : inv s -> inv (poll b k c s).
Proof.
  intros I. destruct (poll_spec b k c s) as [Hno|t Hn Hd Hw Hh Hc|t r Hn Hd Hw Hr Hc|t Hn Hd Hw Hr Hh].
  - exact I.
  - unfold aborted_st. eapply inv_finish; eauto; try (destruct I; auto).
  - unfold completed_st.
    replace (dispatched s <=? t_curver t) with true by (rewrite (i_disp s I); reflexivity).
    eapply inv_finish; eauto. cbn. destruct I. rewrite i_ver0. reflexivity.
  - eapply inv_unwake; eauto.
Qed.

Lemma inv_run_all b fuel : forall picks c s, inv s -> inv (run_all b fuel picks c s).
Proof.
  induction fuel as [|f IH]; intros picks c s I; cbn [run_all]; [exact I|].
  destruct (ready s); [exact I|]. apply IH. apply inv_poll. exact I.
Qed.

Lemma inv_step b s e : inv s -> inv (step b s e).
Proof.
  intros I. destruct e; cbn [step].
  - apply inv_dispatch; exact I.
  - apply inv_set_handle; exact I.
  - apply inv_set_handle; exact I.
  - apply inv_set_result; exact I.
  - apply inv_poll; exact I.
  - destruct I. constructor; cbn; auto.
    + intros k r [H|H]; [discriminate|auto].
    + intros k t Hn Hd Hh. destruct (i_counted0 _ _ Hn Hd Hh) as (r & Hr & Hin). eauto.
  - apply inv_run_all; exact I.
Qed.

Lemma inv_fold b evs : forall s, inv s -> inv (fold_left (step b) evs s).
Proof. induction evs as [|e evs IH]; intros s I; cbn; [exact I|]. apply IH, inv_step, I. Qed.

Lemma inv_run b evs : inv (run b evs).
Proof. apply inv_fold, inv_init. Qed.

(** * what the history alone says about each dispatch *)
Definition hrec := (handle * option Z)%type.
Definition h_abort (x : hrec) : hrec := match fst x with Held => (Sent, snd x) | _ => x end.
Definition h_drop (x : hrec) : hrec := match fst x with Held => (Dropped, snd x) | _ => x end.
Definition h_complete (r : Z) (x : hrec) : hrec :=
  match snd x with None => (fst x, Some r) | Some _ => x end.

(** per dispatch (in dispatch order): was [abort()] called on its handle, and which result
    did its future deliver — read off the event list, no executor, no counters *)
Definition summ_step (h : list hrec) (e : event) : list hrec :=
  match e with
  | Dispatch _ => h ++ [(Held, None)]
  | Abort k => upd k h_abort h
  | DropH k => upd k h_drop h
  | Complete k r => upd k (h_complete r) h
  | _ => h
  end.
Definition summary (evs : list event) : list hrec := fold_left summ_step evs [].

Definition t_proj (t : task) : hrec := (t_handle t, t_result t).

Lemma proj_poll b k c s : map t_proj (tasks (poll b k c s)) = map t_proj (tasks s).
Proof.
  assert (Hfi : forall s', tasks (finish_input s') = tasks s').
  { intros s'. unfold finish_input. destruct (in_flight s' =? 0); reflexivity. }
  destruct (poll_spec b k c s); try reflexivity.
  - rewrite Hfi. cbn. apply map_upd_id. reflexivity.
  - rewrite Hfi. unfold completed_st. destruct (dispatched s <=? t_curver t); cbn;
      apply map_upd_id; reflexivity.
  - cbn. apply map_upd_id. reflexivity.
Qed.

Lemma proj_run_all b fuel : forall picks c s,
  map t_proj (tasks (run_all b fuel picks c s)) = map t_proj (tasks s).
Proof.
  induction fuel as [|f IH]; intros picks c s; cbn [run_all]; [reflexivity|].
  destruct (ready s); [reflexivity|]. rewrite IH. apply proj_poll.
Qed.

Lemma proj_step b s e : map t_proj (tasks (step b s e)) = summ_step (map t_proj (tasks s)) e.
Proof.
  destruct e; cbn [step summ_step].
  - cbn. rewrite map_app. reflexivity.
  - cbn. apply map_upd. intros [w h r d cv]. destruct h, d; reflexivity.
  - cbn. apply map_upd. intros [w h r d cv]. destruct h, d; reflexivity.
  - cbn. apply map_upd. intros [w h r0 d cv]. destruct r0, d; reflexivity.
  - apply proj_poll.
  - reflexivity.
  - apply proj_run_all.
Qed.

Lemma proj_fold b evs : forall s,
  map t_proj (tasks (fold_left (step b) evs s)) = fold_left summ_step evs (map t_proj (tasks s)).
Proof.
  induction evs as [|e evs IH]; intros s; cbn [fold_left]; [reflexivity|].
  rewrite IH, proj_step. reflexivity.
Qed.

(** the model's task records carry exactly the history's facts *)
Lemma tasks_summary b evs : map t_proj (tasks (run b evs)) = summary evs.
Proof. unfold run, summary. rewrite proj_fold. reflexivity. Qed.

Lemma summary_nth b evs k h r :
  nth_error (summary evs) k = Some (h, r) <->
  exists t, nth_error (tasks (run b evs)) k = Some t /\ t_handle t = h /\ t_result t = r.
Proof.
  rewrite <- (tasks_summary b evs), nth_error_map.
  destruct (nth_error (tasks (run b evs)) k) as [t|]; cbn.
  - unfold t_proj. split.
    + intros H. inversion H. eauto.
    + intros (t' & Ht & <- & <-). inversion Ht. reflexivity.
  - split; [discriminate|]. intros (t' & Ht & _). discriminate.
Qed.

(** * the theorems (repaired code: [biased = true]) *)

(** pending exactly while at least one dispatch is neither finished nor aborted *)
Theorem pending_iff_unfinished : forall evs,
  let s := run true evs in
  idle s = true ->
  (pending s = true <->
   exists k h, nth_error (summary evs) k = Some (h, None) /\ h <> Sent).
Proof.
  intros evs s Hidle. pose proof (inv_run true evs) as I. fold s in I.
  rewrite idle_spec in Hidle. unfold pending. rewrite negb_true_iff, Nat.eqb_neq.
  rewrite (i_fl s I). split.
  - intros Hne. destruct (undone_exists (tasks s)) as (k & t & Hn & Hd); [lia|].
    pose proof (Hidle _ _ Hn) as Hr. unfold is_ready in Hr. rewrite Hd in Hr. cbn in Hr.
    rewrite andb_true_r in Hr. destruct (i_quiet s I _ _ Hn Hd Hr) as (Hh & Hres).
    exists k, (t_handle t). split; [|exact Hh]. apply (summary_nth true). exists t. auto.
  - intros (k & h & Hs & Hh). apply (summary_nth true) in Hs as (t & Hn & <- & Hres).
    fold s in Hn. destruct (t_done t) eqn:Hd.
    + destruct (i_done s I _ _ Hn Hd) as [H|H]; congruence.
    + pose proof (undone_pos _ _ _ Hn Hd). lia.
Qed.

(** version = number of completions; each counted completion is a distinct dispatch whose own
    future delivered the value written, and at an idle point every dispatch that completed and
    was never aborted is counted *)
Theorem version_counts_completions : forall evs,
  let s := run true evs in
  version s = length (wkeys (wlog s)) /\
  NoDup (wkeys (wlog s)) /\
  (forall k r, In (Wrote k r) (wlog s) -> exists h, nth_error (summary evs) k = Some (h, Some r)) /\
  (idle s = true -> forall k h r, nth_error (summary evs) k = Some (h, Some r) -> h <> Sent ->
                    In (Wrote k r) (wlog s)).
Proof.
  intros evs s. pose proof (inv_run true evs) as I. fold s in I. repeat split.
  - rewrite (i_ver s I). induction (wlog s) as [|[k r|] l IH]; cbn; auto.
  - exact (i_nodup s I).
  - intros k r Hin. destruct (i_log s I _ _ Hin) as (t & Hn & Hd & Hr).
    exists (t_handle t). apply (summary_nth true). exists t. auto.
  - intros Hidle k h r Hs Hh. apply (summary_nth true) in Hs as (t & Hn & <- & Hres).
    fold s in Hn. rewrite idle_spec in Hidle. destruct (t_done t) eqn:Hd.
    + destruct (i_counted s I _ _ Hn Hd Hh) as (r' & Hr' & Hin). congruence.
    + pose proof (Hidle _ _ Hn) as Hr. unfold is_ready in Hr. rewrite Hd in Hr. cbn in Hr.
      rewrite andb_true_r in Hr. destruct (i_quiet s I _ _ Hn Hd Hr) as (_ & Hnone). congruence.
Qed.

(** value = result of the most recently completed dispatch (None after [clear]) *)
Theorem value_is_last_completed : forall evs,
  let s := run true evs in value s = last_value (wlog s).
Proof. intros evs s. exact (i_val s (inv_run true evs)). Qed.

(** input is cleared once nothing is pending *)
Theorem input_cleared_when_idle : forall evs,
  let s := run true evs in pending s = false -> input s = None.
Proof.
  intros evs s Hp. apply (i_inp s (inv_run true evs)).
  unfold pending in Hp. apply negb_false_iff, Nat.eqb_eq in Hp. exact Hp.
Qed.

(** * an aborted dispatch never writes *)
Definition abort_sent (evs : list event) (k : nat) : Prop :=
  exists r, nth_error (summary evs) k = Some (Sent, r).

Definition sent_unwritten (k : nat) (s : astate) : Prop :=
  (exists t, nth_error (tasks s) k = Some t /\ t_handle t = Sent) /\
  forall r, ~ In (Wrote k r) (wlog s).

Lemma wlog_finish_input s : wlog (finish_input s) = wlog s.
Proof. unfold finish_input. destruct (in_flight s =? 0); reflexivity. Qed.
Lemma tasks_finish_input s : tasks (finish_input s) = tasks s.
Proof. unfold finish_input. destruct (in_flight s =? 0); reflexivity. Qed.

Lemma sent_keep k f ts : (forall t, t_handle t = Sent -> t_handle (f t) = Sent) ->
  forall j, (exists t, nth_error ts k = Some t /\ t_handle t = Sent) ->
            (exists t, nth_error (upd j f ts) k = Some t /\ t_handle t = Sent).
Proof.
  intros Hf j (t & Hn & Hh). rewrite nth_error_upd. destruct (k =? j).
  - exists (f t). rewrite Hn. cbn. auto.
  - exists t. auto.
Qed.

Lemma sent_unwritten_poll k j c s : sent_unwritten k s -> sent_unwritten k (poll true j c s).
Proof.
  intros [(t & Hn & Hh) Hw].
  destruct (poll_spec true j c s) as [Hno|t' Hn' Hd' Hw' Hh' Hc|t' r Hn' Hd' Hw' Hr' Hc|t' Hn' Hd' Hw' Hr' Hh'].
  - split; eauto.
  - split.
    + rewrite tasks_finish_input. cbn. apply sent_keep; eauto.
    + rewrite wlog_finish_input. exact Hw.
  - destruct Hc as [Hc|[Hc _]]; [|discriminate].
    assert (j <> k) by (intros ->; congruence).
    split.
    + rewrite tasks_finish_input. unfold completed_st.
      destruct (dispatched s <=? t_curver t'); cbn; apply sent_keep; eauto.
    + rewrite wlog_finish_input. unfold completed_st.
      destruct (dispatched s <=? t_curver t'); cbn; [|exact Hw].
      intros r0 [Heq|Hin]; [inversion Heq; congruence|exact (Hw r0 Hin)].
  - split; [|exact Hw]. cbn. apply sent_keep; eauto.
Qed.

Lemma sent_unwritten_run_all k fuel : forall picks c s,
  sent_unwritten k s -> sent_unwritten k (run_all true fuel picks c s).
Proof.
  induction fuel as [|f IH]; intros picks c s H; cbn [run_all]; [exact H|].
  destruct (ready s); [exact H|]. apply IH, sent_unwritten_poll, H.
Qed.

Lemma sent_unwritten_step k s e : sent_unwritten k s -> sent_unwritten k (step true s e).
Proof.
  intros H. destruct e; cbn [step].
  - destruct H as [(t & Hn & Hh) Hw]. split; [|exact Hw]. exists t. split; [|exact Hh].
    cbn. rewrite nth_error_app1; [exact Hn|]. apply nth_error_Some. congruence.
  - destruct H as [Hs Hw]. split; [|exact Hw]. cbn. apply sent_keep; [|exact Hs].
    intros t Ht. unfold set_handle. rewrite Ht. exact Ht.
  - destruct H as [Hs Hw]. split; [|exact Hw]. cbn. apply sent_keep; [|exact Hs].
    intros t Ht. unfold set_handle. rewrite Ht. exact Ht.
  - destruct H as [Hs Hw]. split; [|exact Hw]. cbn. apply sent_keep; [|exact Hs].
    intros t Ht. unfold set_result, wake. destruct (t_result t); [exact Ht|].
    cbn. destruct (t_done t); exact Ht.
  - apply sent_unwritten_poll, H.
  - destruct H as [Hs Hw]. split; [exact Hs|]. cbn. intros r0 [Heq|Hin]; [discriminate|exact (Hw r0 Hin)].
  - apply sent_unwritten_run_all, H.
Qed.

Lemma sent_unwritten_fold k evs : forall s,
  sent_unwritten k s -> sent_unwritten k (fold_left (step true) evs s).
Proof. induction evs as [|e evs IH]; intros s H; cbn; [exact H|]. apply IH, sent_unwritten_step, H. Qed.

(** if [abort()] has been called for dispatch [k] and [k] has not written by then, it never
    writes [value] (nor bumps [version], by [version_counts_completions]) — whatever happens
    afterwards, in particular if its future completes before the task is polled again *)
Theorem aborted_never_writes : forall evs1 evs2 k,
  abort_sent evs1 k ->
  (forall r, ~ In (Wrote k r) (wlog (run true evs1))) ->
  forall r, ~ In (Wrote k r) (wlog (run true (evs1 ++ evs2))).
Proof.
  intros evs1 evs2 k (r0 & Hs) Hw.
  apply (summary_nth true) in Hs as (t & Hn & Hh & _).
  assert (H : sent_unwritten k (run true evs1)) by (split; eauto).
  unfold run. rewrite fold_left_app. apply (sent_unwritten_fold k evs2) in H. exact (proj2 H).
Qed.

(** the code before the fix ([futures::select!], modelled by [biased = false]) violates it:
    abort, then the future completes, then the task is polled and the oracle picks the future *)
(** * an action created with an initial value (server actions restored from the URL)
    nothing in [step] reads [value]: the restored action runs exactly like a fresh one, and its
    value is the restored one until the first write (completion or clear) *)
Definition with_value (v : option Z) (s : astate) : astate :=
  mkA (in_flight s) (input s) v (version s) (dispatched s) (tasks s) (wlog s).
Definition restored_st (v0 : option Z) (s : astate) : astate :=
  match wlog s with [] => with_value v0 s | _ => s end.

Lemma restored_ready v0 s : ready (restored_st v0 s) = ready s.
Proof. unfold restored_st. destruct (wlog s); reflexivity. Qed.

Lemma restored_poll v0 b k c s : poll b k c (restored_st v0 s) = restored_st v0 (poll b k c s).
Proof.
  unfold restored_st. destruct (wlog s) eqn:Hw; [|].
  - unfold poll, with_value. cbn [tasks].
    destruct (nth_error (tasks s) k) as [t|]; [|cbn; rewrite Hw; reflexivity].
    destruct (t_done t || negb (t_woken t)); [cbn; rewrite Hw; reflexivity|].
    destruct (match t_result t with None => abort_ready t | Some _ => abort_ready t && (b || c) end).
    + unfold finish_input. cbn. destruct (pred (in_flight s) =? 0); cbn; rewrite Hw; reflexivity.
    + destruct (t_result t) as [r|].
      * cbn [dispatched]. destruct (dispatched s <=? t_curver t).
        -- unfold finish_input. cbn. destruct (pred (in_flight s) =? 0); reflexivity.
        -- unfold finish_input. cbn. destruct (pred (in_flight s) =? 0); cbn; rewrite Hw; reflexivity.
      * unfold set_tasks. cbn. rewrite Hw. reflexivity.
  - assert (Hne : wlog (poll b k c s) <> []).
    { unfold poll. destruct (nth_error (tasks s) k) as [t|]; [|congruence].
      destruct (t_done t || negb (t_woken t)); [congruence|].
      destruct (match t_result t with None => abort_ready t | Some _ => abort_ready t && (b || c) end).
      - rewrite wlog_finish_input. cbn. congruence.
      - destruct (t_result t) as [r|]; [|cbn; congruence].
        rewrite wlog_finish_input. destruct (dispatched s <=? t_curver t); cbn; congruence. }
    destruct (wlog (poll b k c s)); [congruence|reflexivity].
Qed.

Lemma restored_run_all v0 b fuel : forall picks c s,
  run_all b fuel picks c (restored_st v0 s) = restored_st v0 (run_all b fuel picks c s).
Proof.
  induction fuel as [|f IH]; intros picks c s; cbn [run_all]; [reflexivity|].
  rewrite restored_ready. destruct (ready s) as [|x r]; [reflexivity|].
  rewrite restored_poll. apply IH.
Qed.

Lemma restored_tasks v0 s : tasks (restored_st v0 s) = tasks s.
Proof. unfold restored_st. destruct (wlog s); reflexivity. Qed.

Lemma restored_step v0 b s e : step b (restored_st v0 s) e = restored_st v0 (step b s e).
Proof.
  destruct e; cbn [step].
  - unfold restored_st, do_dispatch. destruct (wlog s) eqn:Hw; cbn; rewrite Hw; reflexivity.
  - unfold restored_st, set_tasks. destruct (wlog s) eqn:Hw; cbn; rewrite Hw; reflexivity.
  - unfold restored_st, set_tasks. destruct (wlog s) eqn:Hw; cbn; rewrite Hw; reflexivity.
  - unfold restored_st, set_tasks. destruct (wlog s) eqn:Hw; cbn; rewrite Hw; reflexivity.
  - apply restored_poll.
  - unfold restored_st, with_value. cbn. destruct (wlog s) eqn:Hw; cbn; rewrite ?Hw; reflexivity.
  - rewrite restored_tasks. apply restored_run_all.
Qed.

Lemma restored_fold v0 b evs : forall s,
  fold_left (step b) evs (restored_st v0 s) = restored_st v0 (fold_left (step b) evs s).
Proof. induction evs as [|e evs IH]; intros s; cbn; [reflexivity|]. rewrite restored_step. apply IH. Qed.

Lemma run_from_restored v0 b evs : run_from v0 b evs = restored_st v0 (run b evs).
Proof. unfold run_from, run. rewrite <- restored_fold. reflexivity. Qed.

Theorem restored_value_until_first_write : forall v0 evs,
  let s := run_from v0 true evs in
  let s' := run true evs in
  in_flight s = in_flight s' /\ input s = input s' /\ version s = version s' /\
  tasks s = tasks s' /\ wlog s = wlog s' /\
  value s = match wlog s' with [] => v0 | l => last_value l end.
Proof.
  intros v0 evs s s'. unfold s. rewrite run_from_restored. fold s'.
  pose proof (value_is_last_completed evs) as Hv. cbv zeta in Hv. fold s' in Hv.
  unfold restored_st. destruct (wlog s') eqn:Hw.
  - cbn. rewrite Hw. repeat split; reflexivity.
  - rewrite Hw. repeat split; try reflexivity. exact Hv.
Qed.

(** a server action restored with error -5 reports it until a dispatch completes; version,
    pending and input are those of a fresh action *)
Example restored_example :
  let h1 := [Dispatch 3; Poll 0 false] in
  let h2 := h1 ++ [Complete 0 9; Poll 0 false] in
  value (run_from (Some (-5)%Z) true []) = Some (-5)%Z /\
  value (run_from (Some (-5)%Z) true h1) = Some (-5)%Z /\ pending (run_from (Some (-5)%Z) true h1) = true /\
  value (run_from (Some (-5)%Z) true h2) = Some 9%Z /\ version (run_from (Some (-5)%Z) true h2) = 1 /\
  value (run_from (Some (-5)%Z) true [Clear]) = None.
Proof. vm_compute. repeat split. Qed.

Definition prefix_witness1 : list event := [Dispatch 7; Poll 0 false; Abort 0].
Definition prefix_witness2 : list event := [Complete 0 42; Poll 0 false].

Example aborted_never_writes_prefix_refuted :
  abort_sent prefix_witness1 0 /\
  (forall r, ~ In (Wrote 0 r) (wlog (run false prefix_witness1))) /\
  In (Wrote 0 42%Z) (wlog (run false (prefix_witness1 ++ prefix_witness2))) /\
  value (run false (prefix_witness1 ++ prefix_witness2)) = Some 42%Z /\
  version (run false (prefix_witness1 ++ prefix_witness2)) = 1.
Proof.
  split; [exists None; reflexivity|]. split; [intros r []|]. cbn. auto.
Qed.

(** the same history on the repaired code *)
Example aborted_never_writes_witness_fixed :
  value (run true (prefix_witness1 ++ prefix_witness2)) = None /\
  version (run true (prefix_witness1 ++ prefix_witness2)) = 0 /\
  pending (run true (prefix_witness1 ++ prefix_witness2)) = false.
Proof. cbn. auto. Qed.

(** non-vacuity: an idle state with two overlapping dispatches, one finished out of order *)
Definition ex_hist : list event :=
  [Dispatch 1; Dispatch 2; RunAll [] true; Complete 1 20; RunAll [] true].
Example ex_hist_idle_pending :
  idle (run true ex_hist) = true /\ pending (run true ex_hist) = true /\
  version (run true ex_hist) = 1 /\ value (run true ex_hist) = Some 20%Z /\
  input (run true ex_hist) = Some 2%Z.
Proof. cbn. auto. Qed.
Example ex_hist_all_done :
  let s := run true (ex_hist ++ [Abort 0; Poll 0 false]) in
  idle s = true /\ pending s = false /\ input s = None /\ version s = 1.
Proof. cbn. auto. Qed.

(** * run-until-idle reaches an idle point (so idle points exist after every history) *)
Lemma is_ready_poll_length b p c s t :
  nth_error (tasks s) p = Some t -> is_ready t = true ->
  S (length (ready (poll b p c s))) = length (ready s).
Proof.
  intros Hn Hr. pose proof Hr as Hr0. unfold is_ready in Hr. apply andb_true_iff in Hr as [Hw Hd].
  apply negb_true_iff in Hd. unfold ready.
  destruct (poll_spec b p c s) as [Hno|t' Hn' Hd' Hw' Hh' Hc|t' r Hn' Hd' Hw' Hr' Hc|t' Hn' Hd' Hw' Hr' Hh'].
  - destruct (Hno _ Hn); congruence.
  - rewrite tasks_finish_input. cbn. eapply idx_from_upd_length; [exact Hn|exact Hr0|reflexivity].
  - rewrite tasks_finish_input. unfold completed_st.
    destruct (dispatched s <=? t_curver t'); cbn;
      (eapply idx_from_upd_length; [exact Hn|exact Hr0|reflexivity]).
  - cbn. eapply idx_from_upd_length; [exact Hn|exact Hr0|reflexivity].
Qed.

Lemma run_all_idle b fuel : forall picks c s,
  length (ready s) <= fuel -> idle (run_all b fuel picks c s) = true.
Proof.
  induction fuel as [|f IH]; intros picks c s Hlen; cbn [run_all].
  - unfold idle. destruct (ready s); [reflexivity|cbn in Hlen; lia].
  - destruct (ready s) as [|p0 r] eqn:E; [unfold idle; rewrite E; reflexivity|].
    apply IH.
    assert (Hin : In (nth (Nat.modulo (hd 0 picks) (length (p0 :: r))) (p0 :: r) 0) (ready s)).
    { rewrite E. apply pick_In. discriminate. }
    apply ready_In in Hin as (t & Hn & Hr).
    pose proof (is_ready_poll_length b _ c s t Hn Hr) as Hl. rewrite E in Hl. cbn [length] in *. lia.
Qed.

Theorem run_until_idle_is_idle : forall b evs picks c,
  idle (run b (evs ++ [RunAll picks c])) = true.
Proof.
  intros b evs picks c. unfold run. rewrite fold_left_app. cbn [fold_left step].
  apply run_all_idle. apply idx_from_length.
Qed.

(** * multi-action: every submission record is a function of its own events only *)
Inductive sev := SCancel | SComplete (r : Z) | SPoll.

Definition sub_step (u : sub) (e : sev) : sub :=
  match e with
  | SCancel => sub_cancel u
  | SComplete r => sub_complete r u
  | SPoll => fst (sub_poll u)
  end.

(** the part of a multi-action event that concerns submission [j] *)
Definition sproj (j : nat) (e : mevent) : list sev :=
  match e with
  | MCancel k => if k =? j then [SCancel] else []
  | MComplete k r => if k =? j then [SComplete r] else []
  | MPoll k => if k =? j then [SPoll] else []
  | MRunAll _ => [SPoll]
  | MDispatch _ | MSync _ => []
  end.

Lemma sub_poll_unready u : sub_ready u = false -> fst (sub_poll u) = u.
Proof.
  unfold sub_ready, sub_poll. destruct (s_done u), (s_woken u); cbn; try reflexivity. discriminate.
Qed.

Lemma sub_poll_ready_false u : sub_ready (fst (sub_poll u)) = false.
Proof.
  unfold sub_poll. destruct (s_done u) eqn:Hd; cbn.
  - unfold sub_ready. rewrite Hd. apply andb_false_r.
  - destruct (s_woken u) eqn:Hw; cbn.
    + destruct (s_result u); reflexivity.
    + unfold sub_ready. rewrite Hw. reflexivity.
Qed.

Lemma sub_poll_idem u : fst (sub_poll (fst (sub_poll u))) = fst (sub_poll u).
Proof. apply sub_poll_unready, sub_poll_ready_false. Qed.

Lemma mpoll_nth k s j :
  nth_error (m_subs (mpoll k s)) j =
  if j =? k then option_map (fun u => fst (sub_poll u)) (nth_error (m_subs s) j)
  else nth_error (m_subs s) j.
Proof.
  unfold mpoll. destruct (nth_error (m_subs s) k) as [u|] eqn:Hn.
  - destruct (sub_poll u) as [u' fin] eqn:Hp. cbn [m_subs]. rewrite nth_error_upd.
    destruct (Nat.eqb_spec j k) as [->|]; [|reflexivity]. rewrite Hn. cbn. rewrite Hp. reflexivity.
  - destruct (Nat.eqb_spec j k) as [->|]; [|reflexivity]. rewrite Hn. reflexivity.
Qed.

Lemma mready_In s j :
  In j (mready s) <-> exists u, nth_error (m_subs s) j = Some u /\ sub_ready u = true.
Proof. apply idx_from_0_In. Qed.

Lemma mpoll_ready_length p s u :
  nth_error (m_subs s) p = Some u -> sub_ready u = true ->
  S (length (mready (mpoll p s))) = length (mready s).
Proof.
  intros Hn Hr. unfold mready, mpoll. rewrite Hn.
  destruct (sub_poll u) as [u' fin] eqn:Hp. cbn [m_subs].
  eapply idx_from_upd_length; eauto. replace u' with (fst (sub_poll u)) by (rewrite Hp; reflexivity).
  apply sub_poll_ready_false.
Qed.

Lemma mrun_all_nth fuel : forall picks s j,
  length (mready s) <= fuel ->
  nth_error (m_subs (mrun_all fuel picks s)) j =
  option_map (fun u => fst (sub_poll u)) (nth_error (m_subs s) j).
Proof.
  assert (Hnone : forall s j, mready s = [] ->
            nth_error (m_subs s) j = option_map (fun u => fst (sub_poll u)) (nth_error (m_subs s) j)).
  { intros s j E. destruct (nth_error (m_subs s) j) as [u|] eqn:Hn; [|reflexivity]. cbn.
    rewrite sub_poll_unready; [reflexivity|]. destruct (sub_ready u) eqn:Hr; [|reflexivity].
    assert (Hin : In j (mready s)) by (apply mready_In; eauto). rewrite E in Hin. destruct Hin. }
  induction fuel as [|f IH]; intros picks s j Hlen; cbn [mrun_all].
  - apply Hnone. destruct (mready s); [reflexivity|cbn in Hlen; lia].
  - destruct (mready s) as [|p0 r] eqn:E; [apply Hnone; exact E|].
    set (p := nth (Nat.modulo (hd 0 picks) (length (p0 :: r))) (p0 :: r) 0).
    assert (Hin : In p (mready s)) by (rewrite E; apply pick_In; discriminate).
    apply mready_In in Hin as (u & Hn & Hr).
    pose proof (mpoll_ready_length p s u Hn Hr) as Hl. rewrite E in Hl. cbn [length] in Hl, Hlen.
    rewrite IH by lia. rewrite mpoll_nth. destruct (Nat.eqb_spec j p) as [->|Hne]; [|reflexivity].
    destruct (nth_error (m_subs s) p); cbn; [|reflexivity]. rewrite sub_poll_idem. reflexivity.
Qed.

Lemma mstep_nth s e j u : nth_error (m_subs s) j = Some u ->
  nth_error (m_subs (mstep s e)) j = Some (fold_left sub_step (sproj j e) u).
Proof.
  intros Hn. destruct e; cbn [mstep sproj m_subs fold_left].
  - rewrite nth_error_app1; [exact Hn|]. apply nth_error_Some. congruence.
  - rewrite nth_error_app1; [exact Hn|]. apply nth_error_Some. congruence.
  - rewrite nth_error_upd. rewrite (Nat.eqb_sym k j).
    destruct (j =? k); cbn; rewrite Hn; reflexivity.
  - rewrite nth_error_upd. rewrite (Nat.eqb_sym k j).
    destruct (j =? k); cbn; rewrite Hn; reflexivity.
  - rewrite mpoll_nth. rewrite (Nat.eqb_sym k j).
    destruct (j =? k); cbn; rewrite Hn; reflexivity.
  - rewrite mrun_all_nth by apply idx_from_length. rewrite Hn. reflexivity.
Qed.

Lemma mfold_nth post : forall s j u, nth_error (m_subs s) j = Some u ->
  nth_error (m_subs (fold_left mstep post s)) j =
  Some (fold_left sub_step (flat_map (sproj j) post) u).
Proof.
  induction post as [|e post IH]; intros s j u Hn; cbn [fold_left flat_map]; [exact Hn|].
  rewrite fold_left_app. apply IH. apply mstep_nth. exact Hn.
Qed.

(** the record created by a dispatch *)
Definition new_sub (e : mevent) : option sub :=
  match e with
  | MDispatch i => Some (mkSub (Some i) None true false None true false)
  | MSync v => Some (mkSub None (Some v) false false None false true)
  | _ => None
  end.

Lemma mstep_len s e :
  length (m_subs (mstep s e)) = length (m_subs s) + (match new_sub e with Some _ => 1 | None => 0 end).
Proof.
  assert (Hp : forall k s, length (m_subs (mpoll k s)) = length (m_subs s)).
  { intros k s0. unfold mpoll. destruct (nth_error (m_subs s0) k); [|reflexivity].
    destruct (sub_poll s1). cbn. apply length_upd. }
  destruct e; cbn [mstep new_sub m_subs]; rewrite ?app_length, ?length_upd; cbn; try lia.
  - rewrite Hp. lia.
  - generalize (length (m_subs s)) at 1. intros fuel. revert picks s.
    induction fuel as [|f IH]; intros picks s; cbn [mrun_all]; [lia|].
    destruct (mready s); [lia|]. rewrite IH, Hp. reflexivity.
Qed.

(** one independent record per dispatch: the record of the dispatch [e] issued after [pre]
    sits at the next index, and after any further history [post] — other dispatches, cancels,
    completions and polls in any order — it is its initial record advanced by *its own*
    events only *)
Theorem multi_records_independent : forall pre e u0 post,
  new_sub e = Some u0 ->
  let j := length (m_subs (mrun pre)) in
  nth_error (m_subs (mrun (pre ++ e :: post))) j =
  Some (fold_left sub_step (flat_map (sproj j) post) u0).
Proof.
  intros pre e u0 post He j. unfold mrun. rewrite fold_left_app. cbn [fold_left].
  apply mfold_nth. fold (mrun pre). subst j.
  destruct e; cbn in He; inversion He; subst; cbn [mstep m_subs];
    rewrite nth_error_app2, Nat.sub_diag by lia; reflexivity.
Qed.

(** … and there is exactly one record per dispatch *)
Theorem multi_one_record_per_dispatch : forall evs,
  length (m_subs (mrun evs)) =
  length (filter (fun e => match new_sub e with Some _ => true | None => false end) evs).
Proof.
  intros evs. unfold mrun.
  assert (H : forall s, length (m_subs (fold_left mstep evs s)) =
            length (m_subs s) +
            length (filter (fun e => match new_sub e with Some _ => true | None => false end) evs)).
  { induction evs as [|e evs IH]; intros s; cbn [fold_left filter length]; [lia|].
    rewrite IH, mstep_len. destruct (new_sub e); cbn [length]; lia. }
  rewrite H. reflexivity.
Qed.

(** non-vacuity: two overlapping submissions, the second finishes first, the first is
    cancelled and then completes: its value stays empty, the other's is untouched *)
Example multi_example :
  let s := mrun [MDispatch 1; MDispatch 2; MRunAll []; MComplete 1 20; MCancel 0;
                 MComplete 0 10; MRunAll [1]] in
  map (fun u => (s_input u, s_value u, s_pending u, s_canceled u)) (m_subs s) =
  [(None, None, false, true); (None, Some 20%Z, false, false)] /\ m_version s = 2 /\ midle s = true.
Proof. cbn. auto. Qed.
