(** Witnesses for the owner tree and for the selector transformation (C02): the hypotheses of
    [set_paused_tree_reaches] are satisfiable by a tree of depth 3, the model of a paused inner
    effect resumed through its outermost ancestor sees the later write, and the model of a
    Selector with a comparator coarser than equality re-runs the reader of selected(10) when the
    value moves from 3 to 15; the transformed selector lies in the class [self_feeding]. *)
From Coq Require Import List ZArith Bool Arith Lia.
From LV Require Import Base.Sexp Reactive.Graph Reactive.Effects Reactive.GraphInvariant Reactive.GraphPullBase
                       Reactive.EffectsProofs Reactive.EffectsRunProofs Reactive.EffectsOrderProofs
                       Reactive.ConvergeProofs Reactive.GraphRun.
Import ListNotations.
Open Scope Z_scope.

(* signals a, b; an effect over a; under its owner an effect over a; under that one a RenderEffect over b *)
Definition p_tree : prog :=
  [DSig false 0; DSig true 0; DEff EEffect (Rd 0%nat) (Const 0); DEff EEffect (Rd 0%nat) (Const 0);
   DEff ERender (Rd 1%nat) (Const 0)].
Definition par_tree (e : nat) : option nat :=
  match e with 3%nat => Some 2%nat | 4%nat => Some 3%nat | _ => None end.
(* pause the innermost owner, write (missed), resume the OUTERMOST owner, write again, run *)
Definition ops_tree : list op :=
  [ORun; OPause 4%nat; OWrite 1%nat 1; ORun; OResume 2%nat; OWrite 1%nat 2; ORun].

Example par_tree_wf : wf_par par_tree /\ under p_tree par_tree 2%nat 4%nat /\ wf_prog p_tree /\
  ~ self_feeding p_tree /\ wf_ops p_tree ops_tree.
Proof.
  split; [|split; [|split; [|split]]].
  - intros c q. unfold par_tree. destruct c as [|[|[|[|[|c]]]]]; intros H; inversion H; lia.
  - apply (under_step p_tree par_tree 2%nat 4%nat 3%nat); [reflexivity|reflexivity|cbn; lia|].
    apply (under_step p_tree par_tree 2%nat 3%nat 2%nat); [reflexivity|reflexivity|cbn; lia|]. apply under_self.
  - intros i Hi. do 5 (destruct i as [|i]; [cbn; repeat split; auto; lia|]). cbn in Hi. lia.
  - assert (Hp : pure_effects p_tree); [|intros (i & k & b & h & x & Hd & Hw & Hdep);
      exact (pure_no_self_feed p_tree Hp i k b h x Hd Hw Hdep)].
    intros i k b h. do 5 (destruct i as [|i]; [cbn; intros E; inversion E; subst; cbn; repeat split; auto; lia|]).
    unfold decl_of. rewrite nth_overflow by (cbn; lia). discriminate.
  - repeat constructor.
Qed.

Example resume_ancestor_reaches_inner :
  let s := run_fixed p_tree par_tree no_sel ops_tree in
  ready s = [] /\ halted s = false /\ epaused (getn s 4%nat) = false /\ emissed (getn s 4%nat) = false /\
  last_log s 4%nat = [(1%nat, 2, true)].
Proof. vm_compute. auto 10. Qed.

(* while the inner owner is paused the write is consumed without a run *)
Example paused_inner_does_not_run :
  let s := run_fixed p_tree par_tree no_sel [ORun; OPause 4%nat; OWrite 1%nat 1; ORun] in
  ready s = [] /\ epaused (getn s 4%nat) = true /\ epaused (getn s 3%nat) = false /\
  emissed (getn s 4%nat) = true /\ last_log s 4%nat = [(1%nat, 0, true)].
Proof. vm_compute. auto 10. Qed.

(* ---------------------------------------------------------------- a selector *)
(* a = RwSignal(3); Selector::new_with_fn(|| a.get(), same bucket of ten) with the key 10;
   Effect::new_isomorphic(|| selected(10)); a.set(15); a.set(27) *)
Definition c_sel : sexp :=
  Lst [Lst [Lst [Num 0; Num 2; Num 3]; Lst [Num 0; Num 5; Num 0]; Lst [Num 0; Num 5; Num 0];
            Lst [Num 0; Num 6; Num 10];
            Lst [Num 4; Num 2; Lst [Num 1; Num 0]; Num 1; Num 2; Lst [Num 3]];
            Lst [Num 3; Num 4; Lst [Num 8; Num 4; Num 0]; Lst [Num 0; Num 0]]];
       Lst [Lst [Num 4]; Lst [Num 0; Num 0; Num 15]; Lst [Num 4]; Lst [Num 0; Num 0; Num 27]; Lst [Num 4]]].

(* the reader (node 5) runs three times and ends with selected(10) = 0, 1, 0 *)
Example selector_bucket_runs :
  filter (fun e => match e with EvEnd 5%nat _ => true | _ => false end) (snd (run_trace c_sel)) =
  [EvEnd 5%nat 0; EvEnd 5%nat 1; EvEnd 5%nat 0].
Proof. vm_compute. reflexivity. Qed.

(* the transformed selector keeps its previous value in a cell that its internal effect reads and
   writes: statically it lies in the class the convergence theorem excludes *)
Example selector_is_in_excluded_class : self_feeding (fst (run_trace c_sel)).
Proof.
  set (p := fst (run_trace c_sel)).
  assert (H : exists b, decl_of p 4%nat = DEff ERender b (Const 0) /\ writes 1%nat b /\ occurs 1%nat b).
  { vm_compute. eexists. split; [reflexivity|]. cbn. split; tauto. }
  destruct H as (b & Hd & Hw & Ho).
  exists 4%nat, ERender, b, (Const 0), 1%nat. split; [exact Hd|]. split; [left; exact Hw|].
  apply dep_one. unfold dep1. rewrite Hd. left. exact Ho.
Qed.
