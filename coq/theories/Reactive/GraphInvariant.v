(** The global invariant of the reactive graph (DESIGN 7.C01 clauses (a)-(f), in the form
    that survived random testing of the executable model: 24 000 generated programs x
    histories, every operation boundary) and the relations used to state what the push
    phase (marking) and the pull phase (update_if_necessary / reads) preserve.
    Definitions and small lemmas only. *)
From Coq Require Import List ZArith Bool Arith Lia.
From LV Require Import Reactive.Graph Reactive.GraphLemmas.
Import ListNotations.
Close Scope Z_scope.
Open Scope nat_scope.

Section P.
Variable p : prog.

Definition memob (i : nat) : bool := match decl_of p i with DMemo _ _ => true | _ => false end.
Definition effb (i : nat) : bool := match decl_of p i with DEff _ _ _ => true | _ => false end.
Definition sigb (i : nat) : bool := match decl_of p i with DSig _ _ => true | _ => false end.
Definition derb (i : nat) : bool := match decl_of p i with DDer _ => true | _ => false end.

(* current (cached) value of a source *)
Definition cur (s : state) (j : nat) : Z :=
  match decl_of p j with DSig _ _ => sval (getn s j) | _ => cache_val (getn s j) end.

Definition entry := (nat * Z * bool)%type.
Definition tracked_of (l : list entry) : list nat :=
  map (fun x => fst (fst x)) (filter (fun x => snd x) l).

Lemma tracked_of_app l1 l2 : tracked_of (l1 ++ l2) = tracked_of l1 ++ tracked_of l2.
Proof. unfold tracked_of. rewrite filter_app, map_app. reflexivity. Qed.

Lemma in_tracked_of l j : In j (tracked_of l) <-> exists v, In (j, v, true) l.
Proof.
  unfold tracked_of. rewrite in_map_iff. split.
  - intros ([[a v] t] & Ha & Hin). cbn in Ha; subst a. apply filter_In in Hin as [Hin Ht].
    cbn in Ht; subst t. eauto.
  - intros (v & Hin). exists (j, v, true). split; auto. apply filter_In; auto.
Qed.

(* ---------------------------------------------------------------- structure of the graph *)
Record WF (s : state) : Prop := {
  wf_len : nlen s = length p;
  wf_srclt : forall i j, In j (srcs (getn s i)) -> j < i;
  wf_nodup : forall j, NoDup (subs (getn s j));
  wf_sub_src : forall j k, In k (subs (getn s j)) -> In j (srcs (getn s k));   (* edges are symmetric *)
  wf_src_sub : forall j k, In j (srcs (getn s k)) -> In k (subs (getn s j))
}.

Lemma wf_sub_gt s j k : WF s -> In k (subs (getn s j)) -> j < k.
Proof. intros W H. eapply wf_srclt; eauto. eapply wf_sub_src; eauto. Qed.

Lemma wf_src_range s i j : WF s -> In j (srcs (getn s i)) -> i < length p.
Proof.
  intros W H. destruct (Nat.lt_ge_cases i (length p)) as [|Hge]; auto.
  rewrite getn_oob in H by (rewrite (wf_len s W); exact Hge). destruct H.
Qed.

(* WF only looks at the length and at srcs / subs *)
Lemma WF_same_edges s s' :
  nlen s' = nlen s ->
  (forall i, srcs (getn s' i) = srcs (getn s i) /\ subs (getn s' i) = subs (getn s i)) ->
  WF s -> WF s'.
Proof.
  intros Hl He W. split.
  - rewrite Hl; apply W.
  - intros i j. rewrite (proj1 (He i)). apply W.
  - intros j. rewrite (proj2 (He j)). apply W.
  - intros j k. rewrite (proj2 (He j)), (proj1 (He k)). apply W.
  - intros j k. rewrite (proj2 (He j)), (proj1 (He k)). apply W.
Qed.

(* ---------------------------------------------------------------- per-node clauses *)
(* every tracked entry of the last run's log still shows the source's current value *)
Definition Lcur (s : state) (i : nat) : Prop :=
  forall j v, In (j, v, true) (rlog (getn s i)) -> cur s j = v.
(* every memo tracked by the last run is Clean *)
Definition Lclean (s : state) (i : nat) : Prop :=
  forall j v, In (j, v, true) (rlog (getn s i)) -> memob j = true -> st (getn s j) = Clean.
(* the source set is the tracked projection of the read log, in order, with multiplicity *)
Definition L1 (s : state) (i : nat) : Prop :=
  srcs (getn s i) = tracked_of (rlog (getn s i)).

(* a memo that is not running: structure part ... *)
Definition MemoOKc (s : state) (i : nat) : Prop :=
  match cache (getn s i) with
  | None => st (getn s i) = Dirty /\ rlog (getn s i) = []
  | Some _ => st (getn s i) = Clean -> Lclean s i
  end.
(* ... and value part *)
Definition MemoOKv (s : state) (i : nat) : Prop :=
  cache (getn s i) <> None -> st (getn s i) <> Dirty -> Lcur s i.

(* [stk] : the nodes whose body is running right now (innermost first).  Nodes not on the
   stack satisfy their resting clauses; nodes on the stack satisfy the clauses about the
   reads they have completed, and every source they are subscribed to is either logged or
   has index >= t (t bounds the top frame from below: it is the read being served). *)
Record InvW (stk : list nat) (t : nat) (s : state) : Prop := {
  inv_wf : WF s;
  inv_err : err s = false;
  inv_l1 : forall i, ~ In i stk -> L1 s i;
  inv_memo_c : forall i, memob i = true -> ~ In i stk -> MemoOKc s i;
  inv_run_cur : forall k, In k stk -> Lcur s k;
  inv_run_clean : forall k, In k stk -> Lclean s k;
  inv_run_src : forall k x, In k stk -> In x (srcs (getn s k)) ->
                In x (tracked_of (rlog (getn s k))) \/ t <= x;
  inv_run_ge : forall k, In k stk -> t <= k;
  inv_run_range : forall k, In k stk -> k < length p;
  inv_run_nc : forall k, In k stk -> memob k = true -> st (getn s k) <> Clean
}.

Record Inv (stk : list nat) (t : nat) (s : state) : Prop := {
  inv_w : InvW stk t s;
  inv_memo_v : forall i, memob i = true -> ~ In i stk -> MemoOKv s i
}.

(* ---------------------------------------------------------------- what marking may change *)
Definition st_le (a b : nstate) : Prop :=
  match a, b with
  | Clean, _ => True
  | Check, Clean => False
  | Check, _ => True
  | Dirty, Dirty => True
  | Dirty, _ => False
  end.
Lemma st_le_refl a : st_le a a. Proof. destruct a; exact I. Qed.
Lemma st_le_trans a b c : st_le a b -> st_le b c -> st_le a c.
Proof. destruct a, b, c; cbn; tauto. Qed.
Lemma st_le_clean a : st_le a Clean -> a = Clean. Proof. destruct a; cbn; tauto. Qed.
Lemma st_le_dirty a : st_le Dirty a -> a = Dirty. Proof. destruct a; cbn; tauto. Qed.

(* the fields a mark never touches *)
Definition same_core (n n' : node) : Prop :=
  sval n' = sval n /\ subs n' = subs n /\ cache n' = cache n /\ srcs n' = srcs n /\
  rlog n' = rlog n /\ since n' = since n /\ efirst n' = efirst n /\ epaused n' = epaused n /\
  ealive n' = ealive n /\ edone n' = edone n /\ emissed n' = emissed n.
Lemma same_core_refl n : same_core n n.
Proof. unfold same_core; intuition. Qed.
Lemma same_core_trans a b c : same_core a b -> same_core b c -> same_core a c.
Proof. unfold same_core; intuition congruence. Qed.

Definition bool_le (a b : bool) : Prop := a = true -> b = true.

Record MarkRel (s s' : state) : Prop := {
  mr_len : nlen s' = nlen s;
  mr_core : forall i, same_core (getn s i) (getn s' i);
  mr_st : forall i, st_le (st (getn s i)) (st (getn s' i));
  mr_st_nonmemo : forall i, memob i = false -> st (getn s' i) = st (getn s i);
  mr_eff : forall i, effb i = false ->
           edirty (getn s' i) = edirty (getn s i) /\ eflag (getn s' i) = eflag (getn s i) /\
           ereg (getn s' i) = ereg (getn s i);
  mr_edirty : forall i, bool_le (edirty (getn s i)) (edirty (getn s' i));
  mr_eflag : forall i, bool_le (eflag (getn s i)) (eflag (getn s' i));
  mr_ready : exists l, ready s' = ready s ++ l;
  mr_trace : trace s' = trace s;
  mr_nocause : nocause s' = nocause s;
  mr_halted : halted s' = halted s;
  mr_err : err s' = err s
}.

Lemma MarkRel_refl s : MarkRel s s.
Proof.
  split; auto; intros.
  - apply same_core_refl.
  - apply st_le_refl.
  - unfold bool_le; auto.
  - unfold bool_le; auto.
  - exists []; rewrite app_nil_r; auto.
Qed.

Lemma MarkRel_trans a b c : MarkRel a b -> MarkRel b c -> MarkRel a c.
Proof.
  intros [] []. split; intros.
  - congruence.
  - eapply same_core_trans; eauto.
  - eapply st_le_trans; eauto.
  - rewrite mr_st_nonmemo1, mr_st_nonmemo0; auto.
  - destruct (mr_eff0 i H) as (?&?&?), (mr_eff1 i H) as (?&?&?). intuition congruence.
  - unfold bool_le in *; auto.
  - unfold bool_le in *; auto.
  - destruct mr_ready0 as [l1 E1], mr_ready1 as [l2 E2]. exists (l1 ++ l2).
    rewrite E2, E1, app_assoc; auto.
  - congruence.
  - congruence.
  - congruence.
  - congruence.
Qed.

Lemma MarkRel_WF s s' : MarkRel s s' -> WF s -> WF s'.
Proof.
  intros M W. apply (WF_same_edges s s'); auto.
  - apply (mr_len _ _ M).
  - intros i. destruct (mr_core _ _ M i) as (_&H1&_&H2&_). split; congruence.
Qed.

Lemma MarkRel_cur s s' j : MarkRel s s' -> cur s' j = cur s j.
Proof.
  intros M. unfold cur, cache_val. destruct (mr_core _ _ M j) as (H0&_&H1&_).
  rewrite H0, H1. reflexivity.
Qed.

(* closure of a marking that started in [s0]: whoever left Clean has no Clean memo subscriber
   and all its live effect subscribers have their flag up *)
Definition Closed (s0 s : state) : Prop :=
  forall y k, memob y = true -> st (getn s0 y) = Clean -> st (getn s y) <> Clean ->
  In k (subs (getn s y)) ->
  (memob k = true -> st (getn s k) <> Clean) /\
  (effb k = true -> ealive (getn s k) = true -> eflag (getn s k) = true).

End P.
