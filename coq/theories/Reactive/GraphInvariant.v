(** The global invariant of the reactive graph (DESIGN 7.C01 clauses (a)-(f), in the form
    that survived random testing of the executable model: 24 000 generated programs x
    histories, every operation boundary) and the relations used to state what the push
    phase (marking) and the pull phase (update_if_necessary / reads) preserve.
    Definitions and small lemmas only. *)
From Coq Require Import List ZArith Bool Arith Lia.
From LV Require Import Reactive.Graph Reactive.GraphLemmas Reactive.GraphReplay.
Import ListNotations.
Close Scope Z_scope.
Open Scope nat_scope.

Section P.
Variable p : prog.

Definition memob (i : nat) : bool := match decl_of p i with DMemo _ _ => true | _ => false end.
Definition effb (i : nat) : bool := match decl_of p i with DEff _ _ _ => true | _ => false end.
Definition sigb (i : nat) : bool := match decl_of p i with DSig _ _ => true | _ => false end.
Definition derb (i : nat) : bool := match decl_of p i with DDer _ => true | _ => false end.

(* current (cached) value of a source *)
Definition cur (s : state) (j : nat) : Z :=
  match decl_of p j with DSig _ _ => sval (getn s j) | _ => cache_val (getn s j) end.

Definition entry := (nat * Z * bool)%type.
Definition tracked_of (l : list entry) : list nat :=
  map (fun x => fst (fst x)) (filter (fun x => snd x) l).

Lemma tracked_of_app l1 l2 : tracked_of (l1 ++ l2) = tracked_of l1 ++ tracked_of l2.
Proof. unfold tracked_of. rewrite filter_app, map_app. reflexivity. Qed.

Lemma in_tracked_of l j : In j (tracked_of l) <-> exists v, In (j, v, true) l.
Proof.
  unfold tracked_of. rewrite in_map_iff. split.
  - intros ([[a v] t] & Ha & Hin). cbn in Ha; subst a. apply filter_In in Hin as [Hin Ht].
    cbn in Ht; subst t. eauto.
  - intros (v & Hin). exists (j, v, true). split; auto. apply filter_In; auto.
Qed.

(* ---------------------------------------------------------------- static dependencies *)
(* node x is read (in any mode) somewhere in the expression *)
Fixpoint occurs (x : nat) (e : expr) : Prop :=
  match e with
  | Const _ => False
  | Rd j | RdU j => j = x
  | Untr a => occurs x a
  | Add a b | Lt a b => occurs x a \/ occurs x b
  | Ite c a b => occurs x c \/ occurs x a \/ occurs x b
  | Wr _ a => occurs x a
  end.
(* signal x is written somewhere in the expression *)
Fixpoint writes (x : nat) (e : expr) : Prop :=
  match e with
  | Const _ | Rd _ | RdU _ => False
  | Untr a => writes x a
  | Add a b | Lt a b => writes x a \/ writes x b
  | Ite c a b => writes x c \/ writes x a \/ writes x b
  | Wr t a => t = x \/ writes x a
  end.
Definition dep1 (i x : nat) : Prop :=
  match decl_of p i with
  | DSig _ _ => False
  | DMemo _ e => occurs x e
  | DDer e => occurs x e
  | DEff _ b h => occurs x b \/ occurs x h
  end.
(* the static cone: everything node i may read, directly or through other nodes *)
Inductive dep : nat -> nat -> Prop :=
| dep_one i x : dep1 i x -> dep i x
| dep_step i y x : dep1 i y -> dep y x -> dep i x.

Lemma dep_trans i y x : dep i y -> dep y x -> dep i x.
Proof.
  intros H. revert x. induction H as [i y H|i z y H1 H2 IH]; intros x Hx.
  - eapply dep_step; eauto.
  - eapply dep_step; eauto.
Qed.

(* ---------------------------------------------------------------- disposed sources *)
(* node j is a signal / memo that has been disposed ([edone] of an effect means something else) *)
Definition dead (s : state) (j : nat) : bool := negb (effb j) && sgone (getn s j).

Lemma dead_view s s' j : edone (getn s' j) = edone (getn s j) -> dead s' j = dead s j.
Proof. unfold dead, sgone. intros ->. reflexivity. Qed.
Lemma dead_node s s' j : getn s' j = getn s j -> dead s' j = dead s j.
Proof. unfold dead. intros ->. reflexivity. Qed.
Lemma dead_eff s j : effb j = true -> dead s j = false.
Proof. unfold dead. intros ->. reflexivity. Qed.
Lemma dead_src s j : effb j = false -> dead s j = sgone (getn s j).
Proof. unfold dead. intros ->. reflexivity. Qed.

(* ---------------------------------------------------------------- structure of the graph *)
Record WF (s : state) : Prop := {
  wf_len : nlen s = length p;
  wf_srclt : forall i j, In j (srcs (getn s i)) -> j < i;
  wf_nodup : forall j, NoDup (subs (getn s j));
  wf_sub_src : forall j k, In k (subs (getn s j)) -> In j (srcs (getn s k));   (* edges are symmetric *)
  (* ... except that a disposed source has dropped its subscriber set *)
  wf_src_sub : forall j k, In j (srcs (getn s k)) -> dead s j = false -> In k (subs (getn s j));
  wf_dep : forall i j, In j (srcs (getn s i)) -> dep i j;     (* dynamic edges lie inside the static cone *)
  wf_gone : forall j, dead s j = true -> subs (getn s j) = []
}.

Lemma wf_sub_gt s j k : WF s -> In k (subs (getn s j)) -> j < k.
Proof. intros W H. eapply wf_srclt; eauto. eapply wf_sub_src; eauto. Qed.

Lemma wf_src_range s i j : WF s -> In j (srcs (getn s i)) -> i < length p.
Proof.
  intros W H. destruct (Nat.lt_ge_cases i (length p)) as [|Hge]; auto.
  rewrite getn_oob in H by (rewrite (wf_len s W); exact Hge). destruct H.
Qed.

(* WF only looks at the length and at srcs / subs *)
Lemma WF_same_edges s s' :
  nlen s' = nlen s ->
  (forall i, srcs (getn s' i) = srcs (getn s i) /\ subs (getn s' i) = subs (getn s i)) ->
  (forall i, dead s' i = dead s i) ->
  WF s -> WF s'.
Proof.
  intros Hl He Hg W. split.
  - rewrite Hl; apply W.
  - intros i j. rewrite (proj1 (He i)). apply W.
  - intros j. rewrite (proj2 (He j)). apply W.
  - intros j k. rewrite (proj2 (He j)), (proj1 (He k)). apply W.
  - intros j k. rewrite (proj2 (He j)), (proj1 (He k)), Hg. apply W.
  - intros i j. rewrite (proj1 (He i)). apply W.
  - intros j. rewrite (proj2 (He j)), Hg. apply W.
Qed.

Lemma wf_sub_live s j k : WF s -> In k (subs (getn s j)) -> dead s j = false.
Proof.
  intros W H. destruct (dead s j) eqn:E; auto. rewrite (wf_gone s W j E) in H. destruct H.
Qed.

Lemma wf_sub_dep s j k : WF s -> In k (subs (getn s j)) -> dep k j.
Proof. intros W H. eapply wf_dep; eauto. eapply wf_sub_src; eauto. Qed.

(* ---------------------------------------------------------------- per-node clauses *)
(* "the same value" as far as the subscribers of source j are told: equality, except for a memo
   whose comparator is coarser (it does not report a change between two values of one class) *)
Definition eqv (j : nat) (a b : Z) : Prop :=
  match decl_of p j with
  | DMemo CPar _ => Z.even a = Z.even b
  | _ => a = b
  end.
Lemma eqv_refl j a : eqv j a a.
Proof. unfold eqv. destruct (decl_of p j) as [| [| |] ?| |]; reflexivity. Qed.
Lemma eqv_sym j a b : eqv j a b -> eqv j b a.
Proof. unfold eqv. destruct (decl_of p j) as [| [| |] ?| |]; auto. Qed.
Lemma eqv_trans j a b c : eqv j a b -> eqv j b c -> eqv j a c.
Proof. unfold eqv. destruct (decl_of p j) as [| [| |] ?| |]; congruence. Qed.
Lemma eqv_eq j a b : a = b -> eqv j a b.
Proof. intros ->. apply eqv_refl. Qed.
(* all comparators of the program are exact *)
Definition exact_prog : Prop := forall i e, decl_of p i <> DMemo CPar e.
Lemma eqv_exact j a b : exact_prog -> eqv j a b -> a = b.
Proof.
  unfold eqv. intros H. specialize (H j). destruct (decl_of p j) as [| [| |] e| |]; auto.
  exfalso. apply (H e). reflexivity.
Qed.

(* every tracked entry of the last run's log still shows the source's current value (up to the
   source's own comparator) *)
Definition Lcur (s : state) (i : nat) : Prop :=
  forall j v, In (j, v, true) (rlog (getn s i)) -> dead s j = false -> eqv j (cur s j) v.
(* every memo tracked by the last run is Clean; a source that has been disposed since owes
   nothing: disposal is not a change, and a dead source is never looked at again *)
Definition Lclean (s : state) (i : nat) : Prop :=
  forall j v, In (j, v, true) (rlog (getn s i)) -> memob j = true -> dead s j = false ->
  st (getn s j) = Clean.
(* the source set is the tracked projection of the read log, in order, with multiplicity *)
Definition L1 (s : state) (i : nat) : Prop :=
  srcs (getn s i) = tracked_of (rlog (getn s i)).

(* ---- what a node that is not running owes, as a function of its declaration and fields *)
Definition hasrun_n (d : decl) (n : node) : bool :=
  match d with
  | DEff ERender _ _ => true
  | DEff _ _ _ => negb (efirst n)
  | _ => false
  end.
(* its log must show current values: a memo that is not Dirty, an effect that is not dirty *)
Definition needs_cur_n (d : decl) (n : node) : Prop :=
  match d with
  | DMemo _ _ => cache n <> None /\ st n <> Dirty
  | DEff _ _ _ => ealive n = true /\ hasrun_n d n = true /\ edirty n = false
  | _ => False
  end.
(* its memo sources must all be Clean: a Clean memo, an effect at rest with no notification pending *)
Definition needs_clean_n (d : decl) (n : node) : Prop :=
  match d with
  | DMemo _ _ => cache n <> None /\ st n = Clean
  | DEff _ _ _ => ealive n = true /\ hasrun_n d n = true /\ edirty n = false /\ eflag n = false /\
                  emissed n = false /\ epoll n = false
  | _ => False
  end.
(* it will run at the next occasion because a direct source changed *)
Definition will_run_n (d : decl) (n : node) : Prop :=
  match d with
  | DMemo _ _ => cache n <> None /\ st n = Dirty
  | DEff _ _ _ => ealive n = true /\ hasrun_n d n = true /\ edirty n = true
  | _ => False
  end.
(* a memo that never ran is Dirty with an empty log; the cached value of one that ran is its
   body replayed over its log *)
Definition uncached_ok (i : nat) (d : decl) (n : node) : Prop :=
  match d with
  | DMemo _ e => (cache n = None -> st n = Dirty /\ rlog n = []) /\
                 (forall v, cache n = Some v -> replay_body p i e (rlog n) = Some v)
  | _ => True
  end.
(* channel + waker + run queue discipline of an effect: a dirty effect has a notification
   pending (or missed one while paused); when the task is neither unspawned nor being polled,
   the waker is registered or the task is in the run queue, a pending notification means the
   waker was taken, and an effect that never ran is still dirty *)
Definition queue_ok_n (rdy : list nat) (e : nat) (d : decl) (n : node) : Prop :=
  match d with
  | DEff _ _ _ =>
      ealive n = true ->
      (edirty n = true -> eflag n = true \/ emissed n = true) /\
      (epoll n = false ->
         edone n = false /\ (ereg n = false -> In e rdy) /\ (eflag n = true -> ereg n = false) /\
         (hasrun_n d n = false -> edirty n = true))
  | _ => True
  end.

Definition needs_cur (s : state) (i : nat) := needs_cur_n (decl_of p i) (getn s i).
Definition needs_clean (s : state) (i : nat) := needs_clean_n (decl_of p i) (getn s i).
Definition will_run (s : state) (i : nat) := will_run_n (decl_of p i) (getn s i).
Definition queue_ok (s : state) (e : nat) := queue_ok_n (ready s) e (decl_of p e) (getn s e).

(* the fields those predicates (and the log clauses) look at: everything but subs / epaused *)
Definition nview_eq (n n' : node) : Prop :=
  sval n' = sval n /\ st n' = st n /\ cache n' = cache n /\ rlog n' = rlog n /\ srcs n' = srcs n /\
  since n' = since n /\ edirty n' = edirty n /\ eflag n' = eflag n /\ ereg n' = ereg n /\
  efirst n' = efirst n /\ ealive n' = ealive n /\ edone n' = edone n /\ emissed n' = emissed n /\
  epoll n' = epoll n.
Lemma nview_eq_refl n : nview_eq n n. Proof. unfold nview_eq; intuition. Qed.

Lemma needs_cur_view d n n' : nview_eq n n' -> needs_cur_n d n' -> needs_cur_n d n.
Proof.
  unfold nview_eq, needs_cur_n, hasrun_n. intros (?&?&?&?&?&?&?&?&?&?&?&?&?&?).
  destruct d as [| | |k ? ?]; auto; [|destruct k]; intuition congruence.
Qed.
Lemma needs_clean_view d n n' : nview_eq n n' -> needs_clean_n d n' -> needs_clean_n d n.
Proof.
  unfold nview_eq, needs_clean_n, hasrun_n. intros (?&?&?&?&?&?&?&?&?&?&?&?&?&?).
  destruct d as [| | |k ? ?]; auto; [|destruct k]; intuition congruence.
Qed.
Lemma will_run_view d n n' : nview_eq n n' -> will_run_n d n' -> will_run_n d n.
Proof.
  unfold nview_eq, will_run_n, hasrun_n. intros (?&?&?&?&?&?&?&?&?&?&?&?&?&?).
  destruct d as [| | |k ? ?]; auto; [|destruct k]; intuition congruence.
Qed.
Lemma uncached_ok_view i d n n' : nview_eq n n' -> uncached_ok i d n -> uncached_ok i d n'.
Proof.
  unfold nview_eq, uncached_ok. intros (E0&E1&E2&E3&_).
  destruct d; auto. rewrite E1, E2, E3. auto.
Qed.
Lemma queue_ok_view rdy e d n n' : nview_eq n n' -> queue_ok_n rdy e d n -> queue_ok_n rdy e d n'.
Proof.
  unfold nview_eq, queue_ok_n, hasrun_n. intros (E0&E1&E2&E3&E4&E5&E6&E7&E8&E9&E10&E11&E12&E13).
  destruct d as [| | |k ? ?]; auto. intros H Ha.
  rewrite E10 in Ha. specialize (H Ha).
  rewrite E6, E7, E8, E9, E11, E12, E13. exact H.
Qed.

(* the fields the queue discipline looks at *)
Definition qview_eq (n n' : node) : Prop :=
  edirty n' = edirty n /\ eflag n' = eflag n /\ ereg n' = ereg n /\ efirst n' = efirst n /\
  ealive n' = ealive n /\ edone n' = edone n /\ emissed n' = emissed n /\ epoll n' = epoll n.
Lemma qview_eq_refl n : qview_eq n n. Proof. unfold qview_eq; intuition. Qed.
Lemma nview_qview n n' : nview_eq n n' -> qview_eq n n'.
Proof. unfold nview_eq, qview_eq. intuition. Qed.
Lemma queue_ok_qview rdy e d n n' : qview_eq n n' -> queue_ok_n rdy e d n -> queue_ok_n rdy e d n'.
Proof.
  unfold qview_eq, queue_ok_n, hasrun_n. intros (E6&E7&E8&E9&E10&E11&E12&E13).
  destruct d as [| | |k ? ?]; auto. intros H Ha.
  rewrite E10 in Ha. specialize (H Ha).
  rewrite E6, E7, E8, E9, E11, E12, E13. exact H.
Qed.

(* everything a node that is not running owes *)
Definition Rest (s : state) (i : nat) : Prop :=
  L1 s i /\
  uncached_ok i (decl_of p i) (getn s i) /\
  (needs_cur s i -> Lcur s i) /\
  (needs_clean s i -> Lclean s i) /\
  (will_run s i -> since (getn s i) <> []).

(* a node whose body is running: the reads it has completed are current and Clean, and every
   source it is subscribed to is logged or is the one being read right now (index >= t); a
   running effect is not marked dirty by what its own run pulls *)
Definition Frame (t : nat) (s : state) (k : nat) : Prop :=
  Lcur s k /\ Lclean s k /\
  (forall x, In x (srcs (getn s k)) -> In x (tracked_of (rlog (getn s k))) \/ t <= x) /\
  t <= k /\ k < length p /\ (memob k = true -> st (getn s k) <> Clean) /\
  (effb k = true -> edirty (getn s k) = false).

(* [stk] : the nodes whose body is running right now (innermost first); [t] bounds the top
   frame from below: it is the index of the read being served *)
Record Inv (stk : list nat) (t : nat) (s : state) : Prop := {
  inv_wf : WF s;
  inv_err : err s = false;
  inv_nocause : nocause s = 0;
  inv_rest : forall i, ~ In i stk -> Rest s i;
  inv_queue : forall e, queue_ok s e;
  inv_frame : forall k, In k stk -> Frame t s k
}.

(* the same with one node [x] exempted from its resting clauses and its queue discipline: the
   effect whose task loop is between "dirty consumed" and "body started" *)
Record InvBut (x : nat) (stk : list nat) (t : nat) (s : state) : Prop := {
  ib_wf : WF s;
  ib_err : err s = false;
  ib_nocause : nocause s = 0;
  ib_rest : forall i, ~ In i stk -> i <> x -> Rest s i;
  ib_l1 : ~ In x stk -> L1 s x;
  ib_queue : forall e, e <> x -> queue_ok s e;
  ib_frame : forall k, In k stk -> Frame t s k
}.

Lemma Inv_InvBut x stk t s : Inv stk t s -> InvBut x stk t s.
Proof.
  intros I. split.
  - apply I.
  - apply I.
  - apply I.
  - intros i Hi _. apply (inv_rest _ _ _ I i Hi).
  - intros Hx. destruct (inv_rest _ _ _ I x Hx) as (R1&_). exact R1.
  - intros e _. apply (inv_queue _ _ _ I e).
  - apply (inv_frame _ _ _ I).
Qed.

(* kinds *)
Lemma memob_decl i : memob i = true -> exists c e, decl_of p i = DMemo c e.
Proof. unfold memob. destruct (decl_of p i); try discriminate. eauto. Qed.
Lemma effb_decl i : effb i = true -> exists k b h, decl_of p i = DEff k b h.
Proof. unfold effb. destruct (decl_of p i); try discriminate. eauto. Qed.

(* ---------------------------------------------------------------- what marking may change *)
Definition st_le (a b : nstate) : Prop :=
  match a, b with
  | Clean, _ => True
  | Check, Clean => False
  | Check, _ => True
  | Dirty, Dirty => True
  | Dirty, _ => False
  end.
Lemma st_le_refl a : st_le a a. Proof. destruct a; exact I. Qed.
Lemma st_le_trans a b c : st_le a b -> st_le b c -> st_le a c.
Proof. destruct a, b, c; cbn; tauto. Qed.
Lemma st_le_clean a : st_le a Clean -> a = Clean. Proof. destruct a; cbn; tauto. Qed.
Lemma st_le_dirty a : st_le Dirty a -> a = Dirty. Proof. destruct a; cbn; tauto. Qed.

(* the fields a mark never touches *)
Definition same_core (n n' : node) : Prop :=
  sval n' = sval n /\ subs n' = subs n /\ cache n' = cache n /\ srcs n' = srcs n /\
  rlog n' = rlog n /\ since n' = since n /\ efirst n' = efirst n /\ epaused n' = epaused n /\
  ealive n' = ealive n /\ edone n' = edone n /\ emissed n' = emissed n /\ epoll n' = epoll n.
Lemma same_core_refl n : same_core n n.
Proof. unfold same_core; intuition. Qed.
Lemma same_core_trans a b c : same_core a b -> same_core b c -> same_core a c.
Proof. unfold same_core; intuition congruence. Qed.

Definition bool_le (a b : bool) : Prop := a = true -> b = true.

Record MarkRel (s s' : state) : Prop := {
  mr_len : nlen s' = nlen s;
  mr_core : forall i, same_core (getn s i) (getn s' i);
  mr_st : forall i, st_le (st (getn s i)) (st (getn s' i));
  mr_st_nonmemo : forall i, memob i = false -> st (getn s' i) = st (getn s i);
  mr_eff : forall i, effb i = false ->
           edirty (getn s' i) = edirty (getn s i) /\ eflag (getn s' i) = eflag (getn s i) /\
           ereg (getn s' i) = ereg (getn s i);
  mr_edirty : forall i, bool_le (edirty (getn s i)) (edirty (getn s' i));
  mr_eflag : forall i, bool_le (eflag (getn s i)) (eflag (getn s' i));
  mr_ready : exists l, ready s' = ready s ++ l;
  mr_trace : trace s' = trace s;
  mr_nocause : nocause s' = nocause s;
  mr_halted : halted s' = halted s;
  mr_err : err s' = err s
}.

Lemma MarkRel_refl s : MarkRel s s.
Proof.
  split; auto; intros.
  - apply same_core_refl.
  - apply st_le_refl.
  - unfold bool_le; auto.
  - unfold bool_le; auto.
  - exists []; rewrite app_nil_r; auto.
Qed.

Lemma MarkRel_trans a b c : MarkRel a b -> MarkRel b c -> MarkRel a c.
Proof.
  intros [] []. split; intros.
  - congruence.
  - eapply same_core_trans; eauto.
  - eapply st_le_trans; eauto.
  - rewrite mr_st_nonmemo1, mr_st_nonmemo0; auto.
  - destruct (mr_eff0 i H) as (?&?&?), (mr_eff1 i H) as (?&?&?). intuition congruence.
  - unfold bool_le in *; auto.
  - unfold bool_le in *; auto.
  - destruct mr_ready0 as [l1 E1], mr_ready1 as [l2 E2]. exists (l1 ++ l2).
    rewrite E2, E1, app_assoc; auto.
  - congruence.
  - congruence.
  - congruence.
  - congruence.
Qed.

Lemma MarkRel_WF s s' : MarkRel s s' -> WF s -> WF s'.
Proof.
  intros M W. apply (WF_same_edges s s'); auto.
  - apply (mr_len _ _ M).
  - intros i. destruct (mr_core _ _ M i) as (_&H1&_&H2&_). split; congruence.
  - intros i. apply dead_view. destruct (mr_core _ _ M i) as (_&_&_&_&_&_&_&_&_&H&_). exact H.
Qed.

Lemma MarkRel_cur s s' j : MarkRel s s' -> cur s' j = cur s j.
Proof.
  intros M. unfold cur, cache_val. destruct (mr_core _ _ M j) as (H0&_&H1&_).
  rewrite H0, H1. reflexivity.
Qed.

(* closure of a marking that started in [s0]: whoever left Clean has no Clean memo subscriber
   and all its live effect subscribers have their flag up *)
Definition Closed (s0 s : state) : Prop :=
  forall y k, memob y = true -> st (getn s0 y) = Clean -> st (getn s y) <> Clean ->
  In k (subs (getn s y)) ->
  (memob k = true -> st (getn s k) <> Clean) /\
  (effb k = true -> ealive (getn s k) = true -> eflag (getn s k) = true).

End P.
