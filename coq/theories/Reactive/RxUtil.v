(** Small list utilities shared by the Reactive models (C17, C08, C10): functional update of
    one position, indices of selected elements; with their basic lemmas. *)
From Coq Require Import List Bool Arith Lia.
Import ListNotations.

Fixpoint upd {A} (k : nat) (f : A -> A) (l : list A) : list A :=
  match l, k with
  | [], _ => []
  | x :: t, O => f x :: t
  | x :: t, S k' => x :: upd k' f t
  end.

(** indices (counted from [i]) of the elements satisfying [p], ascending *)
Fixpoint idx_from {A} (p : A -> bool) (i : nat) (l : list A) : list nat :=
  match l with
  | [] => []
  | x :: r => if p x then i :: idx_from p (S i) r else idx_from p (S i) r
  end.
Lemma nth_error_upd {A} (f : A -> A) l : forall k j,
  nth_error (upd k f l) j = if j =? k then option_map f (nth_error l j) else nth_error l j.
Proof.
  induction l as [|x l IH]; intros k j.
  - destruct k, j; cbn; try reflexivity; destruct (j =? k); reflexivity.
  - destruct k, j; cbn [upd nth_error Nat.eqb option_map]; try reflexivity. apply IH.
Qed.

Lemma nth_error_upd_same {A} (f : A -> A) l k :
  nth_error (upd k f l) k = option_map f (nth_error l k).
Proof. rewrite nth_error_upd, Nat.eqb_refl. reflexivity. Qed.

Lemma nth_error_upd_other {A} (f : A -> A) l k j : j <> k ->
  nth_error (upd k f l) j = nth_error l j.
Proof. intros H. rewrite nth_error_upd. apply Nat.eqb_neq in H. rewrite H. reflexivity. Qed.

Lemma length_upd {A} (f : A -> A) l : forall k, length (upd k f l) = length l.
Proof. induction l as [|x l IH]; intros [|k]; cbn; auto. Qed.

Lemma map_upd_id {A B} (g : A -> B) (f : A -> A) l :
  (forall x, g (f x) = g x) -> forall k, map g (upd k f l) = map g l.
Proof.
  intros H. induction l as [|x l IH]; intros [|k]; cbn; try reflexivity.
  - rewrite H. reflexivity.
  - rewrite IH. reflexivity.
Qed.

Lemma map_upd {A B} (g : A -> B) (f : A -> A) (f' : B -> B) l :
  (forall x, g (f x) = f' (g x)) -> forall k, map g (upd k f l) = upd k f' (map g l).
Proof.
  intros H. induction l as [|x l IH]; intros [|k]; cbn; try reflexivity.
  - rewrite H. reflexivity.
  - rewrite IH. reflexivity.
Qed.

Lemma nth_error_snoc {A} (l : list A) x j :
  nth_error (l ++ [x]) j =
  if j <? length l then nth_error l j else if j =? length l then Some x else None.
Proof.
  destruct (Nat.ltb_spec j (length l)) as [Hlt|Hge].
  - apply nth_error_app1. exact Hlt.
  - rewrite nth_error_app2 by exact Hge.
    destruct (Nat.eqb_spec j (length l)) as [->|Hne].
    + rewrite Nat.sub_diag. reflexivity.
    + destruct (j - length l) as [|m] eqn:E; [lia|]. cbn. destruct m; reflexivity.
Qed.

Lemma idx_from_In {A} (p : A -> bool) l : forall i j,
  In j (idx_from p i l) <-> exists t, i <= j /\ nth_error l (j - i) = Some t /\ p t = true.
Proof.
  induction l as [|x ts IH]; intros i j; cbn [idx_from].
  - split; [intros []|]. intros (t & _ & Hn & _). destruct (j - i); discriminate.
  - destruct (p x) eqn:Hr.
    + cbn [In]. rewrite IH. split.
      * intros [<-|(t & Hle & Hn & Ht)].
        -- exists x. rewrite Nat.sub_diag. auto.
        -- exists t. split; [lia|]. replace (j - i) with (S (j - S i)) by lia. auto.
      * intros (t & Hle & Hn & Ht). destruct (Nat.eq_dec i j) as [->|Hne]; [left; reflexivity|].
        right. exists t. split; [lia|]. replace (j - i) with (S (j - S i)) in Hn by lia. auto.
    + rewrite IH. split.
      * intros (t & Hle & Hn & Ht). exists t. split; [lia|].
        replace (j - i) with (S (j - S i)) by lia. auto.
      * intros (t & Hle & Hn & Ht). destruct (Nat.eq_dec i j) as [->|Hne].
        -- rewrite Nat.sub_diag in Hn. cbn in Hn. inversion Hn; subst. congruence.
        -- exists t. split; [lia|]. replace (j - i) with (S (j - S i)) in Hn by lia. auto.
Qed.

Lemma idx_from_0_In {A} (p : A -> bool) l j :
  In j (idx_from p 0 l) <-> exists t, nth_error l j = Some t /\ p t = true.
Proof.
  rewrite idx_from_In. rewrite Nat.sub_0_r. split; intros (t & H); exists t; intuition lia.
Qed.

(** making one selected element unselected shortens the list by one *)
Lemma idx_from_upd_length {A} (p : A -> bool) (f : A -> A) l : forall i k x,
  nth_error l k = Some x -> p x = true -> p (f x) = false ->
  S (length (idx_from p i (upd k f l))) = length (idx_from p i l).
Proof.
  induction l as [|y l IH]; intros i [|k] x Hn Hp Hf; cbn in *; try discriminate.
  - inversion Hn; subst. rewrite Hp, Hf. reflexivity.
  - destruct (p y); cbn; rewrite <- (IH (S i) k x Hn Hp Hf); reflexivity.
Qed.

Lemma pick_In (r : list nat) n : r <> [] -> In (nth (Nat.modulo n (length r)) r 0) r.
Proof.
  intros Hne. apply nth_In. apply Nat.mod_upper_bound. destruct r; [congruence|cbn; lia].
Qed.

Lemma idx_from_length {A} (p : A -> bool) l : forall i, length (idx_from p i l) <= length l.
Proof.
  induction l as [|x l IH]; intros i; cbn; [lia|].
  destruct (p x); cbn; specialize (IH (S i)); lia.
Qed.

