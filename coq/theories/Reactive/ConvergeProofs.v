(** C02 / C09 at the level of statements: what the reachable-state invariant gives at an idle
    executor, what the ghost causes mean, and the witnesses of the repaired defects on the
    pre-fix variants of the model. *)
From Coq Require Import List ZArith Bool Arith Lia.
From LV Require Import Reactive.Graph Reactive.Effects Reactive.GraphLemmas Reactive.GraphInvariant
                       Reactive.GraphMarkProofs Reactive.GraphMarkOrigin Reactive.GraphQueueProofs
                       Reactive.GraphPullBase Reactive.GraphPullSteps
                       Reactive.GraphPullDefs Reactive.GraphPullEval Reactive.GraphPullRead
                       Reactive.GraphPullMemo Reactive.GraphPullProofs Reactive.GraphProofs
                       Reactive.EffectsProofs Reactive.EffectsRunProofs.
Import ListNotations.
Close Scope Z_scope.
Open Scope nat_scope.

Section P.
Variable p : prog.
Variable par : nat -> option nat.
Variable selw : nat -> bool.
Hypothesis wfp : wf_prog p.
Hypothesis nsf : no_self_feed p.

(* ---------------------------------------------------------------- C02: idle *)
(* the last run of effect e is consistent with the present: its log shows current values, the
   memos it tracked are Clean (hence consistent all the way down), nothing is pending; sources
   disposed since that run are exempt ([Lcur], [Lclean]: disposal is not a change) *)
Definition EffectConverged (s : state) (e : nat) : Prop :=
  hasrun p s e = true /\ edirty (getn s e) = false /\ eflag (getn s e) = false /\
  Lcur p s e /\ Lclean p s e /\
  (forall x v, In (x, v, true) (rlog (getn s e)) -> memob p x = true -> dead p s x = false ->
               ConsistentM p s x).

Lemma idle_effect_converged s e :
  Inv0 p s -> ready s = [] -> effb p e = true ->
  ealive (getn s e) = true -> epoll (getn s e) = false -> emissed (getn s e) = false ->
  EffectConverged s e.
Proof.
  intros I Hr He Ha Hp Hm.
  destruct (effb_decl p e He) as (k & b & h & Hde).
  pose proof (inv_queue _ _ _ _ I e) as Q. unfold queue_ok, queue_ok_n in Q. rewrite Hde in Q.
  destruct (Q Ha) as (Q1 & Q2). destruct (Q2 Hp) as (Qd & Qr & Qf & Qh).
  assert (Hreg : ereg (getn s e) = true).
  { destruct (ereg (getn s e)) eqn:E; auto. specialize (Qr eq_refl). rewrite Hr in Qr. destruct Qr. }
  assert (Hfl : eflag (getn s e) = false).
  { destruct (eflag (getn s e)) eqn:E; auto. rewrite (Qf eq_refl) in Hreg. discriminate. }
  assert (Hdi : edirty (getn s e) = false).
  { destruct (edirty (getn s e)) eqn:E; auto. destruct (Q1 eq_refl); congruence. }
  assert (Hh : hasrun_n (DEff k b h) (getn s e) = true).
  { destruct (hasrun_n (DEff k b h) (getn s e)) eqn:E; auto. rewrite (Qh eq_refl) in Hdi. discriminate. }
  destruct (inv_rest _ _ _ _ I e (fun x => x)) as (R1 & _ & R3 & R4 & _).
  assert (Hc : Lcur p s e).
  { apply R3. unfold needs_cur, needs_cur_n. rewrite Hde. auto. }
  assert (Hcl : Lclean p s e).
  { apply R4. unfold needs_clean, needs_clean_n. rewrite Hde. auto 10. }
  split; [unfold hasrun; rewrite Hde; exact Hh|]. split; auto. split; auto. split; auto. split; auto.
  intros x v Hx Hmx Hgx. apply clean_consistent; auto. eapply Hcl; eauto.
Qed.

Theorem idle_converged : forall ops e,
  wf_ops p ops -> let s := run_fixed p par selw ops in
  ready s = [] -> effb p e = true ->
  ealive (getn s e) = true -> epoll (getn s e) = false -> emissed (getn s e) = false ->
  EffectConverged s e.
Proof.
  intros ops e Hw s Hr He Ha Hp Hm. apply idle_effect_converged; auto.
  apply reachable_inv; auto.
Qed.

(* the same with "the case has not halted" instead of "the task is at rest" *)
Theorem idle_converged_all : forall ops e,
  wf_ops p ops -> let s := run_fixed p par selw ops in
  ready s = [] -> halted s = false -> effb p e = true ->
  ealive (getn s e) = true -> emissed (getn s e) = false ->
  EffectConverged s e.
Proof.
  intros ops e Hw s Hr Hh He Ha Hm. apply idle_converged; auto.
  destruct (reachable_at_rest p par selw wfp nsf ops Hw) as [H|H]; [unfold s in Hh; congruence|auto].
Qed.

(* ---------------------------------------------------------------- C09: what the ghost means *)
(* a cause is recorded for k exactly when k tracked the written / changed node in its last run *)
Lemma cause_only_if_tracked j s k :
  since (getn (add_cause j s) k) = since (getn s k) \/
  (In j (tracked_of (rlog (getn s k))) /\ since (getn (add_cause j s) k) = j :: since (getn s k)).
Proof.
  rewrite add_cause_since. destruct (tracks (getn s k) j) eqn:E; auto.
  right. split; auto. apply tracks_iff; auto.
Qed.

(* a run consumes every recorded cause *)
Lemma run_consumes_causes fr i s : i < nlen s -> since (getn (begin_run fr i s) i) = [].
Proof.
  intros Hi. rewrite begin_run_getn. rewrite Nat.eqb_refl. apply Nat.ltb_lt in Hi. rewrite Hi. reflexivity.
Qed.

(* the counter counts exactly the invocations, other than first ones, that found no cause *)
Lemma nocause_counts fr i s :
  nocause (begin_run fr i s) =
  if fr then nocause s else match since (getn s i) with [] => S (nocause s) | _ :: _ => nocause s end.
Proof. unfold begin_run. destruct fr; [reflexivity|]. destruct (since (getn s i)); reflexivity. Qed.

End P.

(* ---------------------------------------------------------------- outside the known class *)
(* the same statements for every program that is not in the class of finding F-C02-d *)
Theorem idle_converged_except_known : forall p par selw, wf_prog p -> ~ self_feeding p ->
  forall ops e, wf_ops p ops -> let s := run_fixed p par selw ops in
  ready s = [] -> halted s = false -> effb p e = true ->
  ealive (getn s e) = true -> emissed (getn s e) = false ->
  EffectConverged p s e.
Proof. intros p par selw W H. apply idle_converged_all; auto. apply not_self_feeding; auto. Qed.

Theorem no_causeless_run_except_known : forall p par selw, wf_prog p -> ~ self_feeding p ->
  forall ops, wf_ops p ops -> nocause (run_fixed p par selw ops) = 0.
Proof. intros p par selw W H. apply no_causeless_run; auto. apply not_self_feeding; auto. Qed.

Theorem reachable_inv_except_known : forall p par selw, wf_prog p -> ~ self_feeding p ->
  forall ops, wf_ops p ops -> Inv0 p (run_fixed p par selw ops).
Proof. intros p par selw W H. apply reachable_inv; auto. apply not_self_feeding; auto. Qed.

(* ---------------------------------------------------------------- witnesses on the pre-fix variants *)
Open Scope Z_scope.
(* F-C02-c / F-C09 shapes: s, m2 = s + s, m3 = (0 < m2) resp. s + untrack(m2), effect reads m3 then m2 *)
Definition p_lost : prog :=
  [DSig false 1; DMemo CNe (Add (Rd 0%nat) (Rd 0%nat)); DMemo CNe (Lt (Const 0) (Rd 1%nat));
   DEff EEffect (Add (Rd 2%nat) (Rd 1%nat)) (Const 0)].
Definition p_twice : prog :=
  [DSig false 1; DMemo CNe (Add (Rd 0%nat) (Rd 0%nat)); DMemo CNe (Add (Rd 0%nat) (Untr (Rd 1%nat)));
   DEff EEffect (Add (Rd 2%nat) (Rd 1%nat)) (Const 0)].
Definition ops_c : list op := [ORun; OWrite 0%nat 2; ORun].
(* F-C02-a: effect over a signal() pair, paused, written, resumed, written *)
Definition p_take : prog := [DSig true 1; DEff EEffect (Rd 0%nat) (Const 0)].
Definition ops_a : list op := [ORun; OPause 1%nat; OWrite 0%nat 2; ORun; OResume 1%nat; OWrite 0%nat 3; ORun].

Definition last_log (s : state) (e : nat) : list (nat * Z * bool) := rlog (getn s e).

(* before the fix the effect's last run still shows m2 = 2 while m2 is 4 *)
Example lost_update_prefix_refuted :
  let s := run_prefix_c p_lost no_par no_sel ops_c in
  ready s = [] /\ last_log s 3%nat = [(2%nat, 1, true); (1%nat, 2, true)] /\ cache (getn (fst (read_top p_lost 1%nat s)) 1%nat) = Some 4.
Proof. vm_compute. auto. Qed.
(* after the fix it re-ran *)
Example lost_update_fixed :
  let s := run_flat p_lost ops_c in
  ready s = [] /\ last_log s 3%nat = [(2%nat, 1, true); (1%nat, 4, true)].
Proof. vm_compute. auto. Qed.

(* before the fix one write runs the effect twice: one invocation without a cause *)
Example double_run_prefix_refuted : nocause (run_prefix_c p_twice no_par no_sel ops_c) = 1%nat.
Proof. vm_compute. reflexivity. Qed.
Example double_run_fixed : nocause (run_flat p_twice ops_c) = 0%nat.
Proof. vm_compute. reflexivity. Qed.

(* before the fix the paused effect is unsubscribed for good: the write after resume is lost *)
Example resume_prefix_refuted :
  let s := run_prefix_a p_take no_par no_sel ops_a in
  ready s = [] /\ last_log s 1%nat = [(0%nat, 1, true)] /\ sval (getn s 0%nat) = 3.
Proof. vm_compute. auto. Qed.
Example resume_fixed :
  let s := run_flat p_take ops_a in
  ready s = [] /\ last_log s 1%nat = [(0%nat, 3, true)].
Proof. vm_compute. auto. Qed.

(* F-C02-d (open): a self-feeding effect; it is in the class [self_feeding], and the model shows the
   stale entry the real code shows *)
Definition p_self : prog :=
  [DSig false 1; DMemo CNe (Rd 0%nat); DMemo CNe (Rd 1%nat);
   DEff EEffect (Add (Rd 1%nat) (Add (Ite (Lt (Rd 1%nat) (Const 5)) (Wr 0%nat (Const 5)) (Const 0)) (Rd 2%nat))) (Const 0)].
Example self_feeding_refuted :
  let s := run_flat p_self [ORead 2%nat; ORun] in
  ready s = [] /\ last_log s 3%nat = [(1%nat, 1, true); (1%nat, 1, true); (2%nat, 5, true)] /\
  cache (getn s 1%nat) = Some 5.
Proof. vm_compute. auto. Qed.

(* the hypotheses of the theorems are satisfiable by these non-trivial programs and histories *)
Example p_lost_wf : wf_prog p_lost /\ pure_effects p_lost /\ wf_ops p_lost ops_c.
Proof.
  split; [|split].
  - intros i Hi. do 4 (destruct i as [|i]; [cbn; repeat split; auto; lia|]). cbn in Hi. lia.
  - intros i k b h. do 4 (destruct i as [|i]; [cbn; intros E; inversion E; subst; cbn; repeat split; auto; lia|]).
    unfold decl_of. rewrite nth_overflow by (cbn; lia). discriminate.
  - repeat constructor.
Qed.
Example p_twice_wf : wf_prog p_twice /\ pure_effects p_twice /\ wf_ops p_twice ops_c.
Proof.
  split; [|split].
  - intros i Hi. do 4 (destruct i as [|i]; [cbn; repeat split; auto; lia|]). cbn in Hi. lia.
  - intros i k b h. do 4 (destruct i as [|i]; [cbn; intros E; inversion E; subst; cbn; repeat split; auto; lia|]).
    unfold decl_of. rewrite nth_overflow by (cbn; lia). discriminate.
  - repeat constructor.
Qed.

(* p_self is in the known class: its effect writes signal 0, which memo 1 (read by the effect) reads *)
Example p_self_is_self_feeding : self_feeding p_self.
Proof.
  exists 3%nat, EEffect, (Add (Rd 1%nat) (Add (Ite (Lt (Rd 1%nat) (Const 5)) (Wr 0%nat (Const 5)) (Const 0)) (Rd 2%nat))),
         (Const 0), 0%nat.
  split; [reflexivity|]. split.
  - left. cbn. tauto.
  - apply (dep_step p_self 3%nat 1%nat 0%nat).
    + unfold dep1; cbn. tauto.
    + apply dep_one. unfold dep1; cbn. reflexivity.
Qed.

(* effects that write, outside the known class: a relay.  Effect 2 copies a + 1 into b, effect 3
   reads b through a memo; after a write to a and a run to idle the last run of effect 3 shows
   the current value of the memo *)
Definition p_relay : prog :=
  [DSig false 1; DSig true 0; DEff EEffect (Wr 1%nat (Add (Rd 0%nat) (Const 1))) (Const 0);
   DMemo CNe (Add (Rd 1%nat) (Rd 1%nat)); DEff EEffect (Rd 3%nat) (Const 0)].
Definition ops_relay : list op := [ORun; OWrite 0%nat 5; ORun].

Example p_relay_wf : wf_prog p_relay /\ ~ self_feeding p_relay /\ wf_ops p_relay ops_relay.
Proof.
  split; [|split].
  - intros i Hi. do 5 (destruct i as [|i]; [cbn; repeat split; auto; lia|]). cbn in Hi. lia.
  - intros (i & k & b & h & x & Hd & Hw & Hdep).
    destruct i as [|[|[|[|[|i]]]]]; cbn in Hd; try discriminate.
    + (* effect 2 writes 1 and depends only on 0 *)
      inversion Hd; subst; cbn in Hw.
      assert (x = 1%nat) by (destruct Hw as [[?|[[]|[]]]|[]]; auto). subst x.
      inversion Hdep as [? ? H1|? y ? H1 H2]; subst.
      * unfold dep1 in H1; cbn in H1. destruct H1 as [[?|[]]|[]]; discriminate.
      * unfold dep1 in H1; cbn in H1. assert (y = 0%nat) by (destruct H1 as [[?|[]]|[]]; auto). subst y.
        inversion H2 as [? ? H3|? ? ? H3 _]; unfold dep1 in H3; cbn in H3; contradiction.
    + inversion Hd; subst; cbn in Hw. destruct Hw as [[]|[]].
    + destruct i; discriminate.
  - repeat constructor.
Qed.
Example relay_converges :
  let s := run_flat p_relay ops_relay in
  ready s = [] /\ halted s = false /\ sval (getn s 1%nat) = 6 /\
  last_log s 4%nat = [(3%nat, 12, true)] /\ last_log s 2%nat = [(0%nat, 5, true)].
Proof. vm_compute. auto. Qed.

