(** C20 — executable model of the ambient (thread-local) reactive state during concurrent
    server renders, and of the scoping wrappers that are supposed to isolate requests.

    Transcribed from:
      reactive_graph/src/owner.rs            OWNER thread-local, Owner::{new_root,set,with,child,unset},
                                             OwnerInner::drop / cleanup
      reactive_graph/src/owner/arena.rs      MAP (process-global, or thread-local per-root arena with
                                             `sandboxed-arenas`), Sandboxed::poll
      reactive_graph/src/owner/context.rs    provide_context / use_context (walk up the parents)
      reactive_graph/src/owner/arena_item.rs ArenaItem::new_with_storage (insert + register with OWNER)
      reactive_graph/src/graph/subscriber.rs OBSERVER thread-local, with_observer (always restored)
      reactive_graph/src/computed/async_derived/mod.rs   ScopedFuture::{new,poll}
      reactive_graph/src/lib.rs              spawn / spawn_local_scoped
      tachys/src/reactive_graph/{owned,suspense}.rs, leptos/src/{suspense_component,provider}.rs,
      leptos_server/src/{resource,once_resource}.rs      where the wrappers are applied ([compile])
      integrations/utils/src/lib.rs          build_response / from_app ([main_prog], [start])

    What the wrappers do, exactly as in the code:
      Owner::with(o, f)      save OWNER; OWNER := o; (sandboxed: MAP := o's arena); f; OWNER := saved
                             (the arena is NOT restored)
      ScopedFuture::poll     owner.with(|| observer.with_observer(|| inner.poll()))   (observer restored)
      Sandboxed::poll        MAP := captured arena; inner.poll()                       (nothing restored)
      Owner::new_root        creates the root and *sets* OWNER (and MAP) without restoring anything

    No proofs in this file. *)
From Coq Require Import List ZArith Bool Arith.
Import ListNotations.

(** * Identifiers *)
Definition rid := nat.                       (* request, 1-based; 0 = "no request" (orphan owners) *)
Definition oref := (rid * nat)%type.         (* an owner: its request and its index in that request's table *)
Definition handle := (nat * nat)%type.       (* an arena key, see [alloc_place] *)

Record owner := mkOwner {
  o_parent : option nat;                     (* parent owner, same request *)
  o_ctx : list (nat * Z);                    (* contexts provided on this owner: key -> value *)
  o_nodes : list handle;                     (* arena items registered for disposal *)
  o_cleanups : list Z                        (* on_cleanup closures (their ids) *)
}.

(** * Programs: what a task does when it is polled *)
Inductive wrap :=
| WCapture                                   (* ScopedFuture::new: captures OWNER/OBSERVER when first reached *)
| WCaptured (o : oref) (obs : option nat)    (* a ScopedFuture that already holds its owner *)
| WBare.                                     (* the bare future: no wrapper at all *)

Inductive act :=
| AProbe (p kind : nat) (slot : option nat)  (* ReadAmbientOwner + ReadContext 0 + ReadContext 1 (+ ReadItem slot), logged *)
| AProvide (k : nat) (v : Z)                 (* provide_context on the ambient owner *)
| AAlloc (slot : nat) (v : Z)                (* StoredValue::new / RwSignal::new: arena insert + register with ambient owner *)
| AOnCleanup (id : Z)                        (* on_cleanup on the ambient owner *)
| AFire (g : nat).                           (* complete an internal future (a resource has loaded) *)

Inductive instr :=
| IAct (a : act)
| IAwait (g : nat)                           (* Pending until future g of this request has completed *)
| IChild (body : list instr)                 (* let o = Owner::current().child(); o.with(|| body) *)
| IWith (o : oref) (body : list instr)       (* o.with(|| body); re-entered when the body is resumed *)
| IObs (s : nat) (body : list instr)         (* subscriber.with_observer(|| body) *)
| IScoped (w : wrap) (body : list instr)     (* an inner future behind wrapper w, awaited in place *)
| ISpawn (w : wrap) (body : list instr)      (* reactive_graph::spawn / spawn_local_scoped of a future behind w *)
| IDropRoot.                                 (* owner.unset(): last item of the response stream *)

Record task := mkTask {
  t_sb : option (option nat);                (* Sandboxed::new: the arena captured at creation *)
  t_prog : list instr
}.

(** logged by a probe: (probe, kind, request of the ambient owner, context 0, context 1, item) *)
Definition event := (nat * nat * nat * Z * Z * Z)%type.

Record reqst := mkReq {
  q_prog : list instr;                       (* the request's main program, installed by [init_world] *)
  q_ngates : nat;                            (* external futures 0 .. q_ngates-1 *)
  q_started : bool;
  q_dropped : bool;                          (* root owner dropped (and, sandboxed, its arena) *)
  q_owners : list owner;
  q_slots : list (nat * handle);             (* the request's own variables holding Copy handles *)
  q_tasks : list task;
  q_fired : list nat;
  q_cnt : nat;                               (* allocation counter, see [alloc_place] *)
  q_log : list event;
  q_clog : list (Z * nat)                    (* cleanup id, request whose root was being dropped *)
}.

Record ambient := mkAmb {
  a_owner : option oref;                     (* OWNER *)
  a_obs : option nat;                        (* OBSERVER *)
  a_arena : option nat                       (* MAP with sandboxed-arenas: the arena of which request *)
}.

Record world := mkWorld {
  w_reqs : rid -> reqst;                     (* request 0 is the orphan pseudo-request *)
  w_store : list ((nat * handle) * Z);       (* (arena, key) -> value; arena 0 = the process-global one *)
  w_panic : bool                             (* an arena access with no live arena (the code panics) *)
}.

Record cfg := mkCfg { c_w : world; c_amb : ambient }.

(** * Small helpers *)
Definition empty_req : reqst := mkReq [] 0 false false [] [] [] [] 0 [] [].
Definition get_req (r : rid) (w : world) : reqst := w_reqs w r.

Fixpoint set_nth {A} (n : nat) (x : A) (l : list A) : list A :=
  match l, n with
  | [], _ => []
  | _ :: t, O => x :: t
  | h :: t, S n => h :: set_nth n x t
  end.

Definition set_req (r : rid) (q : reqst) (w : world) : world :=
  mkWorld (fun x => if Nat.eqb x r then q else w_reqs w x) (w_store w) (w_panic w).
Definition set_store (s : list ((nat * handle) * Z)) (w : world) : world :=
  mkWorld (w_reqs w) s (w_panic w).
Definition set_panic (w : world) : world := mkWorld (w_reqs w) (w_store w) true.

Definition upd_owners (f : list owner -> list owner) (q : reqst) : reqst :=
  mkReq (q_prog q) (q_ngates q) (q_started q) (q_dropped q) (f (q_owners q)) (q_slots q) (q_tasks q)
        (q_fired q) (q_cnt q) (q_log q) (q_clog q).
Definition upd_tasks (f : list task -> list task) (q : reqst) : reqst :=
  mkReq (q_prog q) (q_ngates q) (q_started q) (q_dropped q) (q_owners q) (q_slots q) (f (q_tasks q))
        (q_fired q) (q_cnt q) (q_log q) (q_clog q).
Definition add_log (e : event) (q : reqst) : reqst :=
  mkReq (q_prog q) (q_ngates q) (q_started q) (q_dropped q) (q_owners q) (q_slots q) (q_tasks q)
        (q_fired q) (q_cnt q) (q_log q ++ [e]) (q_clog q).
Definition add_fired (g : nat) (q : reqst) : reqst :=
  mkReq (q_prog q) (q_ngates q) (q_started q) (q_dropped q) (q_owners q) (q_slots q) (q_tasks q)
        (g :: q_fired q) (q_cnt q) (q_log q) (q_clog q).
Definition add_slot (s : nat) (h : handle) (q : reqst) : reqst :=
  mkReq (q_prog q) (q_ngates q) (q_started q) (q_dropped q) (q_owners q) ((s, h) :: q_slots q) (q_tasks q)
        (q_fired q) (q_cnt q) (q_log q) (q_clog q).
Definition bump_cnt (q : reqst) : reqst :=
  mkReq (q_prog q) (q_ngates q) (q_started q) (q_dropped q) (q_owners q) (q_slots q) (q_tasks q)
        (q_fired q) (S (q_cnt q)) (q_log q) (q_clog q).

Definition upd_owner (i : nat) (f : owner -> owner) (os : list owner) : list owner :=
  match nth_error os i with
  | Some o => set_nth i (f o) os
  | None => os
  end.

Fixpoint assoc_nat {B} (k : nat) (l : list (nat * B)) : option B :=
  match l with
  | [] => None
  | (k', v) :: t => if Nat.eqb k k' then Some v else assoc_nat k t
  end.

Definition key_eqb (a b : nat * handle) : bool :=
  Nat.eqb (fst a) (fst b) && Nat.eqb (fst (snd a)) (fst (snd b)) && Nat.eqb (snd (snd a)) (snd (snd b)).

Fixpoint store_get (k : nat * handle) (s : list ((nat * handle) * Z)) : option Z :=
  match s with
  | [] => None
  | (k', v) :: t => if key_eqb k k' then Some v else store_get k t
  end.
Definition store_del (k : nat * handle) (s : list ((nat * handle) * Z)) :=
  filter (fun e => negb (key_eqb k (fst e))) s.
Definition store_del_arena (a : nat) (s : list ((nat * handle) * Z)) :=
  filter (fun e => negb (Nat.eqb a (fst (fst e)))) s.

(** * Reads of the ambient state *)
(** an owner can be reached from OWNER (a Weak) only while its request's root is alive *)
Definition owner_live (w : world) (o : oref) : bool :=
  let q := get_req (fst o) w in
  negb (q_dropped q) && Nat.ltb (snd o) (length (q_owners q)).

Definition cur_owner (c : cfg) : option oref :=
  match a_owner (c_amb c) with
  | Some o => if owner_live (c_w c) o then Some o else None
  | None => None
  end.

(** use_context: this owner, then its ancestors *)
Fixpoint ctx_walk (fuel : nat) (os : list owner) (i : nat) (k : nat) : option Z :=
  match fuel with
  | O => None
  | S fuel =>
      match nth_error os i with
      | None => None
      | Some o =>
          match assoc_nat k (o_ctx o) with
          | Some v => Some v
          | None => match o_parent o with
                    | Some p => ctx_walk fuel os p k
                    | None => None
                    end
          end
      end
  end.

Definition read_ctx (c : cfg) (k : nat) : Z :=
  match cur_owner c with
  | Some o =>
      let os := q_owners (get_req (fst o) (c_w c)) in
      match ctx_walk (S (length os)) os (snd o) k with Some v => v | None => (-1)%Z end
  | None => (-1)%Z
  end.

(** Owner::current() mapped to its request: 0 = none, 99 = an owner of no request *)
Definition read_owner_req (c : cfg) : nat :=
  match cur_owner c with
  | Some o => if Nat.eqb (fst o) 0 then 99 else fst o
  | None => 0
  end.

(** which arena an access made now goes to: the global one (0), or MAP's (None = no live arena) *)
Definition cur_arena (sb : bool) (c : cfg) : option nat :=
  if sb then
    match a_arena (c_amb c) with
    | Some a => if q_dropped (get_req a (c_w c)) then None else Some a
    | None => None
    end
  else Some 0.

Definition read_handle (sb : bool) (c : cfg) (h : handle) : Z :=
  match cur_arena sb c with
  | Some a => match store_get (a, h) (w_store (c_w c)) with Some v => v | None => (-1)%Z end
  | None => (-1)%Z
  end.

Definition read_item (sb : bool) (me : rid) (c : cfg) (slot : nat) : Z :=
  match assoc_nat slot (q_slots (get_req me (c_w c))) with
  | Some h => read_handle sb c h
  | None => (-2)%Z
  end.

(** the owner that provide_context / on_cleanup / arena registration write to.  Owners of the
    orphan table stand for *fresh* default owners: nothing written to one is ever read back *)
Definition write_owner (c : cfg) : option oref :=
  match cur_owner c with
  | Some o => if Nat.eqb (fst o) 0 then None else Some o
  | None => None
  end.

(** * Actions *)
(** Where an allocation goes and how its key is named.  The process-global SlotMap hands out
    keys that are never valid twice (index + version): modelled as (allocating request, n-th
    allocation of that request) in arena 0.  A sandboxed arena is a private SlotMap per root:
    two requests that allocate in the same order get the *same* keys, so the key is
    (0, n-th allocation in that arena) and the arena is whatever MAP points to. *)
Definition alloc_place (sb : bool) (me : rid) (c : cfg) : option (nat * nat) :=   (* arena, counter owner *)
  if sb then match cur_arena sb c with Some a => Some (a, a) | None => None end
  else Some (0, me).

Definition with_w (c : cfg) (w : world) : cfg := mkCfg w (c_amb c).
Definition with_amb (c : cfg) (a : ambient) : cfg := mkCfg (c_w c) a.
Definition upd_req (r : rid) (f : reqst -> reqst) (c : cfg) : cfg :=
  with_w c (set_req r (f (get_req r (c_w c))) (c_w c)).

Definition do_act (sb : bool) (me : rid) (a : act) (c : cfg) : cfg :=
  match a with
  | AProbe p kind slot =>
      let item := match slot with Some s => read_item sb me c s | None => (-9)%Z end in
      (* kind 2 = a reactive closure, called when the view is rendered: which of the request's
         own owners is current then depends on intra-request timing (an already resolved
         Suspend is rendered in place, a pending one later by the response stream under the
         root owner); the abstract trace does not record context 1 for it *)
      let t1 := if Nat.eqb kind 2 then (-5)%Z else read_ctx c 1 in
      upd_req me (add_log (p, kind, read_owner_req c, read_ctx c 0, t1, item)) c
  | AProvide k v =>
      match write_owner c with
      | Some o => upd_req (fst o) (upd_owners (upd_owner (snd o)
                    (fun ow => mkOwner (o_parent ow) ((k, v) :: o_ctx ow) (o_nodes ow) (o_cleanups ow)))) c
      | None => c
      end
  | AAlloc slot v =>
      match alloc_place sb me c with
      | None => with_w c (set_panic (c_w c))
      | Some (arena, cnt_of) =>
          let n := q_cnt (get_req cnt_of (c_w c)) in
          let h : handle := (if sb then 0 else me, n) in
          let c := upd_req cnt_of bump_cnt c in
          let c := with_w c (set_store (((arena, h), v) :: w_store (c_w c)) (c_w c)) in
          let c := upd_req me (add_slot slot h) c in
          match write_owner c with
          | Some o => upd_req (fst o) (upd_owners (upd_owner (snd o)
                        (fun ow => mkOwner (o_parent ow) (o_ctx ow) (h :: o_nodes ow) (o_cleanups ow)))) c
          | None => c
          end
      end
  | AOnCleanup id =>
      match write_owner c with
      | Some o => upd_req (fst o) (upd_owners (upd_owner (snd o)
                    (fun ow => mkOwner (o_parent ow) (o_ctx ow) (o_nodes ow) (id :: o_cleanups ow)))) c
      | None => c
      end
  | AFire g => upd_req me (add_fired g) c
  end.

(** dropping the root owner of request r: every owner of the tree is cleaned up (cleanups run,
    registered arena items removed); with sandboxed arenas the items are removed from the
    owner's *own* arena, which then dies with the root *)
Definition drop_req (sb : bool) (r : rid) (c : cfg) : cfg :=
  let w := c_w c in
  let q := get_req r w in
  if q_dropped q then c else
  let ids := flat_map o_cleanups (q_owners q) in
  let nodes := flat_map o_nodes (q_owners q) in
  let arena := if sb then r else 0 in
  let store := fold_left (fun s h => store_del (arena, h) s) nodes (w_store w) in
  let store := if sb then store_del_arena r store else store in
  let q' := mkReq (q_prog q) (q_ngates q) (q_started q) true (q_owners q) (q_slots q) (q_tasks q)
                  (q_fired q) (q_cnt q) (q_log q)
                  (q_clog q ++ map (fun id => (id, r)) ids) in
  (* owner.unset(): OWNER is cleared only if it is this very owner *)
  let amb := c_amb c in
  let amb' := match a_owner amb with
              | Some o => if Nat.eqb (fst o) r && Nat.eqb (snd o) 0
                          then mkAmb None (a_obs amb) (a_arena amb) else amb
              | None => amb
              end in
  mkCfg (set_store store (set_req r q' w)) amb'.

(** Owner::with, entering *)
Definition enter_owner (sb : bool) (o : oref) (c : cfg) : cfg :=
  let amb := c_amb c in
  with_amb c (mkAmb (Some o) (a_obs amb) (if sb then Some (fst o) else a_arena amb)).
(** Owner::with, leaving: OWNER := saved; MAP stays *)
Definition leave_owner (saved : option oref) (c : cfg) : cfg :=
  let amb := c_amb c in with_amb c (mkAmb saved (a_obs amb) (a_arena amb)).
Definition set_obs (s : option nat) (c : cfg) : cfg :=
  let amb := c_amb c in with_amb c (mkAmb (a_owner amb) s (a_arena amb)).

(** Owner::current().unwrap_or_default() when OWNER is empty: a fresh owner of no request *)
Definition orphan : oref := (0, 0).

(** Owner::new() / Owner::current().child(): a child of the current owner; if OWNER holds a dead
    Weak (its request's root was dropped) or nothing, a parent-less owner.  A parent-less owner
    made while OWNER pointed into request x is book-kept in x's table (it is unreachable from
    anything of x and dies with x); one made with OWNER empty goes to the orphan table 0. *)
Definition new_child (c : cfg) : cfg * oref :=
  let x := match a_owner (c_amb c) with Some o => fst o | None => 0 end in
  let parent := match cur_owner c with Some o => Some (snd o) | None => None end in
  let q := get_req x (c_w c) in
  (upd_req x (upd_owners (fun os => os ++ [mkOwner parent [] [] []])) c, (x, length (q_owners q))).

(** ScopedFuture::new: Owner::current().unwrap_or_default() and Observer::get() *)
Definition resolve_wrap (w : wrap) (c : cfg) : wrap :=
  match w with
  | WCapture => WCaptured (match a_owner (c_amb c) with Some o => o | None => orphan end) (a_obs (c_amb c))
  | _ => w
  end.

Definition fired (me : rid) (g : nat) (c : cfg) : bool :=
  existsb (Nat.eqb g) (q_fired (get_req me (c_w c))).

(** * One poll of a future *)
(** [exec i c] runs instruction [i] of a task of request [me]; [None] = completed,
    [Some i'] = returned Pending, [i'] is what is left to do at the next poll.  Every wrapper
    that was entered is left again before Pending is returned. *)
Section Exec.
Variable sb : bool.
Variable me : rid.

Definition block (mk : list instr -> instr) (r : cfg * list instr) : cfg * option instr :=
  match snd r with [] => (fst r, None) | rest => (fst r, Some (mk rest)) end.

Fixpoint exec (i : instr) (c : cfg) {struct i} : cfg * option instr :=
  let exec_list :=
    fix exec_list (l : list instr) (c : cfg) {struct l} : cfg * list instr :=
      match l with
      | [] => (c, [])
      | i :: l' =>
          match exec i c with
          | (c', None) => exec_list l' c'
          | (c', Some i') => (c', i' :: l')
          end
      end in
  match i with
  | IAct a => (do_act sb me a c, None)
  | IAwait g => if fired me g c then (c, None) else (c, Some (IAwait g))
  | IChild body =>
      let c1 := fst (new_child c) in
      let o := snd (new_child c) in
      let saved := a_owner (c_amb c1) in
      let r := exec_list body (enter_owner sb o c1) in
      block (IWith o) (leave_owner saved (fst r), snd r)
  | IWith o body =>
      let saved := a_owner (c_amb c) in
      let r := exec_list body (enter_owner sb o c) in
      block (IWith o) (leave_owner saved (fst r), snd r)
  | IObs s body =>
      let saved := a_obs (c_amb c) in
      let r := exec_list body (set_obs (Some s) c) in
      block (IObs s) (set_obs saved (fst r), snd r)
  | IScoped w body =>
      match resolve_wrap w c with
      | WCaptured o obs =>
          let saved_o := a_owner (c_amb c) in
          let saved_s := a_obs (c_amb c) in
          let r := exec_list body (set_obs obs (enter_owner sb o c)) in
          block (IScoped (WCaptured o obs)) (set_obs saved_s (leave_owner saved_o (fst r)), snd r)
      | _ => block (IScoped WBare) (exec_list body c)
      end
  | ISpawn w body =>
      (* the wrapper (if any) captures now; Sandboxed::new captures MAP now *)
      let t := mkTask (if sb then Some (a_arena (c_amb c)) else None) [IScoped (resolve_wrap w c) body] in
      (upd_req me (upd_tasks (fun ts => ts ++ [t])) c, None)
  | IDropRoot => (drop_req sb me c, None)
  end.

Fixpoint exec_list (l : list instr) (c : cfg) {struct l} : cfg * list instr :=
  match l with
  | [] => (c, [])
  | i :: l' =>
      match exec i c with
      | (c', None) => exec_list l' c'
      | (c', Some i') => (c', i' :: l')
      end
  end.
End Exec.

(** polling task [t] of request [r] once, from whatever the ambient state currently is *)
Definition poll_task (sb : bool) (r : rid) (t : nat) (c : cfg) : cfg :=
  match nth_error (q_tasks (get_req r (c_w c))) t with
  | None => c
  | Some tk =>
      let c1 := match t_sb tk with
                | Some a => if sb then with_amb c (mkAmb (a_owner (c_amb c)) (a_obs (c_amb c)) a) else c
                | None => c
                end in
      let (c2, rest) := exec_list sb r (t_prog tk) c1 in
      upd_req r (upd_tasks (set_nth t (mkTask (t_sb tk) rest))) c2
  end.

(** * Requests and the scheduler *)
(** build_response: Owner::new_root (sets OWNER and MAP, restores nothing) and the request's
    top-level task, which is wrapped in Sandboxed only *)
Definition start (sb : bool) (r : rid) (c : cfg) : cfg :=
  let q := get_req r (c_w c) in
  if q_started q || Nat.eqb r 0 then c else
  let q' := mkReq (q_prog q) (q_ngates q) true false [mkOwner None [] [] []] [] [mkTask (Some (Some r)) (q_prog q)]
                  [] 0 [] [] in
  let amb := c_amb c in
  mkCfg (set_req r q' (c_w c)) (mkAmb (Some (r, 0)) (a_obs amb) (if sb then Some r else a_arena amb)).

Inductive sev :=
| SStart (r : rid)                 (* a request arrives *)
| SFire (r : rid) (g : nat)        (* an external future of r completes (I/O), no code of r runs *)
| SPoll (r : rid) (t : nat).       (* the executor polls task t of r *)

Definition sev_req (e : sev) : rid :=
  match e with SStart r | SFire r _ | SPoll r _ => r end.

Definition step (sb : bool) (e : sev) (c : cfg) : cfg :=
  match e with
  | SStart r => start sb r c
  | SFire r g => if q_started (get_req r (c_w c)) then upd_req r (add_fired g) c else c
  | SPoll r t => poll_task sb r t c
  end.

Definition run_sched (sb : bool) (s : list sev) (c : cfg) : cfg := fold_left (fun c e => step sb e c) s c.

Definition orphan_req : reqst := mkReq [] 0 false false [mkOwner None [] [] []] [] [] [] 0 [] [].
Definition init_world (progs : list (list instr * nat)) : cfg :=
  mkCfg (mkWorld (fun r => match r with
                           | O => orphan_req
                           | S k => match nth_error progs k with
                                    | Some pg => mkReq (fst pg) (snd pg) false false [] [] [] [] 0 [] []
                                    | None => empty_req
                                    end
                           end)
                 [] false)
        (mkAmb None None None).

(** * The view grammar of the harness and how the code wraps each construct *)
Inductive view :=
| VText
| VLeaf (p : nat)
| VDyn (p : nat)
| VEl (c : view)
| VSeq (cs : list view)
| VProvide (v : Z) (c : view)
| VSuspend (g p : nat) (c : view)
| VSuspense (fb c : view)
| VResource (kind g p1 p2 p3 : nat) (c : view)
| VCleanup (id : Z) (c : view)
| VAlloc (slot : nat) (c : view)
| VItem (p slot : nat)
| VDynL (p : nat).                           (* a reactive closure where the rendering owner is the lexical one *)

Definition K_LEAF := 1. Definition K_DYN := 2. Definition K_ASYNC := 3.
Definition K_PRE := 4. Definition K_POST := 5. Definition K_ITEM := 6. Definition K_DYNL := 7.
Definition FINAL_GATE := 999.
Definition CANARY_SLOT := 999.

(** A reactive closure (VDyn) is called when the view is *rendered*: in place under the
    lexically enclosing owner (Provider and Suspense render their children through OwnedView),
    or — the view a pending Suspend outside any Suspense resolves to — by the response stream,
    i.e. (since the build_response repair) under the request's root owner.  Both are owners of
    the same request; the model uses the lexical one. *)
Fixpoint compile (r : rid) (v : view) {struct v} : list instr :=
  match v with
  | VText => []
  | VLeaf p => [IAct (AProbe p K_LEAF None)]
  | VDyn p => [IAct (AProbe p K_DYN None)]
  | VEl c => compile r c
  | VSeq cs => flat_map (compile r) cs
  | VProvide v c =>
      [IChild (IAct (AProvide 1 (1000 * Z.of_nat r + v)) :: compile r c)]
  | VSuspend g p c =>
      (* Suspend::new: any_subscriber.with_observer(|| ScopedFuture::new(fut)) *)
      [IObs p [IScoped WCapture (IAwait g :: IAct (AProbe p K_ASYNC None)
                                   :: compile r c)]]
  | VSuspense fb c =>
      [IChild (compile r fb ++ compile r c)]
  | VResource kind g p1 p2 p3 c =>
      let reader := [IObs p3 [IScoped WCapture (IAwait (1000 + p2) :: IAct (AProbe p3 K_ASYNC None)
                                                  :: compile r c)]] in
      match kind with
      | O => (* ArcAsyncDerived: Owner::new(), fetcher future created and first polled under it,
                then driven by a spawned task *)
          IChild [IAct (AProbe p1 K_PRE None);
                  ISpawn WCapture [IAwait g; IAct (AProbe p2 K_POST None); IAct (AFire (1000 + p2))]]
          :: reader
      | _ => (* OnceResource: ScopedFuture::new(fut) handed to reactive_graph::spawn *)
          ISpawn WCapture [IAct (AProbe p1 K_PRE None); IAwait g; IAct (AProbe p2 K_POST None);
                           IAct (AFire (1000 + p2))]
          :: reader
      end
  | VCleanup id c => IAct (AOnCleanup id) :: compile r c
  | VAlloc slot c => IAct (AAlloc slot (10000 * Z.of_nat r + Z.of_nat slot)) :: compile r c
  | VItem p slot => [IAct (AProbe p K_ITEM (Some slot))]
  | VDynL p => [IAct (AProbe p K_DYNL None)]
  end.

(** the request's top-level task: handler future, then the response body.  Everything that
    renders runs inside `owner.with` / `WithOwner` of the root; the last stream item drops it. *)
Definition main_prog (r : rid) (v : view) : list instr :=
  [IWith (r, 0)
     (IAct (AProvide 0 (100 + Z.of_nat r)) :: IAct (AAlloc CANARY_SLOT (500 + Z.of_nat r))
      :: compile r v ++ [IObs 0 [IScoped WCapture [IAwait FINAL_GATE]]]);
   IDropRoot].

Fixpoint mapi_from {A B} (i : nat) (f : nat -> A -> B) (l : list A) : list B :=
  match l with [] => [] | x :: t => f i x :: mapi_from (S i) f t end.

Fixpoint max_gate (v : view) : nat :=
  match v with
  | VEl c | VProvide _ c | VCleanup _ c | VAlloc _ c => max_gate c
  | VSeq cs => fold_right (fun c m => Nat.max (max_gate c) m) 0 cs
  | VSuspend g _ c => Nat.max (S g) (max_gate c)
  | VSuspense fb c => Nat.max (max_gate fb) (max_gate c)
  | VResource _ g _ _ _ c => Nat.max (S g) (max_gate c)
  | _ => 0
  end.

(** the programs (and numbers of external futures) of the requests of a harness case *)
Definition harness_progs (views : list view) : list (list instr * nat) :=
  mapi_from 1 (fun r v => (main_prog r v, max_gate v)) views.

(** * The coarse actions of the harness, as functions on configurations *)
Fixpoint poll_range (sb : bool) (r : rid) (n : nat) (from : nat) (c : cfg) : cfg :=
  match n with
  | O => c
  | S n => poll_range sb r n (S from) (poll_task sb r from c)
  end.
(** one round: every task the request has at the beginning of the round, in order *)
Definition poll_round (sb : bool) (r : rid) (c : cfg) : cfg :=
  poll_range sb r (length (q_tasks (get_req r (c_w c)))) 0 c.
Fixpoint run_req (sb : bool) (rounds : nat) (r : rid) (c : cfg) : cfg :=
  match rounds with
  | O => c
  | S k => run_req sb k r (poll_round sb r c)
  end.

Fixpoint size_instr (i : instr) : nat :=
  let size_list := fix size_list (l : list instr) : nat :=
    match l with [] => 0 | i :: l => size_instr i + size_list l end in
  match i with
  | IChild b | IWith _ b | IObs _ b | IScoped _ b | ISpawn _ b => S (size_list b)
  | _ => 1
  end.
Definition size_prog (l : list instr) : nat := fold_right (fun i n => size_instr i + n) 0 l.

Inductive coarse :=
| CStart (r : rid) | CFire (r : rid) (g : nat) | CRun (r : rid) | CFinish (r : rid)
| CCreate (r : rid).      (* build_response only: the root owner exists, nothing has been polled yet *)

Definition coarse_req (a : coarse) : rid :=
  match a with CStart r | CFire r _ | CRun r | CFinish r | CCreate r => r end.

Definition rounds_for (r : rid) (c : cfg) : nat := S (S (size_prog (q_prog (get_req r (c_w c))))).

Fixpoint fire_all (r : rid) (n : nat) (c : cfg) : cfg :=
  match n with
  | O => c
  | S n => upd_req r (add_fired n) (fire_all r n c)
  end.

Definition apply_coarse (sb : bool) (a : coarse) (c : cfg) : cfg :=
  let q := get_req (coarse_req a) (c_w c) in
  match a with
  | CStart r => if q_started q then c else poll_task sb r 0 (start sb r c)
  | CCreate r => if q_started q then c else start sb r c
  | CFire r g =>
      if q_started q && Nat.ltb g (q_ngates q) && negb (existsb (Nat.eqb g) (q_fired q))
      then upd_req r (add_fired g) c else c
  | CRun r => if q_started q && negb (q_dropped q) then run_req sb (rounds_for r c) r c else c
  | CFinish r =>
      if q_started q && negb (q_dropped q) then
        let c := upd_req r (add_fired FINAL_GATE) (fire_all r (q_ngates q) c) in
        run_req sb (rounds_for r c) r c
      else c
  end.
