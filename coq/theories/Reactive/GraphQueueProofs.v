(** The channel / waker / run-queue discipline of effects ([queue_ok]) is preserved by every
    kind of marking. *)
From Coq Require Import List ZArith Bool Arith Lia.
From LV Require Import Reactive.Graph Reactive.GraphLemmas Reactive.GraphInvariant
                       Reactive.GraphMarkProofs.
Import ListNotations.
Close Scope Z_scope.
Open Scope nat_scope.

Section P.
Variable p : prog.
Notation queue_ok := (queue_ok p).

Definition QueueAll (s : state) : Prop := forall e, queue_ok s e.

Lemma in_enqueue i s x : In x (ready s) -> In x (ready (enqueue i s)).
Proof. unfold enqueue. destruct (existsb _ _); auto. cbn. rewrite in_app_iff; auto. Qed.

Lemma in_enqueue_self i s : In i (ready (enqueue i s)).
Proof.
  unfold enqueue. destruct (existsb (Nat.eqb i) (ready s)) eqn:E.
  - apply existsb_exists in E as (x & Hx & Hix). apply Nat.eqb_eq in Hix. subst; auto.
  - cbn. rewrite in_app_iff. right; left; auto.
Qed.

(* changing fields the discipline does not look at, on any node *)
Lemma queue_ok_updn_view i f s e :
  (forall n, nview_eq n (f n)) -> queue_ok s e -> queue_ok (updn i f s) e.
Proof.
  intros Hf H. unfold GraphInvariant.queue_ok in *. rewrite ready_updn.
  destruct (getn_updn_cases i f s e) as [[-> E]|E]; rewrite E; auto.
  eapply queue_ok_view; eauto.
Qed.

(* the notified effect: flag up, waker taken and task queued if it was registered *)
Lemma notify_self_ok (d : decl) (n : node) (rdy rdy' : list nat) (i : nat) (dirty' : bool) :
  queue_ok_n rdy i d n ->
  (forall x, In x rdy -> In x rdy') ->
  (ereg n = true -> In i rdy') ->
  queue_ok_n rdy' i d
    (set_ereg (set_eflag (set_edirty n (dirty' || edirty n)) true) false).
Proof.
  unfold queue_ok_n, hasrun_n. destruct d as [| | |k b h]; auto. nsimpl.
  intros Q Hsub Hreg Hal. destruct (Q Hal) as (Q1 & Q2).
  split; [intros _; left; reflexivity|].
  intros Hp. destruct (Q2 Hp) as (Hd & Hr & Hf & Hh).
  split; auto. split.
  - intros _. destruct (ereg n) eqn:Er; auto.
  - split; auto. intros Hh'. rewrite (Hh Hh'). apply orb_true_r.
Qed.

Lemma eff_notify_queue i s : QueueAll s -> QueueAll (eff_notify i s).
Proof.
  intros Q e. specialize (Q e). unfold GraphInvariant.queue_ok in *.
  unfold eff_notify. destruct (ealive (getn s i)) eqn:Ha; auto.
  set (s1 := updn i (fun n => set_eflag n true) s).
  destruct (Nat.lt_ge_cases i (nlen s)) as [Hi|Hi].
  2:{ rewrite getn_oob in Ha by auto. discriminate. }
  assert (E1 : getn s1 i = set_eflag (getn s i) true) by (apply getn_updn_same; auto).
  destruct (Nat.eq_dec e i) as [->|Hei].
  - destruct (ereg (getn s1 i)) eqn:Er.
    + rewrite getn_enqueue, getn_updn_same by (unfold s1; rewrite nlen_updn; auto). rewrite E1.
      pose proof (notify_self_ok (decl_of p i) (getn s i) (ready s)
                   (ready (enqueue i (updn i (fun n => set_ereg n false) s1))) i false Q) as H.
      cbn [orb] in H.
      assert (En : set_ereg (set_eflag (set_edirty (getn s i) (edirty (getn s i))) true) false
                   = set_ereg (set_eflag (getn s i) true) false) by (destruct (getn s i); reflexivity).
      rewrite En in H. apply H.
      * intros x Hx. apply in_enqueue. unfold s1. rewrite !ready_updn. exact Hx.
      * intros _. apply in_enqueue_self.
    + rewrite E1. rewrite E1 in Er. nsimpl.
      unfold queue_ok_n, hasrun_n in *. destruct (decl_of p i) as [| | |k b h]; auto. nsimpl.
      intros Hal. destruct (Q Hal) as (Q1 & Q2). split; [intros _; left; reflexivity|].
      intros Hp. destruct (Q2 Hp) as (Hd & Hr & Hf & Hh). unfold s1. rewrite ready_updn.
      split; [auto|]. split; [auto|]. split; [intros _; exact Er|auto].
  - assert (En : getn s1 e = getn s e) by (unfold s1; apply getn_updn_other; auto).
    destruct (ereg (getn s1 i)).
    + rewrite getn_enqueue, getn_updn_other by auto. rewrite En.
      unfold queue_ok_n in *. destruct (decl_of p e); auto. intros Hal.
      destruct (Q Hal) as (Q1 & Q2). split; auto. intros Hp. destruct (Q2 Hp) as (Hd & Hr & Hrest).
      split; auto. split; auto.
      intros Hr'. apply in_enqueue. unfold s1. rewrite !ready_updn. auto.
    + rewrite En. unfold s1. rewrite ready_updn. exact Q.
Qed.

Lemma eff_mark_dirty_queue i s : QueueAll s -> QueueAll (eff_mark_dirty i s).
Proof.
  intros Q. unfold eff_mark_dirty. destruct (ealive (getn s i)) eqn:Ha; auto.
  intros e. unfold GraphInvariant.queue_ok.
  set (s0 := updn i (fun n => set_edirty n true) s).
  destruct (Nat.lt_ge_cases i (nlen s)) as [Hi|Hi].
  2:{ rewrite getn_oob in Ha by auto. discriminate. }
  assert (E0 : getn s0 i = set_edirty (getn s i) true) by (apply getn_updn_same; auto).
  assert (Ha0 : ealive (getn s0 i) = true) by (rewrite E0; exact Ha).
  unfold eff_notify. rewrite Ha0.
  set (s1 := updn i (fun n => set_eflag n true) s0).
  assert (E1 : getn s1 i = set_eflag (set_edirty (getn s i) true) true).
  { unfold s1. rewrite getn_updn_same by (unfold s0; rewrite nlen_updn; auto). rewrite E0. reflexivity. }
  specialize (Q e). unfold GraphInvariant.queue_ok in Q.
  destruct (Nat.eq_dec e i) as [->|Hei].
  - destruct (ereg (getn s1 i)) eqn:Er.
    + rewrite getn_enqueue, getn_updn_same by (unfold s1, s0; rewrite !nlen_updn; auto). rewrite E1.
      pose proof (notify_self_ok (decl_of p i) (getn s i) (ready s)
                   (ready (enqueue i (updn i (fun n => set_ereg n false) s1))) i true Q) as H.
      cbn [orb] in H. apply H.
      * intros x Hx. apply in_enqueue. unfold s1, s0. rewrite !ready_updn. exact Hx.
      * intros _. apply in_enqueue_self.
    + rewrite E1. rewrite E1 in Er. nsimpl.
      unfold queue_ok_n, hasrun_n in *. destruct (decl_of p i) as [| | |k b h]; auto. nsimpl.
      intros Hal. destruct (Q Hal) as (Q1 & Q2). split; [intros _; left; reflexivity|].
      intros Hp. destruct (Q2 Hp) as (Hd & Hr & Hf & Hh). unfold s1, s0. rewrite !ready_updn.
      split; [auto|]. split; [auto|]. split; [intros _; exact Er|intros _; reflexivity].
  - assert (En : getn s1 e = getn s e).
    { unfold s1, s0. rewrite !getn_updn_other; auto. }
    destruct (ereg (getn s1 i)).
    + rewrite getn_enqueue, getn_updn_other by auto. rewrite En.
      unfold queue_ok_n in *. destruct (decl_of p e); auto. intros Hal.
      destruct (Q Hal) as (Q1 & Q2). split; auto. intros Hp. destruct (Q2 Hp) as (Hd & Hr & Hrest).
      split; auto. split; auto.
      intros Hr'. apply in_enqueue. unfold s1, s0. rewrite !ready_updn. auto.
    + rewrite En. unfold s1, s0. rewrite !ready_updn. exact Q.
Qed.

Lemma fold_queue (g : nat -> state -> state) l :
  (forall x a, QueueAll a -> QueueAll (g x a)) ->
  forall s, QueueAll s -> QueueAll (fold_left (fun a k => g k a) l s).
Proof. intros Hg. induction l as [|x t IH]; intros s Q; cbn; auto. Qed.

Lemma st_updn_queue i f s : (forall n, qview_eq n (f n)) -> QueueAll s -> QueueAll (updn i f s).
Proof.
  intros Hf Q e. specialize (Q e). unfold GraphInvariant.queue_ok in *. rewrite ready_updn.
  destruct (getn_updn_cases i f s e) as [[_ E]|E]; rewrite E; auto.
  eapply queue_ok_qview; eauto.
Qed.

Lemma mark_check_queue f : forall i s, QueueAll s -> QueueAll (mark_check p f i s).
Proof.
  induction f as [|f IH]; intros i s Q; cbn [mark_check].
  - intros e. exact (Q e).
  - destruct (decl_of p i); auto.
    + apply fold_queue; auto.
      destruct (nstate_eqb _ _); auto.
      apply st_updn_queue; auto. intros n. unfold qview_eq; nsimpl; intuition.
    + apply eff_notify_queue; auto.
Qed.

Lemma mark_dirty_queue i s : QueueAll s -> QueueAll (mark_dirty p i s).
Proof.
  intros Q. unfold mark_dirty. destruct (decl_of p i); auto.
  - apply fold_queue; [intros; apply mark_check_queue; auto|].
    apply st_updn_queue; auto. intros n. unfold qview_eq; nsimpl; intuition.
  - apply eff_mark_dirty_queue; auto.
Qed.

Lemma mark_dirty_list_queue (skip : nat -> bool) l s :
  QueueAll s -> QueueAll (fold_left (fun a k => if skip k then a else mark_dirty p k a) l s).
Proof.
  apply (fold_queue (fun k a => if skip k then a else mark_dirty p k a)).
  intros x a Q. destruct (skip x); auto. apply mark_dirty_queue; auto.
Qed.

End P.
