(** Executable model of effects on top of [Graph]: effect/inner.rs (EffectInner as a
    subscriber: dirty flag + one-slot channel), channel.rs (flag [set] + AtomicWaker),
    effect/effect.rs ([Effect::new], [new_isomorphic], [watch]: the task loop),
    effect/render_effect.rs (first run at creation), owner.rs (pause / resume / disposal over a
    TREE of owners: [Owner::pause] / [resume] walk the children lists and set the flag of every
    descendant; the flag an effect looks at is the one of its own innermost owner; [cleanup]
    cleans the children first, then drops the owner's own arena nodes),
    and the executor as an explicit run queue: a schedule is the list of [OTick k] / [ORun]
    operations of the history, any order, partial progress.

    The owner tree is static: [par e = Some q] says that the owner effect [e] was created under
    is a child of the owner effect [q] was created under ([None]: a child of the root).

    computed/selector.rs is modelled by a program transformation (see GraphRun.v): a Selector
    is a value cell, a cell for the previous value, one trigger signal per key and an internal
    RenderEffect that stores the new value and writes the triggers of the affected keys.  The
    real selector walks its keys in FxHashMap order, which the model does not know: the tasks
    woken by one poll of such an internal effect ([selw e = true]) are put into the run queue in
    index order, by the model and by the harness-owned executor alike ([canon_wakes]).

    One poll of the task of effect [i] is the loop of effect.rs:

      while rx.next().await.is_some() {            // registers the waker, consumes the flag
          if !owner.paused() && (subscriber.update_if_necessary() || first_run) {
              first_run = false; subscriber.clear_sources(..);
              owner.with_cleanup(|| subscriber.with_observer(|| fun(..)))
          }
      }

    [eff_check] is the REPAIRED EffectInner::update_if_necessary (sources checked with the
    observer hidden, dirty flag re-read and cleared); [eff_check_prefix] is the code before
    the fix.  No proofs in this file. *)
From Coq Require Import List ZArith Bool Arith.
From LV Require Import Reactive.Graph.
Import ListNotations.
Open Scope Z_scope.

Inductive op :=
| OWrite (s : nat) (v : Z)      (* s.set(v): always notifies, equal values included *)
| ONotify (s : nat)             (* s.notify() *)
| ORead (n : nat)               (* n.get() outside any reactive context *)
| OTick (k : nat)               (* executor polls the (k mod |ready|)-th ready task *)
| ORun                          (* executor polls in FIFO order until idle (at most 64 polls) *)
| OPause (e : nat) | OResume (e : nat)   (* Owner::pause / resume on the owner effect e was created under:
                                           reaches e and every effect below it in the owner tree *)
| ODispose (e : nat)            (* the RenderEffect handles of that subtree are dropped, then the owner is cleaned up *)
| ODropSrc (n : nat).           (* the arena signal / memo n is disposed: value and subscriber set dropped *)

Definition POLL_FUEL : nat := 64.
Definition RUN_LIMIT : nat := 64.

(* insertion sort of a list of task ids *)
Fixpoint insert_sorted (x : nat) (l : list nat) : list nat :=
  match l with
  | [] => [x]
  | h :: t => if Nat.leb x h then x :: l else h :: insert_sorted x t
  end.
Definition isort (l : list nat) : list nat := fold_right insert_sorted [] l.

Section Prog.
Variable p : prog.
Variable par : nat -> option nat.     (* the owner tree (static) *)
Variable selw : nat -> bool.          (* effect e is the internal effect of a Selector *)

(* the [any] of EffectInner::update_if_necessary: no re-check of the own state *)
Fixpoint any_plain (c : ctx) (l : list nat) (s : state) : state * bool :=
  match l with
  | [] => (s, false)
  | j :: l => let '(s, ch) := upd_top p c j s in if ch then (s, true) else any_plain c l s
  end.

(* EffectInner::update_if_necessary after the fix *)
Definition eff_check (i : nat) (s : state) : state * bool :=
  let s := updn i (fun n => set_emissed n false) s in
  if edirty (getn s i) then (updn i (fun n => set_edirty n false) s, true)
  else
    let '(s, ch) := any_plain top_ctx (srcs (getn s i)) s in
    let d := edirty (getn s i) in
    (updn i (fun n => set_edirty n false) s, ch || d).

(* ... and before: called under with_observer(self), dirty not looked at again *)
Definition eff_check_prefix (i : nat) (s : state) : state * bool :=
  let s := updn i (fun n => set_emissed n false) s in
  if edirty (getn s i) then (updn i (fun n => set_edirty n false) s, true)
  else any_plain (Some i, true) (srcs (getn s i)) s.

Section Check.
Variable check : nat -> state -> state * bool.     (* EffectInner::update_if_necessary *)
Variable nfy : nat -> state -> state.              (* a signal notifies its subscribers *)

Definition eff_run (first : bool) (i : nat) (body : expr) (s : state) : state :=
  let s := clear_sources i s in
  let s := begin_run first i s in
  let '(s, v) := eval p (read_any p) true (Some i, true) body s in
  emit (EvEnd i v) s.

Definition eff_handler (i : nat) (h : expr) (s : state) : state :=
  let s := emit (EvHStart i) s in
  let '(s, v) := eval p (read_any p) true (Some i, false) h s in
  emit (EvHEnd i v) s.

(* body of one iteration of the task loop, the flag having been consumed *)
Definition eff_iter (i : nat) (s : state) : state :=
  match decl_of p i with
  | DEff k body h =>
      if epaused (getn s i) then updn i (fun n => set_emissed n true) s
      else
        let '(s, need) := check i s in
        let first := efirst (getn s i) in
        match k with
        | EEffect =>
            if need || first then
              eff_run first i body (updn i (fun n => set_efirst n false) s)
            else s
        | ERender => if need then eff_run false i body s else s
        | EWatch imm =>
            if need || first then
              let s := eff_run first i body s in
              let s := if imm || negb first then eff_handler i h s else s in
              updn i (fun n => set_efirst n false) s
            else s
        end
  | _ => set_err s
  end.

(* one poll of the task: Receiver::poll_next + loop.  The ghost flag [epoll] is up from the
   moment the task is taken from the run queue until it returns Pending / Ready. *)
Fixpoint poll_loop (f : nat) (i : nat) (s : state) : state :=
  match f with
  | O => set_halted (emit EvDiverge s) true          (* the real task would spin forever *)
  | S f =>
      if negb (ealive (getn s i)) then
        updn i (fun n => set_epoll (set_edone n true) false) s              (* Ready(None) *)
      else
        let s := updn i (fun n => set_ereg n true) s in
        if eflag (getn s i) then
          poll_loop f i (eff_iter i (updn i (fun n => set_eflag n false) s))
        else updn i (fun n => set_epoll n false) s                          (* Pending *)
  end.

Definition poll_task (i : nat) (s : state) : state :=
  match decl_of p i with
  | DEff _ _ _ =>
      if edone (getn s i) || epoll (getn s i) then s          (* finished / not spawned: no task *)
      else poll_loop POLL_FUEL i (updn i (fun n => set_epoll n true) s)
  | _ => s          (* only effects have tasks *)
  end.

(* the tasks woken during one poll of a selector's internal effect (the part of the run queue
   beyond its first [n0] entries) are queued in index order *)
Definition canon_wakes (i n0 : nat) (s : state) : state :=
  if selw i then set_ready s (firstn n0 (ready s) ++ isort (skipn n0 (ready s))) else s.
(* what the executor does with a task it has taken from the run queue *)
Definition poll_sched (i : nat) (s : state) : state :=
  canon_wakes i (length (ready s)) (poll_task i s).

Fixpoint remove_nth (k : nat) (l : list nat) : list nat :=
  match l, k with
  | [], _ => []
  | _ :: t, O => t
  | h :: t, S k => h :: remove_nth k t
  end.

Fixpoint drain (f : nat) (s : state) : state :=
  if halted s then s else          (* a task was found spinning: the case stops *)
  match ready s with
  | [] => emit EvIdle s
  | e :: r =>
      match f with
      | O => set_halted (emit EvDiverge s) true
      | S f => drain f (poll_sched e (emit (EvPoll (Some e)) (set_ready s r)))
      end
  end.

Definition is_sig (i : nat) : bool := match decl_of p i with DSig _ _ => true | _ => false end.
Definition is_eff (i : nat) : bool := match decl_of p i with DEff _ _ _ => true | _ => false end.

Definition dispose (e : nat) (s : state) : state :=
  if ealive (getn s e) then
    let s := updn e (fun n => set_ealive n false) s in
    (* Inner::drop wakes the registered waker a last time *)
    if ereg (getn s e) then enqueue e (updn e (fun n => set_ereg n false) s) else s
  else s.

(* ---- the owner tree.  The owner [H e] effect e was created under has the children
   [I e] (the effect's own owner, made by effect_base / RenderEffect::new: the one whose
   [paused] flag the task looks at) and [H c] for every effect c with [par c = Some e], in
   creation (= index) order. *)
Definition children (o : nat) : list nat :=
  filter (fun c => is_eff c && match par c with Some q => Nat.eqb q o | None => false end)
         (seq 0 (length p)).
(* Owner::pause / Owner::resume: the walk over the children lists (the order in which the flags
   are set is immaterial) *)
Fixpoint subtree (f : nat) (o : nat) : list nat :=
  match f with
  | O => [o]
  | S f => o :: flat_map (subtree f) (children o)
  end.
Definition set_paused_tree (b : bool) (o : nat) (s : state) : state :=
  fold_left (fun s e => updn e (fun n => set_epaused n b) s) (subtree (length p) o) s.
(* Cleanup for RwLock<OwnerInner>: the children are cleaned up first, in order, then the
   owner's own arena nodes (the stored Effect) are removed *)
Fixpoint postorder (f : nat) (o : nat) : list nat :=
  match f with
  | O => [o]
  | S f => flat_map (postorder f) (children o) ++ [o]
  end.
Definition is_render (i : nat) : bool :=
  match decl_of p i with DEff ERender _ _ => true | _ => false end.
(* the harness drops the RenderEffect handles of the subtree (a RenderEffect lives in its handle,
   not in the arena), then calls cleanup() on the owner *)
Definition dispose_tree (o : nat) (s : state) : state :=
  let po := postorder (length p) o in
  fold_left (fun s e => dispose e s)
            (filter is_render po ++ filter (fun e => negb (is_render e)) po) s.

Definition step (s : state) (o : op) : state :=
  if halted s then s else
  let s := emit EvOp s in
  match o with
  | OWrite j v => if is_sig j then
                    if sgone (getn s j) then s else nfy j (updn j (fun n => set_sval n v) s)
                  else set_err s
  | ONotify j => if is_sig j then (if sgone (getn s j) then s else nfy j s) else set_err s
  | ORead n => if is_eff n then set_err s
               else if sgone (getn s n) then s      (* the harness does not touch a disposed handle *)
               else fst (read_top p n s)
  | OTick k =>
      match ready s with
      | [] => emit (EvPoll None) s
      | _ :: _ =>
          let idx := Nat.modulo k (length (ready s)) in
          let e := nth idx (ready s) O in
          poll_sched e (emit (EvPoll (Some e)) (set_ready s (remove_nth idx (ready s))))
      end
  | ORun => drain RUN_LIMIT s
  | OPause e => if is_eff e then set_paused_tree true e s else s
  | OResume e => if is_eff e then set_paused_tree false e s else s
  | ODispose e => if is_eff e then dispose_tree e s else s
  | ODropSrc n => if is_eff n then s
                  else updn n (fun nd => set_subs (set_edone nd true) []) s
  end.

(* creation, in index order *)
Definition init_node (d : decl) : node :=
  match d with
  | DSig _ v => set_sval dnode v
  | DMemo _ _ => dnode
  | DDer _ => dnode
  | DEff _ _ _ => set_epoll (set_ealive dnode true) true     (* not spawned yet *)
  end.

Definition create (s : state) (i : nat) : state :=
  match decl_of p i with
  | DEff ERender body _ =>
      (* RenderEffect::new: dirty = false, no notification; the first run happens synchronously:
         owner.with(|| subscriber.with_observer(|| fun(None))), then the task is spawned *)
      let s := updn i (fun n => set_epoll (set_edone (set_ereg (set_eflag (set_edirty (set_efirst n false) false) false) false) false) true) s in
      (* (clear_sources is a no-op here: a new effect has no sources; written so that the first
         run and the re-runs share one path) *)
      let s := begin_run true i (clear_sources i s) in
      let '(s, v) := eval p (read_any p) true (Some i, true) body s in
      enqueue i (updn i (fun n => set_epoll (set_edone (set_ereg n false) false) false) (emit (EvEnd i v) s))
  | DEff _ _ _ =>
      (* effect_base: dirty = true, one notification (no waker yet), task spawned *)
      enqueue i (updn i (fun n => set_epoll (set_edone (set_ereg (set_eflag (set_edirty (set_efirst n true) true) true) false) false) false) s)
  | _ => s
  end.

Definition init : state :=
  fold_left create (seq 0 (length p))
            (mkState (map init_node p) [] [] O false false).

Definition run_ops (ops : list op) : state := fold_left step ops init.
End Check.

(* the code as repaired *)
Definition run_fixed (ops : list op) : state := run_ops eff_check (notify_sig p) ops.
(* before the fix of EffectInner::update_if_necessary (F-C02-c, F-C09) *)
Definition run_prefix_c (ops : list op) : state := run_ops eff_check_prefix (notify_sig p) ops.
(* before the fix of the RwLock<SubscriberSet> notification (F-C02-a) *)
Definition run_prefix_a (ops : list op) : state := run_ops eff_check (notify_sig_prefix p) ops.

End Prog.

(* a flat owner tree (every effect's owner is a child of the root), no selectors *)
Definition no_par : nat -> option nat := fun _ => None.
Definition no_sel : nat -> bool := fun _ => false.
Definition run_flat (p : prog) (ops : list op) : state := run_fixed p no_par no_sel ops.
