(** Executable model of effects on top of [Graph]: effect/inner.rs (EffectInner as a
    subscriber: dirty flag + one-slot channel), channel.rs (flag [set] + AtomicWaker),
    effect/effect.rs ([Effect::new], [new_isomorphic], [watch]: the task loop),
    effect/render_effect.rs (first run at creation), owner.rs (pause / resume / disposal),
    and the executor as an explicit run queue: a schedule is the list of [OTick k] / [ORun]
    operations of the history, any order, partial progress.

    One poll of the task of effect [i] is the loop of effect.rs:

      while rx.next().await.is_some() {            // registers the waker, consumes the flag
          if !owner.paused() && (subscriber.update_if_necessary() || first_run) {
              first_run = false; subscriber.clear_sources(..);
              owner.with_cleanup(|| subscriber.with_observer(|| fun(..)))
          }
      }

    [eff_check] is the REPAIRED EffectInner::update_if_necessary (sources checked with the
    observer hidden, dirty flag re-read and cleared); [eff_check_prefix] is the code before
    the fix.  No proofs in this file. *)
From Coq Require Import List ZArith Bool Arith.
From LV Require Import Reactive.Graph.
Import ListNotations.
Open Scope Z_scope.

Inductive op :=
| OWrite (s : nat) (v : Z)      (* s.set(v): always notifies, equal values included *)
| ONotify (s : nat)             (* s.notify() *)
| ORead (n : nat)               (* n.get() outside any reactive context *)
| OTick (k : nat)               (* executor polls the (k mod |ready|)-th ready task *)
| ORun                          (* executor polls in FIFO order until idle (at most 64 polls) *)
| OPause (e : nat) | OResume (e : nat)   (* the owner the effect was created under *)
| ODispose (e : nat)            (* that owner is cleaned up / the RenderEffect is dropped *)
| ODropSrc (n : nat).           (* the arena signal / memo n is disposed: value and subscriber set dropped *)

Definition POLL_FUEL : nat := 64.
Definition RUN_LIMIT : nat := 64.

Section Prog.
Variable p : prog.

(* the [any] of EffectInner::update_if_necessary: no re-check of the own state *)
Fixpoint any_plain (c : ctx) (l : list nat) (s : state) : state * bool :=
  match l with
  | [] => (s, false)
  | j :: l => let '(s, ch) := upd_top p c j s in if ch then (s, true) else any_plain c l s
  end.

(* EffectInner::update_if_necessary after the fix *)
Definition eff_check (i : nat) (s : state) : state * bool :=
  let s := updn i (fun n => set_emissed n false) s in
  if edirty (getn s i) then (updn i (fun n => set_edirty n false) s, true)
  else
    let '(s, ch) := any_plain top_ctx (srcs (getn s i)) s in
    let d := edirty (getn s i) in
    (updn i (fun n => set_edirty n false) s, ch || d).

(* ... and before: called under with_observer(self), dirty not looked at again *)
Definition eff_check_prefix (i : nat) (s : state) : state * bool :=
  let s := updn i (fun n => set_emissed n false) s in
  if edirty (getn s i) then (updn i (fun n => set_edirty n false) s, true)
  else any_plain (Some i, true) (srcs (getn s i)) s.

Section Check.
Variable check : nat -> state -> state * bool.     (* EffectInner::update_if_necessary *)
Variable nfy : nat -> state -> state.              (* a signal notifies its subscribers *)

Definition eff_run (first : bool) (i : nat) (body : expr) (s : state) : state :=
  let s := clear_sources i s in
  let s := begin_run first i s in
  let '(s, v) := eval p (read_any p) true (Some i, true) body s in
  emit (EvEnd i v) s.

Definition eff_handler (i : nat) (h : expr) (s : state) : state :=
  let s := emit (EvHStart i) s in
  let '(s, v) := eval p (read_any p) true (Some i, false) h s in
  emit (EvHEnd i v) s.

(* body of one iteration of the task loop, the flag having been consumed *)
Definition eff_iter (i : nat) (s : state) : state :=
  match decl_of p i with
  | DEff k body h =>
      if epaused (getn s i) then updn i (fun n => set_emissed n true) s
      else
        let '(s, need) := check i s in
        let first := efirst (getn s i) in
        match k with
        | EEffect =>
            if need || first then
              eff_run first i body (updn i (fun n => set_efirst n false) s)
            else s
        | ERender => if need then eff_run false i body s else s
        | EWatch imm =>
            if need || first then
              let s := eff_run first i body s in
              let s := if imm || negb first then eff_handler i h s else s in
              updn i (fun n => set_efirst n false) s
            else s
        end
  | _ => set_err s
  end.

(* one poll of the task: Receiver::poll_next + loop.  The ghost flag [epoll] is up from the
   moment the task is taken from the run queue until it returns Pending / Ready. *)
Fixpoint poll_loop (f : nat) (i : nat) (s : state) : state :=
  match f with
  | O => set_halted (emit EvDiverge s) true          (* the real task would spin forever *)
  | S f =>
      if negb (ealive (getn s i)) then
        updn i (fun n => set_epoll (set_edone n true) false) s              (* Ready(None) *)
      else
        let s := updn i (fun n => set_ereg n true) s in
        if eflag (getn s i) then
          poll_loop f i (eff_iter i (updn i (fun n => set_eflag n false) s))
        else updn i (fun n => set_epoll n false) s                          (* Pending *)
  end.

Definition poll_task (i : nat) (s : state) : state :=
  match decl_of p i with
  | DEff _ _ _ =>
      if edone (getn s i) || epoll (getn s i) then s          (* finished / not spawned: no task *)
      else poll_loop POLL_FUEL i (updn i (fun n => set_epoll n true) s)
  | _ => s          (* only effects have tasks *)
  end.

Fixpoint remove_nth (k : nat) (l : list nat) : list nat :=
  match l, k with
  | [], _ => []
  | _ :: t, O => t
  | h :: t, S k => h :: remove_nth k t
  end.

Fixpoint drain (f : nat) (s : state) : state :=
  if halted s then s else          (* a task was found spinning: the case stops *)
  match ready s with
  | [] => emit EvIdle s
  | e :: r =>
      match f with
      | O => set_halted (emit EvDiverge s) true
      | S f => drain f (poll_task e (emit (EvPoll (Some e)) (set_ready s r)))
      end
  end.

Definition is_sig (i : nat) : bool := match decl_of p i with DSig _ _ => true | _ => false end.
Definition is_eff (i : nat) : bool := match decl_of p i with DEff _ _ _ => true | _ => false end.

Definition dispose (e : nat) (s : state) : state :=
  if ealive (getn s e) then
    let s := updn e (fun n => set_ealive n false) s in
    (* Inner::drop wakes the registered waker a last time *)
    if ereg (getn s e) then enqueue e (updn e (fun n => set_ereg n false) s) else s
  else s.

Definition step (s : state) (o : op) : state :=
  if halted s then s else
  let s := emit EvOp s in
  match o with
  | OWrite j v => if is_sig j then
                    if sgone (getn s j) then s else nfy j (updn j (fun n => set_sval n v) s)
                  else set_err s
  | ONotify j => if is_sig j then (if sgone (getn s j) then s else nfy j s) else set_err s
  | ORead n => if is_eff n then set_err s
               else if sgone (getn s n) then s      (* the harness does not touch a disposed handle *)
               else fst (read_top p n s)
  | OTick k =>
      match ready s with
      | [] => emit (EvPoll None) s
      | _ :: _ =>
          let idx := Nat.modulo k (length (ready s)) in
          let e := nth idx (ready s) O in
          poll_task e (emit (EvPoll (Some e)) (set_ready s (remove_nth idx (ready s))))
      end
  | ORun => drain RUN_LIMIT s
  | OPause e => if is_eff e then updn e (fun n => set_epaused n true) s else s
  | OResume e => if is_eff e then updn e (fun n => set_epaused n false) s else s
  | ODispose e => if is_eff e then dispose e s else s
  | ODropSrc n => if is_eff n then s
                  else updn n (fun nd => set_subs (set_edone nd true) []) s
  end.

(* creation, in index order *)
Definition init_node (d : decl) : node :=
  match d with
  | DSig _ v => set_sval dnode v
  | DMemo _ _ => dnode
  | DDer _ => dnode
  | DEff _ _ _ => set_epoll (set_ealive dnode true) true     (* not spawned yet *)
  end.

Definition create (s : state) (i : nat) : state :=
  match decl_of p i with
  | DEff ERender body _ =>
      (* RenderEffect::new: dirty = false, no notification; the first run happens synchronously:
         owner.with(|| subscriber.with_observer(|| fun(None))), then the task is spawned *)
      let s := updn i (fun n => set_epoll (set_edone (set_ereg (set_eflag (set_edirty (set_efirst n false) false) false) false) false) true) s in
      (* (clear_sources is a no-op here: a new effect has no sources; written so that the first
         run and the re-runs share one path) *)
      let s := begin_run true i (clear_sources i s) in
      let '(s, v) := eval p (read_any p) true (Some i, true) body s in
      enqueue i (updn i (fun n => set_epoll (set_edone (set_ereg n false) false) false) (emit (EvEnd i v) s))
  | DEff _ _ _ =>
      (* effect_base: dirty = true, one notification (no waker yet), task spawned *)
      enqueue i (updn i (fun n => set_epoll (set_edone (set_ereg (set_eflag (set_edirty (set_efirst n true) true) true) false) false) false) s)
  | _ => s
  end.

Definition init : state :=
  fold_left create (seq 0 (length p))
            (mkState (map init_node p) [] [] O false false).

Definition run_ops (ops : list op) : state := fold_left step ops init.
End Check.

(* the code as repaired *)
Definition run_fixed (ops : list op) : state := run_ops eff_check (notify_sig p) ops.
(* before the fix of EffectInner::update_if_necessary (F-C02-c, F-C09) *)
Definition run_prefix_c (ops : list op) : state := run_ops eff_check_prefix (notify_sig p) ops.
(* before the fix of the RwLock<SubscriberSet> notification (F-C02-a) *)
Definition run_prefix_a (ops : list op) : state := run_ops eff_check (notify_sig_prefix p) ops.

End Prog.
