(** Executable entry point of the C10 model for the correspondence check.
    case = (shape wrap dep initial events [variant]); wrap (Arc / arena) is not modelled;
    initial = () or (v), only meaningful for shape 3; variant (optional): 0 = repaired code,
    1 = before all three fixes, 2 = before the own-task and stale-initial-future fixes, 3 = before
    the stale-initial-future fix (corpus witnesses, model only).
    shapes: 0..3 as in Async.v (0 with wrap 2: new_unsync + tracked refetch counter, what
    LocalResource::new builds; wrap 3 / 4: the real ArcLocalResource::new / LocalResource::new, whose
    Executor::tick() tasks the harness runs at once, so that a load starts within one poll; wrap
    5..7: arena handles in LocalStorage / converted from the Arc type, plain nodes for the model);
    for shapes 4 and 5 the wrap selects the constructor and whether the harness goes through the
    wrapper's own impls — the same node for the model;
    optional trailing fields of events: (2 v mode) how the manual write is made, (7 sus 1) await
    through by_ref(); 4: leptos_server ArcResource::new / Resource::new (wrap 1);
    5: ArcOnceResource::new / OnceResource::new (wrap 1).
    events: (0 i v) write signal i, (1) refetch, (2 v) manual set Some(v), (3) notify,
            (4 f) complete future f, (5 t) poll task t (0 = node, 1 = dependent effect),
            (6 picks) run until idle, (7 sus) new awaiter (sus: under a Suspense boundary),
            (8 a) poll awaiter a with a fresh waker.
    After each event: (value loading ready-tasks awaiters new-dependent-log futures-created
    suspense-tasks); a pending awaiter shows the invocations of its latest waker. *)
From Coq Require Import List ZArith Bool Arith.
From LV Require Import Base.Sexp Reactive.RxUtil Reactive.Async Reactive.TransitionRun.
Import ListNotations.

Definition the_fetch (p : Z * Z) : Z := (fst p * 1000 + snd p)%Z.

Definition dec_event (e : sexp) : option event :=
  match as_Z (nth_s 0 e) with
  | 0%Z => Some (WriteSig (as_nat (nth_s 1 e)) (as_Z (nth_s 2 e)))
  | 1%Z => Some Refetch
  | 2%Z => Some (ManualSet (as_Z (nth_s 1 e)))
  | 3%Z => Some Notify
  | 4%Z => Some (Complete (as_nat (nth_s 1 e)))
  | 5%Z => Some (PollTask (as_nat (nth_s 1 e)))
  | 6%Z => Some (RunAll (as_nats (nth_s 1 e)))
  | 7%Z => Some (NewAwaiter (as_bool (nth_s 1 e)))
  | 8%Z => Some (PollAwaiter (as_nat (nth_s 1 e)))
  | _ => None
  end.

Definition s_awaiter (a : astate) : sexp :=
  match a with
  | APending _ w => Lst [Num 0; snat w]
  | ADone v => Lst [Num 1; Num v]
  | APanic => Lst [Num 2]
  end.

Definition obs (c : cfg) (old : nat) (s : node) : sexp :=
  Lst [sopt Num (value s); sbool (loading s); snats (ready c s);
       Lst (map s_awaiter (awaiters s));
       Lst (map (sopt Num) (skipn old (dlog s)));
       snat (length (futs s)); snat (susp_held s)].

Fixpoint trace (c : cfg) (s : node) (evs : list sexp) : list sexp * node :=
  match evs with
  | [] => ([], s)
  | e :: r =>
      let s' := match dec_event e with Some ev => step c s ev | None => s end in
      let '(t, sf) := trace c s' r in
      (obs c (length (dlog s)) s' :: t, sf)
  end.

(** end of a case: complete every future, run until idle, again while new futures appear *)
Fixpoint settle (c : cfg) (fuel : nat) (s : node) : node :=
  match fuel with
  | O => s
  | S f =>
      let s1 := fold_left (fun s i => complete i s) (seq 0 (length (futs s))) s in
      let s2 := run_all c 64 [] s1 in
      if forallb (fun fu => f_done fu || negb (f_alive fu)) (futs s2) then s2 else settle c f s2
  end.

Definition run_C10 (x : sexp) : sexp :=
  (* shape 6: AsyncTransition::run programs, see Reactive/TransitionRun.v *)
  if Nat.eqb (as_nat (nth_s 0 x)) 6 then run_transition x else
  let variant := as_Z (nth_s 5 x) in
  let sh := as_nat (nth_s 0 x) in
  let wrap := as_nat (nth_s 1 x) in
  (* case shapes 4 (real ArcResource / Resource) and 5 (once-resource) map onto the model's
     resource-like shape 3 and its [once] flag; shape 0 with wrap >= 2 is the LocalResource(-like) node *)
  let c := mkCfg (match sh with 4%nat => 3%nat | 5%nat => 0%nat | n => n end) (as_nat (nth_s 2 x))
                 (negb (Z.eqb variant 1)) (negb (Z.eqb variant 2) && negb (Z.eqb variant 1))
                 (Z.eqb variant 0)
                 (Nat.eqb sh 0 && Nat.leb 2 wrap && Nat.leb wrap 4) (Nat.eqb sh 5) the_fetch in
  let s0 := init c (as_opt as_Z (nth_s 3 x)) in
  let '(t, s1) := trace c s0 (as_list (nth_s 4 x)) in
  let s2 := settle c 16 s1 in
  let s3 := fold_left (fun s a => poll_awaiter c a s) (seq 0 (length (awaiters s2))) s2 in
  Lst (obs c 0 s0 :: t ++ [obs c (length (dlog s1)) s3]).
