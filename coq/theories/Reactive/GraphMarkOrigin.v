(** Who can become Dirty during a marking: only the roots that [mark_dirty] is applied to.
    [mark_check] never makes a memo Dirty and never sets an effect's dirty flag.  (Used to
    show that a node that will re-run has a recorded cause: C09.) *)
From Coq Require Import List ZArith Bool Arith Lia.
From LV Require Import Reactive.Graph Reactive.GraphLemmas Reactive.GraphInvariant
                       Reactive.GraphMarkProofs.
Import ListNotations.
Close Scope Z_scope.
Open Scope nat_scope.

Section P.
Variable p : prog.

(* no new Dirty memo, no new dirty effect *)
Definition NoNewDirty (s s' : state) : Prop :=
  forall k, (st (getn s' k) = Dirty -> st (getn s k) = Dirty) /\
            (edirty (getn s' k) = true -> edirty (getn s k) = true).

Lemma NoNewDirty_refl s : NoNewDirty s s.
Proof. intros k; auto. Qed.
Lemma NoNewDirty_trans a b c : NoNewDirty a b -> NoNewDirty b c -> NoNewDirty a c.
Proof. intros H1 H2 k. destruct (H1 k), (H2 k). auto. Qed.

Lemma eff_notify_st_edirty i s k :
  st (getn (eff_notify i s) k) = st (getn s k) /\ edirty (getn (eff_notify i s) k) = edirty (getn s k).
Proof.
  unfold eff_notify. destruct (ealive (getn s i)); auto.
  destruct (ereg (getn _ i)).
  - rewrite getn_enqueue.
    rewrite (updn_field st), (updn_field st), (updn_field edirty), (updn_field edirty); auto.
  - rewrite (updn_field st), (updn_field edirty); auto.
Qed.

Lemma eff_notify_nodirty i s : NoNewDirty s (eff_notify i s).
Proof.
  intros k. destruct (eff_notify_st_edirty i s k) as [-> ->]. auto.
Qed.

Lemma fold_nodirty (g : nat -> state -> state) l :
  (forall x a, NoNewDirty a (g x a)) ->
  forall s, NoNewDirty s (fold_left (fun a k => g k a) l s).
Proof.
  intros Hg. induction l as [|x t IH]; intros s; cbn; [apply NoNewDirty_refl|].
  eapply NoNewDirty_trans; [apply Hg|apply IH].
Qed.

Lemma mark_check_nodirty f : forall i s, NoNewDirty s (mark_check p f i s).
Proof.
  induction f as [|f IH]; intros i s; cbn [mark_check].
  - intros k; auto.
  - destruct (decl_of p i); try apply NoNewDirty_refl.
    + eapply NoNewDirty_trans; [|apply (fold_nodirty (fun k a => mark_check p f k a)); auto].
      destruct (nstate_eqb (st (getn s i)) Dirty) eqn:E; [apply NoNewDirty_refl|].
      intros k. rewrite (updn_field edirty) by auto.
      destruct (getn_updn_cases i (fun n => set_st n Check) s k) as [[_ E']|E']; rewrite E'; nsimpl; auto.
      split; auto. discriminate.
    + apply eff_notify_nodirty.
Qed.

(* mark_dirty: the root may become Dirty / dirty, nobody else *)
Lemma mark_dirty_origin i s k :
  (st (getn (mark_dirty p i s) k) = Dirty -> st (getn s k) = Dirty \/ k = i) /\
  (edirty (getn (mark_dirty p i s) k) = true -> edirty (getn s k) = true \/ k = i).
Proof.
  unfold mark_dirty. destruct (decl_of p i); auto.
  - set (s1 := updn i (fun n => set_st n Dirty) s).
    destruct (fold_nodirty (fun k a => mark_check p (mfuel p) k a) (subs (getn s1 i))
               (fun x a => mark_check_nodirty (mfuel p) x a) s1 k) as [H1 H2].
    split; intros H.
    + specialize (H1 H). unfold s1 in H1.
      destruct (Nat.eq_dec k i) as [->|Hk]; auto. rewrite getn_updn_other in H1; auto.
    + specialize (H2 H). unfold s1 in H2. rewrite (updn_field edirty) in H2; auto.
  - unfold eff_mark_dirty. destruct (ealive (getn s i)); auto.
    set (s1 := updn i (fun n => set_edirty n true) s).
    destruct (eff_notify_st_edirty i s1 k) as [E1 E2]. rewrite E1, E2. unfold s1.
    split; intros H.
    + rewrite (updn_field st) in H; auto.
    + destruct (Nat.eq_dec k i) as [->|Hk]; auto. rewrite getn_updn_other in H; auto.
Qed.

Lemma mark_dirty_list_origin (skip : nat -> bool) l : forall s k,
  let s' := fold_left (fun a x => if skip x then a else mark_dirty p x a) l s in
  (st (getn s' k) = Dirty -> st (getn s k) = Dirty \/ (In k l /\ skip k = false)) /\
  (edirty (getn s' k) = true -> edirty (getn s k) = true \/ (In k l /\ skip k = false)).
Proof.
  induction l as [|x t IH]; intros s k; cbn.
  - auto.
  - destruct (skip x) eqn:Hs.
    + destruct (IH s k) as [H1 H2]. split; intros H; [destruct (H1 H) as [?|[? ?]]|destruct (H2 H) as [?|[? ?]]]; auto.
    + destruct (IH (mark_dirty p x s) k) as [H1 H2]. destruct (mark_dirty_origin x s k) as [G1 G2].
      split; intros H.
      * destruct (H1 H) as [Hd|[? ?]]; auto. destruct (G1 Hd) as [?| ->]; auto.
      * destruct (H2 H) as [Hd|[? ?]]; auto. destruct (G2 Hd) as [?| ->]; auto.
Qed.

(* tracks, as a proposition *)
Lemma tracks_iff n j : tracks n j = true <-> In j (tracked_of (rlog n)).
Proof.
  unfold tracks. rewrite existsb_exists, in_tracked_of. split.
  - intros ([[a v] t] & Hin & Ht). apply andb_prop in Ht as [-> Ha]. apply Nat.eqb_eq in Ha. subst. eauto.
  - intros (v & Hin). exists (j, v, true). split; auto. cbn. apply Nat.eqb_refl.
Qed.

Lemma add_cause_since j s k :
  since (getn (add_cause j s) k) =
  if tracks (getn s k) j then j :: since (getn s k) else since (getn s k).
Proof.
  unfold add_cause, getn. cbn [nodes set_nodes].
  set (f := fun n : node => if tracks n j then set_since n (j :: since n) else n).
  change dnode with (f dnode) at 1.
  rewrite map_nth. unfold f. destruct (tracks _ j); reflexivity.
Qed.

End P.
