(** C01, the value: after any history a read of a memo returns its body replayed over the log of
    its last run, every tracked entry of which is current ([read_consistent]); and when no body
    in the program reads through untrack / get_untracked this is the denotational value of the
    body over the current signal values ([read_eq_spec]). *)
From Coq Require Import List ZArith Bool Arith Lia.
From LV Require Import Reactive.Graph Reactive.Effects Reactive.GraphLemmas Reactive.GraphReplay Reactive.GraphInvariant
                       Reactive.GraphMarkProofs Reactive.GraphPullBase Reactive.GraphPullSteps
                       Reactive.GraphPullDefs Reactive.GraphPullEval Reactive.GraphPullRead
                       Reactive.GraphPullMemo Reactive.GraphPullProofs Reactive.GraphProofs
                       Reactive.EffectsProofs Reactive.EffectsRunProofs.
Import ListNotations.
Open Scope Z_scope.

(* ---------------------------------------------------------------- denotational semantics *)
Section Sexpr.
Variable Sr : nat -> option Z.
Fixpoint sexpr (e : expr) : option Z :=
  match e with
  | Const z => Some z
  | Rd j | RdU j => Sr j
  | Untr a => sexpr a
  | Add a b => match sexpr a, sexpr b with Some x, Some y => Some (x + y) | _, _ => None end
  | Lt a b => match sexpr a, sexpr b with Some x, Some y => Some (if Z.ltb x y then 1 else 0) | _, _ => None end
  | Ite g a b => match sexpr g with Some x => if Z.eqb x 0 then sexpr b else sexpr a | None => None end
  | Wr _ a => sexpr a
  end.
End Sexpr.

Section P.
Variable p : prog.
Variable par : nat -> option nat.
Variable selw : nat -> bool.

(* value of node j (< n) as a function of the current signal values only *)
Fixpoint slvl (s : state) (n : nat) : nat -> option Z :=
  match n with
  | O => fun _ => None
  | S n' => fun j =>
      if Nat.eqb j n' then
        match decl_of p n' with
        | DSig _ _ => Some (sval (getn s n'))
        | DMemo _ e => sexpr (slvl s n') e
        | DDer e => sexpr (slvl s n') e
        | DEff _ _ _ => None
        end
      else slvl s n' j
  end.
Definition spec (s : state) (j : nat) : option Z := slvl s (S j) j.

Lemma slvl_mono s (n : nat) : forall (n' j : nat), (j < n)%nat -> (n <= n')%nat -> slvl s n' j = slvl s n j.
Proof.
  intros n'. induction n' as [|k IH]; intros j Hj Hn; [lia|].
  destruct (Nat.eq_dec n (S k)) as [->|Hne]; auto.
  cbn [slvl]. destruct (Nat.eqb_spec j k) as [->|Hjk]; [lia|]. apply IH; lia.
Qed.

(* bodies without untracked reads *)
Fixpoint uf_expr (e : expr) : Prop :=
  match e with
  | Const _ | Rd _ => True
  | RdU _ | Untr _ => False
  | Add a b | Lt a b => uf_expr a /\ uf_expr b
  | Ite g a b => uf_expr g /\ uf_expr a /\ uf_expr b
  | Wr _ a => uf_expr a
  end.
Definition uf_prog : Prop :=
  forall i, match decl_of p i with DMemo _ e | DDer e => uf_expr e | _ => True end.

(* a successful replay consumes a prefix of the log *)
Lemma rexpr_suffix Rr :
  (forall m tr j l v l', Rr m tr j l = Some (v, l') -> exists D, l = D ++ l') ->
  forall e tr l v l', rexpr Rr tr e l = Some (v, l') -> exists D, l = D ++ l'.
Proof.
  intros HR e. induction e as [z|j|j|a IHa|a IHa b IHb|a IHa b IHb|g IHg a IHa b IHb|w a IHa];
    intros tr l v l' H; cbn [rexpr] in H; eauto.
  - inversion H; subst. exists []. reflexivity.
  - destruct (rexpr Rr tr a l) as [[x l1]|] eqn:E1; [|discriminate].
    destruct (rexpr Rr tr b l1) as [[y l2]|] eqn:E2; [|discriminate]. inversion H; subst.
    destruct (IHa _ _ _ _ E1) as (D1 & ->). destruct (IHb _ _ _ _ E2) as (D2 & ->).
    exists (D1 ++ D2). rewrite app_assoc. reflexivity.
  - destruct (rexpr Rr tr a l) as [[x l1]|] eqn:E1; [|discriminate].
    destruct (rexpr Rr tr b l1) as [[y l2]|] eqn:E2; [|discriminate]. inversion H; subst.
    destruct (IHa _ _ _ _ E1) as (D1 & ->). destruct (IHb _ _ _ _ E2) as (D2 & ->).
    exists (D1 ++ D2). rewrite app_assoc. reflexivity.
  - destruct (rexpr Rr tr g l) as [[x l1]|] eqn:E1; [|discriminate].
    destruct (IHg _ _ _ _ E1) as (D1 & ->).
    destruct (Z.eqb x 0); [destruct (IHb _ _ _ _ H) as (D2 & ->)|destruct (IHa _ _ _ _ H) as (D2 & ->)];
      exists (D1 ++ D2); rewrite app_assoc; reflexivity.
Qed.

Lemma rlvl_suffix n : forall m tr j l v l', rlvl p n m tr j l = Some (v, l') -> exists D, l = D ++ l'.
Proof.
  induction n as [|n IH]; intros m tr j l v l' H; cbn [rlvl] in H; [discriminate|].
  destruct (Nat.eqb j n); [|eauto].
  destruct (decl_of p n).
  - destruct l as [|[[j' x] t] l0]; [discriminate|]. destruct (_ && _); inversion H; subst.
    exists [(j', v, t)]. reflexivity.
  - destruct l as [|[[j' x] t] l0]; [discriminate|]. destruct (_ && _); inversion H; subst.
    exists [(j', v, t)]. reflexivity.
  - eapply rexpr_suffix; eauto.
  - discriminate.
Qed.

(* the entries of a log are valid for the state: tracked entries of signals show the signal's
   value, tracked entries of memos show the memo's denotational value *)
Definition LogValid (s : state) (l : list lentry) : Prop :=
  forall x vx, In (x, vx, true) l ->
  match decl_of p x with
  | DSig _ _ => sval (getn s x) = vx
  | DMemo _ _ => spec s x = Some vx
  | _ => True
  end.

Lemma LogValid_suffix s D l : LogValid s (D ++ l) -> LogValid s l.
Proof. intros H x vx Hin. apply H. apply in_app_iff. auto. Qed.

(* replay in fully tracked mode over a valid log computes the denotational value *)
Lemma replay_to_spec s : uf_prog -> forall n,
  (forall j l v l', rlvl p n true true j l = Some (v, l') -> LogValid s l -> slvl s n j = Some v).
Proof.
  intros Huf. induction n as [|n IH]; intros j l v l' H HV; cbn [rlvl] in H; [discriminate|].
  cbn [slvl]. destruct (Nat.eqb_spec j n) as [->|Hjn]; [|eauto].
  pose proof (Huf n) as Hu.
  destruct (decl_of p n) as [tk iv|cm e|e|k b h] eqn:Hd.
  - destruct l as [|[[j' x] t] l0]; [discriminate|].
    destruct (Nat.eqb_spec j' n) as [->|]; cbn [andb] in H; [|discriminate].
    destruct t; cbn in H; [|discriminate]. inversion H; subst.
    specialize (HV n v (or_introl eq_refl)). rewrite Hd in HV. congruence.
  - destruct l as [|[[j' x] t] l0]; [discriminate|].
    destruct (Nat.eqb_spec j' n) as [->|]; cbn [andb] in H; [|discriminate].
    destruct t; cbn in H; [|discriminate]. inversion H; subst.
    specialize (HV n v (or_introl eq_refl)). rewrite Hd in HV.
    unfold spec in HV. cbn [slvl] in HV. rewrite Nat.eqb_refl, Hd in HV. exact HV.
  - (* derived: its body is replayed in place *)
    cbn [andb] in H. clear Hd.
    revert l v l' H HV Hu. induction e as [z|x|x|a IHa|a IHa b IHb|a IHa b IHb|g IHg a IHa b IHb|w a IHa];
      intros l v l' H HV Hu; cbn [rexpr sexpr uf_expr] in *; try contradiction.
    + inversion H; subst; reflexivity.
    + eapply IH; eauto.
    + destruct Hu as [Hua Hub].
      destruct (rexpr (rlvl p n) true a l) as [[xa l1]|] eqn:E1; [|discriminate].
      destruct (rexpr (rlvl p n) true b l1) as [[xb l2]|] eqn:E2; [|discriminate]. inversion H; subst.
      destruct (rexpr_suffix (rlvl p n) (rlvl_suffix n) a true l xa l1 E1) as (D1 & ->).
      rewrite (IHa _ _ _ E1 HV Hua), (IHb _ _ _ E2 (LogValid_suffix s D1 l1 HV) Hub). reflexivity.
    + destruct Hu as [Hua Hub].
      destruct (rexpr (rlvl p n) true a l) as [[xa l1]|] eqn:E1; [|discriminate].
      destruct (rexpr (rlvl p n) true b l1) as [[xb l2]|] eqn:E2; [|discriminate]. inversion H; subst.
      destruct (rexpr_suffix (rlvl p n) (rlvl_suffix n) a true l xa l1 E1) as (D1 & ->).
      rewrite (IHa _ _ _ E1 HV Hua), (IHb _ _ _ E2 (LogValid_suffix s D1 l1 HV) Hub). reflexivity.
    + destruct Hu as (Hug & Hua & Hub).
      destruct (rexpr (rlvl p n) true g l) as [[xg l1]|] eqn:E1; [|discriminate].
      destruct (rexpr_suffix (rlvl p n) (rlvl_suffix n) g true l xg l1 E1) as (D1 & ->).
      rewrite (IHg _ _ _ E1 HV Hug).
      destruct (Z.eqb xg 0); [eapply IHb|eapply IHa]; eauto using LogValid_suffix.
    + eapply IHa; eauto.
  - discriminate.
Qed.

(* the same for an expression *)
Lemma rexpr_to_spec s n : uf_prog -> forall e l v l',
  uf_expr e -> rexpr (rlvl p n) true e l = Some (v, l') -> LogValid s l -> sexpr (slvl s n) e = Some v.
Proof.
  intros Huf e. induction e as [z|x|x|a IHa|a IHa b IHb|a IHa b IHb|g IHg a IHa b IHb|w a IHa];
    intros l v l' Hu H HV; cbn [rexpr sexpr uf_expr] in *; try contradiction.
  - inversion H; subst; reflexivity.
  - eapply replay_to_spec; eauto.
  - destruct Hu as [Hua Hub].
    destruct (rexpr (rlvl p n) true a l) as [[xa l1]|] eqn:E1; [|discriminate].
    destruct (rexpr (rlvl p n) true b l1) as [[xb l2]|] eqn:E2; [|discriminate]. inversion H; subst.
    destruct (rexpr_suffix (rlvl p n) (rlvl_suffix n) a true l xa l1 E1) as (D1 & ->).
    rewrite (IHa _ _ _ Hua E1 HV), (IHb _ _ _ Hub E2 (LogValid_suffix s D1 l1 HV)). reflexivity.
  - destruct Hu as [Hua Hub].
    destruct (rexpr (rlvl p n) true a l) as [[xa l1]|] eqn:E1; [|discriminate].
    destruct (rexpr (rlvl p n) true b l1) as [[xb l2]|] eqn:E2; [|discriminate]. inversion H; subst.
    destruct (rexpr_suffix (rlvl p n) (rlvl_suffix n) a true l xa l1 E1) as (D1 & ->).
    rewrite (IHa _ _ _ Hua E1 HV), (IHb _ _ _ Hub E2 (LogValid_suffix s D1 l1 HV)). reflexivity.
  - destruct Hu as (Hug & Hua & Hub).
    destruct (rexpr (rlvl p n) true g l) as [[xg l1]|] eqn:E1; [|discriminate].
    destruct (rexpr_suffix (rlvl p n) (rlvl_suffix n) g true l xg l1 E1) as (D1 & ->).
    rewrite (IHg _ _ _ Hug E1 HV).
    destruct (Z.eqb xg 0); [eapply IHb|eapply IHa]; eauto using LogValid_suffix.
  - eapply IHa; eauto.
Qed.

(* ---------------------------------------------------------------- the theorems *)
Hypothesis wfp : wf_prog p.

(* a Clean memo (in a state satisfying the invariant) holds its denotational value *)
Theorem clean_memo_eq_spec s : Inv0 p s -> uf_prog -> exact_prog p ->
  (forall i, dead p s i = false) ->
  forall j, memob p j = true -> st (getn s j) = Clean ->
  exists v, cache (getn s j) = Some v /\ spec s j = Some v.
Proof.
  intros I Huf Hex Hnd j. induction j as [j IH] using lt_wf_ind. intros Hm Hc.
  destruct (inv_rest _ _ _ _ I j (fun x => x)) as (R1 & R2 & R3 & R4 & _).
  destruct (memob_decl p j Hm) as (cm & e & Hd).
  unfold uncached_ok, needs_cur, needs_clean in *. rewrite Hd in *. cbn [needs_cur_n needs_clean_n] in *.
  destruct R2 as [R2 R2'].
  destruct (cache (getn s j)) as [v|] eqn:Ec; [|destruct (R2 eq_refl); congruence].
  exists v. split; auto.
  assert (Hnn : Some v <> None) by discriminate.
  assert (HV : LogValid s (rlog (getn s j))).
  { intros x vx Hx.
    assert (Hxj : (x < j)%nat).
    { eapply wf_srclt; [apply I|]. rewrite R1. apply in_tracked_of; eauto. }
    assert (Hcx : cur p s x = vx) by (apply (eqv_exact p x _ _ Hex); apply R3; auto; split; auto; congruence).
    destruct (decl_of p x) eqn:Hdx; auto.
    - unfold cur in Hcx. rewrite Hdx in Hcx. exact Hcx.
    - assert (Hmx : memob p x = true) by (unfold memob; rewrite Hdx; auto).
      destruct (IH x Hxj Hmx) as (w & Hw & Hs); [eapply R4; eauto|].
      unfold cur, cache_val in Hcx. rewrite Hdx, Hw in Hcx. congruence. }
  specialize (R2' v eq_refl). unfold replay_body in R2'.
  destruct (rexpr (rlvl p j) true e (rlog (getn s j))) as [[w l']|] eqn:Er; [|discriminate].
  destruct l'; inversion R2'; subst.
  unfold spec. cbn [slvl]. rewrite Nat.eqb_refl, Hd.
  pose proof (Huf j) as Hu. rewrite Hd in Hu.
  eapply rexpr_to_spec; eauto.
Qed.

Hypothesis nsf : no_self_feed p.

(* [read_consistent]: after any history, a read of memo n returns the value obtained by replaying
   its body over the log of its last run; every tracked entry of that log (and, recursively, of
   the logs of the memos it tracked) shows the source's current value; untracked entries are
   the values seen at that last run *)
Theorem read_consistent : forall ops n cm e s' v,
  wf_ops p ops -> decl_of p n = DMemo cm e -> dead p (run_fixed p par selw ops) n = false ->
  read_top p n (run_fixed p par selw ops) = (s', v) ->
  cache (getn s' n) = Some v /\
  replay_body p n e (rlog (getn s' n)) = Some v /\
  ConsistentM p s' n.
Proof.
  intros ops n cm e s' v Hw Hd Hg Hr.
  assert (Hm : memob p n = true) by (unfold memob; rewrite Hd; auto).
  assert (He : effb p n = false) by (unfold effb; rewrite Hd; auto).
  assert (Hn : (n < length p)%nat).
  { destruct (Nat.lt_ge_cases n (length p)); auto. unfold decl_of in Hd. rewrite nth_overflow in Hd by auto. discriminate. }
  destruct (read_consistent_cone p par selw wfp nsf ops n s' v Hw Hn He Hg Hr) as (I' & _ & Hmm & _).
  destruct (Hmm Hm) as (Hc & Hca & Hcons). split; auto. split; auto.
  destruct (inv_rest _ _ _ _ I' n (fun x => x)) as (_ & R2 & _).
  unfold uncached_ok in R2. rewrite Hd in R2. destruct R2 as [_ R2]. auto.
Qed.

(* [read_eq_spec]: without untracked reads and without comparators coarser than equality, the
   value read is the denotational value of the memo over the current values of the signals *)
Theorem read_eq_spec : forall ops n s' v,
  uf_prog -> exact_prog p -> wf_ops p ops -> (n < length p)%nat -> memob p n = true ->
  dead p (run_fixed p par selw ops) n = false -> (forall i, dead p s' i = false) ->
  read_top p n (run_fixed p par selw ops) = (s', v) ->
  spec s' n = Some v /\ (forall i, sval (getn s' i) = sval (getn (run_fixed p par selw ops) i)).
Proof.
  intros ops n s' v Huf Hex Hw Hn Hm Hg Hnd Hr.
  assert (He : effb p n = false).
  { unfold effb, memob in *. destruct (decl_of p n); congruence. }
  destruct (read_consistent_cone p par selw wfp nsf ops n s' v Hw Hn He Hg Hr) as (I' & Hsv & Hmm & _).
  destruct (Hmm Hm) as (Hc & Hca & _).
  destruct (clean_memo_eq_spec s' I' Huf Hex Hnd n Hm Hc) as (w & Hw' & Hs). split; auto. congruence.
Qed.

End P.

(* ---------------------------------------------------------------- the hypotheses are satisfiable *)
(* a diamond with an equality cut-off and a conditional read: a, b = a + a, c = (0 < a),
   d = if c then b + a else 0; and the same graph with an untracked read of b *)
Definition p_dia : prog :=
  [DSig false 1; DMemo CNe (Add (Rd 0%nat) (Rd 0%nat)); DMemo CNe (Lt (Const 0) (Rd 0%nat));
   DMemo CNe (Ite (Rd 2%nat) (Add (Rd 1%nat) (Rd 0%nat)) (Const 0))].
Definition p_dia_u : prog :=
  [DSig false 1; DMemo CNe (Add (Rd 0%nat) (Rd 0%nat)); DMemo CNe (Lt (Const 0) (Rd 0%nat));
   DMemo CNe (Ite (Rd 2%nat) (Add (Untr (Rd 1%nat)) (Rd 2%nat)) (Const 0))].
Definition ops_dia : list op := [ORead 3%nat; OWrite 0%nat 4; ORead 1%nat; OWrite 0%nat 7].

Example p_dia_wf : wf_prog p_dia /\ pure_effects p_dia /\ uf_prog p_dia /\ wf_ops p_dia ops_dia /\ exact_prog p_dia.
Proof.
  split; [|split; [|split; [|split]]].
  - intros i Hi. do 4 (destruct i as [|i]; [cbn; repeat split; auto; lia|]). cbn in Hi. lia.
  - intros i k b h. do 4 (destruct i as [|i]; [cbn; intros E; inversion E|]).
    unfold decl_of. rewrite nth_overflow by (cbn; lia). discriminate.
  - intros i. do 4 (destruct i as [|i]; [cbn; auto|]). unfold decl_of. rewrite nth_overflow by (cbn; lia). exact I.
  - repeat constructor.
  - intros i e. do 4 (destruct i as [|i]; [cbn; discriminate|]). unfold decl_of. rewrite nth_overflow by (cbn; lia). discriminate.
Qed.
(* the read returns 21 = 7 + 7 + 7, which is the replay of the body over the log and the spec *)
Example p_dia_read :
  let r := read_top p_dia 3%nat (run_flat p_dia ops_dia) in
  snd r = 21 /\ spec p_dia (fst r) 3%nat = Some 21 /\
  rlog (getn (fst r) 3%nat) = [(2%nat, 1, true); (1%nat, 14, true); (0%nat, 7, true)].
Proof. vm_compute. auto. Qed.

Example p_dia_u_wf : wf_prog p_dia_u /\ pure_effects p_dia_u /\ wf_ops p_dia_u ops_dia.
Proof.
  split; [|split].
  - intros i Hi. do 4 (destruct i as [|i]; [cbn; repeat split; auto; lia|]). cbn in Hi. lia.
  - intros i k b h. do 4 (destruct i as [|i]; [cbn; intros E; inversion E|]).
    unfold decl_of. rewrite nth_overflow by (cbn; lia). discriminate.
  - repeat constructor.
Qed.
(* with the untracked read of b the memo is NOT recomputed by the writes to a (c stays 1): the
   value 3 = 2 + 1 is the replay over a log whose untracked entry still shows b = 2, while the
   denotational value would be 15 *)
Example p_dia_u_read :
  let r := read_top p_dia_u 3%nat (run_flat p_dia_u ops_dia) in
  snd r = 3 /\ spec p_dia_u (fst r) 3%nat = Some 15 /\
  rlog (getn (fst r) 3%nat) = [(2%nat, 1, true); (1%nat, 2, false); (2%nat, 1, true)] /\
  replay_body p_dia_u 3%nat (Ite (Rd 2%nat) (Add (Untr (Rd 1%nat)) (Rd 2%nat)) (Const 0))
              (rlog (getn (fst r) 3%nat)) = Some 3.
Proof. vm_compute. auto. Qed.

(* a comparator coarser than equality (new_with_compare: "changed" iff the parity differs):
   a = 1, b = CPar-memo(a), c = memo(b + 0).  After a := 3 the memo b itself holds the new
   value 3 (a read of b returns what recomputing it gives), its comparator reports no change,
   so c is not recomputed: it keeps 1, the replay of its body over a log whose entry for b shows
   1, a value b's comparator does not tell from b's present value *)
Definition p_par : prog :=
  [DSig false 1; DMemo CPar (Rd 0%nat); DMemo CNe (Add (Rd 1%nat) (Const 0))].
Definition ops_par : list op := [ORead 2%nat; OWrite 0%nat 3].
Example p_par_read :
  let r := read_top p_par 2%nat (run_flat p_par ops_par) in
  snd r = 1 /\ cache (getn (fst r) 1%nat) = Some 3 /\
  rlog (getn (fst r) 2%nat) = [(1%nat, 1, true)] /\ eqv p_par 1%nat 3 1 /\
  snd (read_top p_par 1%nat (run_flat p_par ops_par)) = 3.
Proof. vm_compute. auto. Qed.

(* a source is disposed in the middle of a history: a, b = memo(a < 9), x, t = memo(b + x).
   Disposing x runs nobody and changes no value (t keeps 11 = 1 + 10, also after a write to a
   that leaves b unchanged: no invocation without a cause); when b really changes, t is
   recomputed and reads 0 for the disposed x *)
Definition p_drop : prog :=
  [DSig false 1; DMemo CNe (Lt (Rd 0%nat) (Const 9)); DSig false 10; DMemo CNe (Add (Rd 1%nat) (Rd 2%nat))].
Definition ops_drop1 : list op := [ORead 3%nat; ODropSrc 2%nat; OWrite 0%nat 3].
Definition ops_drop2 : list op := ops_drop1 ++ [ORead 3%nat; OWrite 0%nat 20].
Example p_drop_read :
  let r1 := read_top p_drop 3%nat (run_flat p_drop ops_drop1) in
  let r2 := read_top p_drop 3%nat (run_flat p_drop ops_drop2) in
  snd r1 = 11 /\ nocause (fst r1) = 0%nat /\ dead p_drop (fst r1) 2%nat = true /\
  rlog (getn (fst r1) 3%nat) = [(1%nat, 1, true); (2%nat, 10, true)] /\
  snd r2 = 0 /\ nocause (fst r2) = 0%nat /\
  rlog (getn (fst r2) 3%nat) = [(1%nat, 0, true); (2%nat, 0, true)] /\
  dead p_drop (run_flat p_drop ops_drop2) 3%nat = false.
Proof. vm_compute. auto 10. Qed.
