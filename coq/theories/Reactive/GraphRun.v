(** Executable entry points of the reactive model for the correspondence checks of C01, C09
    and C02: decode a case [(prog ops)], run [Effects.run_fixed], encode the event trace. *)
From Coq Require Import List ZArith Bool Arith.
From LV Require Import Base.Sexp Reactive.Graph Reactive.Effects.
Import ListNotations.
Open Scope Z_scope.

Fixpoint dec_expr (f : nat) (s : sexp) : expr :=
  match f with
  | O => Const 0
  | S f =>
      let a i := dec_expr f (nth_s i s) in
      match as_Z (nth_s 0 s) with
      | 0 => Const (as_Z (nth_s 1 s))
      | 1 => Rd (as_nat (nth_s 1 s))
      | 2 => RdU (as_nat (nth_s 1 s))
      | 3 => Untr (a 1%nat)
      | 4 => Add (a 1%nat) (a 2%nat)
      | 5 => Lt (a 1%nat) (a 2%nat)
      | 6 => Ite (a 1%nat) (a 2%nat) (a 3%nat)
      | 7 => Wr (as_nat (nth_s 1 s)) (a 2%nat)
      | _ => Const 0
      end
  end.
Definition EXPR_DEPTH : nat := 40.

Definition dec_decl (s : sexp) : decl :=
  match as_Z (nth_s 0 s) with
  | 0 => let fl := as_Z (nth_s 1 s) in
         DSig (Z.eqb fl 1 || Z.eqb fl 3 || Z.eqb fl 4) (as_Z (nth_s 2 s))
  | 1 => DMemo (match as_Z (nth_s 1 s) with 0 => CNe | 2 => CPar | _ => CAlways end)
               (dec_expr EXPR_DEPTH (nth_s 3 s))
  | 2 => DDer (dec_expr EXPR_DEPTH (nth_s 2 s))
  | _ => let k := match as_Z (nth_s 1 s) with
                  | 1 => ERender | 2 => EWatch false | 3 => EWatch true | _ => EEffect
                  end in
         DEff k (dec_expr EXPR_DEPTH (nth_s 2 s)) (dec_expr EXPR_DEPTH (nth_s 3 s))
  end.

Definition dec_op (s : sexp) : op :=
  let a := as_nat (nth_s 1 s) in
  match as_Z (nth_s 0 s) with
  | 0 => OWrite a (as_Z (nth_s 2 s))
  | 1 => ONotify a
  | 2 => ORead a
  | 3 => OTick a
  | 4 => ORun
  | 5 => OPause a
  | 6 => OResume a
  | 8 => ODropSrc a
  | _ => ODispose a
  end.

Definition s_who (w : option nat) : sexp := match w with Some i => snat i | None => Num (-1) end.
Definition enc_event (e : event) : sexp :=
  match e with
  | EvTop n v => Lst [Num 0; snat n; Num v]
  | EvStart i => Lst [Num 1; snat i]
  | EvRead w j v t => Lst [Num 2; s_who w; snat j; Num v; sbool t]
  | EvEnd i v => Lst [Num 3; snat i; Num v]
  | EvHStart i => Lst [Num 5; snat i]
  | EvHEnd i v => Lst [Num 6; snat i; Num v]
  | EvIdle => Lst [Num 7]
  | EvPoll w => Lst [Num 8; s_who w]
  | EvDiverge => Lst [Num 9]
  | EvErr => Lst [Num 10]
  | EvOp => Lst [Num 11]
  end.

Definition run_trace (c : sexp) : prog * list event :=
  let p := map dec_decl (as_list (nth_s 0 c)) in
  let ops := map dec_op (as_list (nth_s 1 c)) in
  (p, rev (trace (run_fixed p ops))).

(* the three properties observe the same full event trace; their generators, oracles and
   theorems differ *)
Definition run_rx (c : sexp) : sexp := Lst (map enc_event (snd (run_trace c))).

Definition run_C01 : sexp -> sexp := run_rx.
Definition run_C09 : sexp -> sexp := run_rx.
Definition run_C02 : sexp -> sexp := run_rx.
