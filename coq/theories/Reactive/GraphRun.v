(** Executable entry points of the reactive model for the correspondence checks of C01, C09
    and C02: decode a case [(prog ops)], run [Effects.run_fixed], encode the event trace.

    Two things of the case language are resolved here, before the model runs:

    - the owner tree: an effect node may carry a fifth field, the index of the effect under
      whose owner its own owner was created ([-1] or absent: under the root);

    - selectors (computed/selector.rs).  A [Selector] occupies consecutive nodes of the case:
      a value cell [V] ([Selector.v]), a cell [P] for the value the internal RenderEffect
      returned last time (its [prev] argument), one trigger signal [T_k] per key [k] (the
      [ArcRwSignal<bool>] the key map holds; a key that nobody asked for yet has no
      subscribers, so whether its entry exists already cannot be observed), and the node of the
      selector itself, which is its internal effect:

          next = source();  v = Some(next);
          if prev != Some(next) { for (key, signal) in subs {
              if f(key, next) || (prev.is_some() && f(key, prev)) { signal.update(|n| *n = true) } } }
          next

      becomes an [ERender] effect whose body writes [V], then the affected triggers (in the
      order of the case; the real order is the FxHashMap's, see [Effects.canon_wakes]), then [P].
      [selector.selected(k)] = [read.track()] on [T_k], then [f(k, v)].  The comparators are
      equality, "same bucket of ten" and "value >= key".  Reads of the cells [V] / [P] are
      bookkeeping of the transformation (locals of the real closure): they are not part of
      the observation. *)
From Coq Require Import List ZArith Bool Arith.
From LV Require Import Base.Sexp Reactive.Graph Reactive.Effects.
Import ListNotations.
Open Scope Z_scope.

(* ------------------------------------------------------------------ selectors as expressions *)
Definition x_or (a b : expr) : expr := Ite a (Const 1) b.
Definition x_neq (a b : expr) : expr := Ite (Lt a b) (Const 1) (Lt b a).
(* f(key, x): [x] is an expression without side effects; it may be evaluated twice *)
Definition x_sel (cmp : Z) (key : Z) (x : expr) : expr :=
  match cmp with
  | 2 => let lo := 10 * (key / 10) in Ite (Lt x (Const lo)) (Const 0) (Lt x (Const (lo + 10)))
  | 3 => Ite (Lt x (Const key)) (Const 0) (Const 1)
  | _ => Ite (Lt x (Const key)) (Const 0) (Ite (Lt (Const key) x) (Const 0) (Const 1))
  end.
Definition x_sum (l : list expr) : expr := fold_right Add (Const 0) l.

(* the node of a selector: (4 cmp src V P (T ...)); the node of a trigger: (0 6 key) *)
Definition key_of (pg : sexp) (t : nat) : Z := as_Z (nth_s 2 (nth_s t pg)).

Definition sel_body (pg : sexp) (nd : sexp) (src : expr) : expr :=
  let cmp := as_Z (nth_s 1 nd) in
  let v := as_nat (nth_s 3 nd) in
  let pv := as_nat (nth_s 4 nd) in
  let ts := as_nats (nth_s 5 nd) in
  let notify t :=
    let k := key_of pg t in
    Ite (x_or (x_sel cmp k (RdU v)) (x_sel cmp k (RdU pv))) (Wr t (Const 0)) (Const 0) in
  Add (Add (Wr v src)
           (Ite (x_neq (RdU pv) (RdU v)) (x_sum (map notify ts)) (Const 0)))
      (Ite (Wr pv (RdU v)) (Const 0) (Const 0)).

(* selector.selected(key of the j-th trigger of selector e): (8 e j) *)
Definition sel_read (pg : sexp) (e j : nat) : expr :=
  let nd := nth_s e pg in
  let t := nth j (as_nats (nth_s 5 nd)) O in
  Add (Rd t) (x_sel (as_Z (nth_s 1 nd)) (key_of pg t) (RdU (as_nat (nth_s 3 nd)))).

Fixpoint dec_expr (pg : sexp) (f : nat) (s : sexp) : expr :=
  match f with
  | O => Const 0
  | S f =>
      let a i := dec_expr pg f (nth_s i s) in
      match as_Z (nth_s 0 s) with
      | 0 => Const (as_Z (nth_s 1 s))
      | 1 => Rd (as_nat (nth_s 1 s))
      | 2 => RdU (as_nat (nth_s 1 s))
      | 3 => Untr (a 1%nat)
      | 4 => Add (a 1%nat) (a 2%nat)
      | 5 => Lt (a 1%nat) (a 2%nat)
      | 6 => Ite (a 1%nat) (a 2%nat) (a 3%nat)
      | 7 => Wr (as_nat (nth_s 1 s)) (a 2%nat)
      | 8 => sel_read pg (as_nat (nth_s 1 s)) (as_nat (nth_s 2 s))
      | _ => Const 0
      end
  end.
Definition EXPR_DEPTH : nat := 40.

Definition dec_decl (pg : sexp) (s : sexp) : decl :=
  match as_Z (nth_s 0 s) with
  | 0 => let fl := as_Z (nth_s 1 s) in
         if Z.eqb fl 5 || Z.eqb fl 6 then DSig false 0       (* cell / trigger of a selector *)
         else DSig (Z.eqb fl 1 || Z.eqb fl 3 || Z.eqb fl 4) (as_Z (nth_s 2 s))
  | 1 => DMemo (match as_Z (nth_s 1 s) with 0 => CNe | 2 => CPar | _ => CAlways end)
               (dec_expr pg EXPR_DEPTH (nth_s 3 s))
  | 2 => DDer (dec_expr pg EXPR_DEPTH (nth_s 2 s))
  | 4 => DEff ERender (sel_body pg s (dec_expr pg EXPR_DEPTH (nth_s 2 s))) (Const 0)
  | _ => let k := match as_Z (nth_s 1 s) with
                  | 1 => ERender | 2 => EWatch false | 3 => EWatch true | _ => EEffect
                  end in
         DEff k (dec_expr pg EXPR_DEPTH (nth_s 2 s)) (dec_expr pg EXPR_DEPTH (nth_s 3 s))
  end.

(* the owner tree: fifth field of an effect node *)
Definition dec_par (pg : sexp) (e : nat) : option nat :=
  let nd := nth_s e pg in
  match as_Z (nth_s 0 nd), nth_s 4 nd with
  | 3, Num z => if Z.ltb z 0 then None else Some (Z.to_nat z)
  | _, _ => None
  end.
Definition dec_selw (pg : sexp) (e : nat) : bool := Z.eqb (as_Z (nth_s 0 (nth_s e pg))) 4.
Definition is_cell (pg : sexp) (j : nat) : bool :=
  let nd := nth_s j pg in Z.eqb (as_Z (nth_s 0 nd)) 0 && Z.eqb (as_Z (nth_s 1 nd)) 5.

Definition dec_op (s : sexp) : op :=
  let a := as_nat (nth_s 1 s) in
  match as_Z (nth_s 0 s) with
  | 0 => OWrite a (as_Z (nth_s 2 s))
  | 1 => ONotify a
  | 2 => ORead a
  | 3 => OTick a
  | 4 => ORun
  | 5 => OPause a
  | 6 => OResume a
  | 8 => ODropSrc a
  | _ => ODispose a
  end.

Definition s_who (w : option nat) : sexp := match w with Some i => snat i | None => Num (-1) end.
Definition enc_event (e : event) : sexp :=
  match e with
  | EvTop n v => Lst [Num 0; snat n; Num v]
  | EvStart i => Lst [Num 1; snat i]
  | EvRead w j v t => Lst [Num 2; s_who w; snat j; Num v; sbool t]
  | EvEnd i v => Lst [Num 3; snat i; Num v]
  | EvHStart i => Lst [Num 5; snat i]
  | EvHEnd i v => Lst [Num 6; snat i; Num v]
  | EvIdle => Lst [Num 7]
  | EvPoll w => Lst [Num 8; s_who w]
  | EvDiverge => Lst [Num 9]
  | EvErr => Lst [Num 10]
  | EvOp => Lst [Num 11]
  end.

(* reads of a selector's cells are not observations *)
Definition observable (pg : sexp) (e : event) : bool :=
  match e with
  | EvRead _ j _ _ => negb (is_cell pg j)
  | _ => true
  end.

Definition run_trace (c : sexp) : prog * list event :=
  let pg := nth_s 0 c in
  let p := map (dec_decl pg) (as_list pg) in
  let ops := map dec_op (as_list (nth_s 1 c)) in
  (p, filter (observable pg) (rev (trace (run_fixed p (dec_par pg) (dec_selw pg) ops)))).

(* the three properties observe the same full event trace; their generators, oracles and
   theorems differ *)
Definition run_rx (c : sexp) : sexp := Lst (map enc_event (snd (run_trace c))).

Definition run_C01 : sexp -> sexp := run_rx.
Definition run_C09 : sexp -> sexp := run_rx.
Definition run_C02 : sexp -> sexp := run_rx.
