(** Executable entry point of the C08 model for the correspondence check.
    case = (body ops); statements: (0) signal, (1) stored value, (2) on_cleanup, (3 ty v) provide,
    (4 ty) use, (5 body) child owner, (6 body) effect, (7 body) memo, (8 body) render effect,
    (9 body) isomorphic effect, (10 body) watch, (11 body) immediate effect, (12 kind) raw ArenaItem
    of the harness' (type, storage) pair number kind, (13 ty) take_context, (14 ty v) update_context,
    (15..26 body) the other effect / memo constructors, (27 hk) typed arena handle(s), see [dec_stmt];
    ops: (10 o) re-run, (11 o) cleanup, (12 o) drop handle, (13 e) notify effect, (14 m) notify memo,
    (15 m) read memo, (16 e) poll task, (17 picks) run until idle, (18 o n) allocate, (19 h) dispose
    handle, (20 o) pause, (21 o) resume, (22 o ty) use_context at o, (23 m) dispose memo handle,
    (24 e) dispose effect handle / drop render-effect handle, (25 e) Effect::stop, (26 i) notify immediate effect,
    (27 i) drop immediate-effect handle, (28 o n kind) allocate n raw arena items, (29 h) release a
    handle the other way (ArenaItem: into_inner, i.e. Storage::take; others: dispose). *)
From Coq Require Import List ZArith Bool Arith.
From LV Require Import Base.Sexp Reactive.RxUtil Reactive.Owner.
Import ListNotations.

(** arena entries made by one typed-handle statement (27 hk): hk 0 signal() = ReadSignal +
    WriteSignal, 7 RwSignal + read_only(), 8 RwSignal + write_only() make two, the others one *)
Definition hk_slots (hk : nat) : nat :=
  match hk with 0 => 2 | 7 => 2 | 8 => 2 | _ => 1 end.

Fixpoint dec_stmt (s : sexp) : list stmt :=
  match s with
  | Lst (Num tag :: args) =>
      let body := match args with
                  | Lst b :: _ => (fix go (l : list sexp) : list stmt :=
                                     match l with [] => [] | x :: r => dec_stmt x ++ go r end) b
                  | _ => []
                  end in
      match tag with
      | 0%Z => [SNewSig]
      | 1%Z => [SNewStored]
      | 2%Z => [SOnCleanup]        (* (2) on_cleanup, (2 1) Owner::on_cleanup; (2 mode body): a cleanup function
                                      that itself registers / allocates / reads - NOT modelled, such cases are
                                      not compared *)
      | 3%Z => [SProvide (as_nat (nth 0 args (Lst []))) (as_Z (nth 1 args (Lst [])))]
      | 4%Z => [SUse (as_nat (nth 0 args (Lst [])))]   (* (4 ty [mode]): use_context / with_context / expect_context *)
      | 5%Z => [SChild body]       (* (5 body [mode]): Owner::new + with / current().child() + with / new + set *)
      | 6%Z => [SEffect body]
      | 7%Z => [SMemo body]
      | 8%Z => [SRender body]
      | 9%Z => [SEffect body]      (* Effect::new_isomorphic: same task loop *)
      | 10%Z => [SEffect body]     (* Effect::watch, the body being the dependency function *)
      | 11%Z => [SImm body]
      | 12%Z => [SNewItem (as_nat (nth 0 args (Lst [])))]
      | 13%Z => [STake (as_nat (nth 0 args (Lst [])))]
      | 14%Z => [SUpdate (as_nat (nth 0 args (Lst []))) (as_Z (nth 1 args (Lst [])))]
      | 15%Z => [SEffect body]     (* Effect::new_sync *)
      | 16%Z => [SEffect body]     (* Effect::watch_sync *)
      | 17%Z => [SEffect body]     (* Effect::watch(.., immediate = true) *)
      | 18%Z => [SEffect body]     (* create_effect *)
      | 19%Z => [SRender body]     (* RenderEffect::new_isomorphic *)
      | 20%Z => [SRender body]     (* RenderEffect::new_with_value *)
      | 21%Z => [SImm body]        (* ImmediateEffect::new_mut *)
      | 22%Z => [SImm body]        (* ImmediateEffect::new_isomorphic *)
      | 23%Z => [SImm body]        (* ImmediateEffect::new_scoped: NOT faithful (the handle is dropped by a
                                      cleanup of the current owner); such cases are not compared *)
      | 24%Z => [SMemo body]       (* Memo::new_with_compare *)
      | 25%Z => [SMemo body]       (* Memo::new_owning *)
      | 26%Z => [SMemo body]       (* Memo::from(ArcMemo::new(..)) *)
      | 27%Z => repeat (SNewItem 0) (hk_slots (as_nat (nth 0 args (Lst []))))
      | _ => [SUse 0]
      end
  | _ => [SUse 0]
  end.
Definition dec_body (s : sexp) : list stmt := flat_map dec_stmt (as_list s).

Definition dec_op (e : sexp) : option op :=
  let a := as_nat (nth_s 1 e) in
  match as_Z (nth_s 0 e) with
  | 10%Z => Some (Rerun a)
  | 11%Z => Some (Cleanup a)
  | 30%Z => Some (Cleanup a)      (* o.with(|| o.cleanup()): the same cleanup; who is current only matters to
                                     cleanup functions that register things, which the model does not have *)
  | 12%Z => Some (DropOwner a)
  | 13%Z => Some (NotifyEffect a)
  | 14%Z => Some (NotifyMemo a)
  | 15%Z => Some (ReadMemo a)
  | 16%Z => Some (Poll a)
  | 17%Z => Some (RunAll (as_nats (nth_s 1 e)))
  | 18%Z => Some (Alloc a (as_nat (nth_s 2 e)))
  | 19%Z => Some (Dispose a)
  | 20%Z => Some (Pause a)
  | 21%Z => Some (Resume a)
  | 22%Z => Some (UseAt a (as_nat (nth_s 2 e)))
  | 23%Z => Some (DisposeMemo a)
  | 24%Z => Some (DisposeEffect a)
  | 25%Z => Some (StopEffect a)
  | 26%Z => Some (NotifyImm a)
  | 27%Z => Some (DropImm a)
  | 28%Z => Some (AllocItems a (as_nat (nth_s 2 e)) (as_nat (nth_s 3 e)))
  | 29%Z => Some (Dispose a)     (* Storage::take = arena.remove(node) *)
  | _ => None
  end.

Definition s_lent (l : lent) : sexp :=
  match l with
  | LClean c => Lst [Num 1; snat c]
  | LEff e => Lst [Num 2; snat e]
  | LMemo m => Lst [Num 3; snat m]
  | LUse ty r => Lst [Num 4; snat ty; sopt Num r]
  | LRead m ok => Lst [Num 5; snat m; sbool ok]
  | LRendInit o => Lst [Num 6; snat o]
  | LImm i => Lst [Num 7; snat i]
  end.

(** value seen through a retained handle: its own number, or -1 once disposed *)
Definition status (c : core) (k : key) : sexp :=
  match get c k with
  | Some (IVal h) => snat h
  | Some _ => Num (-2)
  | None => Num (-1)
  end.

(** log entries added since [old] (both newest first), oldest first *)
Definition new_entries (old : nat) (c : core) : list sexp :=
  map s_lent (rev (firstn (length (clog c) - old) (clog c))).

Definition obs (old : nat) (s : bstate) : sexp :=
  Lst [Lst (new_entries old (b_core s));
       Lst (map (status (b_core s)) (handles s));
       snats (ready s)].

Fixpoint trace (s : bstate) (ops : list sexp) : list sexp * bstate :=
  match ops with
  | [] => ([], s)
  | e :: r =>
      let s' := match dec_op e with Some x => step s x | None => s end in
      let '(t, sf) := trace s' r in
      (obs (length (clog (b_core s))) s' :: t, sf)
  end.

(** slot indices renamed by first appearance, versions counted from the first one seen for
    the slot (the real arena is process-global: absolute indices and versions are arbitrary) *)
Fixpoint canon_keys (seen : list (nat * nat)) (ks : list key) : list sexp :=
  match ks with
  | [] => []
  | (i, v) :: r =>
      match find (fun p => fst p =? i) (combine (map fst seen) (seq 0 (length seen))) with
      | Some (_, j) =>
          let v0 := nth j (map snd seen) 0 in
          Lst [snat j; snat (Nat.div (v - v0) 2)] :: canon_keys seen r
      | None => Lst [snat (length seen); snat 0] :: canon_keys (seen ++ [(i, v)]) r
      end
  end.

Definition run_C08 (c : sexp) : sexp :=
  let s0 := start (dec_body (nth_s 0 c)) in
  let o0 := obs 0 s0 in
  let '(t, s1) := trace s0 (as_list (nth_s 1 c)) in
  let s2 := drop_all s1 in
  let s3 := step s2 (RunAll []) in
  (* the two ghost flags the theorems exclude: fuel exhaustion, ownerless allocation *)
  if err (b_core s3) then Lst [Num (-99)] else
  if unowned (b_core s3) then Lst [Num (-98)] else
  Lst [o0; Lst t;
       Lst [Lst (new_entries (length (clog (b_core s1))) (b_core s3));
            Lst (map (status (b_core s3)) (handles s3));
            snat (arena_len (b_core s3));
            Lst (canon_keys [] (allkeys s3))]].
