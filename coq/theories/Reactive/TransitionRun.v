(** Executable entry point of the transition model (C10, case shape 6).
    case = (6 prog events [variant]); prog = items: (0 kind) create an async derived value (the kind
    — ArcAsyncDerived / AsyncDerived / ArcResource / Resource — is not modelled), (1 items) await
    a nested AsyncTransition::run; events: (4 f) complete future f, (5 t) poll task t (0 = the task
    awaiting the outermost run, k + 1 = node k), (6 picks) run until idle. variant 1 = the model
    with [restore = false] (corpus witness, model only).
    After each event: (nodes runs ready-tasks); node = (value loading), node k loads 100 + k;
    run = (0) or (1 snapshot): what the nodes created inside its action looked like when the code
    after run(..).await resumed. *)
From Coq Require Import List ZArith Bool Arith.
From LV Require Import Base.Sexp Reactive.RxUtil Reactive.Transition.
Import ListNotations.

Fixpoint dec_item (s : sexp) : item :=
  match s with
  | Lst (Num 1%Z :: Lst b :: _) =>
      Nest ((fix go (l : list sexp) : list item :=
               match l with [] => [] | x :: r => dec_item x :: go r end) b)
  | _ => New
  end.
Definition dec_prog (s : sexp) : list item := map dec_item (as_list s).

Definition dec_tevent (e : sexp) : option event :=
  match as_Z (nth_s 0 e) with
  | 4%Z => Some (Complete (as_nat (nth_s 1 e)))
  | 5%Z => Some (Poll (as_nat (nth_s 1 e)))
  | 6%Z => Some (RunAll (as_nats (nth_s 1 e)))
  | _ => None
  end.

Definition s_node (k : nat) (has : bool) : sexp :=
  Lst [if has then Lst [Num (Z.of_nat (100 + k))] else Lst []; sbool (negb has)].

Fixpoint s_nodes (k : nat) (l : list bool) : list sexp :=
  match l with [] => [] | b :: r => s_node k b :: s_nodes (S k) r end.

Definition tobs (s : tstate) : sexp :=
  Lst [Lst (s_nodes 0 (map n_value (nodes s)));
       Lst (map (fun o => match o with
                          | None => Lst [Num 0]
                          | Some (lo, l) => Lst [Num 1; Lst (s_nodes lo l)]
                          end) (snaps s));
       snats (ready s)].

Fixpoint ttrace (restore : bool) (s : tstate) (evs : list sexp) : list sexp * tstate :=
  match evs with
  | [] => ([], s)
  | e :: r =>
      let s' := match dec_tevent e with Some ev => step restore s ev | None => s end in
      let '(t, sf) := ttrace restore s' r in
      (tobs s' :: t, sf)
  end.

Definition run_transition (x : sexp) : sexp :=
  let restore := negb (Z.eqb (as_Z (nth_s 3 x)) 1) in
  let p := dec_prog (nth_s 1 x) in
  let s0 := start p in
  let '(t, s1) := ttrace restore s0 (as_list (nth_s 2 x)) in
  let s2 := settle restore (length (program p) + 2) s1 in
  Lst (tobs s0 :: t ++ [tobs s2]).
